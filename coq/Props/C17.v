(** C17 — Copyright documents and license texts survive dump and re-parse.
    Only statements; every proof is [exact <lemma>].

    Model: Copyright/Fields.v (codecs, RestrictedWrapper property machinery) and
    Copyright/Doc.v (Header, FilesParagraph, LicenseParagraph, Copyright.__init__/dump)
    over Deb822/Model.v — the functions [agree] of Copyright/DocCheck.v runs.
    Spec: Copyright/DocSpec.v — the domains [ml_dom], [text_dom], [lic_dom], [ss_dom],
    [lb_dom], [wf_copyright] and the expected values that [holds] uses.
    Proofs: Copyright/FieldsProofs.v, DocProofs.v, DocRoundtrip.v (composition with C02's
    theorems of Deb822/Proofs.v).

    All domain hypotheses are boolean.  "Line-boundary character" = any character
    str.splitlines() splits at (LF CR VT FF FS GS RS NEL LS PS, table Gen/PyChars.v). *)
From Coq Require Import String.
From Verif Require Import Lib.Base Lib.Dec Lib.PyStr Gen.PyChars Deb822.Spec
  Copyright.Fields Copyright.Doc Copyright.DocSpec Copyright.DocBridge
  Copyright.FieldsProofs Copyright.DocProofs Copyright.DocRoundtrip
  Copyright.DocCheck Copyright.DocCheckProofs.
From Verif Require Deb822.Model.

(** 1. multiline_codec_inverse.  For every line list in [ml_dom] — no line contains a
       line-boundary character; every line after the first is neither whitespace-only
       (and non-empty) nor a lone '.'; the list is not [""] —
       parse_multiline_as_lines (format_multiline_lines ls) = ls.
       Empty lines, indentation, trailing blanks, any other characters are carried. *)
Theorem C17_multiline_codec_inverse :
  forall ls, ml_dom ls = true -> parse_multiline_as_lines (format_multiline_lines ls) = Ok ls.
Proof. exact multiline_codec_inverse. Qed.

(** the one edge of the lines API: [""] encodes to the empty string, which has no line *)
Theorem C17_multiline_codec_edge :
  parse_multiline_as_lines (format_multiline_lines [[]]) = Ok [].
Proof. exact multiline_codec_edge. Qed.

(** the text API: parse_multiline (format_multiline t) = t for every text that does not end
    in LF and whose LF-separated lines are in [ml_dom]; None goes to None *)
Theorem C17_multiline_text_inverse :
  forall t, text_dom t = true -> parse_multiline (format_multiline (Some t)) = Ok (Some t).
Proof. exact multiline_text_inverse. Qed.

Theorem C17_multiline_none : parse_multiline (format_multiline None) = Ok None.
Proof. exact multiline_none. Qed.

(** 2. license_inverse.  For a synopsis without line-boundary characters and a text that
       does not end in LF and none of whose lines is whitespace-only-nonempty, a lone '.' or
       contains a line-boundary character: License(synopsis, text) is accepted and
       License.from_str(l.to_str()) = l.  (No exception for empty synopsis or empty text.) *)
Theorem C17_license_inverse :
  forall syn text, lic_dom syn text = true ->
    mk_license syn (Some text) = Ok (mkLic syn text)
    /\ lic_from_str (Some (lic_to_str (mkLic syn text))) = Ok (Some (mkLic syn text)).
Proof. exact license_inverse. Qed.

(** 3. space_separated_inverse.  For every list (possibly empty) of non-empty items free
       of whitespace: to_str succeeds and from_str gives the list back. *)
Theorem C17_space_separated_inverse :
  forall l, ss_dom l = true -> exists o, ss_to_str l = Ok o /\ ss_from_str o = l.
Proof. exact space_separated_inverse. Qed.

(** 4. line_based_inverse.  For every list (possibly empty) of non-empty one-line items
       without surrounding whitespace: to_str succeeds (one item on the field's line,
       several on continuation lines after an empty first line) and from_str gives the
       list back. *)
Theorem C17_line_based_inverse :
  forall l, lb_dom l = true -> exists o, lb_to_str l = Ok o /\ lb_from_str o = l.
Proof. exact line_based_inverse. Qed.

(** 5. copyright_roundtrip.  Take ANY sequence of header operations (assignments to the
       ten Header properties, None included where allowed, and header[key] = value for
       unreserved keys) and ANY sequence of FilesParagraph.create(files, copyright, license)
       / LicenseParagraph.create(license) (+ optional comment) added with
       add_files_paragraph / add_license_paragraph, all values in [wf_copyright].  Then
         - building succeeds, giving a document c1;
         - Copyright(c1.dump(), strict) — in strict and in lax mode, with the text passed as
           a str, as a list of lines with or without line ends, or as a file object — reads
           back exactly c1: the same header and the same sequence of paragraphs with the
           same fields (hence every property of every paragraph reads the same and the
           second dump is identical, theorem 6);
         - the paragraphs are the Files paragraphs in the order they were added followed by
           the License paragraphs in the order they were added, and their properties
           (files, copyright, license synopsis and text, comment) read as the values that
           were put in. *)
Theorem C17_copyright_roundtrip :
  forall hops ps form strict,
    wf_copyright hops ps = true ->
    exists c1,
      build_doc (map hop_of_shop hops) (map pspec_of_spara ps) = Ok c1
      /\ copyright_parse strict (input_of_text form (cdump c1)) = Ok c1
      /\ map para_view (cd_paras c1) = map expected_view (expected_order ps).
Proof. exact copyright_roundtrip. Qed.

(** 6. The same in the terms the correspondence check computes ([run_doc], which [agree]
       compares with the implementation): build, dump, re-read, read every property,
       dump again — same values [hv :: ...] before and after, identical text [t]. *)
Theorem C17_copyright_roundtrip_observed :
  forall hops ps form strict,
    wf_copyright hops ps = true ->
    exists t hv,
      run_doc (map hop_of_shop hops) (map pspec_of_spara ps) form strict
      = RDone t (hv :: map expected_view (expected_order ps))
                (hv :: map expected_view (expected_order ps)) t.
Proof. exact run_doc_identity. Qed.

(** 6b. Survival on the wider domain [wf_copyright_weak]: as [wf_copyright], except that
        the lines of a license text may be whitespace-only or a lone '.' (which the ' .'
        encoding cannot carry: they read back as empty lines).  The document is still built,
        its dump is still read back — strict or lax, every input form — as the very same
        header and paragraphs (so every property reads the same before and after and the
        second dump is identical), Files paragraphs first, License paragraphs after. *)
Theorem C17_copyright_survives :
  forall hops ps form strict,
    wf_copyright_weak hops ps = true ->
    exists c1,
      build_doc (map hop_of_shop hops) (map pspec_of_spara ps) = Ok c1
      /\ copyright_parse strict (input_of_text form (cdump c1)) = Ok c1
      /\ map is_files (cd_paras c1) = map is_pfiles (expected_order ps).
Proof. exact copyright_survives. Qed.

Theorem C17_copyright_survives_observed :
  forall hops ps form strict,
    wf_copyright_weak hops ps = true ->
    exists t v,
      run_doc (map hop_of_shop hops) (map pspec_of_spara ps) form strict = RDone t v v t
      /\ map pv_files (tl v) = map is_pfiles (expected_order ps).
Proof. exact run_doc_same. Qed.

Theorem C17_exact_domain_inside_wider :
  forall hops ps, wf_copyright hops ps = true -> wf_copyright_weak hops ps = true.
Proof. exact wf_copyright_weaken. Qed.

(** 7. The deb822 layer enters 5 and 6 through one fact only, proved from C02's theorems
       (Copyright/DocRoundtrip.v): paragraphs that are valid for C02, have trimmed first
       lines and are non-empty, dumped and separated by one empty line, are read back
       unchanged by Deb822.iter_paragraphs in each of the four input forms. *)
Theorem C17_reader_roundtrip :
  forall form ds,
    ds <> [] -> forallb good_para ds = true -> forallb nonempty_para ds = true ->
    Model.iter_paragraphs Model.CDeb822 true (input_of_text form (paras_text ds)) = Ok ds.
Proof. exact reader_ok. Qed.

(** ... and what every stored value looks like: the encoders produce values C02 calls
    valid, with a trimmed first line (the lemma "encoders produce valid_para values"). *)
Theorem C17_license_value_valid :
  forall syn text, license_ok_weak syn text = true ->
    valid_value (lic_to_str (mkLic syn (otext text))) = true
    /\ trimmed (lic_to_str (mkLic syn (otext text))) = true.
Proof. exact license_value. Qed.

Theorem C17_files_value_valid :
  forall fs, fs <> [] -> ss_dom fs = true ->
    valid_value (join [SP] fs) = true /\ trimmed (join [SP] fs) = true.
Proof. exact files_value. Qed.

Theorem C17_lines_value_valid :
  forall l o, lb_dom l = true -> lb_to_str l = Ok (Some o) -> valid_value o = true /\ trimmed o = true.
Proof. exact lines_value. Qed.

(** a valid deb822 value is never refused by Deb822.__setitem__ *)
Theorem C17_valid_value_accepted :
  forall v, valid_value v = true -> validate_input v = Ok tt.
Proof. exact validate_valid_value. Qed.

(** 8. The bridge to the correspondence check (Copyright/DocCheck.v), unconditional: for
       every case of every constructor — every line list / text / license / item list / history
       of header operations and paragraphs, in or outside the domains, every observed value
       or exception, either spelling of the re-read half of a document observation — an
       observation that agrees with the model ([agree]) passes the property's judgement
       ([holds]).  So a [holds] failure never occurs without an [agree] failure.
       For the cases that start from an arbitrary text (KSSFrom, KLBFrom), whose [holds] has
       no domain guard, the proof rests on two facts of their own: from_str only ever
       produces lists of the encoder's domain. *)
Theorem C17_agree_implies_holds :
  forall c, agree c = true -> holds c = true.
Proof. exact agree_implies_holds. Qed.

(** [holds] reads a written-out second half [Some (v2, d2)] as the abbreviated [None] exactly
    when it IS the first half (same values, same text) and rejects it otherwise: the judgement
    does not depend on how the harness spells a redundant value, and is no weaker for it. *)
Theorem C17_holds_spelling :
  forall hops specs form strict d1 v1 v2 d2,
    holds (KDoc hops specs form strict (ODone d1 v1 (Some (v2, d2))))
    = (if wf_copyright_weak (map shop_of hops) (map spara_of specs)
       then views_eqb (map pview_of v2) (map pview_of v1) && str_eqb (dec d2) (dec d1)
            && holds (KDoc hops specs form strict (ODone d1 v1 None))
       else true).
Proof. exact holds_spelling. Qed.

(** _SpaceSeparated.from_str / _LineBased.from_str of ANY text (or None) is a list the
    encoder accepts and carries: so decode -> encode -> decode is the identity everywhere. *)
Theorem C17_space_separated_range : forall s, ss_dom (ss_from_str s) = true.
Proof. exact ss_from_str_dom. Qed.

Theorem C17_line_based_range : forall s, lb_dom (lb_from_str s) = true.
Proof. exact lb_from_str_dom. Qed.

(** * Non-vacuity, and the behaviour outside the domains *)
Local Open Scope string_scope.

Example C17_codec_nonvacuous :
  let ls := [dec "GPL-2+"; dec ""; dec "  indented, trailing blanks  "; dec "\000009tab"; dec "";
             dec "\0000dcn\0000efc\0000f6d\0000e9 \0065e5\00672c\008a9e"; dec ".."; dec " . "] in
  ml_dom ls = true
  /\ format_multiline_lines ls
     = dec "GPL-2+\00000a .\00000a   indented, trailing blanks  \00000a \000009tab\00000a .\00000a \0000dcn\0000efc\0000f6d\0000e9 \0065e5\00672c\008a9e\00000a ..\00000a  . "
  /\ text_dom (dec "\00000afirst line empty\00000a\00000a  x") = true
  /\ lic_dom (dec "") (dec "\00000aa\00000a\00000ab") = true
  /\ lic_dom (dec "GPL-2+ or Artistic") (dec "") = true
  /\ ss_dom [dec "*"; dec "src/*.c"; dec "\0000e9/\0000fc?"] = true
  /\ lb_dom [dec "J\0000f6rg <j@x.org>"; dec "A  B"] = true
  (* outside the domains the codecs are lossy, as the property text says *)
  /\ parse_multiline_as_lines (format_multiline_lines [dec "a"; dec " "]) = Ok [dec "a"; dec ""]
  /\ parse_multiline_as_lines (format_multiline_lines [dec "a"; dec "."]) = Ok [dec "a"; dec ""]
  /\ parse_multiline_as_lines (format_multiline_lines [dec "a"; dec "x\00000cy"]) = Err FormatError
  /\ lb_from_str (Some (dec " a ")) = [dec "a"].
Proof. vm_compute. repeat split; reflexivity. Qed.

Definition ex_hops : list shop :=
  [SHSet 1 (SStr (dec "python-debian"));
   SHSet 2 (SList [dec "J\0000f6rg <j@x.org>"; dec "A B <a@b.c>"]);
   SHItem (dec "X-Note") (dec "first\00000a second\00000a \000009third");
   SHSet 6 (SLic (dec "GPL-2+") None);
   SHSet 1 SNone;
   SHSet 0 (SStr (dec "https://example.org/format"))].
Definition ex_paras : list spara :=
  [PLicense (SLic (dec "MIT") (Some (dec "Permission is hereby granted\00000a\00000a  indented\00000a..")))
            (SStr (dec "a comment"));
   PFiles (SList [dec "*"]) (SStr (dec "2014 Foo <foo@example.org>\00000a 2015 Bar\00000a\0000092016 Tab"))
          (SLic (dec "GPL-2+") (Some (dec ""))) SNone;
   PLicense (SLic (dec "") (Some (dec "\00000aonly text"))) SNone;
   PFiles (SList [dec "debian/*"; dec "src/\0000e9?.c"]) (SStr (dec ""))
          (SLic (dec "MIT") None) (SStr (dec "c\00000a ."))].

Example C17_document_nonvacuous :
  wf_copyright ex_hops ex_paras = true
  /\ List.length (expected_order ex_paras) = 4%nat
  /\ map is_pfiles (expected_order ex_paras) = [true; true; false; false]
  /\ forallb (fun form =>
       match run_doc (map hop_of_shop ex_hops) (map pspec_of_spara ex_paras) form true with
       | RDone t v1 v2 t2 =>
           str_eqb t t2 && (List.length v1 =? 5)%nat
           && str_eqb t (dec "Format: https://example.org/format\00000aUpstream-Contact:\00000a J\0000f6rg <j@x.org>\00000a A B <a@b.c>\00000aX-Note: first\00000a second\00000a \000009third\00000aLicense: GPL-2+\00000a\00000aFiles: *\00000aCopyright: 2014 Foo <foo@example.org>\00000a 2015 Bar\00000a\0000092016 Tab\00000aLicense: GPL-2+\00000a\00000aFiles: debian/* src/\0000e9?.c\00000aCopyright:\00000aLicense: MIT\00000aComment: c\00000a .\00000a\00000aLicense: MIT\00000a Permission is hereby granted\00000a .\00000a   indented\00000a ..\00000aComment: a comment\00000a\00000aLicense:\00000a .\00000a only text\00000a")
       | _ => false
       end) [0; 2; 3; 4]%N = true
  (* in the wider domain only: a whitespace-only and a lone-'.' license line read back empty,
     the document survives *)
  /\ (let ps := [PLicense (SLic (dec "G") (Some (dec "a\00000a  \00000a.\00000ab"))) SNone] in
      wf_copyright [] ps = false /\ wf_copyright_weak [] ps = true
      /\ match run_doc [] (map pspec_of_spara ps) 0 true with
         | RDone t v1 v2 t2 =>
             str_eqb t t2
             && match v1 with
                | [_; mkView false [Ok (VLic l); _]] => str_eqb (lic_text l) (dec "a\00000a\00000a\00000ab")
                | _ => false
                end
         | _ => false
         end = true)
  (* outside the domain: a Format URL that Header() repairs changes the second dump *)
  /\ match run_doc [HSet 0 (BStr (dec "http://www.debian.org/doc/packaging-manuals/copyright-format/1.0"))] [] 0 true with
     | RDone t _ _ t2 => negb (str_eqb t t2)
     | _ => false
     end = true.
Proof. vm_compute. repeat split; reflexivity. Qed.

(** 8 on a document case inside the domain (one Files and one License paragraph, re-read from
    a file object, strict), in both spellings of the re-read half; a written-out second half
    that differs (here: another dump text) is rejected by [holds] — and by [agree] *)
Example C17_bridge_nonvacuous :
  let hops := [IHSet 1 (IStr "pkg")] in
  let specs := [ILicense (ILic "MIT" (Some "Permission\00000a\00000a  x")) INone;
                IFiles (IList ["*"; "src/*.c"]) (IStr "2014 Foo") (ILic "GPL-2+" None) INone] in
  let hv := mkOV false [OStr "https://www.debian.org/doc/packaging-manuals/copyright-format/1.0/";
                        OStr "pkg"; OList []; ONone; ONone; ONone; ONone; ONone; OList []; OList []] in
  let v := [hv;
            mkOV true [OList ["*"; "src/*.c"]; OStr "2014 Foo"; OLic "GPL-2+" ""; ONone];
            mkOV false [OLic "MIT" "Permission\00000a\00000a  x"; ONone]] in
  let d := "Format: https://www.debian.org/doc/packaging-manuals/copyright-format/1.0/\00000aUpstream-Name: pkg\00000a\00000aFiles: * src/*.c\00000aCopyright: 2014 Foo\00000aLicense: GPL-2+\00000a\00000aLicense: MIT\00000a Permission\00000a .\00000a   x\00000a" in
  let c again := KDoc hops specs 4 true (ODone d v again) in
  wf_copyright (map shop_of hops) (map spara_of specs) = true
  /\ agree (c None) = true /\ holds (c None) = true
  /\ agree (c (Some (v, d))) = true /\ holds (c (Some (v, d))) = true
  /\ agree (c (Some (v, "x"))) = false /\ holds (c (Some (v, "x"))) = false
  /\ agree (c (Some ([hv], d))) = false /\ holds (c (Some ([hv], d))) = false
  /\ (let k := KSSFrom (Some " a \000009b\00000ac ") ["a"; "b"; "c"] (Ok (Some "a b c")) ["a"; "b"; "c"] in
      agree k = true /\ holds k = true).
Proof. vm_compute. repeat split; reflexivity. Qed.

Print Assumptions C17_multiline_codec_inverse.
Print Assumptions C17_multiline_codec_edge.
Print Assumptions C17_multiline_text_inverse.
Print Assumptions C17_multiline_none.
Print Assumptions C17_license_inverse.
Print Assumptions C17_space_separated_inverse.
Print Assumptions C17_line_based_inverse.
Print Assumptions C17_copyright_roundtrip.
Print Assumptions C17_copyright_roundtrip_observed.
Print Assumptions C17_copyright_survives.
Print Assumptions C17_copyright_survives_observed.
Print Assumptions C17_exact_domain_inside_wider.
Print Assumptions C17_reader_roundtrip.
Print Assumptions C17_license_value_valid.
Print Assumptions C17_files_value_valid.
Print Assumptions C17_lines_value_valid.
Print Assumptions C17_valid_value_accepted.
Print Assumptions C17_agree_implies_holds.
Print Assumptions C17_holds_spelling.
Print Assumptions C17_space_separated_range.
Print Assumptions C17_line_based_range.
