(** C02 — tie by regeneration (it also underlies C08).  Only statements; every proof is
    [exact <lemma>] (lemmas in Deb822/Tie.v).

    Gen/TrDeb822.v is REGENERATED from lib/debian/deb822.py by harness/py2coq.py on every run:
    [tr_skip_useless_lines], [tr_split_gpg_and_payload] (on a list) and
    [tr_split_gpg_and_payload_it] (on an iterator), [tr_gpg_stripped_paragraph],
    [tr_wanted_field], [tr_validate_input], [tr_setitem], [tr_internal_parser],
    [tr_get_as_string], [tr_dump_format], [tr_dump_str] are the Python bodies of
    Deb822._skip_useless_lines, split_gpg_and_payload, gpg_stripped_paragraph,
    _internal_parser (and its nested helper wanted_field), validate_input, __setitem__,
    get_as_string, _dump_format, _dump_str as the working tree has them now.

    What is in place as in the source: the generator's two skip tests and its [at_beginning]
    flag; the state machine of split_gpg_and_payload (the [if not strict: strict = {}] prelude,
    the choice of the blank-line pattern by [strict.get(..., True)], [first_line], the three
    states, [break], the three lists, the final [raise EOFError]); the three-pattern cascade of
    _internal_parser with [continue], [if curkey: self[curkey] = content] before every new field
    and after the loop, [content += '\n' + line]; [self[curkey] = content] runs the translated
    __setitem__ on the current mapping, i.e. the translated validate_input (endswith('\n'), the
    loop over [value.splitlines()[1:]] with its two [raise ValueError]) and then the store; the
    loop of _dump_format with its
    [not value or value[0] == '\n'] test and the two %-formats; ["".join].

    str / bytes: lines are code-point lists in both flavours (the model's abstraction of the
    codec, Deb822/Model.v header); ONE translation with a leading parameter [is_bytes] = "the
    elements of [sequence] are bytes objects", read by [isinstance]; the theorems hold for both
    values.  [.encode()] / [decoder.decode()] are the identity on code points.

    [strict] is an [option] of an association list ([trp_strict]); [ws_of strict] (Deb822/Tie.v)
    is what the prelude computes from it: the entry 'whitespace-separates-paragraphs' if the
    dict has one, else True — the boolean [ws] of the model and of Props/C02.v.

    The model fuses the generator into the split loop and reads the shared iterator only as far
    as the split gets ([consume true], which also returns the rest of the iterator).  The code
    composes a lazy generator with a loop that breaks; the translation applies the generator to
    the whole sequence first.  Theorems 1 and 2 say that this is the same: [skip_useless]
    (Deb822/Tie.v) is the generator as a function on line lists, and [consume true] is
    [consume false] on the filtered list — same state, and the rest of the model's iterator,
    filtered, is the rest of the filtered list.  For split_gpg_and_payload on its own the
    iterator is threaded through the translation (METHOD MODE with the iterator argument in the
    place of the object), so theorem 4 is about the pair the model returns.  For
    _internal_parser the position in which the caller's iterator is left is NOT expressed by the
    translated function (theorems 6-8 are about the first component of [deb822_init]); the
    paragraph loop of iter_paragraphs and Deb822.__init__ (try/except EOFError) are not
    translated: [catch_eof] (Deb822/Tie.v) is that except clause, written by hand.

    _internal_parser is translated for a line sequence (list / file / iterator): the test
    [isinstance(sequence, (str, bytes))] is the primitive [trp_seq_is_text] = false; for a
    str/bytes argument the code takes [sequence.splitlines()] first, which is how
    [Model.deb822_new] is defined ([lines_of]); theorem 8 is stated through it.  [fields] is a
    parameter of the translation; the theorems instantiate it with None (the model's scope),
    where the translated nested helper [wanted_field] is constantly true (theorem 5).

    Still hand-modelled (Deb822/TrPrims.v): the regex leaves _gpgre, _initial_blank_line,
    _blank_line_*, _single, _multi, _multidata (each defined through the model's leaf; pattern
    texts asserted by the translator); Deb822Dict.__setitem__ = the model's [dict_set],
    [self[key]], [for key in self] = the model's association list; startswith / endswith /
    strip / rstrip / splitlines / join (Lib/PyStr.v), [isspace] (Gen/PyChars.v); isinstance;
    the codec. *)
From Coq Require Import String.
From Verif Require Import Lib.Base Lib.Dec Lib.PyStr Lib.Tr Gen.PyChars
  Deb822.Model Deb822.Spec Deb822.TrPrims Gen.TrDeb822 Deb822.Tie.

(** 1. The generator _skip_useless_lines, as a function on the whole line list; never raises. *)
Theorem C02_tie_skip_useless_lines :
  forall is_bytes sequence,
    tr_skip_useless_lines is_bytes sequence = Ok (skip_useless true sequence).
Proof. exact tr_skip_useless_lines_eq. Qed.
Print Assumptions C02_tie_skip_useless_lines.

(** 2. ... and the model's fused, lazy reading ([consume true]) is the split loop on that list. *)
Theorem C02_tie_skip_feeds_split :
  forall ws ls at_beg g,
    consume false ws at_beg g (skip_useless at_beg ls)
    = let (g', rest) := consume true ws at_beg g ls in (g', skip_useless false rest).
Proof. exact consume_skip. Qed.
Print Assumptions C02_tie_skip_feeds_split.

(** 3. split_gpg_and_payload on a list of lines: the model's result triple, or EOFError. *)
Theorem C02_tie_split_gpg_and_payload :
  forall is_bytes sequence strict,
    tr_split_gpg_and_payload is_bytes sequence strict
    = fst (split_gpg_and_payload (ws_of strict) sequence).
Proof. exact tr_split_gpg_and_payload_eq. Qed.
Print Assumptions C02_tie_split_gpg_and_payload.

(** 4. split_gpg_and_payload on an iterator: the model's pair — result (or EOFError) AND what is
       left of the iterator; the fuel of the loop is never exhausted. *)
Theorem C02_tie_split_gpg_and_payload_iterator :
  forall is_bytes sequence strict,
    tr_split_gpg_and_payload_it is_bytes sequence strict
    = let (r, rest) := split_gpg_and_payload (ws_of strict) sequence in mres_of r rest.
Proof. exact tr_split_gpg_and_payload_it_eq. Qed.
Print Assumptions C02_tie_split_gpg_and_payload_iterator.

(** gpg_stripped_paragraph: the payload of that triple. *)
Theorem C02_tie_gpg_stripped_paragraph :
  forall is_bytes sequence strict,
    tr_gpg_stripped_paragraph is_bytes sequence strict
    = match fst (split_gpg_and_payload (ws_of strict) sequence) with
      | Ok (_, lines, _) => Ok lines
      | Err e => Err e
      end.
Proof. exact tr_gpg_stripped_paragraph_eq. Qed.
Print Assumptions C02_tie_gpg_stripped_paragraph.

(** 5. The nested helper wanted_field with fields=None. *)
Theorem C02_tie_wanted_field :
  forall f, tr_wanted_field None f = Ok true.
Proof. exact tr_wanted_field_none. Qed.
Print Assumptions C02_tie_wanted_field.

(** validate_input and Deb822.__setitem__ (C08's subject): the model's [validate_input] /
    [setitem]; a rejected value leaves the mapping as it was. *)
Theorem C02_tie_validate_input :
  forall is_bytes d key value,
    tr_validate_input is_bytes d key value = mres_of (validate_input value) d.
Proof. exact tr_validate_input_eq. Qed.
Print Assumptions C02_tie_validate_input.

Theorem C02_tie_setitem :
  forall is_bytes d key value,
    tr_setitem is_bytes d key value
    = match setitem d key value with Ok d' => MOk tt d' | Err e => MErr e d end.
Proof. exact tr_setitem_eq. Qed.
Print Assumptions C02_tie_setitem.

(** 6. _internal_parser on any mapping [d] and any line sequence: EOFError when the first block
       has no payload line, else the model's field loop on the payload (same mapping, or
       ValueError from a store; no AttributeError/IndexError from the primitives). *)
Theorem C02_tie_internal_parser :
  forall is_bytes d sequence strict,
    mres_result (tr_internal_parser is_bytes d sequence None strict)
    = let (g, _) := consume true (ws_of strict) true gpg_init sequence in
      match g_lines g with
      | [] => Err OtherError
      | lines => fields_loop d None [] lines
      end.
Proof. exact tr_internal_parser_result. Qed.
Print Assumptions C02_tie_internal_parser.

(** ... with the mapping that the object holds when the method raises ([parse_st], Deb822/Tie.v:
    the mapping reached before the failing store — validation precedes mutation). *)
Theorem C02_tie_internal_parser_state :
  forall is_bytes d sequence strict,
    tr_internal_parser is_bytes d sequence None strict
    = internal_parser_direct (ws_of strict) d sequence.
Proof. exact tr_internal_parser_eq. Qed.
Print Assumptions C02_tie_internal_parser_state.

(** 7. On a fresh object and with the except clause of Deb822.__init__: the model's
       constructor [deb822_init] (first component), the function of Props/C02.v. *)
Theorem C02_tie_constructor :
  forall is_bytes sequence strict,
    catch_eof (tr_internal_parser is_bytes [] sequence None strict)
    = fst (deb822_init (ws_of strict) sequence).
Proof. exact tr_internal_parser_init. Qed.
Print Assumptions C02_tie_constructor.

(** 8. ... i.e. [deb822_new CDeb822] on the lines of any input form. *)
Theorem C02_tie_deb822_new :
  forall is_bytes i strict,
    catch_eof (tr_internal_parser is_bytes [] (lines_of i) None strict)
    = deb822_new CDeb822 (ws_of strict) i.
Proof. intros b i strict. exact (tr_internal_parser_init b (lines_of i) strict). Qed.
Print Assumptions C02_tie_deb822_new.

(** 9. get_as_string: the lookup in the association list (KeyError when absent). *)
Theorem C02_tie_get_as_string :
  forall d key, tr_get_as_string d key = trp_getitem d key.
Proof. exact tr_get_as_string_eq. Qed.
Print Assumptions C02_tie_get_as_string.

(** 10. _dump_format / _dump_str (= dump() with fd=None) never raise and give the model's
        entries / text.  Guard: the mapping's names are pairwise distinct ignoring case
        ([Spec.distinct_keys], a conjunct of [valid_para]) — the invariant of Deb822Dict, which
        assignment keeps (11) and the reader establishes (12). *)
Theorem C02_tie_dump_format :
  forall d, distinct_keys (keys d) = true -> tr_dump_format d = Ok (map dump_entry d).
Proof. exact tr_dump_format_eq. Qed.
Print Assumptions C02_tie_dump_format.

Theorem C02_tie_dump_str :
  forall d, distinct_keys (keys d) = true -> tr_dump_str d = Ok (dump d).
Proof. exact tr_dump_str_eq. Qed.
Print Assumptions C02_tie_dump_str.

(** 11. The guard is kept by [self[key] = value]. *)
Theorem C02_tie_setitem_keeps_distinct :
  forall d k v d', distinct_keys (keys d) = true -> setitem d k v = Ok d' ->
    distinct_keys (keys d') = true.
Proof. exact setitem_distinct. Qed.
Print Assumptions C02_tie_setitem_keeps_distinct.

(** 12. Reader and writer composed: whatever the regenerated constructor read, the regenerated
        writer writes as the model's [dump]. *)
Theorem C02_tie_read_then_dump :
  forall is_bytes sequence strict d,
    catch_eof (tr_internal_parser is_bytes [] sequence None strict) = Ok d ->
    tr_dump_str d = Ok (dump d).
Proof. exact tr_read_then_dump. Qed.
Print Assumptions C02_tie_read_then_dump.

(** non-vacuity: the regenerated code really runs — comment lines and leading blank lines
    skipped, a clearsigned paragraph, the second paragraph left in the iterator, EOFError on
    blank input, the strictness read from the dict, ValueError from a store with the mapping
    reached, dump of what was read *)
Example C02_tie_runs :
  let doc := [dec "# c"; dec ""; dec "-----BEGIN PGP SIGNED MESSAGE-----"; dec "Hash: SHA256"; dec "";
              dec "Package: foo  "; dec "#K: v"; dec "Description:"; dec " long"; dec " .";
              dec "-----BEGIN PGP SIGNATURE-----"; dec "iQE="; dec "-----END PGP SIGNATURE-----";
              dec "Next: 1"] in
  let ws_false : trp_strict := Some [(ws_key, false)] in
  tr_skip_useless_lines true [dec "#a"; dec "\00000d\00000a"; dec "x"; dec ""; dec "#b"; dec "y"]
  = Ok [dec "x"; dec ""; dec "y"]
  /\ tr_split_gpg_and_payload_it false [dec ""; dec "A: b"; dec " "; dec "C: d"] None
     = MOk ([], [dec "A: b"], []) [dec "C: d"]
  /\ tr_split_gpg_and_payload_it false [dec ""; dec "A: b"; dec " "; dec "C: d"] ws_false
     = MOk ([], [dec "A: b"; dec " "; dec "C: d"], []) []
  /\ tr_split_gpg_and_payload_it true [dec " "; dec "-----END PGP X-----"; dec "A: b"] (Some [])
     = MErr OtherError [dec "A: b"]
  /\ ws_of None = true /\ ws_of (Some []) = true /\ ws_of ws_false = false
  /\ tr_internal_parser false [] doc None None
     = MOk tt [(dec "Package", dec "foo"); (dec "Description", dec "\00000a long\00000a .")]
  /\ catch_eof (tr_internal_parser true [] [dec ""; dec "#x"] None None) = Ok []
  /\ tr_internal_parser true [] [dec "A: b"; dec "C:"; dec " x"; dec "\00000cy"; dec "D: e"] None None
     = MErr ValueError [(dec "A", dec "b")]
  /\ tr_setitem true [(dec "a", dec "1")] (dec "A") (dec "x\00000a y") = MOk tt [(dec "a", dec "x\00000a y")]
  /\ tr_setitem true [(dec "a", dec "1")] (dec "B") (dec "x\00000ay") = MErr ValueError [(dec "a", dec "1")]
  /\ tr_dump_str [(dec "Package", dec "foo"); (dec "Description", dec "\00000a long\00000a ."); (dec "E", dec "")]
     = Ok (dec "Package: foo\00000aDescription:\00000a long\00000a .\00000aE:\00000a").
Proof. vm_compute. repeat split. Qed.
