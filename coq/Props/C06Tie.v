(** C06 — tie by regeneration.  Only statements; every proof is [exact <lemma>] (lemmas in Ar/Tie.v).

    Gen/TrArMember.v is REGENERATED from lib/debian/arfile.py by harness/py2coq.py on every run:
    [tr_read], [tr_read_noarg], [tr_readline], [tr_readlines], [tr_seek], [tr_tell] are the bodies of
    ArMember.read / readline / readlines / seek / tell as the working tree has them now (METHOD MODE: the
    private attributes [__fp], [__fname], [__offset], [__end], [__cur] are threaded as state and returned
    on normal return and on an exception alike; readlines' [while True] is a Fixpoint on explicit fuel whose
    body calls the translated [tr_readline] on the current state, with the default argument that the source
    of readline has now).  The theorems say that, for ALL attribute values, sizes, offsets, archive bytes [d],
    handle positions and both kinds of file object, each regenerated method yields the same result (bytes /
    lines / None / int / exception kind), the same [__offset]/[__end]/[__cur] and the same handle position
    as [member_op] of Ar/Model.v — the function that [Ar.Check.agree] runs (through [ar_step]) and that the
    theorems of Props/C06.v are about — and leaves [__fname] unchanged.  [mview inj r] reads a translated
    result [r] in the model's shape; it is injective ([C06_tie_view_faithful]), so each equation determines
    the translated result completely.

    Guard [has_source fp fname] (read, readline, readlines): [__fp] and [__fname] are not both None.  The
    code raises ValueError there; the model has no [__fname] (its [fh = None] means "opened by name on first
    use, at position 0") and so no such branch.  ArMember.from_file establishes the guard and every call
    keeps it ([C06_tie_guard_invariant]).  seek and tell need no guard.

    Still hand-modelled inside them (Ar/TrPrims.v, each DEFINED as the model's own file function):
    seek/read/readline/tell of the underlying file object ([f_seek_abs], [f_read], [f_readline]; a handle is
    its position) and [open(fname, "rb")] (a handle at position 0 over the same bytes; that the named file
    exists and still holds the archive is not modelled).  Not regenerated: ArMember.from_file,
    ArFile.__collect_members, close, next, __iter__. *)
From Verif Require Import Lib.Base Lib.Tr Ar.Ops Ar.Model Ar.TrPrims Gen.TrArMember Ar.Tie.

Local Open Scope Z_scope.

Theorem C06_tie_read :
  forall k d fp fname off en cur size,
    has_source fp fname = true ->
    mview OBytes (tr_read k d fp fname off en cur size)
    = (member_op k d fp (mkSt off en cur) (Read (Some size)), fname).
Proof. exact tr_read_eq. Qed.
Print Assumptions C06_tie_read.

(** read() without argument: the default of [size] is the one in the source *)
Theorem C06_tie_read_noarg :
  forall k d fp fname off en cur,
    has_source fp fname = true ->
    mview OBytes (tr_read_noarg k d fp fname off en cur)
    = (member_op k d fp (mkSt off en cur) (Read None), fname).
Proof. exact tr_read_noarg_eq. Qed.
Print Assumptions C06_tie_read_noarg.

Theorem C06_tie_readline :
  forall k d fp fname off en cur size,
    has_source fp fname = true ->
    mview OBytes (tr_readline k d fp fname off en cur size)
    = (member_op k d fp (mkSt off en cur) (Readline size), fname).
Proof. exact tr_readline_eq. Qed.
Print Assumptions C06_tie_readline.

Theorem C06_tie_readlines :
  forall k d fp fname off en cur sizehint,
    has_source fp fname = true ->
    mview OLines (tr_readlines k d fp fname off en cur sizehint)
    = (member_op k d fp (mkSt off en cur) Readlines, fname).
Proof. exact tr_readlines_eq. Qed.
Print Assumptions C06_tie_readlines.

(** ... and the loop's fuel [S (length d)] is never exhausted, in ANY state: with the equation above,
    the regenerated readlines never reports OutOfFuel either *)
Theorem C06_tie_readlines_fuel :
  forall k d fh st, snd (member_op k d fh st Readlines) <> OErr OutOfFuel.
Proof. exact member_readlines_fuel. Qed.
Print Assumptions C06_tie_readlines_fuel.

Theorem C06_tie_seek :
  forall k d fp fname off en cur offset whence,
    mview (fun _ => ONone) (tr_seek k d fp fname off en cur offset whence)
    = (member_op k d fp (mkSt off en cur) (Seek offset whence), fname).
Proof. exact tr_seek_eq. Qed.
Print Assumptions C06_tie_seek.

Theorem C06_tie_tell :
  forall k d fp fname off en cur,
    mview OInt (tr_tell k d fp fname off en cur)
    = (member_op k d fp (mkSt off en cur) Tell, fname).
Proof. exact tr_tell_eq. Qed.
Print Assumptions C06_tie_tell.

(** the guard is kept by every call of the alphabet ([__fname] is the unchanged fourth component above) *)
Theorem C06_tie_guard_invariant :
  forall k d fp fname st o,
    has_source fp fname = true -> has_source (snd (fst (member_op k d fp st o))) fname = true.
Proof. exact has_source_step. Qed.
Print Assumptions C06_tie_guard_invariant.

(** the view loses nothing *)
Theorem C06_tie_view_faithful :
  forall (A : Type) (inj : A -> out) (r1 r2 : mres A stT),
    (forall a b, inj a = inj b -> a = b) -> (forall a e, inj a <> OErr e) ->
    mview inj r1 = mview inj r2 -> r1 = r2.
Proof. exact @mview_inj. Qed.
Print Assumptions C06_tie_view_faithful.

(** non-vacuity: the regenerated code really runs.  d = "0123456789ab\ncd\nef"; a member over [10, 17)
    = "ab\ncd\ne", opened by name (no handle yet), [cur] = 10. *)
Definition ex_d : str := [48; 49; 50; 51; 52; 53; 54; 55; 56; 57; 97; 98; 10; 99; 100; 10; 101; 102]%N.
Example C06_tie_runs :
  tr_readlines KRealFile ex_d None (Some [120%N]) 10 17 10 0
  = MOk [[97; 98; 10]; [99; 100; 10]; [101]]%N (Some 17, Some [120%N], 10, 17, 17)
  /\ tr_read KBytesIO ex_d (Some 3) None 10 17 11 4
     = MOk [98; 10; 99; 100]%N (Some 15, None, 10, 17, 15)
  /\ tr_readline KBytesIO ex_d (Some 0) None 10 17 (-1) None
     = MErr ValueError (Some 0, None, 10, 17, -1)
  /\ tr_read KBytesIO ex_d None None 10 17 10 1 = MErr ValueError (None, None, 10, 17, 10)
  /\ tr_seek KBytesIO ex_d None None 10 17 12 (-3) 1 = MErr IOError (None, None, 10, 17, 12)
  /\ tr_seek KBytesIO ex_d None None 10 17 12 (-2) 2 = MOk tt (None, None, 10, 17, 15)
  /\ tr_tell KBytesIO ex_d None None 10 17 15 = MOk 5 (None, None, 10, 17, 15).
Proof. vm_compute. repeat split. Qed.
