(** C06 — placeholder while the proofs are being built. *)
From Verif Require Import Lib.Base Ar.Ops Ar.BytesIO Ar.ArSpec Ar.Model.
