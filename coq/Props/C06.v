(** C06 — ar members are exact, isolated, file-like views of the archive.
    Only statements; every proof is [exact <lemma>] (lemmas in Ar/Proofs.v).

    Model: Ar/Model.v ([open_archive], [collect_members], [getmember], [member_op],
    [ar_step], [ar_run] — the functions [Ar.Check.agree] runs).
    Spec:  Ar/ArSpec.v ([build], [wf_wmem], [listed_ok], [lookup_ok]) and Ar/BytesIO.v
    ([bio_op], [op_in_dom], [steps_ok]) — the functions [Ar.Check.holds] uses. *)
From Coq Require Import String.
From Verif Require Import Lib.Base Lib.Dec Lib.PyStr Ar.Ops Ar.BytesIO Ar.ArSpec Ar.Model Ar.Proofs
  Ar.Check Ar.CheckProofs.

Local Open Scope Z_scope.

(** 1. members_listed.  For every list [ws] of members with short names (no '/',
       no blank at either edge, decimal fields that fit their columns; arbitrary
       data) and every open mode, the archive [build ws] opens, the listing is
       exactly [ws] in order with the recorded name, size, owner, group and mtime,
       and [getmember n] is the index of the LAST member called [n] (KeyError when
       there is none).  No bound on the number of members or on their size. *)
Theorem C06_members_listed :
  forall mode ws,
    forallb wf_wmem ws = true ->
    exists ms a,
      open_archive mode (build ws) = Ok (ms, a)
      /\ list_forall2b
           (fun w m => listed_ok w (m_name m) (m_size m) (m_owner m) (m_group m) (m_mtime m))
           ws ms = true
      /\ (forall n, lookup_ok ws n (getmember ms n) = true).
Proof. exact members_listed_build. Qed.

(** ... and the header walk itself, with the data offset of every member *)
Theorem C06_collect_members_exact :
  forall k ws,
    forallb wf_wmem ws = true ->
    collect_members k (build ws) = Ok (listed 8 ws, lenz (build ws)).
Proof. exact collect_members_build. Qed.

Theorem C06_getmember_is_last :
  forall ws pos n,
    getmember (listed pos ws) n
    = match last_index n ws with Some j => Ok j | None => Err KeyError end.
Proof. exact getmember_last. Qed.

(** 2. member_refines_bytesio.
    (a) One call.  [rel pre data st b]: the member's data sits in the archive
        between [pre] and [post], its state [st] has [cur - offset = pos] of the
        reference file [b] over [data].  Every call of the property's alphabet
        (non-negative seek target, no read(0)) returns what the reference file
        returns, leaves the two related again and leaves tell() equal — for EVERY
        position [fh] of the underlying file handle (another member may have moved
        it: every call re-seeks), in both kinds of underlying file. *)
Theorem C06_member_step_refines :
  forall k pre data post fh st b o,
    rel pre data st b = true -> op_in_dom b o = true ->
    let res := member_op k (pre ++ data ++ post) fh st o in
    snd res = as_member_out o (snd (bio_op b o))
    /\ rel pre data (fst (fst res)) (fst (bio_op b o)) = true
    /\ m_tell (fst (fst res)) = b_pos (fst (bio_op b o)).
Proof. exact member_step_refines. Qed.

(** (b) Whole runs.  For every well-formed archive, every open mode (shared
        BytesIO, by file name, shared real file) and EVERY sequence of calls
        interleaved across the members in any way, the results and the tell()
        after every call that [ar_run] produces pass [steps_ok] — the judgement
        [Ar.Check.holds] applies to the implementation: equal to one in-memory file
        per member, each over exactly that member's data.  (A call outside the
        alphabet makes [steps_ok] stop judging that member only; the other members
        stay judged, so the theorem needs no hypothesis on the calls.) *)
Theorem C06_member_refines_bytesio :
  forall mode ws ops,
    forallb wf_wmem ws = true ->
    forallb (idx_ok (length ws)) ops = true ->
    exists ms a,
      open_archive mode (build ws) = Ok (ms, a)
      /\ steps_ok (map (fun w => Some (bio_open (w_data w))) ws) ops
                  (map obs2 (ar_run a ops)) = true.
Proof. exact run_refines_bytesio. Qed.

(** 3. no_foreign_byte.  Nothing is assumed about the archive bytes [d]: in any
       archive the reader opens (well-formed or not), after any history [ops] of
       calls whose seek targets are non-negative ([run_dom]), interleaved across
       members in any way, whatever call [o] comes next on member [i] returns
       exactly the bytes of [d] at that member's current position, and unless it
       returns nothing they lie inside [offset_i, offset_i + size_i).
       ([ar_run_snoc]: that call's observation is the next element of [ar_run].) *)
Theorem C06_no_foreign_byte :
  forall mode d ms a0 ops i o m,
    open_archive mode d = Ok (ms, a0) ->
    run_dom a0 ops = true ->
    nth_error ms i = Some m ->
    let a := run_state a0 ops in
    within d (m_offset m) (m_offset m + m_size m) (cur_of a i)
           (out_bytes (fst (fst (snd (ar_step a (i, o)))))) = true.
Proof. exact no_foreign_byte_run. Qed.

Theorem C06_run_state_is_ar_run :
  forall ops a io,
    ar_run a (ops ++ [io]) = ar_run a ops ++ [snd (ar_step (run_state a ops) io)].
Proof. exact ar_run_snoc. Qed.

(** the same for one call, any file-handle position *)
Theorem C06_no_foreign_byte_step :
  forall k d fh st o,
    (0 <=? st_off st) && (st_off st <=? st_cur st) = true ->
    within d (st_off st) (st_end st) (st_cur st) (out_bytes (snd (member_op k d fh st o))) = true.
Proof. exact no_foreign_byte_step. Qed.

(** 4. The bridge to the correspondence check.  On every well-formed case
       ([judged_case]: the flag the harness sets, [wf_wmem] for every member it
       wrote, member indices in range) an observation that agrees with the model
       ([Ar.Check.agree], which includes: the archive bytes the harness wrote are
       [build] of those members) passes the property's judgement
       ([Ar.Check.holds]).  The theorems above are therefore about exactly the
       functions the check evaluates on the implementation's behaviour. *)
Theorem C06_agree_implies_holds :
  forall c, judged_case c = true -> agree c = true -> holds c = true.
Proof. exact agree_implies_holds. Qed.

(** Non-vacuity: three members (odd size without final LF, duplicate name, empty),
    calls interleaved across them including the D7 shapes (readline on an
    unterminated last line, readlines, readline after seeking past the end). *)
Definition ex_ws : list wmem :=
  [mkW [97] true 1700000000 1000 1000 (repeat 32 8) [97; 98; 99];          (* "a/"  b"abc"      *)
   mkW [98; 32; 99] false 0 0 0 [49; 48; 48; 54; 52; 52] [120; 10; 121];   (* "b c" b"x\ny"     *)
   mkW [97] true 5 6 7 [] []]%N.                                            (* "a/"  b""         *)

Definition ex_ops : list (nat * op) :=
  [(0, Readline None); (1, Read (Some 1%Z)); (0, Tell); (1, Readlines); (0, Seek 5%Z 0%Z);
   (0, Readline None); (2, Read None); (1, Seek (-2)%Z 2%Z); (1, Read (Some (-1)%Z));
   (0, Seek 0%Z 0%Z); (0, Readlines)]%nat.

Example C06_nonvacuous :
  forallb wf_wmem ex_ws = true
  /\ forallb (idx_ok (length ex_ws)) ex_ops = true
  /\ (exists ms a, open_archive 0 (build ex_ws) = Ok (ms, a)
        /\ map m_name ms = [[97]; [98; 32; 99]; [97]]%N
        /\ map m_size ms = [3; 3; 0]
        /\ getmember ms [97%N] = Ok 2%nat
        /\ run_dom a ex_ops = true
        /\ map (fun s => fst (fst s)) (ar_run a ex_ops)
           = [OBytes [97; 98; 99]; OBytes [120]; OInt 3; OLines [[10]; [121]]; ONone;
              OBytes []; OBytes []; ONone; OBytes [10; 121]; ONone; OLines [[97; 98; 99]]]%N)
  /\ rel (firstn 68 (build ex_ws)) [97; 98; 99]%N (mkSt 68 71 68) (bio_open [97; 98; 99]%N) = true.
Proof.
  split; [reflexivity|]. split; [reflexivity|]. split; [|reflexivity].
  eexists _, _. split; [vm_compute; reflexivity|]. vm_compute. repeat split.
Qed.

(** ... and a case as the harness writes it (corpus/C06/interleaved-dup-names.json,
    observed on the implementation) is a judged case that agrees and holds. *)
Local Open Scope string_scope.
Example C06_judged_nonvacuous :
  let c := ArCase 2%N true
    [mkWL "a" true 0%N 0%N 0%N "100644  " "x\00000a"; mkWL "a" false 0%N 0%N 0%N "100644  " "yy";
     mkWL "b" true 0%N 0%N 0%N "100644  " ""]
    "!<arch>\00000aa/              0           0     0     100644  2         `\00000ax\00000aa               0           0     0     100644  2         `\00000ayyb/              0           0     0     100644  0         `\00000a"
    ["a"; "b"; "c"]
    [(1%nat, Read (Some 1%Z)); (0%nat, Readline (Some 1%Z)); (1%nat, Read None); (2%nat, Read None);
     (0%nat, Seek (-1)%Z 2%Z); (0%nat, Read (Some 5%Z))]
    (Ok ([mkLL "a" 2 0 0 0 "100644  "; mkLL "a" 2 0 0 0 "100644  "; mkLL "b" 0 0 0 0 "100644  "],
         [Ok 1%nat; Ok 2%nat; Err KeyError],
         [(LBytes "y", 1, Some 131); (LBytes "x", 1, Some 69); (LBytes "y", 2, Some 132);
          (LBytes "", 0, Some 192); (LNone, 1, Some 192); (LBytes "\00000a", 2, Some 70)])) in
  judged_case c = true /\ agree c = true /\ holds c = true.
Proof. vm_compute. repeat split. Qed.

Print Assumptions C06_members_listed.
Print Assumptions C06_collect_members_exact.
Print Assumptions C06_getmember_is_last.
Print Assumptions C06_member_step_refines.
Print Assumptions C06_member_refines_bytesio.
Print Assumptions C06_no_foreign_byte.
Print Assumptions C06_run_state_is_ar_run.
Print Assumptions C06_no_foreign_byte_step.
Print Assumptions C06_agree_implies_holds.
