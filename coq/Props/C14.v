(** C14 — Version objects accept exactly valid version strings and decompose losslessly.
    Only statements; every proof is [exact <lemma>] (lemmas in Version/ParseProofs.v).

    Model: Version/Parse.v — [version_new] (= Version(s)), [version_str] (= str(v)),
           [setattr] (= obj.name = value), [run_assigns]; character classes, end anchor
           and magic_attrs from the generated Gen/VersionConsts.v.
    Spec:  Version/ParseSpec.v — the Policy 5.6.12 grammar, declaratively
           ([valid_version]) and as a decision procedure ([valid_spec],
           [spec_decompose] = cut at the first colon and the last hyphen), [recompose].
    The theorems are unconditional in the character classes: they are proved for the
    classes that the source has NOW (a widened class, [\d] or [$] in the pattern
    regenerates the table and these proofs stop compiling). *)
From Coq Require Import String.
From Verif Require Import Lib.Base Lib.Dec Lib.PyStr Version.Parse Version.ParseSpec
  Version.ParseCheck Version.ParseProofs.

(** * 1. accepts_iff_valid — all strings over all code points *)

Theorem C14_accepts_iff_valid :
  forall s, is_ok (version_new (VStr s)) = valid_spec s.
Proof. exact accepts_iff_valid. Qed.

(** the only exception is ValueError *)
Theorem C14_rejects_with_ValueError :
  forall s e, version_new (VStr s) = Err e -> e = ValueError.
Proof. exact rejects_with_ValueError. Qed.

(** [valid_spec] (first colon / last hyphen) decides the declarative grammar
    [epoch:]upstream[-revision] of ParseSpec.valid_version *)
Theorem C14_valid_spec_iff_grammar :
  forall s, valid_spec s = true <-> valid_version s.
Proof. exact valid_spec_iff_grammar. Qed.

(** * 2. decomposition_unique / recompose_id / str_id *)

(** construction stores exactly the grammar's decomposition (and nothing else succeeds) *)
Theorem C14_construction_is_decomposition :
  forall s, version_new (VStr s) =
            match spec_decompose s with
            | Some (e, u, r) => Ok (mkV s e (Some u) r)
            | None => Err ValueError
            end.
Proof. exact version_new_spec. Qed.

(** the same for any constructor argument (None, str, int): str(v) is what is parsed *)
Theorem C14_construction_any_value :
  forall v, version_new v =
            match spec_decompose (py_str v) with
            | Some (e, u, r) => Ok (mkV (py_str v) e (Some u) r)
            | None => Err ValueError
            end.
Proof. exact version_new_any. Qed.

(** str(), full_version, and the recomposition of the three components give back the string *)
Theorem C14_recompose_id :
  forall s st, version_new (VStr s) = Ok st ->
  exists e u r,
    st = mkV s e (Some u) r
    /\ spec_split s = (e, u, r)
    /\ components_ok e u r = true
    /\ recompose e u r = s
    /\ version_str st = s.
Proof. exact new_decomposes. Qed.

Theorem C14_str_id :
  forall s st, version_new (VStr s) = Ok st -> version_str st = s.
Proof. exact str_id. Qed.

(** epoch = before the first colon, revision = after the last hyphen; a colon only
    together with an epoch, a hyphen only together with a revision *)
Theorem C14_cut_points :
  forall s st, version_new (VStr s) = Ok st ->
  match st_epoch st with
  | Some e => exists rest, s = e ++ COLON :: rest /\ mem_char COLON e = false
  | None => mem_char COLON s = false
  end
  /\ match st_rev st with
     | Some r => exists p, s = p ++ HYPHEN :: r /\ mem_char HYPHEN r = false
     | None => mem_char HYPHEN s = false
     end.
Proof. exact new_cut_points. Qed.

(** a valid string has ONE decomposition into well-formed components ... *)
Theorem C14_decomposition_unique :
  forall e u r e' u' r',
    components_ok e u r = true -> components_ok e' u' r' = true ->
    recompose e u r = recompose e' u' r' -> (e, u, r) = (e', u', r').
Proof. exact decomposition_unique. Qed.

(** ... and the object built from the recomposition holds exactly those components *)
Theorem C14_new_from_components :
  forall e u r, components_ok e u r = true ->
    version_new (VStr (recompose e u r)) = Ok (mkV (recompose e u r) e (Some u) r).
Proof. exact new_from_components. Qed.

(** * 3. setattr_ok_or_rollback *)

(** the invariant [inv]: components = decomposition of the full string; equivalently,
    re-reading the full string reproduces the state *)
Theorem C14_inv_iff_reparse :
  forall st, inv st = true <-> set_full (st_full st) = Ok st.
Proof. exact inv_iff_reparse. Qed.

Theorem C14_new_establishes_inv :
  forall s st, version_new (VStr s) = Ok st -> inv st = true.
Proof. exact new_establishes_inv. Qed.

(** From any state satisfying [inv], assigning any of the attributes any value (None, a
    str, an int): [target] is the recomposed string that the assignment asks for
    ([Some None]: there is none — upstream_version = None).  Either it is a valid
    version and the object now is exactly that version (no exception, full string =
    the recomposition, state = what Version(recomposition) builds), or ValueError is
    raised and the state is EQUAL to the one before.  [inv] holds afterwards. *)
Theorem C14_setattr_ok_or_rollback :
  forall st name v,
  inv st = true ->
  inv (fst (setattr st name v)) = true
  /\ match target st name v with
     | None => setattr st name v = (st, None)
     | Some None => setattr st name v = (st, Some ValueError)
     | Some (Some s) =>
         if valid_spec s
         then snd (setattr st name v) = None
              /\ st_full (fst (setattr st name v)) = s
              /\ version_new (VStr s) = Ok (fst (setattr st name v))
         else setattr st name v = (st, Some ValueError)
     end.
Proof. exact setattr_ok_or_rollback. Qed.

(** as one equation: the model's [setattr] IS the specified transition *)
Theorem C14_setattr_is_spec :
  forall st name v, inv st = true -> setattr st name v = setattr_spec st name v.
Proof. exact setattr_eq_spec. Qed.

(** lifted to ALL sequences of assignments (induction over the op list): every step
    of the run is the specified step from the state before it, and [inv] holds
    after every step *)
Theorem C14_assigns_ok_or_rollback :
  forall ops st, inv st = true -> trace_ok st ops (run_assigns st ops).
Proof. exact assigns_ok_or_rollback. Qed.

Theorem C14_assigns_preserve_inv :
  forall ops st, inv st = true ->
    forallb (fun r => inv (fst r)) (run_assigns st ops) = true.
Proof. exact assigns_preserve_inv. Qed.

(** reading back: the five attribute names return the stored slots, debian_version
    being an alias of debian_revision *)
Theorem C14_getattr_fields :
  forall st,
  getattr st s_full_version = Some (Some (st_full st))
  /\ getattr st Verif.Version.Parse.s_epoch = Some (st_epoch st)
  /\ getattr st s_upstream_version = Some (st_up st)
  /\ getattr st s_debian_revision = Some (st_rev st)
  /\ getattr st s_debian_version = Some (st_rev st).
Proof. exact getattr_fields. Qed.

(** the regex leaf on its own (what the CLeaf cases compare with the live pattern): the
    lazy upstream group followed by the optional revision group cuts at the LAST hyphen
    when both sides are well-formed, and otherwise takes everything *)
Theorem C14_regex_leaf_upstream :
  forall t, match_up t =
    match cut_last HYPHEN t with
    | Some (u, r) =>
        if nonempty u && forallb is_up_char u && nonempty r && forallb is_rev_char r
        then Some (u, Some r)
        else if forallb is_up_char t then Some (t, None) else None
    | None => if nonempty t && forallb is_up_char t then Some (t, None) else None
    end.
Proof. exact match_up_eq. Qed.

(** * 4. the bridge to the run-time check *)

(** For EVERY case (any string, any assignment sequence): if the implementation's
    observation equals the model's output ([agree], evaluated on each generated case),
    then the property as [holds] evaluates it on that observation is true. *)
Theorem C14_agree_implies_holds :
  forall c, agree c = true -> holds c = true.
Proof. exact agree_implies_holds. Qed.

(** * Non-vacuity *)
Local Open Scope string_scope.

(** a string with every part, colons and hyphens inside upstream: constructed,
    decomposed at the first colon / last hyphen, invariant established *)
Example C14_nonvacuous_new :
  let s := dec "12:1:2-3-4~a+b.c" in
  valid_spec s = true
  /\ version_new (VStr s) = Ok (mkV s (Some (dec "12")) (Some (dec "1:2-3")) (Some (dec "4~a+b.c")))
  /\ (exists st, version_new (VStr s) = Ok st /\ inv st = true)
  /\ components_ok (Some (dec "12")) (dec "1:2-3") (Some (dec "4~a+b.c")) = true
  /\ version_new (VStr (dec "1.0-")) = Err ValueError
  /\ version_new (VInt (-3)) = Err ValueError
  /\ version_new (VInt 15) = Ok (mkV (dec "15") None (Some (dec "15")) None)
  /\ valid_spec (dec "1.0-") = false /\ valid_spec (dec "1.0" ++ [10%N])%list = false
  /\ valid_spec [1635; 58; 49]%N = false /\ valid_spec (dec "1:") = false.
Proof. vm_compute. repeat split. eexists. split; reflexivity. Qed.

(** a sequence with successful and refused assignments (None, int, bad strings):
    the hypotheses of theorems 3 are met and both outcomes occur *)
Example C14_nonvacuous_assign :
  let st := mkV (dec "1:2.0-3") (Some (dec "1")) (Some (dec "2.0")) (Some (dec "3")) in
  let ops := [(dec "upstream_version", VNone); (dec "epoch", VNone); (dec "debian_revision", VStr []);
              (dec "upstream_version", VStr (dec "4-5")); (dec "epoch", VInt 7);
              (dec "debian_version", VStr (dec "a b")); (dec "foo", VInt 1);
              (dec "full_version", VStr (dec "1:x:y"))] in
  inv st = true
  /\ map (fun r => (st_full (fst r), snd r)) (run_assigns st ops)
     = [(dec "1:2.0-3", Some ValueError); (dec "2.0-3", None); (dec "2.0", None);
        (dec "4-5", None); (dec "7:4-5", None); (dec "7:4-5", Some ValueError);
        (dec "7:4-5", None); (dec "1:x:y", None)]
  /\ map (fun r => (st_up (fst r), st_rev (fst r))) (run_assigns st ops)
     = [(Some (dec "2.0"), Some (dec "3")); (Some (dec "2.0"), Some (dec "3")); (Some (dec "2.0"), None);
        (Some (dec "4"), Some (dec "5")); (Some (dec "4"), Some (dec "5")); (Some (dec "4"), Some (dec "5"));
        (Some (dec "4"), Some (dec "5")); (Some (dec "x:y"), None)].
Proof. vm_compute. repeat split. Qed.

(** a case of the check with agree = true and a non-trivial sequence *)
Example C14_nonvacuous_case :
  let snap s e u r := mkS s (Some s) e (Some u) r r in
  let c := CSeq "1.0-1" [("epoch", AStr "2"); ("upstream_version", ANone)]
             (Ok (snap "1.0-1" None "1.0" (Some "1"),
                  [(None, snap "2:1.0-1" (Some "2") "1.0" (Some "1"));
                   (Some ValueError, snap "2:1.0-1" (Some "2") "1.0" (Some "1"))])) in
  agree c = true /\ holds c = true.
Proof. vm_compute. split; reflexivity. Qed.

Print Assumptions C14_accepts_iff_valid.
Print Assumptions C14_rejects_with_ValueError.
Print Assumptions C14_valid_spec_iff_grammar.
Print Assumptions C14_construction_is_decomposition.
Print Assumptions C14_construction_any_value.
Print Assumptions C14_recompose_id.
Print Assumptions C14_str_id.
Print Assumptions C14_cut_points.
Print Assumptions C14_decomposition_unique.
Print Assumptions C14_new_from_components.
Print Assumptions C14_inv_iff_reparse.
Print Assumptions C14_new_establishes_inv.
Print Assumptions C14_setattr_ok_or_rollback.
Print Assumptions C14_setattr_is_spec.
Print Assumptions C14_assigns_ok_or_rollback.
Print Assumptions C14_assigns_preserve_inv.
Print Assumptions C14_getattr_fields.
Print Assumptions C14_regex_leaf_upstream.
Print Assumptions C14_agree_implies_holds.
