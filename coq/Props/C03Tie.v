(** C03 — tie by regeneration.  Only statements; every proof is [exact <lemma>].

    Gen/TrVersionCmp.v is REGENERATED from lib/debian/debian_support.py by harness/py2coq.py on
    every run: [tr_order], [tr_version_cmp_string], [tr_version_cmp_part] are the Python bodies of
    [NativeVersion._order], [_version_cmp_string], [_version_cmp_part] as the working tree has them
    now — [while la or lb] as a Fixpoint on explicit fuel, [la.pop(0)] with its IndexError, [int()]
    with its ValueError, early returns in place.  The theorems say that, for ALL strings, the
    regenerated functions return normally (no exception, fuel never exhausted) exactly the value of
    the hand-written model functions [py_order], [py_cmp_string], [py_cmp_part] of
    Version/Compare.v, which are the functions the theorems of Props/C03.v are about and that
    [agree] runs.  An edit of one of the three Python functions changes the generated text and
    these theorems are re-checked against it.

    Still hand-modelled inside them (Version/TrPrims.v; pattern texts asserted by the translator,
    behaviour compared with the live compiled patterns by the correspondence): the four regex
    leaves and int().  Not regenerated: [_compare] (isinstance/try) and the operators. *)
From Verif Require Import Lib.Base Version.Compare Gen.TrVersionCmp Version.Tie.

Theorem C03_tie_order : forall x, tr_order x = Ok (py_order x).
Proof. exact tr_order_eq. Qed.
Print Assumptions C03_tie_order.

Theorem C03_tie_version_cmp_string :
  forall va vb, tr_version_cmp_string va vb = Ok (py_cmp_string va vb).
Proof. exact tr_version_cmp_string_eq. Qed.
Print Assumptions C03_tie_version_cmp_string.

Theorem C03_tie_version_cmp_part :
  forall va vb, tr_version_cmp_part va vb = Ok (py_cmp_part va vb).
Proof. exact tr_version_cmp_part_eq. Qed.
Print Assumptions C03_tie_version_cmp_part.

(** non-vacuity: the regenerated code really runs *)
Example C03_tie_runs :
  tr_version_cmp_part [49; 46; 48; 126; 97]%N [49; 46; 48]%N = Ok (-1)%Z        (* "1.0~a" < "1.0" *)
  /\ tr_version_cmp_part [49; 48]%N [57]%N = Ok 1%Z                              (* "10" > "9" *)
  /\ tr_version_cmp_string [97; 43]%N [97; 97]%N = Ok 1%Z.                       (* "a+" > "aa" *)
Proof. vm_compute. repeat split. Qed.
