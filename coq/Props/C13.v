(** C13 — Package relationship fields: format and parse are inverse.
    Only statements; every proof is [exact <lemma>].

    Model: Deb822/Relation.v ([rel_str] = PkgRelation.str, [parse_relations] =
    PkgRelation.parse_relations returning the structure and the number of warnings,
    [match_dep] = the __dep_RE leaf); spec: Deb822/RelationSpec.v (domain [wf_rels],
    judgement [roundtrip_ok]); proofs: Deb822/RelationProofs.v.  The same [rel_str],
    [parse_relations], [match_dep] are the functions Deb822/RelationCheck.v compares
    with the implementation, and [wf_rels] / [roundtrip_ok] are what its [holds]
    evaluates on the implementation's behaviour. *)
From Coq Require Import String.
From Verif Require Import Lib.Base Lib.Dec Lib.PyStr Gen.PyChars
  Deb822.Relation Deb822.RelationSpec Deb822.RelationProofs
  Deb822.RelationCheck Deb822.RelationCheckProofs.

(** 1. parse_str_inverse.  For every relationship structure of the domain — any
       number of conjuncts, any number of alternatives, every combination of the
       four optional parts, names / qualifiers / operators / versions /
       architecture names / profile names of any length over their character sets,
       any number of plain or negated architectures, any number of restriction
       groups of any size — parsing the formatted text returns the identical
       structure and emits no warning (and raises nothing). *)
Theorem C13_parse_str_inverse :
  forall rels, wf_rels rels = true -> parse_relations (rel_str rels) = Ok (rels, 0%N).
Proof. exact parse_str_inverse. Qed.

(** 2. str_parse_str.  Formatting what was parsed gives the identical string. *)
Theorem C13_str_parse_str :
  forall rels, wf_rels rels = true ->
  exists rels' w, parse_relations (rel_str rels) = Ok (rels', w) /\ rel_str rels' = rel_str rels.
Proof. exact str_parse_str. Qed.

(** 3. The two together, in the form the correspondence check judges the
       implementation by: the spec's [roundtrip_ok] holds of the model's
       format -> parse -> format. *)
Theorem C13_roundtrip_judgement :
  forall rels, wf_rels rels = true -> model_roundtrip rels = true.
Proof. exact model_roundtrip_ok. Qed.

(** 4. The leaf: on every formatted atom of the domain the dependency pattern
       matches and its named groups are exactly the parts that were written
       (this is where each of the 2^4 combinations of optional groups is decided). *)
Theorem C13_leaf_recognises_formatted_atom :
  forall d, wf_rel d = true ->
  match_dep (pp_atomic d)
  = Some (mkGroups (r_name d) (r_archqual d) (r_version d)
                   (option_map (fun a => join [SP] (map pp_term a)) (r_arch d))
                   (option_map (fun r => join [SP] (map pp_group r)) (r_restr d))).
Proof. exact match_dep_pp_atomic. Qed.

(** one atom on its own: parsed back without the warning branch *)
Theorem C13_atom_inverse :
  forall d, wf_rel d = true -> parse_rel (pp_atomic d) = Ok (d, false).
Proof. exact parse_rel_pp_atomic. Qed.

(** 5. Consequence: on the domain the formatter is injective — two different
       structures are never written as the same text. *)
Theorem C13_str_injective :
  forall r1 r2, wf_rels r1 = true -> wf_rels r2 = true -> rel_str r1 = rel_str r2 -> r1 = r2.
Proof. exact str_injective. Qed.

(** 5b. Unique readability: every text the formatter can produce from a structure of the
        domain has exactly one such structure behind it, and parsing the text returns
        that one, without a warning. *)
Theorem C13_formatted_text_unique :
  forall s, (exists rels, wf_rels rels = true /\ rel_str rels = s) ->
  exists rels, (wf_rels rels = true /\ rel_str rels = s /\ parse_relations s = Ok (rels, 0%N))
               /\ forall r', wf_rels r' = true -> rel_str r' = s -> r' = rels.
Proof. exact formatted_text_unique. Qed.

(** 6. The bridge to the correspondence check (Deb822/RelationCheck.v): for every case
       of every constructor — every structure in or outside the domain, every observed
       string / parse / exception — an observation that agrees with the model ([agree])
       passes the property's judgement ([holds]).
       [holds] of a [CRel] case also consults [via_pkg] (the Packages / Sources accessors
       gave the same structure and warnings), an observation [agree] does not compare and
       the model does not describe; the side condition [judged] = "[via_pkg] is true, or
       the structure is outside [wf_rels]" (always true on the other constructors) is
       exactly what is needed: an agreeing case outside [judged] fails [holds]
       ([C13_judged_is_needed]).  Whatever [via_pkg] says, agreement forces the
       format -> parse -> format judgement itself ([C13_agree_implies_roundtrip]). *)
Theorem C13_agree_implies_holds :
  forall c, judged c = true -> agree c = true -> holds c = true.
Proof. exact agree_implies_holds. Qed.

Theorem C13_agree_implies_roundtrip :
  forall rels s1 parsed s2 via_pkg,
    agree (CRel rels s1 parsed s2 via_pkg) = true -> holds (CRel rels s1 parsed s2 true) = true.
Proof. exact agree_implies_roundtrip. Qed.

Theorem C13_judged_is_needed :
  forall c, agree c = true -> judged c = false -> holds c = false.
Proof. exact judged_is_needed. Qed.

(** Non-vacuity: a structure with three conjuncts, alternatives, every optional
    part, a negated architecture, two restriction groups with a negated profile and
    odd-but-valid names is in the domain; so are the five relational operators; and
    the model formats and parses it as the theorems say. *)
Local Open Scope string_scope.
Example C13_nonvacuous :
  let s (x : String.string) := Lib.Dec.dec x in
  let plain n := mkRel (s n) None None None None in
  let full :=
    mkRel (s "libfoo2.0+b-x") (Some (s "any")) (Some (s ">=", s "2:1.0~rc1-3+b1"))
          (Some [(true, s "amd64"); (false, s "hurd-i386")])
          (Some [[(true, s "stage1"); (false, s "nocheck")]; [(true, s "cross")]]) in
  let rels := [[plain "emacs"; plain "emacsen"]; [full];
               [mkRel (s "g++") None (Some (s "<<", s "4")) None None;
                mkRel (s "0ad") (Some (s "native")) None None (Some [[(false, s "nodoc")]])]] in
  wf_rels rels = true
  /\ forallb (forallb wf_rel) rels = true
  /\ forallb wf_relop five_operators = true
  /\ rel_str rels
     = s ("emacs | emacsen, libfoo2.0+b-x:any (>= 2:1.0~rc1-3+b1) [amd64 !hurd-i386] <stage1 !nocheck> <cross>, "
          ++ "g++ (<< 4) | 0ad:native <!nodoc>")
  /\ parse_relations (rel_str rels) = Ok (rels, 0%N)
  /\ model_roundtrip rels = true.
Proof. vm_compute. repeat split. Qed.

(** The side conditions of the domain are needed: outside it the round trip fails
    in the model as it does in the code (an empty architecture list, an upper-case
    profile, a plain architecture name that begins with the negation mark, a
    structure without conjuncts). *)
Example C13_domain_is_tight :
  let s (x : String.string) := Lib.Dec.dec x in
  let r a q := [[mkRel (s "a") None None a q]] in
  parse_relations (rel_str (r (Some []) None)) = Ok ([[mkRel (s "a []") None None None None]], 1%N)
  /\ parse_relations (rel_str (r None (Some [[(true, s "Stage1")]]))) = Ok (r None (Some [[(true, s "stage1")]]), 0%N)
  /\ parse_relations (rel_str (r (Some [(true, s "!x")]) None)) = Ok (r (Some [(false, s "x")]) None, 0%N)
  /\ parse_relations (rel_str []) = Ok ([[mkRel [] None None None None]], 1%N).
Proof. vm_compute. repeat split. Qed.

(** the hypotheses of 6 are met by a case inside the domain (so [holds] judges the round
    trip), and the unconditional statement does fail when only [via_pkg] is negative *)
Example C13_bridge_nonvacuous :
  let a := mkC "libc6" (Some "any") (Some (">=", "2.36")) (Some [(false, "hurd-i386")]) (Some [[(true, "stage1")]]) in
  let b := mkC "g++" None None None None in
  let txt := "libc6:any (>= 2.36) [!hurd-i386] <stage1> | g++, g++" in
  let c v := CRel [[a; b]; [b]] txt (Ok ([[a; b]; [b]], 0%N)) (Some txt) v in
  wf_rels (dec_rels [[a; b]; [b]]) = true
  /\ judged (c true) = true /\ agree (c true) = true /\ holds (c true) = true
  /\ judged (c false) = false /\ agree (c false) = true /\ holds (c false) = false.
Proof. vm_compute. repeat split. Qed.

Print Assumptions C13_parse_str_inverse.
Print Assumptions C13_str_parse_str.
Print Assumptions C13_roundtrip_judgement.
Print Assumptions C13_leaf_recognises_formatted_atom.
Print Assumptions C13_atom_inverse.
Print Assumptions C13_str_injective.
Print Assumptions C13_formatted_text_unique.
Print Assumptions C13_agree_implies_holds.
Print Assumptions C13_agree_implies_roundtrip.
Print Assumptions C13_judged_is_needed.
