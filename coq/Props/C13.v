(** C13 — Package relationship fields: format and parse are inverse.
    (theorems are being added; see Deb822/RelationProofs.v) *)
From Verif Require Import Lib.Base Deb822.Relation Deb822.RelationSpec.
