(** C12 — tie by regeneration.  Only statements; every proof is [exact <lemma>] (lemmas in
    Deb822/MvTie.v).

    Gen/TrMvLengths.v and Gen/TrMultivalued.v are REGENERATED from lib/debian/deb822.py by
    harness/py2coq.py on every run: [tr_get_as_string] is the body of _multivalued.get_as_string;
    [tr_pdiff_get_size_field_length], [tr_pdiff_fixed_field_lengths],
    [tr_release_get_size_field_length], [tr_release_fixed_field_lengths],
    [tr_set_size_field_behavior] are the bodies of PdiffIndex._get_size_field_length /
    _fixed_field_lengths and of Release._get_size_field_length / _fixed_field_lengths /
    set_size_field_behavior; [tr_mv_init], [tr_mv_setitem], [tr_mv_validate_input],
    [tr_is_single_line], [tr_is_multi_line] are the bodies of _multivalued.__init__,
    Deb822.__setitem__ (as _multivalued inherits it), _multivalued.validate_input,
    Deb822.is_single_line / is_multi_line — as the working tree has them now.

    What is in place as in the source.  Writer: [keyl = key.lower()], the membership test in the
    class table, the StringIO buffer, [hasattr(self[key], 'keys')] choosing between the one-element
    list and the stored value (with the leading "\n"), [try: field_lengths =
    self._fixed_field_lengths / except AttributeError: pass], the two nested loops, [str(item[x])],
    [try: length = field_lengths[keyl][x] / except KeyError: value = raw_value / else: value =
    (length - len(raw_value)) * " " + raw_value], the ValueError on "\n" in a component, the three
    writes, [rstrip("\n")], the fall-back to Deb822.get_as_string.  Widths: the loops over the
    class table with [if key not in self: continue] (and PdiffIndex's [hasattr(.., 'keys')]:
    continue), the comprehension [[len(str(item['size'])) for item in self[key]]], [max] (ValueError
    on an empty list), the dict of dicts built by item assignment, Release's two comparisons of
    [self.size_field_behavior] and its final [raise ValueError], the setter's membership test.
    Reader: the call of Deb822.__init__, the loop over [self._multivalued_fields.items()] in the
    table's order, [try: contents = self[field] / except KeyError: continue],
    [self.is_multi_line(contents)] (= [not not contents.count("\n")]), the two stores
    [self[field] = []] / [= Deb822Dict()] THROUGH the translated __setitem__ and validate_input,
    the choice of [updater_method], the loop over [filter(None, contents.splitlines())] calling it
    with [Deb822Dict(zip(fields, line.split()))].

    Parameters of the regenerated functions that are not Python parameters: [c : cls] the class of
    the object ([self._multivalued_fields] = [table_of c], the tables of Gen/MvTables.v, regenerated
    too); [ci] = the mappings inside a value are Deb822Dicts (true) or plain dicts (false);
    [sfb] = the str held in Release's private attribute [__size_field_behavior] ([behav_name b]
    below: the name of the model's behaviour [b]); for the two _fixed_field_lengths, [mvf] = the
    class's own table (the theorems hold for ANY table with distinct keys); for the reader, [p0] =
    the mapping that Deb822.__init__ leaves in the object (C02's subject) — the reader's theorems
    hold for EVERY such mapping, with values of every shape.

    Still hand-modelled (Deb822/MvTrPrims.v, MvTrDispatch.v): the object as the model's [para]
    ([key in self], [self[key]], Deb822Dict.__setitem__ = [para_set]); what each operation does on
    each shape of dynamic value ([hasattr(v,'keys')], iteration, [item[x]], [count], [splitlines]);
    [str()] of a sub-field value (values are carried as their str()), [str.lower] (ASCII),
    [rstrip], [split], [splitlines], [filter(None, ..)], [zip], [Deb822Dict(pairs)], [max]; the dict
    {field: {"size": n}}; Deb822.get_as_string and Deb822.validate_input of the base class on a
    dynamic value; the DISPATCH of [self._fixed_field_lengths] on the class (AttributeError for Dsc,
    Changes, BuildInfo); [self.size_field_behavior] read as the private attribute;
    [updater_method = self[field].append / .update] — a bound method in a variable — is rendered
    as "which method of which entry" ([trp_updater]) and its call as the change of that entry
    ([trp_call_updater]): the aliasing between the variable and the object stored under
    [self[field]] is the hand-made part of that rendering; both branches, the loop and the call are
    the source's. *)
From Coq Require Import String.
From Verif Require Import Lib.Base Lib.Dec Lib.PyStr Lib.Tr Gen.PyChars Gen.MvTables
  Deb822.Multivalued Deb822.MvSpec Deb822.MvProofs Deb822.MvTrPrims Gen.TrMvLengths
  Deb822.MvTrDispatch Gen.TrMultivalued Deb822.MvTie.

(** 1. The writer.  _multivalued.get_as_string is the model's [get_as_string] — the function that
       MvCheck.agree runs and Props/C12.v is about — for every class, both behaviours, both kinds
       of mapping, EVERY object and key: the same string or the same exception. *)
Theorem C12_tie_get_as_string :
  forall c b ci p key,
    tr_get_as_string c (behav_name b) ci p key = get_as_string c b ci p key.
Proof. exact tr_get_as_string_eq. Qed.
Print Assumptions C12_tie_get_as_string.

(** 2. PdiffIndex._get_size_field_length: KeyError, or the model's [size_field_length] of the value
       (TypeError / KeyError from an item, ValueError from max of nothing). *)
Theorem C12_tie_pdiff_get_size_field_length :
  forall ci self key,
    tr_pdiff_get_size_field_length ci self key
    = match para_get key self with
      | None => Err KeyError
      | Some v => zlen (size_field_length ci v)
      end.
Proof. exact tr_pdiff_gsfl_eq. Qed.
Print Assumptions C12_tie_pdiff_get_size_field_length.

(** 3. PdiffIndex._fixed_field_lengths is the model's [ffl_pdiff] over the keys of the table. *)
Theorem C12_tie_pdiff_fixed_field_lengths :
  forall mvf ci self,
    nodup_exact (map fst mvf) = true ->
    tr_pdiff_fixed_field_lengths mvf ci self = zlens_res (ffl_pdiff ci (map fst mvf) self).
Proof. exact tr_pdiff_ffl_eq. Qed.
Print Assumptions C12_tie_pdiff_fixed_field_lengths.

(** 4. Release._get_size_field_length, for ANY str in the private attribute: the fixed width, the
       computed one, or ValueError for a name that is neither. *)
Theorem C12_tie_release_get_size_field_length :
  forall sfb ci self key,
    tr_release_get_size_field_length sfb ci self key
    = match behav_of_name sfb with
      | Ok Apt => Ok (Z.of_N release_fixed_width)
      | Ok Dak => match para_get key self with
                  | None => Err KeyError
                  | Some v => zlen (size_field_length ci v)
                  end
      | Err _ => Err ValueError
      end.
Proof. exact tr_release_gsfl_eq. Qed.
Print Assumptions C12_tie_release_get_size_field_length.

(** 5. Release._fixed_field_lengths is the model's [ffl_release]. *)
Theorem C12_tie_release_fixed_field_lengths :
  forall mvf sfb b ci self,
    nodup_exact (map fst mvf) = true -> behav_of_name sfb = Ok b ->
    tr_release_fixed_field_lengths mvf sfb ci self = zlens_res (ffl_release b ci (map fst mvf) self).
Proof. exact tr_release_ffl_eq. Qed.
Print Assumptions C12_tie_release_fixed_field_lengths.

(** 6. Release.set_size_field_behavior: accepted exactly when the model's [behav_of_name] accepts;
       a rejected name leaves the attribute as it was. *)
Theorem C12_tie_set_size_field_behavior :
  forall s value,
    tr_set_size_field_behavior s value
    = match behav_of_name value with Ok _ => MOk tt value | Err e => MErr e s end.
Proof. exact tr_set_size_field_behavior_eq. Qed.
Print Assumptions C12_tie_set_size_field_behavior.

(** 7. [self._fixed_field_lengths] on an object of class [c] (the two regenerated properties on the
       class's regenerated table, behind the hand-written dispatch): the model's
       [fixed_field_lengths]; its "no such attribute" is the AttributeError ... *)
Theorem C12_tie_fixed_field_lengths :
  forall c b ci p,
    trp_fixed_field_lengths c (behav_name b) ci p tt
    = match fixed_field_lengths c b ci p with
      | Ok (Some l) => Ok (zlens l)
      | Ok None => Err OtherError
      | Err e => Err e
      end.
Proof. exact trp_fixed_field_lengths_eq. Qed.
Print Assumptions C12_tie_fixed_field_lengths.

(** ... and nothing else is: the property itself never fails with the kind that
    [except AttributeError] is rendered to catch (the claim behind Module.catches in the spec). *)
Theorem C12_tie_fixed_field_lengths_error_kinds :
  forall c b ci p e, fixed_field_lengths c b ci p = Err e -> e <> OtherError.
Proof. exact fixed_field_lengths_err. Qed.
Print Assumptions C12_tie_fixed_field_lengths_error_kinds.

(** 8. Deb822.is_multi_line on a dynamic value. *)
Theorem C12_tie_is_multi_line :
  forall v,
    tr_is_multi_line v
    = match v with
      | Plain s => Ok (mem_char LF s)
      | Multi _ => Ok false
      | Single _ => Err OtherError
      end.
Proof. exact tr_is_multi_line_eq. Qed.
Print Assumptions C12_tie_is_multi_line.

(** 9. _multivalued.validate_input and the inherited __setitem__: the model's [validate_input] /
       [build_step]; the object is changed only by an accepted store. *)
Theorem C12_tie_validate_input :
  forall c p0 self key value,
    tr_mv_validate_input c p0 self key value
    = match validate_input c key value with Ok _ => MOk tt self | Err e => MErr e self end.
Proof. exact tr_mv_validate_input_eq. Qed.
Print Assumptions C12_tie_validate_input.

Theorem C12_tie_setitem :
  forall c p0 self key value,
    tr_mv_setitem c p0 self key value
    = match validate_input c key value with
      | Ok _ => MOk tt (para_set key value self)
      | Err e => MErr e self
      end.
Proof. exact tr_mv_setitem_eq. Qed.
Print Assumptions C12_tie_setitem.

Theorem C12_tie_setitem_is_build_step :
  forall c p0 self key value,
    mres_para (tr_mv_setitem c p0 self key value) = build_step c (Ok self) (key, value).
Proof. exact tr_mv_setitem_build_step. Qed.
Print Assumptions C12_tie_setitem_is_build_step.

(** 10. The reader.  _multivalued.__init__ on EVERY mapping [p0] that Deb822.__init__ may have left
        (values of any shape) and for every class: the model's loop [mv_init_step] over the class's
        table in the table's order — same object, or the same exception ... *)
Theorem C12_tie_init :
  forall c p0 self,
    mres_para (tr_mv_init c p0 self) = fold_left mv_init_step (table_of c) (Ok p0).
Proof. exact tr_mv_init_eq. Qed.
Print Assumptions C12_tie_init.

(** ... i.e. the model's [mv_init] (the function of Props/C12.v) on the pairs Deb822 stored. *)
Theorem C12_tie_init_mv_init :
  forall c raw self,
    mres_para (tr_mv_init c (map (fun kv => (fst kv, Plain (snd kv))) raw) self)
    = mv_init (table_of c) raw.
Proof. exact tr_mv_init_mv_init. Qed.
Print Assumptions C12_tie_init_mv_init.

(** 11. The model's [dump_para] is the regenerated writer on every field, through the model's
        [entry] (Deb822._dump_format is C02's tie). *)
Theorem C12_tie_dump_para :
  forall c b ci p,
    dump_para c b ci p
    = do es <- mapM (fun kv => do v <- tr_get_as_string c (behav_name b) ci p (fst kv);
                               Ok (entry (fst kv) v)) p;
      Ok (concat es).
Proof. exact dump_para_by_tr. Qed.
Print Assumptions C12_tie_dump_para.

(** 12. The property on the regenerated code.  record_roundtrip / size_right_aligned for the
        regenerated writer; dump totality of what the regenerated reader built. *)
Theorem C12_tie_record_roundtrip :
  forall c b ci p key order row rows,
    lookup_exact (ascii_lower key) (table_of c) = Some order ->
    para_get key p = Some (Multi (spec_records order (row :: rows))) ->
    forallb (row_ok order) (row :: rows) = true ->
    para_dumpable c b ci p = true ->
    exists s, tr_get_as_string c (behav_name b) ci p key = Ok s
              /\ mv_parse_field order s = Multi (spec_records order (row :: rows)).
Proof. exact tr_record_roundtrip. Qed.
Print Assumptions C12_tie_record_roundtrip.

Theorem C12_tie_size_right_aligned :
  forall c b ci p key order row rows,
    lookup_exact (ascii_lower key) (table_of c) = Some order ->
    para_get key p = Some (Multi (spec_records order (row :: rows))) ->
    forallb (row_ok order) (row :: rows) = true ->
    para_dumpable c b ci p = true ->
    tr_get_as_string c (behav_name b) ci p key = Ok (spec_value c b order (row :: rows)).
Proof. exact tr_get_as_string_documented. Qed.
Print Assumptions C12_tie_size_right_aligned.

Theorem C12_tie_parsed_then_printed :
  forall c b raw self,
    distinct_keys (map fst raw) = true -> raw_ok c b raw = true ->
    exists q, mres_para (tr_mv_init c (map (fun kv => (fst kv, Plain (snd kv))) raw) self) = Ok q
              /\ is_ok (mapM (fun kv => tr_get_as_string c (behav_name b) true q (fst kv)) q) = true.
Proof. exact tr_parsed_then_printed. Qed.
Print Assumptions C12_tie_parsed_then_printed.

(** non-vacuity: the regenerated code really runs — a pdiff Index read by the regenerated
    constructor (single-line and multi-line forms, an absent field skipped, a plain field kept),
    printed by the regenerated writer with the size column of EACH field right-aligned to its
    longest size; Release under both behaviours; a class without the property; the ValueError on a
    line feed in a component, the KeyError of an absent key, the TypeError of a str where records
    are expected, ValueError for max of an empty list; the setter; a non-str value in the reader *)
Local Open Scope string_scope.
Example C12_tie_runs :
  let s := dec in
  let raw := [(s "SHA1-Current", Plain (s "abc 12345"));
              (s "Origin", Plain (s "Debian"));
              (s "SHA1-History", Plain (s "\00000a d1     7 2026-01-01\00000a d2 12345 2026-01-02 extra\00000a\00000a d3 1"))] in
  let q : para :=
    [(s "SHA1-Current", Single [(s "SHA1", s "abc"); (s "size", s "12345")]);
     (s "Origin", Plain (s "Debian"));
     (s "SHA1-History", Multi [[(s "SHA1", s "d1"); (s "size", s "7"); (s "date", s "2026-01-01")];
                               [(s "SHA1", s "d2"); (s "size", s "12345"); (s "date", s "2026-01-02")];
                               [(s "SHA1", s "d3"); (s "size", s "1")]])] in
  let q2 : para :=
    [(s "sha1-history", Multi [[(s "SHA1", s "d1"); (s "size", s "7"); (s "date", s "2026-01-01")];
                               [(s "SHA1", s "d2"); (s "size", s "12345"); (s "date", s "2026-01-02")]])] in
  let rel : para :=
    [(s "MD5Sum", Multi [[(s "md5sum", s "0f"); (s "size", s "5"); (s "name", s "main/a")];
                         [(s "md5sum", s "1e"); (s "size", s "123"); (s "name", s "main/b")]])] in
  tr_mv_init PdiffIndex raw [] = MOk tt q
  /\ tr_get_as_string PdiffIndex (behav_name Apt) true q (s "sha1-current") = Ok (s " abc 12345")
  /\ tr_get_as_string PdiffIndex (behav_name Apt) true q (s "SHA1-HISTORY") = Err KeyError   (* d3 has no date *)
  /\ tr_get_as_string PdiffIndex (behav_name Apt) true q2 (s "SHA1-History")
     = Ok (s "\00000a d1     7 2026-01-01\00000a d2 12345 2026-01-02")
  /\ tr_get_as_string PdiffIndex (behav_name Apt) true q (s "Origin") = Ok (s "Debian")
  /\ tr_get_as_string PdiffIndex (behav_name Apt) true q (s "Nope") = Err KeyError
  /\ tr_get_as_string Release (behav_name Dak) false rel (s "md5sum") = Ok (s "\00000a 0f   5 main/a\00000a 1e 123 main/b")
  /\ tr_get_as_string Release (behav_name Apt) false rel (s "md5sum")
     = Ok (s "\00000a 0f                5 main/a\00000a 1e              123 main/b")
  /\ tr_get_as_string Dsc (behav_name Apt) true [(s "Files", Multi [[(s "md5sum", s "0f"); (s "size", s "5"); (s "name", s "a")]])] (s "Files")
     = Ok (s "\00000a 0f 5 a")
  /\ tr_get_as_string Dsc (behav_name Apt) true [(s "Files", Multi [[(s "md5sum", s "0\00000af"); (s "size", s "5"); (s "name", s "a")]])] (s "Files")
     = Err ValueError
  /\ tr_get_as_string Release (behav_name Dak) true [(s "SHA1", Plain (s "ab"))] (s "sha1") = Err TypeError
  /\ tr_get_as_string Release (behav_name Dak) true [(s "SHA1", Multi [])] (s "sha1") = Err ValueError
  /\ tr_get_as_string Release (behav_name Apt) true [(s "SHA1", Multi [])] (s "sha1") = Ok []
  /\ tr_release_fixed_field_lengths (table_of Release) (s "dak") false rel = Ok [(s "md5sum", 3%Z)]
  /\ tr_pdiff_fixed_field_lengths (table_of PdiffIndex) true q = Ok [(s "sha1-history", 5%Z)]
  /\ tr_set_size_field_behavior (s "apt-ftparchive") (s "dak") = MOk tt (s "dak")
  /\ tr_set_size_field_behavior (s "apt-ftparchive") (s "DAK") = MErr ValueError (s "apt-ftparchive")
  /\ mres_para (tr_mv_init Dsc [(s "Files", Multi [])] []) = Err OtherError
  /\ tr_mv_setitem Dsc [] [] (s "Comment") (Plain (s "a\00000ab")) = MErr ValueError [].
Proof. vm_compute. repeat split. Qed.
