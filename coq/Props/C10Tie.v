(** C10 — tie by regeneration for the ORDERING methods of the two paragraph classes.  Only statements; every proof is
    [exact <lemma>] (lemmas in Repro/StructTie.v for Deb822NoDuplicateFieldsParagraphElement, Repro/StructTieDup.v for
    Deb822DuplicateFieldsParagraphElement — second half of this file).

    Gen/TrStruct.v is REGENERATED from lib/debian/_deb822_repro/parsing.py by harness/py2coq.py on every run (METHOD + HEAP
    MODE): the bodies of Deb822NoDuplicateFieldsParagraphElement.order_last, order_first, order_before, order_after,
    sort_fields (with its key parameter), iter_keys, kvpair_count, contains_kvpair_element, remove_kvpair_element,
    iter_parts and of Deb822ParagraphElement._ensure_final_newline as the working tree has them now.  The OrderedSet in
    self._kvpair_order is the record of its attributes; every method called on it is C09's REGENERATED function
    (Gen/TrLinkedList.v, tied to the pointer-level model by Props/C09Tie.v) run on (heap, record).

    The model functions that [Repro.StructCheck.agree] runs and that the theorems of Props/C10.v are about
    (Repro/Struct.v: nd_order_last, nd_order_first, nd_order_rel, nd_sort; Repro/Doc.v: nd_remove, nd_get) work on the
    LIST of the paragraph's fields; the code works on a doubly linked list of heap nodes with a lookup table, a dict
    from names to key-value pair objects and those objects.  The theorems are therefore REFINEMENTS through the
    abstraction relation [nd_rep hp kvs kvd os fs] ("the state represents the list fs": C09's representation
    invariant [os_rep] for the linked structure over the names of fs in order; the dict maps each lowered name to its
    element; the store maps each element to its field; elements are distinct objects):

      for EVERY state and list with [nd_rep], the regenerated method ends — normally or by raising — in a state that
      again represents a list, namely the model function's result on fs, and it raises exactly when the model reports
      an exception, with the same kind ([nd_refines]: in particular no OutOfFuel, no dangling reference, and the state
      after a refused operation represents what the model says it is: fs with the final newline supplied).

    The relation is functional ([C10_tie_nd_rep_is_a_function]: the represented list can be read off the state with the
    regenerated iter_parts) and not vacuous ([C10_tie_nd_rep_exists]: every list of fields with pairwise different
    lowered names — the condition under which from_kvpairs picks this class — is represented by the state that
    building the set node by node produces).

    Still hand-modelled inside (Repro/StructTrPrims.v, each DEFINED from the model's own functions): _unpack_key (the
    model's [unpack_key]; name tokens as keys do not exist in the model), a key-value pair element as a reference into a
    store of the model's [field]s with the two observations the methods use (field_name = [f_name],
    value_element.add_final_newline_if_missing() = [add_nl]), the dict as an association list keyed by the lowered name,
    the key functions of sort_fields as the model's family [sortkey] with [sorted] = the model's stable [sort_by],
    default_field_sort_key = [KDefault], OrderedSet(iterable) as the regenerated [extend] on the empty set, and
    reversed(OrderedSet) as the reverse of the regenerated iteration (C09 does not regenerate __init__ / __reversed__;
    the source text of both is asserted by the generator, so a change fails the translation closed). *)
From Verif Require Import Lib.Base Lib.PyStr Lib.Tr Dict.Common Dict.Heap Dict.TrPrims Dict.ProofsLL Dict.ProofsOS.
From Verif Require Import Repro.Doc Repro.StructSort Repro.Struct Repro.StructTrPrims Gen.TrStruct Gen.TrStructDup
  Gen.TrStructFile Repro.StructTie Repro.StructTieDup Repro.StructTieFile.
From Verif Require Repro.StructProofs.

Local Open Scope Z_scope.

(** * Deb822NoDuplicateFieldsParagraphElement *)

Theorem C10_tie_nd_order_last :
  forall hp kvs kvd os fs k,
    nd_rep hp kvs kvd os fs ->
    nd_refines (tr_nd_order_last lower hp kvs kvd os k) (nd_order_last fs k).
Proof. exact tr_nd_order_last_refines. Qed.
Print Assumptions C10_tie_nd_order_last.

Theorem C10_tie_nd_order_first :
  forall hp kvs kvd os fs k,
    nd_rep hp kvs kvd os fs ->
    nd_refines (tr_nd_order_first lower hp kvs kvd os k) (nd_order_first fs k).
Proof. exact tr_nd_order_first_refines. Qed.
Print Assumptions C10_tie_nd_order_first.

(** order_before / order_after: item == reference (ValueError), reference absent (KeyError), item absent (KeyError) — in
    this order, each after the final newline has been supplied — or the move *)
Theorem C10_tie_nd_order_before :
  forall hp kvs kvd os fs k r,
    nd_rep hp kvs kvd os fs ->
    nd_refines (tr_nd_order_before lower hp kvs kvd os k r) (nd_order_rel false fs k r).
Proof. exact tr_nd_order_before_refines. Qed.
Print Assumptions C10_tie_nd_order_before.

Theorem C10_tie_nd_order_after :
  forall hp kvs kvd os fs k r,
    nd_rep hp kvs kvd os fs ->
    nd_refines (tr_nd_order_after lower hp kvs kvd os k r) (nd_order_rel true fs k r).
Proof. exact tr_nd_order_after_refines. Qed.
Print Assumptions C10_tie_nd_order_after.

(** sort_fields(key): [key = None] is default_field_sort_key; a NEW OrderedSet (new nodes) over the sorted names replaces
    the old one; never raises *)
Theorem C10_tie_nd_sort_fields :
  forall hp kvs kvd os fs key,
    nd_rep hp kvs kvd os fs ->
    nd_refines (tr_nd_sort_fields lower hp kvs kvd os key) (ok (nd_sort (the_key key) fs)).
Proof. exact tr_nd_sort_fields_refines. Qed.
Print Assumptions C10_tie_nd_sort_fields.

(** remove_kvpair_element (del p[k]): the model's [nd_remove]; a refused removal leaves the state as it was *)
Theorem C10_tie_nd_remove_kvpair_element :
  forall hp kvs kvd os fs k,
    nd_rep hp kvs kvd os fs ->
    nd_refines (tr_nd_remove_kvpair_element lower hp kvs kvd os k) (res_sres fs (nd_remove fs k)).
Proof. exact tr_nd_remove_refines. Qed.
Print Assumptions C10_tie_nd_remove_kvpair_element.

Theorem C10_tie_nd_ensure_final_newline :
  forall hp kvs kvd os fs,
    nd_rep hp kvs kvd os fs ->
    nd_refines (tr_nd_ensure_final_newline lower hp kvs kvd os) (ok (map_last add_nl fs)).
Proof. exact tr_nd_ensure_refines. Qed.
Print Assumptions C10_tie_nd_ensure_final_newline.

(** the readers *)
Theorem C10_tie_nd_iter_keys :
  forall hp kvs kvd os fs,
    nd_rep hp kvs kvd os fs -> tr_nd_iter_keys lower hp kvs kvd os = Ok (map f_name fs).
Proof. exact tr_nd_iter_keys_rep. Qed.
Print Assumptions C10_tie_nd_iter_keys.

Theorem C10_tie_nd_kvpair_count :
  forall hp kvs kvd os fs,
    nd_rep hp kvs kvd os fs -> tr_nd_kvpair_count lower hp kvs kvd os = Ok (Z.of_nat (length fs)).
Proof. exact tr_nd_kvpair_count_rep. Qed.
Print Assumptions C10_tie_nd_kvpair_count.

(** contains_kvpair_element(k) = "get_kvpair_element(k, use_get=True) finds something" (or the key error of an indexed key) *)
Theorem C10_tie_nd_contains_kvpair_element :
  forall hp kvs kvd os fs k,
    nd_rep hp kvs kvd os fs ->
    tr_nd_contains_kvpair_element lower hp kvs kvd os k = is_some_res (nd_get fs k true).
Proof. exact tr_nd_contains_rep. Qed.
Print Assumptions C10_tie_nd_contains_kvpair_element.

(** iter_parts, and with it the abstraction: the list a state represents is read off it by the regenerated iter_parts
    followed by the store lookups ([nd_fields]) *)
Theorem C10_tie_nd_rep_is_a_function :
  forall hp kvs kvd os fs, nd_rep hp kvs kvd os fs -> nd_fields hp kvs kvd os = Ok fs.
Proof. exact nd_rep_fields. Qed.
Print Assumptions C10_tie_nd_rep_is_a_function.

(** the hypothesis is satisfiable for every list the class is used for: [nd_build fs] = the store, the dict and the set
    built by the pointer-level model's [os_extend] in the empty heap *)
Theorem C10_tie_nd_rep_exists :
  forall fs,
    nodupb (map (fun f => lower (f_name f)) fs) = true ->
    exists st, nd_build fs = Some st /\ nd_rep_st st fs.
Proof. exact nd_build_rep_b. Qed.
Print Assumptions C10_tie_nd_rep_exists.

(** non-vacuity: the regenerated code really runs.  "Source: x\n", "# c\nbuild-depends: y\n", "Homepage: z" (no final
    newline): order_first("HOMEPAGE"), then order_before("source", ("Build-Depends", 0)), then sort_fields(), then
    del p["homepage"]; the fields read off the final state are what the model computes, and an absent key is KeyError
    with the newline supplied. *)
Example C10_tie_runs :
  let s := fun (l : list N) => l in
  let Source := s [83; 111; 117; 114; 99; 101]%N in let source := s [115; 111; 117; 114; 99; 101]%N in
  let bd := s [98; 117; 105; 108; 100; 45; 100; 101; 112; 101; 110; 100; 115]%N in
  let BD := s [66; 117; 105; 108; 100; 45; 68; 101; 112; 101; 110; 100; 115]%N in
  let Homepage := s [72; 111; 109; 101; 112; 97; 103; 101]%N in let HOMEPAGE := s [72; 79; 77; 69; 80; 65; 71; 69]%N in
  let homepage := s [104; 111; 109; 101; 112; 97; 103; 101]%N in
  let fs := [mkF [] Source [58; 32; 120; 10]%N; mkF [35; 32; 99; 10]%N bd [58; 32; 121; 10]%N; mkF [] Homepage [58; 32; 122]%N] in
  let then_ := fun (r : mres unit ndst) (f : ndst -> result (list field) * option err) =>
                 match r with MOk _ st => f st | MErr e st => (let '(hp, kvs, kvd, os) := st in nd_fields hp kvs kvd os, Some e) end in
  match nd_build fs with
  | None => (Err OtherError, None, Err OtherError)
  | Some (hp, kvs, kvd, os) =>
      (then_ (tr_nd_order_first lower hp kvs kvd os (KStr HOMEPAGE)) (fun '(hp, kvs, kvd, os) =>
       then_ (tr_nd_order_before lower hp kvs kvd os (KStr source) (KIdx BD 0)) (fun '(hp, kvs, kvd, os) =>
       then_ (tr_nd_sort_fields lower hp kvs kvd os None) (fun '(hp, kvs, kvd, os) =>
       then_ (tr_nd_remove_kvpair_element lower hp kvs kvd os (KStr homepage)) (fun '(hp, kvs, kvd, os) =>
         (nd_fields hp kvs kvd os, None))))),
       match tr_nd_order_last lower hp kvs kvd os (KStr [120]%N) with
       | MErr e (hp, kvs, kvd, os) => nd_fields hp kvs kvd os
       | MOk _ _ => Err OtherError
       end)
  end
  = (let fs1 := snd (nd_order_first fs (KStr HOMEPAGE)) in
     let fs2 := snd (nd_order_rel false fs1 (KStr source) (KIdx BD 0)) in
     let fs3 := nd_sort KDefault fs2 in
     Ok (remove_first (has_name homepage) fs3), None,
     Ok (map_last add_nl fs)).
Proof. vm_compute. reflexivity. Qed.


(** * Deb822DuplicateFieldsParagraphElement

    Gen/TrStructDup.v is REGENERATED from the same file: _nodes_being_relocated, order_last, order_first, order_before,
    order_after, _regenerate_relative_kvapir_order, sort_fields (with its key parameter and the nested _actual_key, whose text is
    asserted), _init_kvpair_fields, iter_keys, kvpair_count, iter_parts and _ensure_final_newline, calling C09's REGENERATED
    LinkedList methods (remove_node, insert_node_before / insert_node_after, append, iteration) on (heap, record of the
    list's attributes).  The Python lists of nodes — the values of self._kvpair_elements, which _nodes_being_relocated hands out and
    its callers change in place — are list OBJECTS: references into a store of lists.

    The model ([Repro.Struct]: relocated, d_order_last, d_order_first, d_order_rel, regenerate, d_sort; [dpara] = the order
    as a list of (node identity, field), the name index, the allocation counter) is at list level.  [d_rep_st st d] =
    "some [io] (model node -> heap node) and [ka] (model node -> pair element) make the state represent d":
    C09's [ll_rep] for the linked structure over the model's order, the store maps each element to its field, the
    dict has the model's entries in the model's order, each list object holding the model's nodes; list objects of
    different entries are different.  Under the model's own invariant (the boolean [wf_dparab]; Props/C10.v,
    C10_byname_consistent: it holds after every history) each regenerated method ends in a state that represents the
    model function's result and raises exactly when the model reports an exception, with the same kind
    ([d_refines]; in particular: no assertion fails, no IndexError / ValueError from the list objects, no OutOfFuel).

    _resolve_to_single_node is regenerated as well (its try/except IndexError, the Ambiguous key error; name tokens
    do not exist in the model) and proved equal to the model's [resolve_single] on list objects.
    Still hand-modelled inside, beyond what the no-duplicates class uses: the Python list methods on list objects (append / remove / insert(0, ..) / len /
    [i] / in / iteration / reversed), reversed(LinkedList) as the reverse of the regenerated iteration, [sorted] with
    all keys computed first. *)

Theorem C10_tie_d_order_last :
  forall hp kvs nls kvd ll d k,
    StructProofs.wf_dparab d = true -> d_rep_st (hp, kvs, nls, kvd, ll) d ->
    d_refines (tr_d_order_last lower hp kvs nls kvd ll k) (d_order_last d k).
Proof. exact d_order_last_refines_b. Qed.
Print Assumptions C10_tie_d_order_last.

Theorem C10_tie_d_order_first :
  forall hp kvs nls kvd ll d k,
    StructProofs.wf_dparab d = true -> d_rep_st (hp, kvs, nls, kvd, ll) d ->
    d_refines (tr_d_order_first lower hp kvs nls kvd ll k) (d_order_first d k).
Proof. exact d_order_first_refines_b. Qed.
Print Assumptions C10_tie_d_order_first.

(** order_before / order_after: the second _nodes_being_relocated (KeyError), reference_nodes[0] / [-1], "reference in the
    nodes being moved" (ValueError), the moves (reversed for order_after), and — one node of a repeated name moved — the
    regenerated index entry *)
Theorem C10_tie_d_order_before :
  forall hp kvs nls kvd ll d k r,
    StructProofs.wf_dparab d = true -> d_rep_st (hp, kvs, nls, kvd, ll) d ->
    d_refines (tr_d_order_before lower hp kvs nls kvd ll k r) (d_order_rel false d k r).
Proof. exact d_order_before_refines_b. Qed.
Print Assumptions C10_tie_d_order_before.

Theorem C10_tie_d_order_after :
  forall hp kvs nls kvd ll d k r,
    StructProofs.wf_dparab d = true -> d_rep_st (hp, kvs, nls, kvd, ll) d ->
    d_refines (tr_d_order_after lower hp kvs nls kvd ll k r) (d_order_rel true d k r).
Proof. exact d_order_after_refines_b. Qed.
Print Assumptions C10_tie_d_order_after.

(** sort_fields(key): newline on the last field, sorted(..., key=_actual_key), then a NEW LinkedList and a new dict filled
    by _init_kvpair_fields (new nodes, new list objects: the abstraction [io], [ka] is a new one) *)
Theorem C10_tie_d_sort_fields :
  forall hp kvs nls kvd ll d key,
    StructProofs.wf_dparab d = true -> d_rep_st (hp, kvs, nls, kvd, ll) d ->
    d_refines (tr_d_sort_fields lower hp kvs nls kvd ll key) (ok (d_sort (the_key key) d)).
Proof. exact d_sort_fields_refines_b. Qed.
Print Assumptions C10_tie_d_sort_fields.

(** _nodes_being_relocated: the model's [relocated] — the same exception kind, or two list objects that hold the model's
    [nodes] and [reloc] (through [io]), the first of them the dict's entry for the key; only new list objects are made *)
Theorem C10_tie_d_nodes_being_relocated :
  forall io ka hp kvs nls kvd ll d k,
    d_inv io ka hp kvs nls kvd ll d ->
    match relocated d k with
    | Err e => exists nls', tr_d_nodes_being_relocated lower hp kvs nls kvd ll k = MErr e (hp, kvs, nls', kvd, ll)
                            /\ d_inv io ka hp kvs nls' kvd ll d
    | Ok (key, nodes, reloc) =>
        exists nls' r r',
          tr_d_nodes_being_relocated lower hp kvs nls kvd ll k = MOk (r, r') (hp, kvs, nls', kvd, ll)
          /\ d_inv io ka hp kvs nls' kvd ll d
          /\ t_get key kvd = Some r /\ nl_get nls' r = Some (map io nodes) /\ nl_get nls' r' = Some (map io reloc)
    end.
Proof. exact d_nodes_being_relocated_rep. Qed.
Print Assumptions C10_tie_d_nodes_being_relocated.

(** _resolve_to_single_node (use_get=False, no name token) on a list object that holds the model's nodes: the model's
    [resolve_single] — the node, AmbiguousDeb822FieldKeyError (a KeyError) or the KeyError of an index out of range *)
Theorem C10_tie_d_resolve_to_single_node :
  forall (io : N -> id) nls r nodes key idx,
    nl_get nls r = Some (map io nodes) ->
    tr_d_resolve_to_single_node nls r key idx None
    = match resolve_single nodes idx false with
      | LOk (Some n) => Ok (Some (io n))
      | LOk None => Ok None
      | LAmb => Err KeyError
      | LErr e => Err e
      end.
Proof. exact tr_d_resolve_model. Qed.
Print Assumptions C10_tie_d_resolve_to_single_node.

Theorem C10_tie_d_regenerate_relative_kvapir_order :
  forall hp kvs nls kvd ll d fname,
    d_rep_st (hp, kvs, nls, kvd, ll) d ->
    d_refines (tr_d_regenerate lower hp kvs nls kvd ll fname)
              (ok (mkD (d_order d) (regenerate fname (d_order d) (d_byname d)) (d_next d))).
Proof. exact d_regenerate_refines. Qed.
Print Assumptions C10_tie_d_regenerate_relative_kvapir_order.

Theorem C10_tie_d_ensure_final_newline :
  forall hp kvs nls kvd ll d,
    d_rep_st (hp, kvs, nls, kvd, ll) d ->
    d_refines (tr_d_ensure_final_newline lower hp kvs nls kvd ll) (ok (d_ensure d)).
Proof. exact d_ensure_refines. Qed.
Print Assumptions C10_tie_d_ensure_final_newline.

(** _init_kvpair_fields on an empty paragraph: the model's [init_kvpairs] (for pair elements that are distinct objects
    holding the fields [fs]) *)
Theorem C10_tie_d_init_kvpair_fields :
  forall hp kvs nls kvl fs nx,
    Forall2 (fun kv f => t_get kv kvs = Some f) kvl fs -> NoDup kvl ->
    d_refines (tr_d_init_kvpair_fields lower hp kvs nls trp_kvdd_empty trp_ll_new kvl)
              (ok (init_kvpairs fs (mkD [] [] nx))).
Proof. exact tr_d_init_refines. Qed.
Print Assumptions C10_tie_d_init_kvpair_fields.

Theorem C10_tie_d_iter_keys :
  forall hp kvs nls kvd ll d,
    d_rep_st (hp, kvs, nls, kvd, ll) d ->
    tr_d_iter_keys lower hp kvs nls kvd ll = Ok (map f_name (map snd (d_order d))).
Proof. exact d_iter_keys_rep. Qed.
Print Assumptions C10_tie_d_iter_keys.

Theorem C10_tie_d_kvpair_count :
  forall hp kvs nls kvd ll d,
    d_rep_st (hp, kvs, nls, kvd, ll) d ->
    tr_d_kvpair_count lower hp kvs nls kvd ll = Ok (Z.of_nat (length (d_order d))).
Proof. exact d_kvpair_count_rep. Qed.
Print Assumptions C10_tie_d_kvpair_count.

(** iter_parts, and with it the fields a state represents ([d_fields]: the regenerated iter_parts, then the store) *)
Theorem C10_tie_d_rep_fields :
  forall hp kvs nls kvd ll d,
    d_rep_st (hp, kvs, nls, kvd, ll) d -> d_fields hp kvs nls kvd ll = Ok (map snd (d_order d)).
Proof. exact d_rep_fields. Qed.
Print Assumptions C10_tie_d_rep_fields.

(** the hypotheses are satisfiable for every list of fields: [d_build fs] (one pair element per field, then the
    regenerated _init_kvpair_fields in the empty heap) ends in a state that represents [init_dup fs] — what the model
    makes of a parsed paragraph with repeated names (Doc.from_kvpairs) —, which satisfies the invariant *)
Theorem C10_tie_d_rep_exists :
  forall fs, d_refines (d_build fs) (ok (init_dup fs)) /\ StructProofs.wf_dparab (init_dup fs) = true.
Proof. exact (fun fs => conj (d_build_rep fs) (d_build_wf fs)). Qed.
Print Assumptions C10_tie_d_rep_exists.

(** non-vacuity: the regenerated code really runs.  "A: 1\n", "b: 2\n", "a: 3\n", "C: 4\n", "B: 5" (no final newline):
    order_last(("a", 0)); order_before("b", "C"); order_first(("A", -1)); order_after("c", ("B", 0)); sort_fields();
    then a refused order_before("a", "A") (ValueError) and order_last("x") (KeyError): after every step the fields read off the
    state are the model's. *)
Example C10_tie_d_runs :
  let A := [65]%N in let a := [97]%N in let B := [66]%N in let b := [98]%N in let C := [67]%N in let c := [99]%N in
  let v := fun (n : N) => [58; 32; n; 10]%N in
  let fs := [mkF [] A (v 49); mkF [] b (v 50); mkF [] a (v 51); mkF [] C (v 52); mkF [] B [58; 32; 53]]%N in
  let rd := fun (st : dst) => let '(hp, kvs, nls, kvd, ll) := st in d_fields hp kvs nls kvd ll in
  let run := fun (r : mres unit dst) => match r with MOk _ st => (rd st, None, Some st) | MErr e st => (rd st, Some e, Some st) end in
  let stp := fun (p : result (list field) * option err * option dst) (f : dst -> mres unit dst) =>
               match p with (_, _, Some st) => run (f st) | _ => p end in
  let m := fun (p : sres dpara) => (Ok (map snd (d_order (snd p))) : result (list field), fst p) in
  let obs := fun (p : result (list field) * option err * option dst) => (fst (fst p), snd (fst p)) in
  let s0 := run (d_build fs) in
  let s1 := stp s0 (fun '(hp, kvs, nls, kvd, ll) => tr_d_order_last lower hp kvs nls kvd ll (KIdx a 0)) in
  let s2 := stp s1 (fun '(hp, kvs, nls, kvd, ll) => tr_d_order_before lower hp kvs nls kvd ll (KStr b) (KStr C)) in
  let s3 := stp s2 (fun '(hp, kvs, nls, kvd, ll) => tr_d_order_first lower hp kvs nls kvd ll (KIdx A (-1))) in
  let s4 := stp s3 (fun '(hp, kvs, nls, kvd, ll) => tr_d_order_after lower hp kvs nls kvd ll (KStr c) (KIdx B 0)) in
  let s5 := stp s4 (fun '(hp, kvs, nls, kvd, ll) => tr_d_sort_fields lower hp kvs nls kvd ll None) in
  let s6 := stp s5 (fun '(hp, kvs, nls, kvd, ll) => tr_d_order_before lower hp kvs nls kvd ll (KStr a) (KStr A)) in
  let s7 := stp s6 (fun '(hp, kvs, nls, kvd, ll) => tr_d_order_last lower hp kvs nls kvd ll (KStr [120]%N)) in
  let d0 := init_dup fs in
  let m1 := d_order_last d0 (KIdx a 0) in
  let m2 := d_order_rel false (snd m1) (KStr b) (KStr C) in
  let m3 := d_order_first (snd m2) (KIdx A (-1)) in
  let m4 := d_order_rel true (snd m3) (KStr c) (KIdx B 0) in
  let m5 := ok (d_sort KDefault (snd m4)) in
  let m6 := d_order_rel false (snd m5) (KStr a) (KStr A) in
  let m7 := d_order_last (snd m6) (KStr [120]%N) in
  (map obs [s0; s1; s2; s3; s4; s5; s6; s7], snd (fst s6), snd (fst s7))
  = (map m [ok d0; m1; m2; m3; m4; m5; m6; m7], Some ValueError, Some KeyError).
Proof. vm_compute. reflexivity. Qed.


(** * Deb822FileElement.append / insert

    Gen/TrStructFile.v is REGENERATED from the same file: append, insert (with its walk over the nodes and the counter of
    paragraphs) and _set_parent, calling C09's REGENERATED LinkedList methods (append, insert_before, tail, iteration of
    the nodes).  A token or element is a reference into a store of the model's items (with the parent pointer);
    Deb822WhitespaceToken('\n') allocates a new one.  [f_rep hp its ll d] = "the state represents the document d" (C09's
    [ll_rep] over references to distinct objects, each holding the model's item).  For a paragraph object [x] holding
    [Para p] that has no parent and is not in the list ([not_in_file]: it is none of the values the regenerated
    iteration yields), append / insert never raise and end in a state that represents the model's f_append d p /
    f_insert d idx p ([f_refines]); a paragraph that has a parent is refused with ValueError, nothing changed.

    Still hand-modelled inside: the item observations (convert_to_text = [item_text], the two isinstance tests,
    paragraph._ensure_final_newline = [ensure_item], the whitespace token = [WSNL]), parent_element as a field of the
    store, str.endswith. *)

Theorem C10_tie_f_append :
  forall hp its ll d x p,
    f_rep hp its ll d -> it_get its x = Some (mkIt (Para p) None) -> not_in_file hp ll x ->
    f_refines (tr_f_append hp its ll x) (f_append d p).
Proof. exact f_append_refines. Qed.
Print Assumptions C10_tie_f_append.

Theorem C10_tie_f_append_refused :
  forall hp its ll d x it par,
    f_rep hp its ll d -> it_get its x = Some (mkIt it (Some par)) ->
    tr_f_append hp its ll x = MErr ValueError (hp, its, ll).
Proof. exact f_append_has_parent. Qed.
Print Assumptions C10_tie_f_append_refused.

Theorem C10_tie_f_insert :
  forall hp its ll d idx x p,
    f_rep hp its ll d -> it_get its x = Some (mkIt (Para p) None) -> not_in_file hp ll x ->
    f_refines (tr_f_insert hp its ll idx x) (f_insert d idx p).
Proof. exact f_insert_refines. Qed.
Print Assumptions C10_tie_f_insert.

(** the document a state represents can be read off it; the empty file represents the empty document *)
Theorem C10_tie_f_rep_doc :
  forall hp its ll d, f_rep hp its ll d -> f_doc hp its ll = Ok d.
Proof. exact f_rep_doc. Qed.
Print Assumptions C10_tie_f_rep_doc.

Theorem C10_tie_f_rep_empty :
  forall hp its, f_rep hp its ll_empty [].
Proof. exact f_rep_empty. Qed.
Print Assumptions C10_tie_f_rep_empty.

(** non-vacuity: the regenerated code really runs.  Three paragraph objects ("A: 1" without a final newline, "B: 2\n",
    "C: 3\n") and an empty file: append(p0); append(p1); insert(1, p2); append(p1) again is refused (ValueError); the items read off
    the final state are the model's. *)
Example C10_tie_f_runs :
  let fld := fun (n v : N) (nl : bool) => mkF [] [n] ([58; 32; v] ++ (if nl then [10] else []))%N in
  let p0 := PN [fld 65 49 false]%N in let p1 := PN [fld 66 50 true]%N in let p2 := PN [fld 67 51 true]%N in
  let its := [mkIt (Para p0) None; mkIt (Para p1) None; mkIt (Para p2) None] in
  let stp := fun (r : mres unit fst3) (f : fst3 -> mres unit fst3) => match r with MOk _ st => f st | MErr e st => MErr e st end in
  let r3 := stp (stp (tr_f_append heap0 its ll_empty (it_ref 0))
                     (fun '(hp, its, ll) => tr_f_append hp its ll (it_ref 1)))
                (fun '(hp, its, ll) => tr_f_insert hp its ll 1 (it_ref 2)) in
  match r3 with
  | MOk _ (hp, its', ll) =>
      (f_doc hp its' ll, match tr_f_append hp its' ll (it_ref 1) with MErr e _ => Some e | MOk _ _ => None end)
  | MErr e _ => (Err e, None)
  end
  = (Ok (f_insert (f_append (f_append [] p0) p1) 1 p2), Some ValueError).
Proof. vm_compute. reflexivity. Qed.
