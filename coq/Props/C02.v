(** C02 — statements (being written). *)
From Verif Require Import Lib.Base Lib.PyStr Deb822.Model Deb822.Spec.
