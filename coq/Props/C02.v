(** C02 — Deb822 paragraphs survive dump and re-parse, whatever the input form.
    Only statements; every proof is [exact <lemma>] (lemmas in Deb822/Proofs*.v).

    Model: Deb822/Model.v (the functions [agree] of Deb822/Check.v runs: [dump],
    [deb822_new], [iter_paragraphs], [iter_lines], [init_of], [lines_of]).
    Spec: Deb822/Spec.v ([valid_para], [expected_para] are what [holds] uses;
    the document shapes [block], [valid_blocks], [doc_lines], [armor_lines],
    [forms_of] are the property's quantifier).

    Vocabulary.  A paragraph [d] is a list of (name, value); [valid_para d]:
    policy-valid names pairwise distinct ignoring case, first line of each value
    arbitrary text without line-boundary characters, continuation lines starting
    with space/tab, containing a non-blank character, without line-boundary
    characters.  [expected_para d]: the same names in the same order, values with
    the first line trimmed.  [ws] is the strict setting
    whitespace-separates-paragraphs; [c] is the class (Deb822 | Dsc/Changes).
    A [block] is a paragraph, optionally wrapped in a clearsign envelope
    ([armor]: padding after the three armour lines, header lines, signature
    lines), followed by its separating blank lines.

    Limits of the model that the statements inherit (Model.v header, harness
    ASSUMPTIONS): bytes inputs are the code points of their UTF-8 decoding (codec
    not modelled); names compare by ASCII lower-casing; for Dsc/Changes
    ([CGpgMv]) the model is claimed faithful only for field names outside the
    _multivalued_fields tables (Files, Checksums-*: property C12). *)
From Coq Require Import String.
From Verif Require Import Lib.Base Lib.Dec Lib.PyStr Gen.PyChars
  Deb822.Model Deb822.Spec Deb822.ProofsStr Deb822.ProofsConsume Deb822.Proofs Deb822.ProofsMore Deb822.ProofsGpgMv Deb822.ProofsGpgMv2
  Deb822.Check Deb822.CheckProofs.

(** 0. dump() writes the Policy lines of the paragraph: "Name: first" (no blank
       after the colon when the first line is empty), then the continuation lines. *)
Theorem C02_dump_lines :
  forall d, valid_para d = true -> dump d = unlines (para_lines d).
Proof. exact dump_lines. Qed.

(** 1. dump_parse_para: parse (dump p) = trim_first p, for the constructor of
       either class, either strictness. *)
Theorem C02_dump_parse_para :
  forall c ws d, valid_para d = true ->
    deb822_new c ws (InStr (dump d)) = Ok (expected_para d).
Proof. exact dump_parse_para. Qed.

(** 2. dump_parse_doc: a document = optional leading blank lines, then any number
       of blocks (dumped paragraph, optionally clearsigned, followed by >= 1 blank
       lines; none needed after the last or after a signed one), read with
       iter_paragraphs, gives the paragraphs back in order, first lines trimmed. *)
Theorem C02_dump_parse_doc :
  forall c ws lead bs,
    forallb ws_line lead = true -> valid_blocks ws bs = true ->
    iter_paragraphs c ws (InStr (doc_text lead bs))
    = Ok (map (fun b => expected_para (b_para b)) bs).
Proof. exact dump_parse_doc. Qed.

(** 3. input_form_invariant: for ANY logical lines without line-boundary
       characters (not only valid documents), the five physical forms - str,
       bytes (code points of the UTF-8 decoding, see Model.v), file object, list
       of lines without and with line ends - with LF or CRLF line ends, are read
       identically, by iter_paragraphs of both classes and by Deb822(...). *)
Theorem C02_input_form_invariant :
  forall c ws crlf ls i,
    forallb no_linebreak ls = true -> In i (forms_of crlf ls) ->
    iter_paragraphs c ws i = iter_lines c ws ls.
Proof. exact iter_paragraphs_forms. Qed.

Theorem C02_input_form_invariant_constructor :
  forall ws crlf ls i,
    forallb no_linebreak ls = true -> In i (forms_of crlf ls) ->
    deb822_new CDeb822 ws i = fst (deb822_init ws ls).
Proof. exact deb822_new_forms. Qed.

(** ... and when the text does not end with a line end (last line [last]
    non-empty; a text whose last line is empty is the previous case). *)
Theorem C02_input_form_invariant_nofinal :
  forall c ws crlf init last i,
    forallb no_linebreak (init ++ [last]) = true -> is_nil' last = false ->
    In i (forms_nofinal crlf init last) ->
    iter_paragraphs c ws i = iter_lines c ws (init ++ [last]).
Proof.
  intros c ws crlf init last i H Hne. apply iter_paragraphs_forms_nofinal; [exact H|].
  now destruct last.
Qed.

(** The core of it: a physical line is boundary-free text followed by any run of
    CR/LF characters ([line_ok]); the reader's result depends only on the lines
    with those runs removed ([chomp]). *)
Theorem C02_line_ends_irrelevant :
  forall c ws ls,
    forallb line_ok ls = true -> iter_lines c ws (map chomp ls) = iter_lines c ws ls.
Proof. exact iter_lines_chomp. Qed.

(** 4. armor_invariant: one valid paragraph inside a clearsign envelope
       (BEGIN PGP SIGNED MESSAGE, >= 0 header lines, blank, payload, BEGIN PGP
       SIGNATURE, any signature lines, END) is read as the bare paragraph is, and
       the reader stops exactly behind the END line. *)
Theorem C02_armor_invariant :
  forall c ws lead a d rest,
    forallb ws_line lead = true -> valid_armor ws a = true -> valid_para d = true ->
    is_nil' d = false ->
    init_of c ws (lead ++ armor_lines a (para_lines d) ++ rest) = (Ok (expected_para d), rest)
    /\ fst (init_of c ws (lead ++ para_lines d)) = Ok (expected_para d).
Proof.
  intros c ws lead a d rest H1 H2 H3 Hne. apply armor_invariant; try assumption.
  now destruct d.
Qed.

(** ... and at the level of Deb822.split_gpg_and_payload (raw iterator): the
    payload is exactly the paragraph's lines, signed or not. *)
Theorem C02_armor_payload :
  forall ws lead a d rest,
    forallb ws_line lead = true -> valid_armor ws a = true -> valid_para d = true ->
    is_nil' d = false ->
    exists pre post,
      split_gpg_and_payload ws (lead ++ armor_lines a (para_lines d) ++ rest)
      = (Ok (pre, para_lines d, post), rest).
Proof.
  intros ws lead a d rest H1 H2 H3 Hne. apply split_payload_armor; try assumption.
  now destruct d.
Qed.

Theorem C02_plain_payload :
  forall ws lead d sep rest,
    forallb ws_line lead = true -> valid_para d = true -> is_nil' d = false ->
    sep_line ws sep = true ->
    split_gpg_and_payload ws (lead ++ para_lines d ++ sep :: rest) = (Ok ([], para_lines d, []), rest)
    /\ split_gpg_and_payload ws (lead ++ para_lines d) = (Ok ([], para_lines d, []), []).
Proof.
  intros ws lead d sep rest H1 H2 Hne H3. apply split_payload_plain; try assumption.
  now destruct d.
Qed.

(** 5. comments_ignored: for Deb822, on ANY line list, comment lines are
       invisible: the result is that of the list with every '#' line removed
       (so inserting '#' lines anywhere changes nothing). *)
Theorem C02_comments_ignored :
  forall ws ls,
    iter_lines CDeb822 ws ls = iter_lines CDeb822 ws (filter not_comment ls).
Proof. exact iter_lines_comments. Qed.

Theorem C02_comments_ignored_constructor :
  forall ws ls,
    fst (deb822_init ws ls) = fst (deb822_init ws (filter not_comment ls)).
Proof. exact deb822_init_comments. Qed.

(** 6. The property as one statement: a document of valid blocks, plain or
       clearsigned, with comment lines inserted anywhere ([ls] is any line list
       whose non-comment lines are the document's - so also whole blocks of
       comment lines between blank lines), presented in any input form with LF or
       CRLF line ends, reads back through iter_paragraphs of Deb822, Dsc and
       Changes, under either strictness, as its paragraphs with first lines
       trimmed.  (For Dsc/Changes this is the code after the fixes D25: commits
       33b1652 and 3b20027.) *)
Theorem C02_roundtrip_any_form :
  forall c ws crlf lead bs ls i,
    forallb ws_line lead = true -> valid_blocks ws bs = true ->
    forallb no_linebreak ls = true -> filter not_comment ls = doc_lines lead bs ->
    In i (forms_of crlf ls) ->
    iter_paragraphs c ws i = Ok (map (fun b => expected_para (b_para b)) bs).
Proof. exact roundtrip_any_form_any_class. Qed.

(** Both classes, without comment lines, either strictness (blank lines after
    the first separator may contain spaces/tabs also under
    whitespace-separates-paragraphs=False). *)
Theorem C02_roundtrip_any_form_nocomment :
  forall c ws crlf lead bs i,
    forallb ws_line lead = true -> valid_blocks ws bs = true ->
    In i (forms_of crlf (doc_lines lead bs)) ->
    iter_paragraphs c ws i = Ok (map (fun b => expected_para (b_para b)) bs).
Proof. exact roundtrip_any_form_nocomment. Qed.

(** comments_ignored for Dsc/Changes on line lists: the result is that of the
    document without the comment lines.  (Unlike [C02_comments_ignored] this is
    stated for valid documents only: _gpg_multivalued.__init__ delimits the
    block on the RAW lines, so on malformed input - e.g. a blank line inside a
    signed payload - a comment line can still change where a block ends; see
    the Example [C02_dsc_changes_malformed_remark].) *)
Theorem C02_comments_ignored_dsc_changes :
  forall ws lead bs ls,
    forallb ws_line lead = true -> valid_blocks ws bs = true ->
    forallb no_linebreak ls = true -> filter not_comment ls = doc_lines lead bs ->
    iter_lines CGpgMv ws ls = Ok (map (fun b => expected_para (b_para b)) bs).
Proof. exact iter_lines_gpgmv_comments. Qed.

(** The constructor cls(sequence) on a whole document reads its first paragraph:
    for both classes in every form without comment lines, and for Deb822 with
    comment lines anywhere. *)
Theorem C02_constructor_reads_first :
  forall c ws crlf lead b bs i,
    forallb ws_line lead = true -> valid_blocks ws (b :: bs) = true ->
    In i (forms_of crlf (doc_lines lead (b :: bs))) ->
    deb822_new c ws i = Ok (expected_para (b_para b)).
Proof. exact deb822_new_doc. Qed.

Theorem C02_constructor_reads_first_comments :
  forall ws crlf lead b bs ls i,
    forallb ws_line lead = true -> valid_blocks ws (b :: bs) = true ->
    forallb no_linebreak ls = true -> filter not_comment ls = doc_lines lead (b :: bs) ->
    In i (forms_of crlf ls) ->
    deb822_new CDeb822 ws i = Ok (expected_para (b_para b)).
Proof. exact deb822_new_doc_comments. Qed.

(** ... and for both classes with comment lines anywhere (the str/bytes
    constructor of Dsc/Changes filters comments before splitting, the list/file
    constructor after - since D25 with the same result). *)
Theorem C02_constructor_reads_first_comments_any :
  forall c ws crlf lead b bs ls i,
    forallb ws_line lead = true -> valid_blocks ws (b :: bs) = true ->
    forallb no_linebreak ls = true -> filter not_comment ls = doc_lines lead (b :: bs) ->
    In i (forms_of crlf ls) ->
    deb822_new c ws i = Ok (expected_para (b_para b)).
Proof. exact deb822_new_doc_comments_any. Qed.

(** 7. The fuel of the model's loops (paragraph loop, comment-block loop of
       Dsc/Changes) is never exhausted: [OutOfFuel] is not a possible result of
       [iter_paragraphs]. *)
Theorem C02_no_fuel_error :
  forall c ws i, iter_paragraphs c ws i <> Err OutOfFuel.
Proof. intros c ws i. exact (iter_lines_no_fuel_error c ws (lines_of i)). Qed.

Theorem C02_no_fuel_error_constructor :
  forall c ws i, deb822_new c ws i <> Err OutOfFuel.
Proof.
  intros c ws i H. destruct (deb822_new_init c ws i) as [c' E]. rewrite E in H.
  discriminate (init_of_err c' ws _ _ H).
Qed.

(** 8. The bridge between the correspondence and the property: on every case of
       the check (Deb822/Check.v) on which the implementation behaved like the
       model ([agree]), the property as [holds] judges it on the observation is
       true.

       Side condition.  [holds] compares the observation with [expected_para] of
       the GENERATED paragraphs ([paras]), [agree] compares it with what the
       model reads from [input]; the [case] type does not tie [input] to [paras]
       (the harness builds the one from the other, the type allows any pair), so
       without a condition on that pair the implication is false (Example
       [C02_agree_implies_holds_nonvacuous], second half).  [judged c]
       (Deb822/CheckProofs.v): the model, run on [input], returns the expected
       paragraphs.  It is the weakest such condition: under [agree], [holds c]
       and [judged c] are the same boolean ([agree_holds_iff_judged]).  It is
       [true] on every constructor other than [Doc], on malformed-stream cases
       ([paras = None]) and when a generated paragraph is not [valid_para] or is
       empty (there [holds] is [true] by definition). *)
Theorem C02_agree_implies_holds :
  forall c, judged c = true -> agree c = true -> holds c = true.
Proof. exact agree_implies_holds. Qed.

(** ... and with the side condition phrased against the Spec alone, which is
    where the property theorems come in.  [judged_spec c]: every physical line
    of [input] is boundary-free text followed by CR/LF characters only
    ([line_ok]: covers LF, CRLF, mixed and missing final line ends, all eight
    input forms), and the lines with their line ends and the comment lines
    removed are [doc_lines lead bs] for blank lines [lead] and a [valid_blocks]
    list [bs] - plain or clearsigned, separated by blank lines - whose paragraphs
    are the generated ones, in order (for the constructor: at least one).  The
    witness ([lead], [bs]) is computed by a recogniser and then checked by these
    very predicates, so nothing is assumed about the recogniser.  Proof:
    [judged_spec c = true -> judged c = true] by 6 ([roundtrip_any_form_any_class]
    on the logical lines, [iter_lines_chomp]) for iter_paragraphs, and by
    [init_of_block] / [commented_doc_structure] / [gpgmv_init_cblock] for the
    constructor. *)
Theorem C02_agree_implies_holds_spec :
  forall c, judged_spec c = true -> agree c = true -> holds c = true.
Proof. exact agree_implies_holds_spec. Qed.

(** * Non-vacuity *)

Definition ex_d1: list (str * str) :=
  [(dec "Package", dec "  foo \000009");
   (dec "Description", dec "short\00000a long: line\00000a .\00000a \000009#not a comment");
   (dec "X-Empty", dec "");
   (dec "x-Multi", dec "\00000a first is empty")].
Definition ex_d2 : list (str * str) :=
  [(dec "Source", dec ":-#"); (dec "Version", dec "1.0-1\0000a0")].
Definition ex_armor : armor :=
  mkArmor (dec " ") (dec "") (dec "\000009") [dec "Hash: SHA256"] (dec "")
          [dec ""; dec "iQEzBAEBCAAdFiEE"; dec "=AbCd"].
Definition ex_blocks : list block :=
  [mkBlock ex_d1 None [dec ""; dec " \000009"]; mkBlock ex_d2 (Some ex_armor) []; mkBlock ex_d1 None []].
Definition ex_lead : list str := [dec ""; dec "  "].
(** the document's lines with comment lines inserted, also inside the envelope *)
Definition ex_commented : list str :=
  let ls := doc_lines ex_lead ex_blocks in
  dec "# leading comment" :: firstn 3 ls ++ dec "#K: v" :: firstn 8 (skipn 3 ls)
  ++ dec "#-----BEGIN PGP SIGNATURE-----" :: skipn 11 ls ++ [dec "#"].

Example C02_nonvacuous :
  valid_para ex_d1 = true /\ valid_para ex_d2 = true
  /\ valid_armor true ex_armor = true
  /\ forallb ws_line ex_lead = true /\ valid_blocks true ex_blocks = true
  /\ forallb no_linebreak ex_commented = true
  /\ filter not_comment ex_commented = doc_lines ex_lead ex_blocks
  /\ List.length ex_commented = 34%nat
  /\ expected_para ex_d1 <> ex_d1
  /\ deb822_new CDeb822 false (InStr (dump ex_d1)) = Ok (expected_para ex_d1)
  /\ forallb (fun i => result_eqb (list_eqb (list_eqb (pair_eqb str_eqb str_eqb)))
                         (iter_paragraphs CDeb822 true i)
                         (Ok [expected_para ex_d1; expected_para ex_d2; expected_para ex_d1]))
             (forms_of true ex_commented) = true.
Proof. vm_compute. repeat split; try reflexivity; discriminate. Qed.

(** Dsc/Changes on the same commented document (it begins with a block of
    comment lines closed by blank lines); strictness False with a comment line, a
    whitespace-only line and an empty line between paragraphs; a text without
    final line end; the constructor *)
Definition ex_blocks2 : list block := [mkBlock ex_d2 None [dec ""; dec " "; dec ""]; mkBlock ex_d1 None []].
Definition ex_commented2 : list str :=
  dec "#a" :: dec "" :: para_lines ex_d2 ++ dec "" :: dec "#b" :: dec " " :: dec "#c" :: dec "" :: para_lines ex_d1.

Example C02_nonvacuous_dsc_changes :
  forallb (fun i => result_eqb (list_eqb (list_eqb (pair_eqb str_eqb str_eqb)))
                         (iter_paragraphs CGpgMv true i)
                         (Ok [expected_para ex_d1; expected_para ex_d2; expected_para ex_d1]))
             (forms_of false ex_commented) = true
  /\ valid_blocks false ex_blocks2 = true
  /\ filter not_comment ex_commented2 = doc_lines [dec ""] ex_blocks2
  /\ forallb no_linebreak ex_commented2 = true
  /\ iter_lines CGpgMv false ex_commented2 = Ok [expected_para ex_d2; expected_para ex_d1]
  /\ deb822_new CGpgMv false (InLines ex_commented2) = Ok (expected_para ex_d2)
  /\ forallb no_linebreak (para_lines ex_d1 ++ para_lines ex_d2) = true
  /\ forallb (fun i => result_eqb (list_eqb (list_eqb (pair_eqb str_eqb str_eqb)))
                         (iter_paragraphs CGpgMv true i)
                         (iter_lines CGpgMv true (para_lines ex_d1 ++ [dec ""; dec "K: v"])))
             (forms_nofinal true (para_lines ex_d1 ++ [dec ""]) (dec "K: v")) = true
  /\ deb822_new CGpgMv true (InLines (doc_lines ex_lead ex_blocks)) = Ok (expected_para ex_d1).
Proof. vm_compute. repeat split; reflexivity. Qed.

(** The two shapes of defect D25, found by this model and repaired in /repo
    (33b1652, 3b20027): before, both results for Dsc/Changes stopped early. *)
Example C02_dsc_changes_comment_blocks :
  iter_lines CGpgMv true [dec "#c"; dec ""; dec "K: v"] = Ok [[(dec "K", dec "v")]]
  /\ iter_lines CGpgMv false [dec "K: v"; dec ""; dec "#c"; dec " "; dec ""; dec "L: w"]
     = Ok [[(dec "K", dec "v")]; [(dec "L", dec "w")]].
Proof. vm_compute. split; reflexivity. Qed.

(** Outside the property's domain (a blank line inside a signed payload is not a
    valid paragraph): there a comment line before the envelope still changes
    what Dsc/Changes read from lines - which is why [C02_comments_ignored] (ANY
    line list) is a theorem for Deb822 only. *)
Example C02_dsc_changes_malformed_remark :
  let ls := [dec "-----BEGIN PGP SIGNED MESSAGE-----"; dec ""; dec "A: b"; dec ""; dec "C: d";
             dec "-----BEGIN PGP SIGNATURE-----"; dec "-----END PGP SIGNATURE-----"] in
  iter_lines CGpgMv true ls = Ok [[(dec "A", dec "b"); (dec "C", dec "d")]]
  /\ iter_lines CGpgMv true (dec "#c" :: ls) = Ok [[(dec "A", dec "b")]; [(dec "C", dec "d")]]
  /\ iter_lines CDeb822 true (dec "#c" :: ls) = Ok [[(dec "A", dec "b"); (dec "C", dec "d")]].
Proof. vm_compute. repeat split; reflexivity. Qed.

(** Two real cases (observations copied from runs of the implementation) meet
    the hypotheses of 8 in both phrasings: Dsc.iter_paragraphs, strictness
    False, on a list of CRLF-terminated lines without final line end - a
    leading blank line, a comment-only block, a clearsigned paragraph with a
    comment line inside the armour header, comment and whitespace lines in the
    gap, a comment line inside the second paragraph; and the constructor
    Changes(binary file) on the first half.  And the side condition cannot be
    dropped: a case whose [input] is not a document of its [paras] has
    [agree = true] and [holds = false]. *)
Local Open Scope string_scope.
Example C02_agree_implies_holds_nonvacuous :
  let c1 := Doc 1%N false false 2%N
    (Some [[("Source", "  foo \000009"); ("Description", "short\00000a long: line\00000a .")];
           [("x-Multi", "\00000a first is empty")]])
    ["Source:   foo \000009\00000aDescription: short\00000a long: line\00000a .\00000a";
     "x-Multi:\00000a first is empty\00000a"]
    [" \00000d\00000a"; "#block\00000d\00000a"; "\00000d\00000a";
     "-----BEGIN PGP SIGNED MESSAGE----- \00000d\00000a"; "Hash: SHA256\00000d\00000a"; "#K: v\00000d\00000a";
     "\00000d\00000a"; "Source:   foo \000009\00000d\00000a"; "Description: short\00000d\00000a";
     " long: line\00000d\00000a"; " .\00000d\00000a"; "-----BEGIN PGP SIGNATURE----- \00000d\00000a";
     "\00000d\00000a"; "iQEzBAEBCAAdFiEE\00000d\00000a"; "=AbCd\00000d\00000a";
     "-----END PGP SIGNATURE----- \00000d\00000a"; "\00000d\00000a"; "# c\00000d\00000a"; " \00000d\00000a";
     "\00000d\00000a"; "x-Multi:\00000d\00000a"; "##\00000d\00000a"; " first is empty"]
    (Ok [[("Source", "foo"); ("Description", "short\00000a long: line\00000a .")];
         [("x-Multi", "\00000a first is empty")]]) in
  let c2 := Doc 2%N false true 5%N
    (Some [[("Source", "  foo \000009"); ("Description", "short\00000a long: line\00000a .")]])
    ["Source:   foo \000009\00000aDescription: short\00000a long: line\00000a .\00000a"]
    [" \00000d\00000a#block\00000d\00000a\00000d\00000a-----BEGIN PGP SIGNED MESSAGE----- \00000d\00000aHash: SHA256\00000d\00000a#K: v\00000d\00000a\00000d\00000aSource:   foo \000009\00000d\00000aDescription: short\00000d\00000a long: line\00000d\00000a .\00000d\00000a-----BEGIN PGP SIGNATURE----- \00000d\00000a\00000d\00000aiQEzBAEBCAAdFiEE\00000d\00000a=AbCd\00000d\00000a-----END PGP SIGNATURE----- "]
    (Ok [[("Source", "foo"); ("Description", "short\00000a long: line\00000a .")]]) in
  let wrong := Doc 0%N true false 0%N (Some [[("A", "b")]]) ["A: b\00000a"] ["X: y\00000a"] (Ok [[("X", "y")]]) in
  (judged_spec c1 = true /\ judged c1 = true /\ agree c1 = true /\ holds c1 = true)
  /\ (judged_spec c2 = true /\ judged c2 = true /\ agree c2 = true /\ holds c2 = true)
  /\ (judged wrong = false /\ judged_spec wrong = false /\ agree wrong = true /\ holds wrong = false).
Proof. vm_compute. repeat split. Qed.

Print Assumptions C02_dump_lines.
Print Assumptions C02_dump_parse_para.
Print Assumptions C02_dump_parse_doc.
Print Assumptions C02_input_form_invariant.
Print Assumptions C02_input_form_invariant_constructor.
Print Assumptions C02_input_form_invariant_nofinal.
Print Assumptions C02_line_ends_irrelevant.
Print Assumptions C02_armor_invariant.
Print Assumptions C02_armor_payload.
Print Assumptions C02_plain_payload.
Print Assumptions C02_comments_ignored.
Print Assumptions C02_comments_ignored_constructor.
Print Assumptions C02_roundtrip_any_form.
Print Assumptions C02_roundtrip_any_form_nocomment.
Print Assumptions C02_comments_ignored_dsc_changes.
Print Assumptions C02_constructor_reads_first.
Print Assumptions C02_constructor_reads_first_comments.
Print Assumptions C02_constructor_reads_first_comments_any.
Print Assumptions C02_no_fuel_error.
Print Assumptions C02_no_fuel_error_constructor.
Print Assumptions C02_agree_implies_holds.
Print Assumptions C02_agree_implies_holds_spec.
