(** C16 — Copyright: a file resolves to the last Files paragraph whose glob matches it.
    Only statements; every proof is [exact <lemma>] or a short composition.

    Model: Copyright/Glob.v (+ Fields.v); spec: Copyright/GlobSpec.v; proofs: Copyright/GlobProofs.v. *)
From Coq Require Import String.
From Verif Require Import Lib.Base Lib.Dec Lib.PyStr Gen.PyChars
  Copyright.Fields Copyright.Glob Copyright.GlobSpec Copyright.GlobProofs
  Copyright.GlobCheck Copyright.GlobCheckProofs.

Definition is_nil {A} (l : list A) : bool := match l with [] => true | _ => false end.

(** 1. matches_iff_some_glob.  For every list of patterns that converts without
       error, the compiled expression (as the code assembles it: '\Z' only after the
       last alternative, DOTALL) fullmatches a name exactly when some pattern
       glob-matches the whole name.  No bound on the number or length of patterns,
       no restriction on the characters of the name (LF and '/' included). *)
Theorem C16_matches_iff_some_glob :
  forall gs re, globs_to_re gs = Ok re -> is_nil gs = false ->
  forall n, re_fullmatch re n = existsb (fun g => glob_match g n) gs.
Proof.
  intros gs re H Hne n. rewrite (globs_to_re_fullmatch gs re H).
  destruct gs; [discriminate|reflexivity].
Qed.

(** the conversion succeeds on every well-formed list *)
Theorem C16_valid_globs_convert :
  forall gs, is_ok (globs_to_re gs) = forallb glob_valid gs.
Proof. exact globs_to_re_ok_iff. Qed.

(** The one edge, stated: with no pattern at all the expression is just '\Z' (or the
    class default ''), which fullmatches the empty name and nothing else. *)
Theorem C16_no_pattern_edge :
  forall re, globs_to_re [] = Ok re -> forall n, re_fullmatch re n = is_nil n.
Proof. intros re H n. rewrite (globs_to_re_fullmatch [] re H). destruct n; reflexivity. Qed.

(** The same at the level of FilesParagraph.matches, for a paragraph in any cache
    state reachable from the constructor ([cache_ok], see theorem 4): the answer is a
    function of the current Files text. *)
Theorem C16_paragraph_matches :
  forall fp t name,
    cache_ok fp = true ->
    dget (fp_data fp) FILES = Some t ->
    forallb glob_valid (patterns_of t) = true ->
    is_nil (patterns_of t) = false ->
    snd (fp_matches fp name) = Ok (files_match (patterns_of t) name).
Proof.
  intros fp t name Hc Ht Hv Hne. rewrite (fp_matches_spec fp t name Hc Ht), Hv.
  destruct (patterns_of t); [discriminate|reflexivity].
Qed.

(** 2. bad_escape_rejected.  A list converts with a format error — and with no other
       error — exactly when one of its patterns is ill-formed; ill-formed means: a
       backslash at the very end, or a backslash before anything but * ? \ . *)
Theorem C16_bad_escape_rejected :
  forall gs, forallb glob_valid gs = false <-> globs_to_re gs = Err FormatError.
Proof. exact globs_to_re_rejects. Qed.

Theorem C16_only_format_errors :
  forall gs e, globs_to_re gs = Err e -> e = FormatError.
Proof. exact globs_to_re_err. Qed.

Theorem C16_trailing_backslash_ill_formed :
  forall p, glob_valid p = true -> glob_valid (p ++ [BSLASH]) = false.
Proof. exact trailing_backslash_invalid. Qed.

Theorem C16_other_escape_ill_formed :
  forall p c rest, glob_valid p = true -> escapable c = false ->
    glob_valid (p ++ BSLASH :: c :: rest) = false.
Proof. exact other_escape_invalid. Qed.

Theorem C16_paragraph_bad_escape :
  forall fp t name,
    cache_ok fp = true ->
    dget (fp_data fp) FILES = Some t ->
    forallb glob_valid (patterns_of t) = false ->
    snd (fp_matches fp name) = Err FormatError.
Proof.
  intros fp t name Hc Ht Hv. now rewrite (fp_matches_spec fp t name Hc Ht), Hv.
Qed.

(** 3. find_last_match.  In a document whose Files paragraphs all carry well-formed
       pattern lists [pss] (License paragraphs in between are skipped),
       find_files_paragraph returns [last_match pss name]; and [last_match] is the
       position of the last paragraph one of whose patterns matches, or None when
       none does.  ([no_empty_edge]: the empty name against a paragraph without
       patterns is the edge of theorem 1.) *)
Theorem C16_find_last_match :
  forall ps pss name,
    forallb para_cache_ok ps = true ->
    doc_patterns (erase ps) = Some pss ->
    forallb (forallb glob_valid) pss = true ->
    no_empty_edge pss name = true ->
    snd (find_files_paragraph ps name) = Ok (last_match pss name).
Proof. exact find_last_match_doc. Qed.

Theorem C16_last_match_is_last :
  forall pss name i,
    last_match pss name = Some i <->
    (exists ps, nth_error pss i = Some ps /\ files_match ps name = true)
    /\ (forall j ps, (i < j)%nat -> nth_error pss j = Some ps -> files_match ps name = false).
Proof. exact last_match_some. Qed.

Theorem C16_last_match_none :
  forall pss name,
    last_match pss name = None <->
    (forall j ps, nth_error pss j = Some ps -> files_match ps name = false).
Proof. exact last_match_none. Qed.

(** 4. cache_transparent.  Over ANY history of `files` assignments (through the
       property or on the wrapped Deb822 object), matches() and
       find_files_paragraph() calls, starting from any document whose caches are in a
       reachable state, every answer and every stored field equals what the cacheless
       reading ([nrun]: convert the current Files text, then match) gives. *)
Theorem C16_cache_transparent :
  forall ops ps,
    forallb para_cache_ok ps = true ->
    erase (fst (run ps ops)) = fst (nrun (erase ps) ops)
    /\ snd (run ps ops) = snd (nrun (erase ps) ops).
Proof. exact run_nocache. Qed.

(** freshly constructed paragraphs are in a reachable cache state *)
Theorem C16_fresh_cache_ok : forall d, cache_ok (fp_new d) = true.
Proof. exact cache_ok_new. Qed.

(** Non-vacuity: the document of D13 — 'debian/rules src/*', a License paragraph,
    'src/a* src/b?' on a continuation line — meets every hypothesis above, and the
    model answers as the glob semantics says (in particular 'debian/rules.in' is not
    matched, 'src/a<LF>' is). *)
Local Open Scope string_scope.
Example C16_nonvacuous :
  let str (x : String.string) := Lib.Dec.dec x in
  let f1 := str "debian/rules src/*" in
  let f2 := (str "src/a*" ++ [LF; SP] ++ str "src/b?")%list in
  let ps := [PFiles (fp_new [(FILES, f1)]); PLicense []; PFiles (fp_new [(FILES, f2)])] in
  let pss := [patterns_of f1; patterns_of f2] in
  forallb para_cache_ok ps = true
  /\ doc_patterns (erase ps) = Some pss
  /\ forallb (forallb glob_valid) pss = true
  /\ pss = [[str "debian/rules"; str "src/*"]; [str "src/a*"; str "src/b?"]]
  /\ snd (run ps [OFind (str "debian/rules.in"); OFind (str "debian/rules"); OFind (str "src/ab");
                  OMatch 1 (str "src/a" ++ [LF])%list; OAssign 1 [[BSLASH; STAR]]; OFind (str "src/ab");
                  OMatch 1 (str "*"); OAssign 0 [[97; BSLASH; 98]%N]; OFind (str "x")])
     = [RIdx None; RIdx (Some 0%nat); RIdx (Some 1%nat); RBool true; RUnit; RIdx (Some 0%nat);
        RBool true; RUnit; RErr FormatError].
Proof. vm_compute. repeat split. Qed.

(** 5. The bridge between the correspondence and the property: on EVERY case of the
       check (Copyright/GlobCheck.v: histories, direct globs_to_re calls, regex leaf
       cases, exhaustive name sweeps) on which the implementation behaved like the
       model ([agree]), the property as [holds] judges it on the observation, against
       GlobSpec, is true.  No side condition: [holds] consults no observation that
       [agree] does not compare.  (Copyright/GlobCheckProofs.v; rests on
       [globs_to_re_fullmatch], [globs_to_re_ok_iff], [globs_to_re_rejects],
       [fp_matches_nocache], [step_nocache], [find_last_match_doc].) *)
Theorem C16_agree_implies_holds : forall c, agree c = true -> holds c = true.
Proof. exact agree_implies_holds. Qed.

(** Non-vacuity: a history (find, then a matches call that hits the cache) and a
    sweep over all names of length <= 1 satisfy [agree]. *)
Example C16_agree_nonvacuous :
  agree (CHist [IFiles (Some "src/* a?")] [COFind "src/x"; COMatch 0 "ab"; COFind ""]
           [mkObs [Some "src/* a?"] (RIdx (Some 0%nat)); mkObs [Some "src/* a?"] (RBool true);
            mkObs [Some "src/* a?"] (RIdx None)]
           [PatOk "src/.*|a.\00005cZ" true true]) = true
  /\ agree (CSweep 1 (Some "a*") (SwBits "400")) = true.
Proof. vm_compute. repeat split. Qed.

Print Assumptions C16_matches_iff_some_glob.
Print Assumptions C16_valid_globs_convert.
Print Assumptions C16_no_pattern_edge.
Print Assumptions C16_paragraph_matches.
Print Assumptions C16_bad_escape_rejected.
Print Assumptions C16_only_format_errors.
Print Assumptions C16_trailing_backslash_ill_formed.
Print Assumptions C16_other_escape_ill_formed.
Print Assumptions C16_paragraph_bad_escape.
Print Assumptions C16_find_last_match.
Print Assumptions C16_last_match_is_last.
Print Assumptions C16_last_match_none.
Print Assumptions C16_cache_transparent.
Print Assumptions C16_fresh_cache_ok.
Print Assumptions C16_agree_implies_holds.
