(** C12 — Structured multi-line fields round-trip as records and can always be dumped.
    Only statements; every proof is [exact <lemma>] (or a two-line composition).

    Model: Deb822/Multivalued.v (the functions MvCheck.agree runs: [get_as_string],
    [dump_para], [mv_parse_field], [mv_init], [build], [fixed_field_lengths]);
    tables: Gen/MvTables.v (regenerated from the source on every run);
    spec: Deb822/MvSpec.v (the documented sub-field names, the documented text
    [spec_value]/[spec_dump], the property's domain [in_domain], which are what
    MvCheck.holds evaluates); proofs: Deb822/MvProofs.v; the bridge to the correspondence
    check (theorem 5): Deb822/MvCheckProofs.v.

    "for every class and every field of the regenerated tables" is the hypothesis
    [lookup_exact (ascii_lower key) (table_of c) = Some order] with [c], [key] universally
    quantified; the facts about the tables that the proofs use are established by a
    complete sweep of the (finite) regenerated tables (theorem 0). *)
From Coq Require Import String.
From Verif Require Import Lib.Base Lib.PyStr Lib.Dec Gen.PyChars Gen.MvTables
  Deb822.Multivalued Deb822.MvSpec Deb822.MvProofs Deb822.MvCheck Deb822.MvCheckProofs.

(** 0. The tie to the source.  The regenerated tables ARE the documented ones (field
       names in lower case, documented sub-field names in the documented order); every
       field name is lower-case and occurs once, the sub-field names of a field differ
       even up to case, and every field of a class that defines [_fixed_field_lengths]
       has the size sub-field; the classes that define it are the two transcribed. *)
Theorem C12_tables_are_documented : forall c, table_of c = doc_lower c.
Proof. exact tables_match_doc. Qed.

Theorem C12_tables_well_formed : forall c, table_ok c = true.
Proof. exact tables_ok. Qed.

Theorem C12_ffl_kind_matches_tables : forall c,
  has_ffl c = match ffl_kind c with Some _ => true | None => false end.
Proof. exact ffl_kind_matches_tables. Qed.

(** 1. record_roundtrip.  For every class, every field of its table, every object in
       which that field holds a non-empty list of records giving one non-empty
       whitespace-free value per documented sub-field (and whose other present fields
       are dumpable): the field is printed, and parsing the printed value yields the
       same records in the same order.  Holds for both size_field_behaviors and for
       records held as dicts or Deb822Dicts. *)
Theorem C12_record_roundtrip :
  forall c b ci p key order row rows,
    lookup_exact (ascii_lower key) (table_of c) = Some order ->
    para_get key p = Some (Multi (spec_records order (row :: rows))) ->
    forallb (row_ok order) (row :: rows) = true ->
    para_dumpable c b ci p = true ->
    exists s, get_as_string c b ci p key = Ok s
              /\ mv_parse_field order s = Multi (spec_records order (row :: rows)).
Proof. exact record_roundtrip. Qed.

(** 1b. Parsing exposes each line as a record with the documented sub-field names:
        for ANY stored value of a structured field whose continuation lines each hold
        exactly one value per sub-field ([spec_rows] reads it that way), the constructor
        stores the list of records [documented names x values], line by line. *)
Theorem C12_parse_exposes_records :
  forall c key order contents rows,
    lookup_exact (ascii_lower key) (table_of c) = Some order ->
    spec_rows order contents = Some rows ->
    mv_parse_field order contents = Multi (spec_records order rows).
Proof. exact parse_exposes_records. Qed.

(** 1b'. The single-line form: a stored value without line boundary holding one value per
         sub-field becomes ONE mapping with the documented names. *)
Theorem C12_parse_single_line :
  forall c key order contents toks,
    lookup_exact (ascii_lower key) (table_of c) = Some order ->
    spec_single order contents = Some toks ->
    mv_parse_field order contents = Single (combine order toks).
Proof. exact parse_single_line. Qed.

(** 1c. The constructor on a whole paragraph (pairs as Deb822 stored them, distinct
        field names): every structured field of the class that is present is replaced by
        its records, all other fields and the order of the fields are kept, and nothing
        is raised — whichever structured fields are present. *)
Theorem C12_init_parses_each_field :
  forall c raw,
    distinct_keys (map fst raw) = true ->
    mv_init (table_of c) raw = Ok (map (parse_entry (table_of c)) raw).
Proof. exact mv_init_map. Qed.

(** 2. dump_total_on_subsets.  [para_dumpable] constrains only the entries that ARE in the
       paragraph (a structured field present must be a non-empty list of records that
       have every sub-field, LF-free — or ONE such mapping, the single-line form, except
       in a Release under "dak", where the code cannot dump that form; any other field a
       string); it asks nothing about the class's structured fields that are absent.  So for EVERY subset of the
       structured fields being present — and any record contents, duplicates, key
       spellings — dump raises nothing.  (On the tree before the fix this fails for
       PdiffIndex and Release/dak: D8.) *)
Theorem C12_dump_total_on_subsets :
  forall c b ci p, para_dumpable c b ci p = true -> is_ok (dump_para c b ci p) = true.
Proof. exact dump_para_total. Qed.

(** 2a. Explicitly: ANY selection of the fields of a dumpable paragraph (so: any subset of
        the structured fields, with or without the other fields) dumps without error. *)
Theorem C12_every_subset_dumps :
  forall c b ci p (keep : str * fvalue -> bool),
    para_dumpable c b ci p = true -> is_ok (dump_para c b ci (filter keep p)) = true.
Proof. exact dump_total_subsets. Qed.

(** 2a'. "Can always be dumped", over histories.  [states c ci p es] are the states one
         object goes through under the in-place edits [es] of MvCheck's case format
         (p[k][i] = rec, p[k][i][sub] = v, pop(0)+append, append, p[k] = value, del p[k];
         it stops at the first edit that raises).  If the edits hand over complete records,
         LF-free values and dumpable values ([edit_ok]; indices and key presence are
         unconstrained), every state reached from a dumpable object dumps without error —
         whatever fields have been deleted or added on the way. *)
Theorem C12_always_dumpable :
  forall c b ci es p q,
    para_dumpable c b ci p = true -> forallb (edit_ok c b ci) es = true ->
    In q (states c ci p es) -> is_ok (dump_para c b ci q) = true.
Proof. exact always_dumpable. Qed.

(** 2b. The same for PARSED paragraphs, i.e. K(text).dump(): if every structured field that
        is present in the text has complete continuation lines, or is in the single-line form
        as "SHA1-Current: <hash> <size>" of real pdiff Index files ([raw_ok]: nothing is asked
        about the fields that are absent), the constructor succeeds and the dump of the
        parsed object raises nothing — for every class, both behaviours and every subset
        of the class's structured fields being present in the text. *)
Theorem C12_parsed_dump_total :
  forall c b raw,
    distinct_keys (map fst raw) = true -> raw_ok c b raw = true ->
    exists q, mv_init (table_of c) raw = Ok q /\ is_ok (dump_para c b true q) = true.
Proof. exact parsed_dump_total. Qed.

(** every paragraph of the property's domain is dumpable *)
Theorem C12_domain_is_dumpable :
  forall c b ci p sp, in_domain c p = Some sp -> para_dumpable c b ci p = true.
Proof. exact in_domain_dumpable. Qed.

(** 3. size_right_aligned.  The printed value of a structured field is exactly the
       documented text [spec_value]: one line per record, a blank before every value, and
       in Release / pdiff Index files the size value right-justified ([rjust]: blanks on
       the left, the value on the right) to the documented width. *)
Theorem C12_size_right_aligned :
  forall c b ci p key order row rows,
    lookup_exact (ascii_lower key) (table_of c) = Some order ->
    para_get key p = Some (Multi (spec_records order (row :: rows))) ->
    forallb (row_ok order) (row :: rows) = true ->
    para_dumpable c b ci p = true ->
    get_as_string c b ci p key = Ok (spec_value c b order (row :: rows)).
Proof. exact get_as_string_documented. Qed.

(** the documented width: 16 for Release/apt-ftparchive, the longest size present in
    the field for Release/dak and PdiffIndex, none elsewhere *)
Theorem C12_width_rule :
  forall c b order rows,
    spec_width c b order rows
    = match c, b with
      | Release, Apt => Some 16
      | Release, Dak | PdiffIndex, _ => Some (longest (sizes_of order rows))
      | _, _ => None
      end.
Proof. exact spec_width_cases. Qed.

(** the column is [max w |size|] wide; with the longest-present rule every size of
    the field occupies exactly the same width *)
Theorem C12_column_width : forall w t, length (rjust w t) = Nat.max w (length t).
Proof. exact rjust_length. Qed.

Theorem C12_column_width_longest :
  forall order rows t, In t (sizes_of order rows) ->
    length (rjust (longest (sizes_of order rows)) t) = longest (sizes_of order rows).
Proof. exact size_column_exact. Qed.

(** 4. The whole paragraph, for every paragraph [p] of the property's domain
       ([in_domain c p = Some sp]: distinct field names; every present structured field a
       non-empty list of records with exactly the documented sub-fields and non-empty
       whitespace-free values; plain fields simple):
       (a) assigning its fields one by one to an empty object raises nothing and gives [p];
       (b) its dump is the documented text [spec_dump] (so: total, aligned);
       (c) the constructor, given the (field, raw value) pairs of that text, gives back
           [p]: same fields, same records, same order.
       What is NOT proved here: that Deb822's text parser splits [spec_dump c b sp] into
       exactly the pairs [spec_raw c b sp] — that is C02's parser (the correspondence
       check observes it on every case: MvCheck.stage2_agree starts from
       Deb822(text).items()). *)
Theorem C12_build_in_domain :
  forall c p sp, in_domain c p = Some sp -> build c p = Ok p.
Proof. exact build_in_domain. Qed.

Theorem C12_dump_is_documented_text :
  forall c b ci p sp, in_domain c p = Some sp -> dump_para c b ci p = Ok (spec_dump c b sp).
Proof. exact dump_para_spec. Qed.

(** the same for parsed paragraphs (plain fields arbitrary): what MvCheck.holds_parsed tests *)
Theorem C12_dump_is_documented_text_parsed :
  forall c b ci p sp,
    distinct_keys (map fst p) = true -> spara_of false c p = Some sp ->
    dump_para c b ci p = Ok (spec_dump c b sp).
Proof. exact (dump_para_spec_gen false). Qed.

(** the paragraph of the domain IS the paragraph the specification expects back *)
Theorem C12_domain_paragraph_is_spec :
  forall c p sp, in_domain c p = Some sp -> para_of_spara c sp = p.
Proof. exact in_domain_is_spec. Qed.

Theorem C12_paragraph_reparse :
  forall c b p sp, in_domain c p = Some sp -> mv_init (table_of c) (spec_raw c b sp) = Ok p.
Proof. exact reparse_in_domain. Qed.

(** 5. The bridge to the correspondence check (Deb822/MvCheck.v): for every case — every
       class, behaviour, build list, edit history, text, and every observation of every
       constructor ([None] = malformed literal included) — an observation that agrees
       with the model ([agree]) passes the property's judgement ([holds]).
       The unconditional statement is false; [judged] (Deb822/MvCheckProofs.v) is the
       computable side condition, a conjunction of three things [agree] does not determine:
       (a) [faithful_dom]: outside it (a non-ASCII field / sub-field name) [agree] is [true]
           by definition whatever was observed;
       (b) [raw_distinct]: the observed [Deb822(text).items()] pairs — which [agree] takes as
           the INPUT of its second stage and compares with nothing — have keys that are
           distinct up to case (always so for a real Deb822 object);
       (c) [reparse_judged]: in a build case whose last state is in the property's domain,
           the re-parsed object is that state — the one conjunct of [holds_build] that
           depends on how the dumped text was split into [raw], i.e. on C02's parser, which
           this model does not contain (see 4. above).  [C12_agree_implies_holds_split]
           replaces (c) by a condition on [raw] alone: it is the documented split
           [spec_raw] of the documented text.
       None of the three can be dropped ([C12_judged_needed]). *)
Theorem C12_agree_implies_holds :
  forall c, judged c = true -> agree c = true -> holds c = true.
Proof. exact agree_implies_holds. Qed.

Theorem C12_agree_implies_holds_split :
  forall c, faithful_dom c = true -> raw_distinct c = true -> documented_split c = true ->
    agree (Some c) = true -> holds (Some c) = true.
Proof. exact agree_implies_holds_split. Qed.

(** Non-vacuity.  A pdiff Index in which only 2 of the 14 structured fields are present
    (the situation of D8), sizes of different lengths, a plain field in between, mixed
    key spelling: it is in the domain, it is dumpable, the dump is the text shown (size
    column right-aligned to the longest size of EACH field), and re-parsing gives the
    paragraph back.  And a Release file under "dak" with only MD5Sum present. *)
Local Open Scope string_scope.
Example C12_nonvacuous_pdiff :
  let s := dec in
  let p : para :=
    [(s "SHA1-Current", Multi [[(s "SHA1", s "abc"); (s "size", s "12345")]]);
     (s "Origin", Plain (s "Debian"));
     (s "sha256-history",
      Multi [[(s "SHA256", s "d1"); (s "size", s "7"); (s "date", s "2026-01-01")];
             [(s "SHA256", s "d2"); (s "size", s "1234"); (s "date", s "2026-01-02")]])] in
  match in_domain PdiffIndex p with None => False | Some sp =>
    sp = [(s "SHA1-Current", SRows [[s "abc"; s "12345"]]);
          (s "Origin", SText (s "Debian"));
          (s "sha256-history", SRows [[s "d1"; s "7"; s "2026-01-01"]; [s "d2"; s "1234"; s "2026-01-02"]])]
    /\ para_dumpable PdiffIndex Apt true p = true
    /\ build PdiffIndex p = Ok p
    /\ dump_para PdiffIndex Apt true p
       = Ok (s "SHA1-Current:\00000a abc 12345\00000aOrigin: Debian\00000asha256-history:\00000a d1    7 2026-01-01\00000a d2 1234 2026-01-02\00000a")
    /\ mv_init (table_of PdiffIndex) (spec_raw PdiffIndex Apt sp) = Ok p
  end.
Proof. vm_compute. repeat split. Qed.

Example C12_nonvacuous_release :
  let s := dec in
  let p : para :=
    [(s "MD5Sum", Multi [[(s "md5sum", s "0f"); (s "size", s "5"); (s "name", s "main/a")];
                         [(s "md5sum", s "1e"); (s "size", s "123"); (s "name", s "main/b")]])] in
  match in_domain Release p with None => False | Some sp =>
    dump_para Release Dak false p = Ok (s "MD5Sum:\00000a 0f   5 main/a\00000a 1e 123 main/b\00000a")
    /\ dump_para Release Apt false p
       = Ok (s "MD5Sum:\00000a 0f                5 main/a\00000a 1e              123 main/b\00000a")
    /\ spec_rows (map s ["md5sum"; "size"; "name"]) (s "\00000a 0f   5 main/a\00000a 1e 123 main/b")
       = Some [[s "0f"; s "5"; s "main/a"]; [s "1e"; s "123"; s "main/b"]]
    /\ mv_init (table_of Release) (spec_raw Release Dak sp) = Ok p
    /\ raw_ok Release Dak (spec_raw Release Dak sp) = true
    /\ distinct_keys (map fst (spec_raw Release Dak sp)) = true
  end.
Proof. vm_compute. repeat split. Qed.

(** A history: all four Release fields under "dak", then SHA1 deleted, a longer size
    appended to SHA256, MD5Sum deleted: three more states, every edit well-formed. *)
Example C12_nonvacuous_history :
  let s := dec in
  let fld k h := (s k, Multi [[(s h, s "a"); (s "size", s "1"); (s "name", s "n")]]) in
  let p : para := [fld "MD5Sum" "md5sum"; fld "SHA1" "sha1"; fld "SHA256" "sha256"; fld "SHA512" "sha512"] in
  let es := [EDel (s "sha1");
             EAppend (s "SHA256") [(s "sha256", s "b"); (s "size", s "12345"); (s "name", s "m")];
             EDel (s "MD5SUM")] in
  para_dumpable Release Dak true p = true
  /\ forallb (edit_ok Release Dak true) es = true
  /\ length (states Release true p es) = 4%nat
  /\ map (fun q => is_ok (dump_para Release Dak true q)) (states Release true p es) = [true; true; true; true]
  /\ option_map (dump_para Release Dak true) (last_opt (states Release true p es))
     = Some (Ok (s "SHA256:\00000a a     1 n\00000a b 12345 m\00000aSHA512:\00000a a 1 n\00000a")).
Proof. vm_compute. repeat split. Qed.

(** A pdiff Index as mirrors publish it: SHA1-Current in the single-line form, History and
    Patches multi-line, no SHA256-* fields, no Download fields (D8's situation). *)
Example C12_nonvacuous_parsed_index :
  let s := dec in
  let raw := [(s "SHA1-Current", s "abc 12345");
              (s "SHA1-History", s "\00000a d1     7 2026-01-01\00000a d2 12345 2026-01-02");
              (s "SHA1-Patches", s "\00000a e1 1 2026-01-01\00000a e2 2 2026-01-02")] in
  distinct_keys (map fst raw) = true
  /\ raw_ok PdiffIndex Apt raw = true
  /\ match mv_init (table_of PdiffIndex) raw with
     | Ok q => dump_para PdiffIndex Apt true q
               = Ok (s "SHA1-Current:  abc 12345\00000aSHA1-History:\00000a d1     7 2026-01-01\00000a d2 12345 2026-01-02\00000aSHA1-Patches:\00000a e1 1 2026-01-01\00000a e2 2 2026-01-02\00000a")
     | Err _ => False
     end.
Proof. vm_compute. repeat split. Qed.

(** The bridge is not vacuous, and its side condition is needed: a built pdiff Index with
    an edit, observed exactly as the documented text and its documented split, is judged,
    agrees and holds; and for each conjunct of [judged] an agreeing case that fails [holds]. *)
Example C12_agree_implies_holds_nonvacuous :
  let s := dec in
  let p : para :=
    [(s "SHA1-Current", Multi [[(s "SHA1", s "abc"); (s "size", s "12345")]]);
     (s "Origin", Plain (s "Debian"))] in
  let d0 := s "SHA1-Current:\00000a abc 12345\00000aOrigin: Debian\00000a" in
  let d1 := s "SHA1-Current:\00000a abc 12345\00000a" in
  let c := Some (mk PdiffIndex None false (Some p) [EDel (s "origin")] []
                    (ObsFull [d0; d1] [(s "SHA1-Current", s "\00000a abc 12345")]
                             [(s "SHA1-Current", Multi [[(s "SHA1", s "abc"); (s "size", s "12345")]])]
                             (Ok d1))) in
  judged c = true /\ agree c = true /\ holds c = true
  /\ match c with Some k => documented_split k = true | None => False end.
Proof. vm_compute. repeat split. Qed.

Example C12_judged_needed :
  let s := dec in
  let v := s "\00000a a 1 n" in
  let r := [(s "md5sum", s "a"); (s "size", s "1"); (s "name", s "n")] in
  let ca := Some (mk Dsc None false None [] []
                     (ObsFull [] [(s "\0000e9", s "x")] [(s "\0000e9", Plain (s "y"))] (Ok (s "")))) in
  let cb := Some (mk Dsc None false None [] []
                     (ObsFull [] [(s "Files", v); (s "files", v)]
                              [(s "Files", Multi [r]); (s "files", Plain v)]
                              (Ok (s "Files:\00000a a 1 n\00000afiles:\00000a a 1 n\00000a")))) in
  let cc := Some (mk Dsc None false (Some [(s "Origin", Plain (s "Debian"))]) [] []
                     (ObsFull [s "Origin: Debian\00000a"] [(s "Origin", s "Ubuntu")]
                              [(s "Origin", Plain (s "Ubuntu"))] (Ok (s "Origin: Ubuntu\00000a")))) in
  (agree ca = true /\ holds ca = false /\ judged ca = false)
  /\ (agree cb = true /\ holds cb = false /\ judged cb = false)
  /\ (agree cc = true /\ holds cc = false /\ judged cc = false).
Proof. vm_compute. repeat split. Qed.

Print Assumptions C12_tables_are_documented.
Print Assumptions C12_tables_well_formed.
Print Assumptions C12_ffl_kind_matches_tables.
Print Assumptions C12_record_roundtrip.
Print Assumptions C12_parse_exposes_records.
Print Assumptions C12_parse_single_line.
Print Assumptions C12_init_parses_each_field.
Print Assumptions C12_dump_total_on_subsets.
Print Assumptions C12_every_subset_dumps.
Print Assumptions C12_always_dumpable.
Print Assumptions C12_parsed_dump_total.
Print Assumptions C12_domain_is_dumpable.
Print Assumptions C12_size_right_aligned.
Print Assumptions C12_width_rule.
Print Assumptions C12_column_width.
Print Assumptions C12_column_width_longest.
Print Assumptions C12_build_in_domain.
Print Assumptions C12_dump_is_documented_text.
Print Assumptions C12_dump_is_documented_text_parsed.
Print Assumptions C12_domain_paragraph_is_spec.
Print Assumptions C12_paragraph_reparse.
Print Assumptions C12_agree_implies_holds.
Print Assumptions C12_agree_implies_holds_split.
