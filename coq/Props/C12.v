(** C12 — structured multi-line fields round-trip as records and can always be dumped. *)
From Verif Require Import Lib.Base Lib.PyStr Lib.Dec Gen.PyChars Gen.MvTables
  Deb822.Multivalued Deb822.MvSpec Deb822.MvProofs.

Theorem C12_ffl_kind_matches_tables : forall c,
  has_ffl c = match ffl_kind c with Some _ => true | None => false end.
Proof. exact ffl_kind_matches_tables. Qed.

Print Assumptions C12_ffl_kind_matches_tables.
