(** C09 — tie by regeneration at the POINTER LEVEL.  Only statements; every proof is [exact <lemma>] (lemmas in Dict/Tie.v).

    Gen/TrLinkedList.v is REGENERATED from lib/debian/_util.py by harness/py2coq.py on every run (HEAP MODE): the bodies
    of resolve_ref, LinkedListNode (__init__, the previous_node property getter and setter, link_nodes, _insert_link,
    insert_before, insert_after, remove, iter_next), LinkedList (__init__ without values, __bool__, __len__, tail,
    remove_node, pop, iter_nodes, __iter__, append, extend, insert_node_before/after, insert_before/after,
    insert_at_head, clear) and OrderedSet (__contains__, __len__, __iter__, add — with its try/except/raise —, remove,
    extend, _reorder with its callable argument, order_last, order_first, order_before, order_after — bound methods and
    lambdas as callable values) as the working tree has them now.  A LinkedListNode is a reference [id] into the model's
    heap (Dict/Heap.v), which is threaded as hidden state and returned on exceptions too; attribute reads and writes on
    a node are heap lookups/updates; [LinkedListNode(v)] is the model's fresh allocation followed by the translated
    __init__; [a is b] is id equality; None is [option id]; head_node / tail_node / _size (and __table, and the
    attributes of the LinkedList inside an OrderedSet) are threaded as state.

    The theorems say: each regenerated function equals the model's pointer-level operation — the constants of Dict/Heap.v
    that [Dict.Check.agree] runs (through [step]) and that the theorems of Props/C09.v are about — on ALL heaps, all values
    of head_node/tail_node/__table, all natural [_size], all arguments and every [lower]: same heap afterwards, same
    attributes, same result, or the same exception kind with the same partial effects.  [lift_h] / [lift_ll] / [lift_os]
    read the model's [(result, state)] in the shape of a translated result; they lose nothing.  No representation
    invariant is assumed except where stated:
    - Node.insert_before/insert_after: the boolean [live_or_other h self new_node] = "self is live or self is not
      new_node" (with a DANGLING self that is also new_node, the code fails its assertion before touching self, the
      model loads self first and reports its dangling-id result, which is no Python exception).  LinkedList.append / insert_node_before / insert_node_after
      establish the guard on every heap (so their theorems are unguarded); under the model's invariant every node of a
      list is live ([C09_tie_invariant_gives_live]).
    - the iterators (fuel [S (walk_fuel hp)]): guarded by "the model's walk from head_node succeeds" — a boolean
      condition that the model's representation invariant establishes ([C09_tie_invariant_gives_walk],
      [C09_tie_os_invariant_gives_walk]; the invariant holds after every history: Props/C09.v, C09_dll_wf_preserved).
      Then the regenerated iteration yields exactly the model's list: in particular it never runs out of fuel.

    Still hand-modelled inside (Dict/TrPrims.v, each DEFINED from the model's own functions): the slots of a node as heap
    lookups/updates ([load]/[store]/[set_prev]/[set_next]), the fresh allocation ([halloc]), weak references as plain ids
    (never dead while followed: ASSUMPTIONS of harness/props/c09.py), __table as the model's association list keyed by
    [lower item] (items are _strI objects: hash/equality by lower-cased text), [item == reference_item] as equality of the
    lowered texts.  A generator is rendered as the list it yields when exhausted at once ([list(d)]); the lazy
    interleaving of Deb822.copy is the model's [copy_loop], not regenerated.  Not regenerated: OrderedSet.__init__,
    __reversed__ / iter_previous, LinkedList.__init__ with values, Deb822Dict and everything above it (C02/C08 ties). *)
From Verif Require Import Lib.Base Lib.PyStr Lib.Tr Dict.Common Dict.Heap Dict.TrPrims Dict.ProofsLL Dict.ProofsOS
  Gen.TrLinkedList Dict.Tie.

Local Open Scope Z_scope.

(** * LinkedListNode *)
Theorem C09_tie_node_new :
  forall h v, tr_node_new h v = lift_h (new_node v h).
Proof. exact tr_node_new_eq. Qed.
Print Assumptions C09_tie_node_new.

(** the previous_node property: the getter (through resolve_ref) reads the [prev] of the loaded cell ... *)
Theorem C09_tie_node_previous_get :
  forall h i, tr_node_get_prev h i = match fst (load i h) with Ok n => Ok (n_prev n) | Err e => Err e end.
Proof. exact tr_node_get_prev_load. Qed.
Print Assumptions C09_tie_node_previous_get.

(** ... the setter is the model's [set_prev] *)
Theorem C09_tie_node_previous_set :
  forall h i p, tr_node_set_prev h i p = lift_h (set_prev i p h).
Proof. exact tr_node_set_prev_eq. Qed.
Print Assumptions C09_tie_node_previous_set.

Theorem C09_tie_link_nodes :
  forall h p n, tr_link_nodes h p n = lift_h (link_nodes p n h).
Proof. exact tr_link_nodes_eq. Qed.
Print Assumptions C09_tie_link_nodes.

Theorem C09_tie_insert_link :
  forall h first new last, tr_insert_link h first new last = lift_h (insert_link first new last h).
Proof. exact tr_insert_link_eq. Qed.
Print Assumptions C09_tie_insert_link.

Theorem C09_tie_node_insert_before :
  forall h self new,
    live_or_other h self new = true ->
    tr_node_insert_before h self new = lift_h (node_insert_before self new h).
Proof. exact tr_node_insert_before_eqb. Qed.
Print Assumptions C09_tie_node_insert_before.

Theorem C09_tie_node_insert_after :
  forall h self new,
    live_or_other h self new = true ->
    tr_node_insert_after h self new = lift_h (node_insert_after self new h).
Proof. exact tr_node_insert_after_eqb. Qed.
Print Assumptions C09_tie_node_insert_after.

Theorem C09_tie_node_remove :
  forall h i, tr_node_remove h i = lift_h (node_remove i h).
Proof. exact tr_node_remove_eq. Qed.
Print Assumptions C09_tie_node_remove.

(** iter_next from a node: whenever the model's [walk] succeeds, the regenerated generator yields the nodes whose
    values the walk collects (no OutOfFuel, no dangling id) *)
Theorem C09_tie_node_iter_next :
  forall h i vs,
    walk h (walk_fuel h) (Some i) = Ok vs ->
    exists l, tr_node_iter_next h i = Ok l /\ get_values h l = Ok vs.
Proof. exact tr_node_iter_next_walk. Qed.
Print Assumptions C09_tie_node_iter_next.

(** * LinkedList *)
Theorem C09_tie_ll_remove_node :
  forall h hd tl sz i,
    tr_ll_remove_node h hd tl (Z.of_nat sz) i = lift_ll (ll_remove_node i (h, mkLL hd tl sz)).
Proof. exact tr_ll_remove_node_eq. Qed.
Print Assumptions C09_tie_ll_remove_node.

Theorem C09_tie_ll_append :
  forall h hd tl sz v,
    tr_ll_append h hd tl (Z.of_nat sz) v = lift_ll (ll_append v (h, mkLL hd tl sz)).
Proof. exact tr_ll_append_eq. Qed.
Print Assumptions C09_tie_ll_append.

Theorem C09_tie_ll_insert_node_before :
  forall h hd tl sz new existing,
    tr_ll_insert_node_before h hd tl (Z.of_nat sz) new existing
    = lift_ll (ll_insert_node_before new existing (h, mkLL hd tl sz)).
Proof. exact tr_ll_insert_node_before_eq. Qed.
Print Assumptions C09_tie_ll_insert_node_before.

Theorem C09_tie_ll_insert_node_after :
  forall h hd tl sz new existing,
    tr_ll_insert_node_after h hd tl (Z.of_nat sz) new existing
    = lift_ll (ll_insert_node_after new existing (h, mkLL hd tl sz)).
Proof. exact tr_ll_insert_node_after_eq. Qed.
Print Assumptions C09_tie_ll_insert_node_after.

Theorem C09_tie_ll_insert_before :
  forall h hd tl sz v existing,
    tr_ll_insert_before h hd tl (Z.of_nat sz) v existing = lift_ll (ll_insert_before v existing (h, mkLL hd tl sz)).
Proof. exact tr_ll_insert_before_eq. Qed.
Print Assumptions C09_tie_ll_insert_before.

Theorem C09_tie_ll_insert_after :
  forall h hd tl sz v existing,
    tr_ll_insert_after h hd tl (Z.of_nat sz) v existing = lift_ll (ll_insert_after v existing (h, mkLL hd tl sz)).
Proof. exact tr_ll_insert_after_eq. Qed.
Print Assumptions C09_tie_ll_insert_after.

(** (the [None] that the translation of [self.insert_before(value, self.head_node)] would turn into OutOfFuel never
    reaches it) *)
Theorem C09_tie_ll_insert_at_head :
  forall h hd tl sz v,
    tr_ll_insert_at_head h hd tl (Z.of_nat sz) v = lift_ll (ll_insert_at_head v (h, mkLL hd tl sz)).
Proof. exact tr_ll_insert_at_head_eq. Qed.
Print Assumptions C09_tie_ll_insert_at_head.

(** list(self): equal to the model's [ll_values] whenever that succeeds ... *)
Theorem C09_tie_ll_iter :
  forall h hd tl sz z,
    is_ok (fst (ll_values (h, mkLL hd tl sz))) = true ->
    tr_ll_iter h hd tl z = fst (ll_values (h, mkLL hd tl sz)).
Proof. exact tr_ll_iter_eq. Qed.
Print Assumptions C09_tie_ll_iter.

(** ... which the representation invariant of the model's theorems establishes, *)
Theorem C09_tie_invariant_gives_walk :
  forall h ll L, ll_rep h ll L -> is_ok (fst (ll_values (h, ll))) = true.
Proof. exact ll_rep_walk_ok. Qed.
Print Assumptions C09_tie_invariant_gives_walk.

(** ... as it does the guard of Node.insert_before / insert_after for every node of the list; *)
Theorem C09_tie_invariant_gives_live :
  forall h ll L i new, ll_rep h ll L -> In i (ids L) -> live_or_other h i new = true.
Proof. exact ll_rep_live_or_other. Qed.
Print Assumptions C09_tie_invariant_gives_live.

(** so under the invariant the regenerated iterations are the abstract list: values and nodes, fuel never exhausted *)
Theorem C09_tie_ll_iter_wf :
  forall h ll L z, ll_rep h ll L -> tr_ll_iter h (ll_head ll) (ll_tail ll) z = Ok (map snd L).
Proof. exact tr_ll_iter_rep. Qed.
Print Assumptions C09_tie_ll_iter_wf.

Theorem C09_tie_ll_iter_nodes_wf :
  forall h ll L z, ll_rep h ll L -> tr_ll_iter_nodes h (ll_head ll) (ll_tail ll) z = Ok (ids L).
Proof. exact tr_ll_iter_nodes_rep. Qed.
Print Assumptions C09_tie_ll_iter_nodes_wf.

(** Methods of LinkedList for which the model has no constant of its own (the paragraph model never calls them):
    stated against the model's building blocks.  __init__() and clear() give the empty list ... *)
Theorem C09_tie_ll_init :
  forall h hd tl z, tr_ll_init h hd tl z = lift_ll (Ok tt, (h, ll_empty)).
Proof. exact tr_ll_init_eq. Qed.
Print Assumptions C09_tie_ll_init.

Theorem C09_tie_ll_clear :
  forall h hd tl z, tr_ll_clear h hd tl z = lift_ll (Ok tt, (h, ll_empty)).
Proof. exact tr_ll_clear_eq. Qed.
Print Assumptions C09_tie_ll_clear.

Theorem C09_tie_ll_bool :
  forall h hd tl z, tr_ll_bool h hd tl z = Ok (is_some hd).
Proof. exact tr_ll_bool_eq. Qed.
Print Assumptions C09_tie_ll_bool.

Theorem C09_tie_ll_len :
  forall h hd tl sz, tr_ll_len h hd tl (Z.of_nat sz) = Ok (Z.of_nat (ll_size (mkLL hd tl sz))).
Proof. exact tr_ll_len_eq. Qed.
Print Assumptions C09_tie_ll_len.

(** ... tail is the value of the tail node, pop is IndexError or the model's remove_node of the tail node ([ll_pop],
    Dict/Tie.v), extend is the model's append repeated ([ll_extend], Dict/Tie.v) *)
Theorem C09_tie_ll_tail :
  forall h hd tl z,
    tr_ll_tail h hd tl z = match tl with
                           | None => Ok None
                           | Some t => match fst (load t h) with Ok n => Ok (Some (n_value n)) | Err e => Err e end
                           end.
Proof. exact tr_ll_tail_eq. Qed.
Print Assumptions C09_tie_ll_tail.

Theorem C09_tie_ll_pop :
  forall h hd tl sz, tr_ll_pop h hd tl (Z.of_nat sz) = lift_ll (ll_pop (h, mkLL hd tl sz)).
Proof. exact tr_ll_pop_eq. Qed.
Print Assumptions C09_tie_ll_pop.

Theorem C09_tie_ll_extend :
  forall vs h hd tl sz, tr_ll_extend h hd tl (Z.of_nat sz) vs = lift_ll (ll_extend vs (h, mkLL hd tl sz)).
Proof. exact tr_ll_extend_eq. Qed.
Print Assumptions C09_tie_ll_extend.

(** * OrderedSet *)
Theorem C09_tie_os_contains :
  forall lower h tb hd tl sz z item,
    tr_os_contains lower h tb hd tl z item = fst (os_contains lower item (h, mkOS tb (mkLL hd tl sz))).
Proof. exact tr_os_contains_eq. Qed.
Print Assumptions C09_tie_os_contains.

Theorem C09_tie_os_len :
  forall lower h tb hd tl sz,
    tr_os_len lower h tb hd tl (Z.of_nat sz)
    = match fst (os_len (h, mkOS tb (mkLL hd tl sz))) with Ok n => Ok (Z.of_nat n) | Err e => Err e end.
Proof. exact tr_os_len_eq. Qed.
Print Assumptions C09_tie_os_len.

Theorem C09_tie_os_iter :
  forall lower h tb hd tl sz z,
    is_ok (fst (os_values (h, mkOS tb (mkLL hd tl sz)))) = true ->
    tr_os_iter lower h tb hd tl z = fst (os_values (h, mkOS tb (mkLL hd tl sz))).
Proof. exact tr_os_iter_eq. Qed.
Print Assumptions C09_tie_os_iter.

Theorem C09_tie_os_invariant_gives_walk :
  forall lower h os L, os_rep lower h os L -> is_ok (fst (os_values (h, os))) = true.
Proof. exact os_rep_walk_ok. Qed.
Print Assumptions C09_tie_os_invariant_gives_walk.

(** add: with the try/except Exception/raise around the table store (dead: the store cannot raise) *)
Theorem C09_tie_os_add :
  forall lower h tb hd tl sz item,
    tr_os_add lower h tb hd tl (Z.of_nat sz) item = lift_os (os_add lower item (h, mkOS tb (mkLL hd tl sz))).
Proof. exact tr_os_add_eq. Qed.
Print Assumptions C09_tie_os_add.

Theorem C09_tie_os_remove :
  forall lower h tb hd tl sz item,
    tr_os_remove lower h tb hd tl (Z.of_nat sz) item = lift_os (os_remove lower item (h, mkOS tb (mkLL hd tl sz))).
Proof. exact tr_os_remove_eq. Qed.
Print Assumptions C09_tie_os_remove.

Theorem C09_tie_os_extend :
  forall lower items h tb hd tl sz,
    tr_os_extend lower h tb hd tl (Z.of_nat sz) items = lift_os (os_extend lower items (h, mkOS tb (mkLL hd tl sz))).
Proof. exact tr_os_extend_eq. Qed.
Print Assumptions C09_tie_os_extend.

(** _reorder(item, reinserter) for ANY callable [R] that does what a model reinserter [r] does on the list *)
Theorem C09_tie_os_reorder :
  forall lower R r h tb hd tl sz item,
    implements R r ->
    tr_os_reorder lower h tb hd tl (Z.of_nat sz) item R
    = lift_os (os_reorder lower item r (h, mkOS tb (mkLL hd tl sz))).
Proof. exact tr_os_reorder_eq. Qed.
Print Assumptions C09_tie_os_reorder.

(** ... instantiated by the code with the bound methods self.__order.append / insert_at_head and with the lambdas over
    insert_before / insert_after *)
Theorem C09_tie_os_order_last :
  forall lower h tb hd tl sz item,
    tr_os_order_last lower h tb hd tl (Z.of_nat sz) item
    = lift_os (os_order_last lower item (h, mkOS tb (mkLL hd tl sz))).
Proof. exact tr_os_order_last_eq. Qed.
Print Assumptions C09_tie_os_order_last.

Theorem C09_tie_os_order_first :
  forall lower h tb hd tl sz item,
    tr_os_order_first lower h tb hd tl (Z.of_nat sz) item
    = lift_os (os_order_first lower item (h, mkOS tb (mkLL hd tl sz))).
Proof. exact tr_os_order_first_eq. Qed.
Print Assumptions C09_tie_os_order_first.

Theorem C09_tie_os_order_before :
  forall lower h tb hd tl sz item ref,
    tr_os_order_before lower h tb hd tl (Z.of_nat sz) item ref
    = lift_os (os_order_before lower item ref (h, mkOS tb (mkLL hd tl sz))).
Proof. exact tr_os_order_before_eq. Qed.
Print Assumptions C09_tie_os_order_before.

Theorem C09_tie_os_order_after :
  forall lower h tb hd tl sz item ref,
    tr_os_order_after lower h tb hd tl (Z.of_nat sz) item ref
    = lift_os (os_order_after lower item ref (h, mkOS tb (mkLL hd tl sz))).
Proof. exact tr_os_order_after_eq. Qed.
Print Assumptions C09_tie_os_order_after.

(** non-vacuity: the regenerated code really runs.  add B, a, A (there already, as "a"), c; order_first(A);
    order_before(c, b); then list(s), len(s), "C" in s, remove("x"), order_after("a", "A"), and the list after
    remove("B"). *)
Example C09_tie_runs :
  let lw := ascii_lower in
  let A := [65]%N in let a := [97]%N in let B := [66]%N in let b := [98]%N in let c := [99]%N in
  let no := fun (_ : err) => (Err OtherError, Err OtherError, Err OtherError, None, None, Err OtherError) in
  os_then (tr_os_add lw heap0 [] None None 0 B) (fun _ h tb hd tl z =>
  os_then (tr_os_add lw h tb hd tl z a) (fun _ h tb hd tl z =>
  os_then (tr_os_add lw h tb hd tl z A) (fun _ h tb hd tl z =>
  os_then (tr_os_add lw h tb hd tl z c) (fun _ h tb hd tl z =>
  os_then (tr_os_order_first lw h tb hd tl z A) (fun _ h tb hd tl z =>
  os_then (tr_os_order_before lw h tb hd tl z c b) (fun _ h tb hd tl z =>
    (tr_os_iter lw h tb hd tl z, tr_os_len lw h tb hd tl z, tr_os_contains lw h tb hd tl z [67]%N,
     os_then (tr_os_remove lw h tb hd tl z [120]%N) (fun _ _ _ _ _ _ => None) Some,
     os_then (tr_os_order_after lw h tb hd tl z a A) (fun _ _ _ _ _ _ => None) Some,
     os_then (tr_os_remove lw h tb hd tl z B) (fun _ h tb hd tl z => tr_os_iter lw h tb hd tl z) (fun e => Err e)))
    no) no) no) no) no) no
  = (Ok [a; c; B], Ok 3, Ok true, Some KeyError, Some ValueError, Ok [a; c]).
Proof. vm_compute. reflexivity. Qed.
