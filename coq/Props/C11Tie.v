(** C11 — tie by regeneration.  Only statements; every proof is [exact <lemma>].

    Gen/TrListTok.v is REGENERATED from lib/debian/_deb822_repro/tokens.py by harness/py2coq.py on every run:
    [tr_whitespace_split_tokenizer], [tr_comma_split_tokenizer] are the bodies of the two per-line tokenizers (the
    functions under the [@_value_line_tokenizer] decorator) and [tr_value_line_tokenizer_impl] is the body of the
    decorator's inner function [impl], with the decorated function [func] as a leading parameter — all as the
    working tree has them now.  The generator asserts that both tokenizers carry exactly that decorator and that
    the decorator is [def impl … ; return impl].

    What is regenerated.  Per-line tokenizers: the [assert "\n" not in v]; the whitespace-only special case
    ([if v and not v.strip()]); the loop over the [finditer] matches with the unpacking of [match.groups()] and
    every conditional [yield] in source order — truth values of the groups exactly as Python has them (None AND ''
    are falsy).  Wrapper: the loop over [v.splitlines(keepends=True)] with the assert inside it, the comment-line
    branch with its [continue], [line[0]] with its IndexError, the slices, the continuation token, [yield from
    func(line)] and the newline token; [first_line] is a loop variable.

    The theorems say: for ALL texts the regenerated functions return exactly what the model's functions return
    (Repro/ListView.v: [ws_line_tokens], [comma_line_tokens], [tokenize] — the constants that [agree] runs, through
    [parse_str]/[interpret]/[run_session] and the leaf cases CTokens/CWsRe/CCommaRe, and that Props/C11.v is about):
    the same tokens (kind and text) or the same exception kind.  In particular NO token constructor ever raises
    ([Deb822Token.__init__] + [_verify_token_text] are run by the primitive [trp_mk_tok] — proved, not assumed: every
    capture group is a piece of a text without LF; a line of [splitlines] has LF at most as its last character; a
    one-character continuation marker that is a LF is a whitespace token ending on a newline).  A generator that
    raises after some yields is rendered as [Err]; the model has the same shape (TRUSTED of C11: laziness collapsed).

    Still hand-modelled (Repro/ListTrPrims.v), each defined AS the model's leaf:
    - the regex leaves: [_RE_WHITESPACE_SEPARATED_WORD_LIST.finditer] = [ws_finditer] (with the fuel
      [ws_line_tokens] gives it), [_RE_COMMA_SEPARATED_WORD_LIST.finditer] = [comma_groups], [m.groups()] of the
      latter from the model's record (None for groups that took no part), [_RE_WHITESPACE_LINE.match] = [all_ws]
      (pattern text asserted by the translator; the two word-list patterns are compared with the live compiled
      objects by the correspondence, CWsRe / CCommaRe cases);
    - the token constructors = C01's [Token.mk_token] for the class, then the model's [Tok] (source of
      [Deb822Token.__init__], [_verify_token_text], the two parameterless constructors and the
      [is_whitespace]/[is_comment] properties asserted by hash);
    - [str.strip()] = [strip_by isws], [splitlines(keepends=True)] = [splitlines py_islinebreak true],
      [startswith("#")], [endswith("\n")], [sys.intern] (identity);
    and, in Lib/Tr.v: indexing, slices, [tr_opt_truthy], [tr_char_in]. *)
From Verif Require Import Lib.Base Lib.PyStr Lib.Tr Gen.PyChars
  Repro.ListView Repro.ListTrPrims Gen.TrListTok Repro.ListTie Props.C11.

(** 1. [whitespace_split_tokenizer] before decoration (one line): the assert, else the model's line tokenizer. *)
Theorem C11_tie_whitespace_split_line :
  forall v : str,
    tr_whitespace_split_tokenizer v = if mem_char LF v then Err AssertionError else ws_line_tokens v.
Proof. exact tie_ws_line. Qed.
Print Assumptions C11_tie_whitespace_split_line.

(** 2. [comma_split_tokenizer] before decoration (one line). *)
Theorem C11_tie_comma_split_line :
  forall v : str,
    tr_comma_split_tokenizer v = if mem_char LF v then Err AssertionError else comma_line_tokens v.
Proof. exact tie_comma_line. Qed.
Print Assumptions C11_tie_comma_split_line.

(** 3. The decorator's [impl] around ANY per-line function that agrees with the model's on texts without LF
    (the only texts [impl] hands it). *)
Theorem C11_tie_value_line_tokenizer :
  forall (k : lkind) (func : str -> result (list tok)) (v : str),
    (forall b, nolf b = true -> func b = line_func k b) ->
    tr_value_line_tokenizer_impl func v = tokenize k v.
Proof. exact tie_impl. Qed.
Print Assumptions C11_tie_value_line_tokenizer.

(** 4. The public [whitespace_split_tokenizer] (= [_value_line_tokenizer(<1>)]) on a whole value text. *)
Theorem C11_tie_whitespace_split_tokenizer :
  forall v : str,
    tr_value_line_tokenizer_impl tr_whitespace_split_tokenizer v = tokenize Space v.
Proof. exact tie_tokenize_ws. Qed.
Print Assumptions C11_tie_whitespace_split_tokenizer.

(** 5. The public [comma_split_tokenizer] on a whole value text. *)
Theorem C11_tie_comma_split_tokenizer :
  forall v : str,
    tr_value_line_tokenizer_impl tr_comma_split_tokenizer v = tokenize Comma v.
Proof. exact tie_tokenize_comma. Qed.
Print Assumptions C11_tie_comma_split_tokenizer.

(** The regenerated tokenizers compute: a comma list over three lines with a comment line. *)
Example C11_tie_tokenizer_example :
  tr_value_line_tokenizer_impl tr_comma_split_tokenizer
    [32; 97; 44; 32; 98; 10; 35; 99; 10; 32; 100; 32; 101; 10]%N
  = Ok [Tok KWs [32]; Tok KVal [97]; Tok KComma [44]; Tok KWs [32]; Tok KVal [98]; Tok KNl [10];
        Tok KCom [35; 99; 10];
        Tok KCont [32]; Tok KVal [100; 32; 101]; Tok KNl [10]]%N.
Proof. vm_compute. reflexivity. Qed.
