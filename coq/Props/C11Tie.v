(** C11 — tie by regeneration.  Only statements; every proof is [exact <lemma>].

    PART 1 (theorems 1-5): the value tokenizers of tokens.py, as EQUALITIES with the model's functions.
    PART 2 (theorems 6-30): the methods of Deb822ParsedTokenList and ValueReference of parsing.py, as REFINEMENT
    theorems over C09's regenerated LinkedList (see the comment before theorem 6).
    NOT regenerated: [Deb822ParsedTokenList.__init__] / [ListInterpretation] / [_parse_str] + the stream parsers (the
    model's [interpret]), [__exit__] / [_update_field] (the model's [close] / [update_field] with the re-parse recogniser
    [reparse]), the sort / reformat methods (outside C11).

    Gen/TrListTok.v is REGENERATED from lib/debian/_deb822_repro/tokens.py by harness/py2coq.py on every run:
    [tr_whitespace_split_tokenizer], [tr_comma_split_tokenizer] are the bodies of the two per-line tokenizers (the
    functions under the [@_value_line_tokenizer] decorator) and [tr_value_line_tokenizer_impl] is the body of the
    decorator's inner function [impl], with the decorated function [func] as a leading parameter — all as the
    working tree has them now.  The generator asserts that both tokenizers carry exactly that decorator and that
    the decorator is [def impl … ; return impl].

    What is regenerated.  Per-line tokenizers: the [assert "\n" not in v]; the whitespace-only special case
    ([if v and not v.strip()]); the loop over the [finditer] matches with the unpacking of [match.groups()] and
    every conditional [yield] in source order — truth values of the groups exactly as Python has them (None AND ''
    are falsy).  Wrapper: the loop over [v.splitlines(keepends=True)] with the assert inside it, the comment-line
    branch with its [continue], [line[0]] with its IndexError, the slices, the continuation token, [yield from
    func(line)] and the newline token; [first_line] is a loop variable.

    The theorems say: for ALL texts the regenerated functions return exactly what the model's functions return
    (Repro/ListView.v: [ws_line_tokens], [comma_line_tokens], [tokenize] — the constants that [agree] runs, through
    [parse_str]/[interpret]/[run_session] and the leaf cases CTokens/CWsRe/CCommaRe, and that Props/C11.v is about):
    the same tokens (kind and text) or the same exception kind.  In particular NO token constructor ever raises
    ([Deb822Token.__init__] + [_verify_token_text] are run by the primitive [trp_mk_tok] — proved, not assumed: every
    capture group is a piece of a text without LF; a line of [splitlines] has LF at most as its last character; a
    one-character continuation marker that is a LF is a whitespace token ending on a newline).  A generator that
    raises after some yields is rendered as [Err]; the model has the same shape (TRUSTED of C11: laziness collapsed).

    Still hand-modelled (Repro/ListTrPrims.v), each defined AS the model's leaf:
    - the regex leaves: [_RE_WHITESPACE_SEPARATED_WORD_LIST.finditer] = [ws_finditer] (with the fuel
      [ws_line_tokens] gives it), [_RE_COMMA_SEPARATED_WORD_LIST.finditer] = [comma_groups], [m.groups()] of the
      latter from the model's record (None for groups that took no part), [_RE_WHITESPACE_LINE.match] = [all_ws]
      (pattern text asserted by the translator; the two word-list patterns are compared with the live compiled
      objects by the correspondence, CWsRe / CCommaRe cases);
    - the token constructors = C01's [Token.mk_token] for the class, then the model's [Tok] (source of
      [Deb822Token.__init__], [_verify_token_text], the two parameterless constructors and the
      [is_whitespace]/[is_comment] properties asserted by hash);
    - [str.strip()] = [strip_by isws], [splitlines(keepends=True)] = [splitlines py_islinebreak true],
      [startswith("#")], [endswith("\n")], [sys.intern] (identity);
    and, in Lib/Tr.v: indexing, slices, [tr_opt_truthy], [tr_char_in]. *)
From Verif Require Import Lib.Base Lib.PyStr Lib.Tr Gen.PyChars.
From Verif Require Import Dict.Common Dict.Heap Dict.TrPrims Repro.StructTrPrims.
From Verif Require Import Repro.ListView Repro.ListTrPrims Gen.TrListTok Repro.ListTie
  Repro.ListViewTrPrims Gen.TrListView Repro.ListViewTie Props.C11.

(** 1. [whitespace_split_tokenizer] before decoration (one line): the assert, else the model's line tokenizer. *)
Theorem C11_tie_whitespace_split_line :
  forall v : str,
    tr_whitespace_split_tokenizer v = if mem_char LF v then Err AssertionError else ws_line_tokens v.
Proof. exact tie_ws_line. Qed.
Print Assumptions C11_tie_whitespace_split_line.

(** 2. [comma_split_tokenizer] before decoration (one line). *)
Theorem C11_tie_comma_split_line :
  forall v : str,
    tr_comma_split_tokenizer v = if mem_char LF v then Err AssertionError else comma_line_tokens v.
Proof. exact tie_comma_line. Qed.
Print Assumptions C11_tie_comma_split_line.

(** 3. The decorator's [impl] around ANY per-line function that agrees with the model's on texts without LF
    (the only texts [impl] hands it). *)
Theorem C11_tie_value_line_tokenizer :
  forall (k : lkind) (func : str -> result (list tok)) (v : str),
    (forall b, nolf b = true -> func b = line_func k b) ->
    tr_value_line_tokenizer_impl func v = tokenize k v.
Proof. exact tie_impl. Qed.
Print Assumptions C11_tie_value_line_tokenizer.

(** 4. The public [whitespace_split_tokenizer] (= [_value_line_tokenizer(<1>)]) on a whole value text. *)
Theorem C11_tie_whitespace_split_tokenizer :
  forall v : str,
    tr_value_line_tokenizer_impl tr_whitespace_split_tokenizer v = tokenize Space v.
Proof. exact tie_tokenize_ws. Qed.
Print Assumptions C11_tie_whitespace_split_tokenizer.

(** 5. The public [comma_split_tokenizer] on a whole value text. *)
Theorem C11_tie_comma_split_tokenizer :
  forall v : str,
    tr_value_line_tokenizer_impl tr_comma_split_tokenizer v = tokenize Comma v.
Proof. exact tie_tokenize_comma. Qed.
Print Assumptions C11_tie_comma_split_tokenizer.

(** The regenerated tokenizers compute: a comma list over three lines with a comment line. *)
Example C11_tie_tokenizer_example :
  tr_value_line_tokenizer_impl tr_comma_split_tokenizer
    [32; 97; 44; 32; 98; 10; 35; 99; 10; 32; 100; 32; 101; 10]%N
  = Ok [Tok KWs [32]; Tok KVal [97]; Tok KComma [44]; Tok KWs [32]; Tok KVal [98]; Tok KNl [10];
        Tok KCom [35; 99; 10];
        Tok KCont [32]; Tok KVal [100; 32; 101]; Tok KNl [10]]%N.
Proof. vm_compute. reflexivity. Qed.


(** * PART 2 — Deb822ParsedTokenList and ValueReference (Gen/TrListView.v, regenerated from parsing.py on every run)

    What is regenerated: [value_parts], [__iter__], [_mark_changed], [_previous_is_newline], [append_newline],
    [_continuation_line_char] (with its cache), [_append_continuation_line_token_if_necessary], [append_separator],
    [append_value] (the backwards scan for a separator, through the alias [value_parts = self._token_list]), [append],
    [append_comment], [replace] and [remove] (for/else over [iter_nodes()] with [break]), [_remove_node] (both scans with
    their [continue]/[break], the choice of the side, the [head_node]/[tail_node] bookkeeping and
    [LinkedListNode.link_nodes]), [iter_value_references], and [ValueReference._resolve_node] / [.value] getter and
    setter / [.remove] (state = the view's state plus the reference's [_node] slot; [_removal_handler] and
    [_mutation_notifier] are the view's regenerated [_remove_node] / [_mark_changed]).

    The LinkedList behind [self._token_list] is NOT translated again: [trp_ll_append], [trp_ll_iter], [trp_ll_iter_nodes],
    [trp_ll_clear], [tr_link_nodes], … are C09's regenerated functions (Gen/TrLinkedList.v) run on the record of the list
    object (C10's adapters, Repro/StructTrPrims.v); C09's and C10's lemmas about them are reused.

    Shape of the statements.  The model's [view] is a list of items; the code has heap nodes.  [v_inv hp its ll R]: the
    linked structure (C09's [ll_rep], with the size the list SHOULD have: [_remove_node] relinks nodes without
    updating [_size], so the stored size is stale afterwards — the theorems hold with it) carries the rows [R] in order
    and the store maps each row's reference to its item; [v_rep st vw]: some rows with the items of [vw] are
    represented and [_changed] / the cached continuation character agree.  For EVERY state that represents a view:
      [v_does its r vw']      r = MOk tt st', st' represents vw' and the store only grew;
      [v_refines r st m]      m = Ok vw' -> v_does …;  m = Err e -> r = MErr e st (same kind, state untouched).
    The right-hand sides are the model operations that [agree] runs through [run_session] / [run_ops] / [step]
    (OAppend [append], ORemove [remove], OReplace [replace], OSep [append_separator], ONewline [append_newline],
    OComment [append_comment], list(view) [view_values]); the reference operations ([ORefGet]/[ORefSet]/[ORefRemove]) are
    stated at the position of the node: the model's [ref_get]/[ref_set]/[ref_remove] are [render] / [set_value_at] /
    [remove_at] at the position that [resolve] finds, or OtherError when it finds none.

    Hand-modelled (Repro/ListViewTrPrims.v; sources asserted by hash in harness/props/c11.py): the store of items;
    [self._render] = [render], [self._value_factory] = [value_factory k] (its tokenizer is PART 1), the separator
    factory, isinstance on the four classes, [convert_to_text]/[text]/[is_whitespace]/[is_comment], [_format_comment] =
    [format_comment], the token constructors (no check), [iter_previous(skip_current=True)] (a walk along
    [previous_node]) and [iter_next(skip_current=True)] (C09's regenerated loop from [next_node]), the weak reference of a
    ValueReference (alive exactly while its node is linked: TRUSTED of C11). *)

(** 6. [list(view)] ([__iter__] over [value_parts]): exactly the model's values. *)
Theorem C11_tie_iter :
  forall k hp its ll ch co vw,
    v_rep (hp, its, ll, ch, co) vw -> tr_v_iter k hp its ll ch co = Ok (view_values vw).
Proof. exact tr_v_iter_rep. Qed.
Print Assumptions C11_tie_iter.

(** 7. [value_parts]: the references of the value rows, in order. *)
Theorem C11_tie_value_parts :
  forall k hp its ll ch co R,
    v_inv hp its ll R ->
    tr_v_value_parts k hp its ll ch co = Ok (map vr_ref (filter (fun r => is_value (vr_item r)) R)).
Proof. exact tr_v_value_parts_inv. Qed.
Print Assumptions C11_tie_value_parts.

(** 8. [_previous_is_newline]. *)
Theorem C11_tie_previous_is_newline :
  forall k hp its ll ch co vw,
    v_rep (hp, its, ll, ch, co) vw -> tr_v_previous_is_newline k hp its ll ch co = Ok (tail_ends_lf vw).
Proof. exact tr_v_previous_is_newline_rep. Qed.
Print Assumptions C11_tie_previous_is_newline.

(** 9. [append_newline] (ONewline): ValueError after a newline, nothing changed. *)
Theorem C11_tie_append_newline :
  forall k hp its ll ch co vw,
    v_rep (hp, its, ll, ch, co) vw ->
    v_refines (tr_v_append_newline k hp its ll ch co) (hp, its, ll, ch, co) (append_newline vw).
Proof. exact tr_v_append_newline_refines. Qed.
Print Assumptions C11_tie_append_newline.

(** 10. [_continuation_line_char]: the model's [cont_char], cache included; never None. *)
Theorem C11_tie_continuation_line_char :
  forall k hp its ll ch co vw,
    v_rep (hp, its, ll, ch, co) vw ->
    tr_v_continuation_line_char k hp its ll ch co
      = MOk (Some (fst (cont_char vw))) (hp, its, ll, ch, Some (fst (cont_char vw)))
    /\ v_rep (hp, its, ll, ch, Some (fst (cont_char vw))) (snd (cont_char vw)).
Proof. exact tr_cont_char_rep. Qed.
Print Assumptions C11_tie_continuation_line_char.

(** 11. [_append_continuation_line_token_if_necessary]. *)
Theorem C11_tie_append_continuation_if_necessary :
  forall k hp its ll ch co vw,
    v_rep (hp, its, ll, ch, co) vw ->
    v_does its (tr_v_append_cont_if_necessary k hp its ll ch co) (append_cont_if_necessary vw).
Proof. exact tr_v_append_cont_does. Qed.
Print Assumptions C11_tie_append_continuation_if_necessary.

(** 12. [append_separator(space_after_separator)] (OSep). *)
Theorem C11_tie_append_separator :
  forall k hp its ll ch co vw b,
    v_rep (hp, its, ll, ch, co) vw ->
    v_does its (tr_v_append_separator k hp its ll ch co b) (append_separator k b vw).
Proof. exact tr_v_append_separator_does. Qed.
Print Assumptions C11_tie_append_separator.

(** 13. [append_value(vt)] for an element object [vt] of the store. *)
Theorem C11_tie_append_value :
  forall k hp its ll ch co vw vt it,
    v_rep (hp, its, ll, ch, co) vw -> te_get its vt = Some it ->
    v_does its (tr_v_append_value k hp its ll ch co vt) (append_value k it vw).
Proof. exact tr_v_append_value_does. Qed.
Print Assumptions C11_tie_append_value.

(** 14. [append(value)] (OAppend): the factory's exception kind, nothing changed; else the model's view. *)
Theorem C11_tie_append :
  forall k hp its ll ch co vw x,
    v_rep (hp, its, ll, ch, co) vw ->
    v_refines (tr_v_append k hp its ll ch co x) (hp, its, ll, ch, co) (append k x vw).
Proof. exact tr_v_append_refines. Qed.
Print Assumptions C11_tie_append.

(** 15. [append_comment(text)] (OComment): a rejected comment text leaves the newline behind, as the model says. *)
Theorem C11_tie_append_comment :
  forall k hp its ll ch co vw c,
    v_rep (hp, its, ll, ch, co) vw ->
    match append_comment c vw with
    | (Ok vw', _) => v_does its (tr_v_append_comment k hp its ll ch co c) vw'
    | (Err e, vw1) => exists hp' y ll' ch' co',
        tr_v_append_comment k hp its ll ch co c = MErr e (hp', its ++ y, ll', ch', co')
        /\ v_rep (hp', its ++ y, ll', ch', co') vw1
    end.
Proof. exact tr_v_append_comment_refines. Qed.
Print Assumptions C11_tie_append_comment.

(** 16. [replace(orig, new)] (OReplace). *)
Theorem C11_tie_replace :
  forall k hp its ll ch co vw x y,
    v_rep (hp, its, ll, ch, co) vw ->
    v_refines (tr_v_replace k hp its ll ch co x y) (hp, its, ll, ch, co) (replace k x y vw).
Proof. exact tr_v_replace_refines. Qed.
Print Assumptions C11_tie_replace.

(** 17. [_remove_node(node)] for the node of the row at position [length R1]: the model's [remove_at] there — the two
    scans, the choice of the side, [clear()] for the only value, the unlinking with its head/tail bookkeeping. *)
Theorem C11_tie_remove_node :
  forall k hp its ll ch co vw R1 r R2,
    v_inv hp its ll (R1 ++ r :: R2) -> map vr_item (R1 ++ r :: R2) = v_items vw -> co = v_cont vw ->
    v_does its (tr_v_remove_node k hp its ll ch co (vr_id r)) (remove_at (length R1) vw).
Proof. exact tr_v_remove_node_does. Qed.
Print Assumptions C11_tie_remove_node.

(** 18. [remove(value)] (ORemove). *)
Theorem C11_tie_remove :
  forall k hp its ll ch co vw x,
    v_rep (hp, its, ll, ch, co) vw ->
    v_refines (tr_v_remove k hp its ll ch co x) (hp, its, ll, ch, co) (remove x vw).
Proof. exact tr_v_remove_refines. Qed.
Print Assumptions C11_tie_remove.

(** 19. [iter_value_references()] (OSnap): one reference per value row, in order, holding that row's node. *)
Theorem C11_tie_iter_value_references :
  forall k hp its ll ch co R,
    v_inv hp its ll R ->
    tr_v_iter_value_references k hp its ll ch co
    = Ok (map (fun r => Some (vr_id r)) (filter (fun r => is_value (vr_item r)) R)).
Proof. exact tr_v_iter_value_references_inv. Qed.
Print Assumptions C11_tie_iter_value_references.

(** 20-21. [ValueReference._resolve_node]: the node while it is linked; RuntimeError (OtherError) after the reference's
    own remove() ([_node] is None) or when its node is no longer in the list. *)
Theorem C11_tie_ref_resolve_live :
  forall k hp its ll ch co R1 r R2,
    v_inv hp its ll (R1 ++ r :: R2) -> tr_r_resolve_node k hp its ll ch co (Some (vr_id r)) = Ok (vr_id r).
Proof. exact tr_r_resolve_live. Qed.
Print Assumptions C11_tie_ref_resolve_live.
Theorem C11_tie_ref_resolve_dead :
  forall k hp its ll ch co R o,
    v_inv hp its ll R -> match o with Some w => ~ In w (map vr_id R) | None => True end ->
    tr_r_resolve_node k hp its ll ch co o = Err OtherError.
Proof. exact tr_r_resolve_dead. Qed.
Print Assumptions C11_tie_ref_resolve_dead.

(** 22-23. [ref.value] (ORefGet). *)
Theorem C11_tie_ref_value_get_live :
  forall k hp its ll ch co R1 r R2,
    v_inv hp its ll (R1 ++ r :: R2) ->
    tr_r_value_get k hp its ll ch co (Some (vr_id r)) = Ok (render (vr_item r)).
Proof. exact tr_r_value_get_live. Qed.
Print Assumptions C11_tie_ref_value_get_live.
Theorem C11_tie_ref_value_get_dead :
  forall k hp its ll ch co R o,
    v_inv hp its ll R -> match o with Some w => ~ In w (map vr_id R) | None => True end ->
    tr_r_value_get k hp its ll ch co o = Err OtherError.
Proof. exact tr_r_value_get_dead. Qed.
Print Assumptions C11_tie_ref_value_get_dead.

(** 24-25. [ref.value = x] (ORefSet): the factory runs first (its exception kind wins, nothing changed); a dead
    reference raises after it (the new element was made, nothing else changed). *)
Theorem C11_tie_ref_value_set_live :
  forall k hp its ll ch co vw R1 r R2 x,
    v_inv hp its ll (R1 ++ r :: R2) -> map vr_item (R1 ++ r :: R2) = v_items vw -> co = v_cont vw ->
    match value_factory k x with
    | Err e => tr_r_value_set k hp its ll ch co (Some (vr_id r)) x = MErr e (hp, its, ll, ch, co, Some (vr_id r))
    | Ok vt => exists hp',
        tr_r_value_set k hp its ll ch co (Some (vr_id r)) x = MOk tt (hp', its ++ [vt], ll, true, co, Some (vr_id r))
        /\ v_rep (hp', its ++ [vt], ll, true, co) (set_value_at (length R1) vt vw)
    end.
Proof. exact tr_r_value_set_live. Qed.
Print Assumptions C11_tie_ref_value_set_live.
Theorem C11_tie_ref_value_set_dead :
  forall k hp its ll ch co R o x,
    v_inv hp its ll R -> match o with Some w => ~ In w (map vr_id R) | None => True end ->
    match value_factory k x with
    | Err e => tr_r_value_set k hp its ll ch co o x = MErr e (hp, its, ll, ch, co, o)
    | Ok vt => tr_r_value_set k hp its ll ch co o x = MErr OtherError (hp, its ++ [vt], ll, ch, co, o)
    end.
Proof. exact tr_r_value_set_dead. Qed.
Print Assumptions C11_tie_ref_value_set_dead.

(** 26-27. [ref.remove()] (ORefRemove): the view's [_remove_node] at the node, then the reference is dead. *)
Theorem C11_tie_ref_remove_live :
  forall k hp its ll ch co vw R1 r R2,
    v_inv hp its ll (R1 ++ r :: R2) -> map vr_item (R1 ++ r :: R2) = v_items vw -> co = v_cont vw ->
    exists hp' y ll' ch' co',
      tr_r_remove k hp its ll ch co (Some (vr_id r)) = MOk tt (hp', its ++ y, ll', ch', co', None)
      /\ v_rep (hp', its ++ y, ll', ch', co') (remove_at (length R1) vw).
Proof. exact tr_r_remove_live. Qed.
Print Assumptions C11_tie_ref_remove_live.
Theorem C11_tie_ref_remove_dead :
  forall k hp its ll ch co R o,
    v_inv hp its ll R -> match o with Some w => ~ In w (map vr_id R) | None => True end ->
    tr_r_remove k hp its ll ch co o = MErr OtherError (hp, its, ll, ch, co, o).
Proof. exact tr_r_remove_dead. Qed.
Print Assumptions C11_tie_ref_remove_dead.

(** The representation relation is satisfiable: the empty list object represents the view without nodes, and every
    other represented state is reached from it by the regenerated methods (theorems 9-18). *)
Example C11_tie_rep_empty : v_rep (heap0, [], ll_empty, false, None) (View [] 0 None false []).
Proof. exact (v_rep_empty heap0). Qed.

(** The regenerated methods compute: on the empty comma list, append "a", append "b", append_comment, read the values,
    take the references, remove through the first reference and read again. *)
Example C11_tie_view_example :
  match tr_v_append Comma heap0 [] ll_empty false None [97]%N with
  | MOk _ (hp, its, ll, ch, co) =>
      match tr_v_append Comma hp its ll ch co [98]%N with
      | MOk _ (hp, its, ll, ch, co) =>
          match tr_v_iter Comma hp its ll ch co, tr_v_iter_value_references Comma hp its ll ch co with
          | Ok vals, Ok (r0 :: _) =>
              match tr_r_remove Comma hp its ll ch co r0 with
              | MOk _ (hp, its, ll, ch, co, r0') =>
                  Some (vals, tr_v_iter Comma hp its ll ch co, r0',
                        tr_r_value_get Comma hp its ll ch co r0)
              | MErr _ _ => None
              end
          | _, _ => None
          end
      | MErr _ _ => None
      end
  | MErr _ _ => None
  end = Some ([[97]; [98]]%N, Ok [[98]%N], None, Err OtherError).
Proof. vm_compute. reflexivity. Qed.
