(** C18 — tie by regeneration.  Only statements; every proof is [exact <lemma>].

    Gen/TrEd.v is REGENERATED from lib/debian/debian_support.py by harness/py2coq.py on every
    run: [tr_patches_from_ed_script] and [tr_patch_lines] are the Python bodies of
    [patches_from_ed_script] and [patch_lines] as the working tree has them now.

    [patches_from_ed_script] is a generator over a shared iterator [i = iter(source)]: the
    outer [for line in i] and the inner [for c in i … else: raise] are Fixpoints on explicit
    fuel that consume the same list; the inner one hands what follows it ([yield], next
    command) to the outer one as a continuation.  [yield] appends to an output list.  The
    match/[groups()]/[int()]/[ord(cmd)] sequence, the three command letters, [continue],
    [break], the for/else and the three [raise ValueError] are in place as in the source.
    [re_cmd] (None in every call inside /repo) is bound to its default None, so [patch_re] is
    chosen by [isinstance(line, bytes)] on the first line.

    str / bytes: lines are code-point lists in both flavours; the function is translated ONCE,
    with a leading parameter [is_bytes] = "the elements of [source] are bytes objects", which
    [isinstance(line, bytes)], [int()] and the pattern match read (Pdiff/TrPrims.v).
    ['' / b''] and ['.' / b'.'] are the same code-point lists, so the four-way membership
    tests of the source contain each alternative twice.

    A generator that raises after some yields is rendered as [Err]: the patches yielded BEFORE
    the exception (which a streaming consumer such as [patch_lines] has already applied to its
    list) are not part of these statements; the model's [parse] has the same shape.

    [patch_lines] changes its first argument in place and returns None: [tr_patch_lines]
    returns the final value of [lines].  Its [patches] argument is a list (the generator's
    output collected); the interleaving of a streamed generator with the slice assignments is
    not expressed.

    The theorems say that, for ALL scripts / line lists / patch lists and both flavours, the
    regenerated functions compute exactly the model functions [parse … Top] (same patches, or
    the same exception kind; fuel never exhausted, no AttributeError/TypeError from the
    primitives) and [patch_lines] of Pdiff/Ed.v — the functions that [agree] runs
    ([apply_script]) and that the theorems of Props/C18.v are about.

    Still hand-modelled (Pdiff/TrPrims.v): the regex leaf ([trp_match], defined through the
    model's [match_cmd]/[span_digits]; pattern texts asserted by the translator), [int()] on a
    digit run, [isinstance]; and, in Lib, list slice assignment ([tr_slice_assign] =
    [slice_assign] of Lib/PySlice.v) and [ord]. *)
From Verif Require Import Lib.Base Lib.Dec Lib.PySlice Lib.Tr Gen.PyChars
  Pdiff.Ed Pdiff.TrPrims Gen.TrEd Pdiff.EdTie Props.C18.

(** 1. The parser, errors included. *)
Theorem C18_tie_patches_from_ed_script :
  forall is_bytes source,
    tr_patches_from_ed_script is_bytes source
    = parse (trp_is_digit is_bytes) (trp_digit_val is_bytes) Top source.
Proof. exact tr_patches_from_ed_script_eq. Qed.
Print Assumptions C18_tie_patches_from_ed_script.

(** the same, spelled out per flavour with the digit classes that Props/C18.v names *)
Theorem C18_tie_patches_from_ed_script_bytes :
  forall source, tr_patches_from_ed_script true source = parse is_ascii_digit ascii_digit_val Top source.
Proof. exact (tr_patches_from_ed_script_eq true). Qed.
Print Assumptions C18_tie_patches_from_ed_script_bytes.

Theorem C18_tie_patches_from_ed_script_str :
  forall source, tr_patches_from_ed_script false source = parse re_d nd_val Top source.
Proof. exact (tr_patches_from_ed_script_eq false). Qed.
Print Assumptions C18_tie_patches_from_ed_script_str.

(** 2. The application of patches never raises and leaves the model's list. *)
Theorem C18_tie_patch_lines :
  forall lines patches, tr_patch_lines lines patches = Ok (patch_lines lines patches).
Proof. exact tr_patch_lines_eq. Qed.
Print Assumptions C18_tie_patch_lines.

(** 3. Composed: the function of Props/C18.v ([apply_script_of], what [agree] runs). *)
Theorem C18_tie_apply_script :
  forall is_bytes lines script,
    (do ps <- tr_patches_from_ed_script is_bytes script; tr_patch_lines lines ps)
    = apply_script_of is_bytes lines script.
Proof. intros [|]; [exact (tr_apply_script_eq true)|exact (tr_apply_script_eq false)]. Qed.
Print Assumptions C18_tie_apply_script.

(** non-vacuity: the regenerated code really runs (change, delete, append; an unterminated
    block; a range on 'a') *)
Example C18_tie_runs :
  let l (c : N) := [c; 10%N] in
  let x := l 120%N in let y := l 121%N in let z := l 122%N in
  tr_patches_from_ed_script false
    [[50; 44; 51; 99; 10]%N; x; [46; 10]%N; [49; 100; 10]%N; [48; 97; 10]%N; y; z; [46]%N]
  = Ok [(1, 3, [x]); (0, 1, []); (0, 0, [y; z])]%Z
  /\ tr_patches_from_ed_script true [[49; 97; 10]%N; x] = Err ValueError
  /\ tr_patches_from_ed_script true [[49; 44; 50; 97; 10]%N; x; [46; 10]%N] = Err ValueError
  /\ tr_patch_lines [l 97%N; l 98%N; l 99%N; l 100%N] [(1, 3, [x]); (0, 1, []); (0, 0, [y; z])]%Z
     = Ok [y; z; x; l 100%N].
Proof. vm_compute. repeat split. Qed.
