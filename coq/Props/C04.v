(** C04 — Well-formed changelogs round-trip byte-for-byte through Changelog.
    Only statements; every proof is [exact <lemma>].

    Model: Changelog/Model.v ([parse_changelog], [format_changelog] -- the functions
    Changelog/Check.v [agree] runs); spec: Changelog/Spec.v ([wf_changelog], [doc_of],
    [expose] -- what [holds] uses); proofs: Changelog/CharFacts.v, LeafProofs.v, WfProofs.v.
    [J] is the record of the thirteen "junk" classifiers (emacs / vim mode lines, cvs
    keywords, comments, old_format_re1..8): the theorems hold for EVERY instance. *)
From Coq Require Import String.
From Verif Require Import Lib.Base Lib.Dec Lib.PyStr Changelog.Model Changelog.Spec Changelog.WfProofs
  Changelog.Lit Changelog.Check Changelog.WfCheckProofs Changelog.NormalCheckProofs.

(** 1. wf_roundtrip.  For every text of the deb-changelog grammar -- any number of
       blocks, any package / version / distribution list / urgency / comment / key=value
       pairs / change lines / author / date the grammar admits, any blank lines inside and
       between blocks and before the first heading, no bound on any length -- strict parsing
       succeeds, emits no warning, and str() of the result is the text, byte for byte. *)
Theorem C04_wf_roundtrip :
  forall J t, wf_changelog t = true ->
  exists st, parse_changelog J true false None (InStr t) = Ok st
             /\ p_warn st = []
             /\ format_changelog false (cl_of st) = Ok t.
Proof. exact wf_roundtrip. Qed.

(** the same in lenient mode and with allow_empty_author: no mode ever warns on a
    well-formed text *)
Theorem C04_wf_roundtrip_any_mode :
  forall J strict allow t, wf_changelog t = true ->
  exists st, parse_changelog J strict allow None (InStr t) = Ok st
             /\ p_warn st = []
             /\ format_changelog false (cl_of st) = Ok t.
Proof. exact wf_roundtrip_any_mode. Qed.

(** 2. wf_blocks_exposed.  The parsed blocks expose exactly the package, version,
       distributions, urgency, urgency comment, extra key=value pairs (in file order),
       change lines, author and date that were written, block by block in file order, and
       the lines before the first heading are kept as the initial lines.
       ([doc_of t = Some d]: [t] is the rendering of the well-formed document [d];
       [exposed]: the attribute tuple of a model block; [expose]: the one the grammar
       document stands for.) *)
Theorem C04_wf_blocks_exposed :
  forall J t d, doc_of t = Some d ->
  exists st, parse_changelog J true false None (InStr t) = Ok st
             /\ map exposed (p_blocks st) = map (fun b => Some (expose b)) (w_blocks d)
             /\ p_initial st = w_leading d.
Proof. exact wf_blocks_exposed. Qed.

(** the same for the other input form: the list of the text's lines *)
Theorem C04_wf_roundtrip_lines :
  forall J strict allow d, wf_doc d = true ->
  exists st, parse_changelog J strict allow None (InLines (doc_lines d)) = Ok st
             /\ p_warn st = []
             /\ format_changelog false (cl_of st) = Ok (render d)
             /\ map exposed (p_blocks st) = map (fun b => Some (expose b)) (w_blocks d).
Proof. exact wf_roundtrip_lines. Qed.

(** every well-formed text stands for a document, so theorem 2 is never vacuous *)
Theorem C04_wf_has_doc :
  forall t, wf_changelog t = true -> exists d, doc_of t = Some d /\ wf_doc d = true /\ render d = t.
Proof. exact wf_changelog_doc. Qed.

(** Non-vacuity: a two-block text with a leading blank line, an urgency comment, two extra
    pairs not in sorted order, non-ASCII change text containing '#', ':' and a form feed,
    blank lines inside a block, a one-digit space-padded day and a date without day name
    is in the grammar; and the model, run on it, does what the theorems say. *)
Local Open Scope string_scope.
Definition C04_sample : str := dec
  "\00000ahello-2.0 (1:2.10-1~bpo+1) unstable stable-security; urgency=medium (HIGH for x), x-rebuild=yes, Binary-Only=no\00000a\00000a  * New release: closes #1\00000c caf\0000e9\00000a \00000a    - sub item\00000a\00000a -- Jos\0000e9 <j@x.org>  Mon,  1 Jan 2024 10:00:00 +0000\00000a\00000ahello-2.0 (1.0) unstable; urgency=low\00000a  * Initial.\00000a -- A <a <b>>  31 Dec 2023 9:00:00 -0130\00000a \00000a".

Definition C04_no_junk : junk :=
  let f := fun _ : str => false in mkJunk f f f f f f f f f f f f f.

Example C04_nonvacuous :
  wf_changelog C04_sample = true
  /\ (exists d, doc_of C04_sample = Some d /\ List.length (w_blocks d) = 2%nat
                /\ map (fun b => List.length (w_pairs b)) (w_blocks d) = [2%nat; 0%nat])
  /\ (exists st, parse_changelog C04_no_junk true false None (InStr C04_sample) = Ok st
                 /\ p_warn st = [] /\ format_changelog false (cl_of st) = Ok C04_sample
                 /\ List.length (p_blocks st) = 2%nat).
Proof.
  vm_compute. split; [reflexivity|]. split; eexists; repeat split.
Qed.

(** 3. agree implies holds (the bridge between the correspondence and the theorems above).
       For EVERY case of Changelog/Check.v (the module shared with C15; [CWf] is C04's
       constructor): whenever the implementation behaved like the model, the property held --
       under the side condition [judged] (Changelog/NormalCheckProofs.v), which for [CWf]
       is [judged_wf] (Changelog/WfCheckProofs.v) and says, for texts of the grammar only:
       (a) the input handed to the constructor is an input form of the judged text (the text as
       str / bytes / file content, or its lines with or without their LF), and (b) every
       observed block shows, through the public property, its raw version string.
       Without it the statement is false ([C04_agree_alone_is_not_enough] below): [agree]
       neither relates [inp] to [text] nor compares [ob_pubversion]. *)
Theorem C04_agree_implies_holds :
  forall c, judged c = true -> agree c = true -> holds c = true.
Proof. exact agree_implies_holds. Qed.

(** the [CWf] instance, with the side condition spelled out *)
Theorem C04_agree_implies_holds_wf :
  forall text inp gen tbl o,
  judged_wf text inp o = true ->
  agree (CWf text inp gen tbl o) = true -> holds (CWf text inp gen tbl o) = true.
Proof. exact wf_case_holds. Qed.

(** a one-block text given as its lines (one of them with its LF): judged, agrees, holds;
    the same observation without the public version, or judged against another well-formed
    text, agrees and does NOT hold -- and is not judged *)
Definition C04_L (s : string) : lit := enclit (dec s).
Definition C04_hdr : string := "p (1) u; urgency=low".
Definition C04_trl : string := " -- a <b>  1 J 2001 1:00:00 +0000".
Definition C04_text : lit :=
  C04_L "p (1) u; urgency=low\00000a  * x\00000a -- a <b>  1 J 2001 1:00:00 +0000\00000a".
Definition C04_text2 : lit :=
  C04_L "q (1) u; urgency=low\00000a  * x\00000a -- a <b>  1 J 2001 1:00:00 +0000\00000a".
Definition C04_obs (pv : option lit) : result ostate :=
  Ok (mkOS [] [mkOB (Some (C04_L "p")) (Some (C04_L "1")) (Some (C04_L "u")) (Some (C04_L "low")) (C04_L "")
                    [C04_L "  * x"] (Some (C04_L "a <b>")) (Some (C04_L "1 J 2001 1:00:00 +0000")) [] []
                    false (C04_L "  ") pv] 0 (Ok C04_text)).

Example C04_agree_alone_is_not_enough :
  let good := CWf C04_text (LLines [C04_L C04_hdr; C04_L "  * x\00000a"; C04_L C04_trl]) None []
                  (C04_obs (Some (C04_L "1"))) in
  let nopub := CWf C04_text (LStr C04_text) None [] (C04_obs None) in
  let other := CWf C04_text2 (LStr C04_text) None [] (C04_obs (Some (C04_L "1"))) in
  (judged good = true /\ agree good = true /\ holds good = true)
  /\ (agree nopub = true /\ holds nopub = false /\ judged nopub = false)
  /\ (agree other = true /\ holds other = false /\ judged other = false).
Proof. vm_compute. repeat split. Qed.

Print Assumptions C04_wf_roundtrip.
Print Assumptions C04_wf_roundtrip_any_mode.
Print Assumptions C04_wf_blocks_exposed.
Print Assumptions C04_wf_roundtrip_lines.
Print Assumptions C04_wf_has_doc.
(** The case type carries its texts as packed primitive 63-bit integers (Changelog/Lit.v), so the two
    statements below mention [declit]: Print Assumptions lists Coq's primitive integer type and the
    four operations [declit] uses (PrimInt63.int, lsr, land, leb, eqb) -- kernel primitives that come
    with the case type itself -- and nothing else. *)
Print Assumptions C04_agree_implies_holds.
Print Assumptions C04_agree_implies_holds_wf.
