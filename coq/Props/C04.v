(** C04 — Well-formed changelogs round-trip byte-for-byte through Changelog.
    Only statements; every proof is [exact <lemma>].

    Model: Changelog/Model.v ([parse_changelog], [format_changelog] -- the functions
    Changelog/Check.v [agree] runs); spec: Changelog/Spec.v ([wf_changelog], [doc_of],
    [expose] -- what [holds] uses); proofs: Changelog/CharFacts.v, LeafProofs.v, WfProofs.v.
    [J] is the record of the thirteen "junk" classifiers (emacs / vim mode lines, cvs
    keywords, comments, old_format_re1..8): the theorems hold for EVERY instance. *)
From Coq Require Import String.
From Verif Require Import Lib.Base Lib.Dec Lib.PyStr Changelog.Model Changelog.Spec Changelog.WfProofs.

(** 1. wf_roundtrip.  For every text of the deb-changelog grammar -- any number of
       blocks, any package / version / distribution list / urgency / comment / key=value
       pairs / change lines / author / date the grammar admits, any blank lines inside and
       between blocks and before the first heading, no bound on any length -- strict parsing
       succeeds, emits no warning, and str() of the result is the text, byte for byte. *)
Theorem C04_wf_roundtrip :
  forall J t, wf_changelog t = true ->
  exists st, parse_changelog J true false None (InStr t) = Ok st
             /\ p_warn st = []
             /\ format_changelog false (cl_of st) = Ok t.
Proof. exact wf_roundtrip. Qed.

(** the same in lenient mode and with allow_empty_author: no mode ever warns on a
    well-formed text *)
Theorem C04_wf_roundtrip_any_mode :
  forall J strict allow t, wf_changelog t = true ->
  exists st, parse_changelog J strict allow None (InStr t) = Ok st
             /\ p_warn st = []
             /\ format_changelog false (cl_of st) = Ok t.
Proof. exact wf_roundtrip_any_mode. Qed.

(** 2. wf_blocks_exposed.  The parsed blocks expose exactly the package, version,
       distributions, urgency, urgency comment, extra key=value pairs (in file order),
       change lines, author and date that were written, block by block in file order, and
       the lines before the first heading are kept as the initial lines.
       ([doc_of t = Some d]: [t] is the rendering of the well-formed document [d];
       [exposed]: the attribute tuple of a model block; [expose]: the one the grammar
       document stands for.) *)
Theorem C04_wf_blocks_exposed :
  forall J t d, doc_of t = Some d ->
  exists st, parse_changelog J true false None (InStr t) = Ok st
             /\ map exposed (p_blocks st) = map (fun b => Some (expose b)) (w_blocks d)
             /\ p_initial st = w_leading d.
Proof. exact wf_blocks_exposed. Qed.

(** the same for the other input form: the list of the text's lines *)
Theorem C04_wf_roundtrip_lines :
  forall J strict allow d, wf_doc d = true ->
  exists st, parse_changelog J strict allow None (InLines (doc_lines d)) = Ok st
             /\ p_warn st = []
             /\ format_changelog false (cl_of st) = Ok (render d)
             /\ map exposed (p_blocks st) = map (fun b => Some (expose b)) (w_blocks d).
Proof. exact wf_roundtrip_lines. Qed.

(** every well-formed text stands for a document, so theorem 2 is never vacuous *)
Theorem C04_wf_has_doc :
  forall t, wf_changelog t = true -> exists d, doc_of t = Some d /\ wf_doc d = true /\ render d = t.
Proof. exact wf_changelog_doc. Qed.

(** Non-vacuity: a two-block text with a leading blank line, an urgency comment, two extra
    pairs not in sorted order, non-ASCII change text containing '#', ':' and a form feed,
    blank lines inside a block, a one-digit space-padded day and a date without day name
    is in the grammar; and the model, run on it, does what the theorems say. *)
Local Open Scope string_scope.
Definition C04_sample : str := dec
  "\00000ahello-2.0 (1:2.10-1~bpo+1) unstable stable-security; urgency=medium (HIGH for x), x-rebuild=yes, Binary-Only=no\00000a\00000a  * New release: closes #1\00000c caf\0000e9\00000a \00000a    - sub item\00000a\00000a -- Jos\0000e9 <j@x.org>  Mon,  1 Jan 2024 10:00:00 +0000\00000a\00000ahello-2.0 (1.0) unstable; urgency=low\00000a  * Initial.\00000a -- A <a <b>>  31 Dec 2023 9:00:00 -0130\00000a \00000a".

Definition C04_no_junk : junk :=
  let f := fun _ : str => false in mkJunk f f f f f f f f f f f f f.

Example C04_nonvacuous :
  wf_changelog C04_sample = true
  /\ (exists d, doc_of C04_sample = Some d /\ List.length (w_blocks d) = 2%nat
                /\ map (fun b => List.length (w_pairs b)) (w_blocks d) = [2%nat; 0%nat])
  /\ (exists st, parse_changelog C04_no_junk true false None (InStr C04_sample) = Ok st
                 /\ p_warn st = [] /\ format_changelog false (cl_of st) = Ok C04_sample
                 /\ List.length (p_blocks st) = 2%nat).
Proof.
  vm_compute. split; [reflexivity|]. split; eexists; repeat split.
Qed.

Print Assumptions C04_wf_roundtrip.
Print Assumptions C04_wf_roundtrip_any_mode.
Print Assumptions C04_wf_blocks_exposed.
Print Assumptions C04_wf_roundtrip_lines.
Print Assumptions C04_wf_has_doc.
