(** C10 — placeholder while the check is being built; replaced below. *)
From Verif Require Import Lib.Base Repro.Doc Repro.Struct.

Theorem C10_reappend_rejected :
  forall d j, fst (s_step d (SReappend j)) <> None.
Proof.
  intros d j. cbn. destruct (nth_error (paras d) j); cbn; discriminate.
Qed.
Print Assumptions C10_reappend_rejected.
