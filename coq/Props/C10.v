(** C10 — structural edits of a preserved document only move or insert whole elements.
    Only statements; every proof is [exact <lemma>] or a short composition.

    Model:  Repro/Struct.v (order_*/sort_fields of both paragraph classes, _nodes_being_relocated,
            _regenerate_relative_kvapir_order, Deb822FileElement.append/insert) on Repro/Doc.v
            (set_kvpair_element / remove_kvpair_element / _resolve_to_single_node, p[k] = v).
    Spec:   Repro/StructSpec.v (documents as lists of paragraphs as lists of fields; keys as masks;
            [s_cands]: the outcomes the property permits for an operation).
    Proofs: Repro/StructProofs*.v, Repro/StructSortProofs.v (stable sort for every key function).

    Notation used in the comments: [abs d] is the list view of a model document (every paragraph
    replaced by the list of its fields in _kvpair_order order); [dump d = sdump (abs d)]. *)
From Coq Require Import String Permutation Sorted.
From Verif Require Import Lib.Base Lib.Dec Lib.PyStr Gen.PyChars
  Repro.Doc Repro.StructSort Repro.Struct Repro.StructSpec Repro.StructLemmas Repro.StructSortProofs
  Repro.StructProofsPN Repro.StructProofsPD1 Repro.StructProofsPD2 Repro.StructProofsPD3
  Repro.StructProofsPD4 Repro.StructProofs.
From Verif Require Import Repro.DocInv Repro.Abs Repro.ParseDumpAbs Repro.ParseDumpAbsEdits
  Repro.ParseDumpAbsStruct.
From Verif Require Repro.StructCheck Repro.StructCheckProofs.

(** * 1. byname_consistent

    [wf_doc] (a boolean) says of every paragraph: no-duplicates class — the names are distinct
    case-insensitively; duplicate-fields class — node identities are distinct and below the
    allocation counter, the keys of _kvpair_elements are distinct, every entry is non-empty and
    equals the identities of the nodes of _kvpair_order carrying that name IN THAT ORDER, and
    every node's name has an entry.  It holds after every history of operations (each addressing
    an existing paragraph; insert positions non-negative), whatever they return. *)
Theorem C10_byname_consistent :
  forall d ops,
    wf_doc d = true -> ops_in_range d ops = true ->
    wf_doc (s_run d ops) = true.
Proof. exact run_wf_bool. Qed.

(** what the invariant says: byname n = filter (has_name n) order (as node identities; a name
    without fields has no entry) *)
Theorem C10_byname_is_filtered_order :
  forall d n,
    wf_dparab d = true ->
    assoc_get (lower n) (d_byname d)
    = nonempty_opt (map fst (filter (fun nf => has_name n (snd nf)) (d_order d))).
Proof. exact byname_is_filtered_order. Qed.

(** hence get_kvpair_element((name, i)) — in either class, in any reachable state — returns the
    i-th field of that name in document order ([position_ok]: for i >= 0 exactly that element or
    an exception when there is none; i < 0 counts from the end or is refused) *)
Theorem C10_name_index_is_ith_occurrence :
  forall d ops p n i,
    wf_doc d = true -> ops_in_range d ops = true ->
    In (Para p) (s_run d ops) ->
    position_ok (para_fields p) n i (answer (p_position p n i)) = true.
Proof.
  intros d ops p n i Hwf Hr Hin. apply position_is_ith.
  apply wf_doc_Wf in Hwf. exact (run_wf ops d Hwf Hr p Hin).
Qed.

(** the parser's own choice of paragraph class starts in the invariant *)
Theorem C10_parsed_paragraph_consistent :
  forall fs, wf_parab (from_kvpairs fs) = true /\ para_fields (from_kvpairs fs) = fs.
Proof.
  intros fs. destruct (from_kvpairs_wf fs) as [H1 H2]. split; [now apply wf_parab_Wf|exact H2].
Qed.

(** * 2. structural_refines_list

    One operation: when the model accepts it, the list view of the result is one of the outcomes
    the list reference permits for that operation ([s_cands], flag [false]); when the model refuses
    an order_*/sort/delete/re-append, refusal is one of the permitted outcomes (flag [true]) and
    the list view is the permitted one; p[k] = v, append and insert can also fail while the value
    is turned into a field (C05's subject), then the document is untouched.  [op_rel] pairs the
    operation with the reference's: the same keys; for p[k] = v the field that was built, for
    append/insert the paragraph that was built. *)
Theorem C10_step_refines_list :
  forall d o,
    wf_doc d = true -> op_in_range d o = true ->
    match fst (s_step d o) with
    | None =>
        exists so cs, op_rel o so /\ s_cands (abs d) so = Some cs
                      /\ In (false, abs (snd (s_step d o))) cs
    | Some _ =>
        if structural o
        then exists so cs, op_rel o so /\ s_cands (abs d) so = Some cs
                           /\ In (true, abs (snd (s_step d o))) cs
        else snd (s_step d o) = d
    end.
Proof.
  intros d o Hwf Hr. apply wf_doc_Wf in Hwf. exact (proj2 (step_refines d o Hwf Hr)).
Qed.

(** Any history: the dump is the concatenation of the field texts of a list state that the
    reference reaches from the initial list by permitted outcomes of the same operations
    ([sreach]); elements only move, disappear or appear as wholes because the reference's
    operations are [pick]/[unpick]/[set_mask] on whole list elements. *)
Theorem C10_structural_refines_list :
  forall d ops,
    wf_doc d = true -> ops_in_range d ops = true ->
    dump (s_run d ops) = sdump (abs (s_run d ops))
    /\ sreach (abs d) ops (abs (s_run d ops)).
Proof.
  intros d ops Hwf Hr. split; [apply dump_abs|]. apply wf_doc_Wf in Hwf. now apply run_refines.
Qed.

(** what the reference's moves do to a list: first/last/before/after/sort are permutations of the
    fields (as whole elements), *)
Theorem C10_moves_permute :
  forall m r after sk (fs : list field),
    length m = length fs -> length r = length fs ->
    Permutation (mv_first m fs) fs /\ Permutation (mv_last m fs) fs
    /\ Permutation (mv_rel after m r fs) fs
    /\ Permutation (sort_fields_by sk fs) fs.
Proof. exact moves_permute. Qed.

(** ... and the moved fields ([pick]) and the others ([unpick]) are subsequences: their relative
    order is kept by construction. *)

(** sort_fields(key=sk) is a STABLE sort by the key of the field name, for EVERY key function [sk]
    of the family (Repro/StructSort.v: default = lower-cased name, len, constant, "X-" fields last,
    first character, exact spelling; [field_key sk f] is the key of [f], [k_leb (keyfn_of sk)] is
    Python's [<=] on the type of the keys: str, int or bool): the result is in key order, *)
Theorem C10_sort_sorted :
  forall sk (fs : list field),
    StronglySorted (fun x y => k_leb (keyfn_of sk) (field_key sk x) (field_key sk y) = true)
                   (sort_fields_by sk fs).
Proof. exact sort_fields_by_sorted. Qed.

(** ... and the fields whose key ties with that of any given field [g] ([key_tie]: neither key is
    smaller) keep the relative order they had.  Under the default key only fields of the same name
    (case-insensitively) tie; under the other keys fields of DIFFERENT names tie, and the
    occurrences of a repeated field stay interleaved with them as they were. *)
Theorem C10_sort_stable :
  forall sk g (fs : list field),
    filter (key_tie sk g) (sort_fields_by sk fs) = filter (key_tie sk g) fs.
Proof. exact sort_fields_by_stable. Qed.

(** which fields tie, key by key *)
Theorem C10_sort_ties :
  forall f g : field,
    key_tie KDefault f g = str_eqb (lower (f_name f)) (lower (f_name g))
    /\ key_tie KLen f g = (N.of_nat (length (f_name f)) =? N.of_nat (length (f_name g)))%N
    /\ key_tie KConst f g = true
    /\ key_tie KXLast f g = Bool.eqb (startswith X_DASH (lower (f_name f))) (startswith X_DASH (lower (f_name g)))
    /\ key_tie KFirstChar f g = str_eqb (lower (firstn 1 (f_name f))) (lower (firstn 1 (f_name g)))
    /\ key_tie KExact f g = str_eqb (f_name f) (f_name g).
Proof. exact key_tie_meaning. Qed.

(** the statement as it was for the default key: for every lower-cased name the fields carrying it
    come out in the order in which they went in *)
Theorem C10_sort_default_stable :
  forall n (fs : list field),
    filter (fun f => str_eqb (lower (f_name f)) n) (sort_fields_by KDefault fs)
    = filter (fun f => str_eqb (lower (f_name f)) n) fs.
Proof. exact sort_default_stable. Qed.

(** The three facts do not depend on the family: [sorted(xs, key=key)] ([sort_by]) is a stable sort
    for ANY key function into ANY type whose [<=] is total and transitive ([ties leb key k y]: the
    key of [y] and [k] tie). *)
Theorem C10_sort_any_key :
  forall (K : Type) (leb : K -> K -> bool) (key : field -> K),
    (forall a b, leb a b = false -> leb b a = true) ->
    (forall a b c, leb a b = true -> leb b c = true -> leb a c = true) ->
    forall fs : list field,
      Permutation (sort_by leb key fs) fs
      /\ StronglySorted (fun x y => leb (key x) (key y) = true) (sort_by leb key fs)
      /\ forall k, filter (ties leb key k) (sort_by leb key fs) = filter (ties leb key k) fs.
Proof.
  intros K leb key Htot Htr fs. split; [apply sort_by_perm|].
  split; [exact (sort_by_sorted leb key Htot Htr fs)|]. intros k. exact (sort_by_stable leb key Htr k fs).
Qed.

(** * 3. reorder_errors_unchanged

    Whatever exception an operation raises, the list view afterwards is the one before, or differs
    from it only in that the last field of one paragraph was given its missing final newline
    (order_* call _ensure_final_newline before they look the reference field up). *)
Theorem C10_reorder_errors_unchanged :
  forall d o e,
    wf_doc d = true -> op_in_range d o = true -> fst (s_step d o) = Some e ->
    same_up_to_newline (abs d) (abs (snd (s_step d o))).
Proof.
  intros d o e Hwf Hr He. apply wf_doc_Wf in Hwf. exact (errors_unchanged d o e Hwf Hr He).
Qed.

(** the newline: nothing happens to a paragraph whose last field is terminated, otherwise the text of
    the paragraph grows by exactly one LF at its end (in a parsed document only the very last field
    of the document can be unterminated: [sep_ok], checked on every case) *)
Theorem C10_newline_only_when_missing :
  forall fs,
    match last_opt fs with Some f => ends_nl (f_rest f) | None => true end = true -> nl fs = fs.
Proof. exact nl_only_when_missing. Qed.

Theorem C10_newline_is_one_lf_at_the_end :
  forall fs,
    concat (map field_text (nl fs)) = concat (map field_text fs)
    \/ concat (map field_text (nl fs)) = (concat (map field_text fs) ++ [LF])%list.
Proof. exact nl_text. Qed.

(** * 4. insert_append_no_merge

    Full statement (DESIGN §4): abs (parse (dump (append f p))) has one more paragraph, equal to p;
    the same for insert i.  It is theorem [C10_insert_append_no_merge] below (via the
    printer/parser theorem of C05, Repro/ParseDumpAbs*.v).  The partial form is kept: on the larger
    domain [wf_doc] (no demand on the texts) the new paragraph is an item of its own, placed where
    the reference permits (at the end after 0-2 newline tokens with the missing final newline of
    the document supplied / between paragraph i-1 and paragraph i with a newline token on either
    side), nothing else changes. *)
Theorem C10_insert_append_no_merge_partial :
  forall d p i,
    wf_doc d = true -> wf_parab p = true ->
    In (false, abs (f_append d p)) (append_cands (abs d) (para_fields p))
    /\ ((0 <=? i)%Z = true ->
        exists cs, s_cands (abs d) (DInsert i (para_fields p)) = Some cs
                   /\ In (false, abs (f_insert d i p)) cs).
Proof.
  intros d p i Hwf Hp. apply wf_doc_Wf in Hwf. apply wf_parab_Wf in Hp. split.
  - exact (proj1 (f_append_refines d p Hwf Hp)).
  - intros Hi. exact (proj1 (f_insert_refines d i p Hwf Hp Hi)).
Qed.

(** insert_append_no_merge, full.  [py_reparse] = the parser model of C01 (Token.v, Parse.v) in
    accepting mode on the lines of the text, abstracted by [Abs.abs_of_tree] (compared with the
    implementation's parse by the correspondence check of C05).  [fields_of d] = the paragraphs of
    [d] as field lists (comment, name, rest texts), in order.
    Hypotheses (all boolean): the fields of [d] are well-formed ([para_wf]), only the very end of [d]
    may lack its newline ([lines_ok]), the item structure of [d] is a parser's ([doc_canon]: in
    particular paragraphs are separated), and — ADDED — [tail_ok]: free text at the very end of
    the document (a comment or whitespace item) ends with a newline (for an unterminated trailing
    comment line the code glues its newline token to it, and the items of the model document no
    longer are the parser's); the new paragraph is non-empty, its fields are well-formed and
    each ends with a newline (what new_empty_paragraph() + p[k] = v builds: [C10_built_paragraph_ok]).
    Repeated field names are allowed.
    Conclusion: the fresh parse of the new dump succeeds and
      append:   its paragraphs are those of [d] — the last one with its final newline supplied if
                it lacked it ([map_last ensure_item]) — followed by one more, equal to [p];
      insert i: for i = 0 or i < number of paragraphs: the paragraphs of [d] with [p] as
                paragraph number i, nothing else changed; otherwise as append.
    Nothing is merged, split or lost. *)
Theorem C10_insert_append_no_merge :
  forall d p i,
    forallb para_wf (paras d) = true -> lines_ok d = true -> doc_canon d = true ->
    tail_ok d = true ->
    para_wf p = true -> fields_closed (para_fields p) = true -> para_fields p <> [] ->
    (exists dd, py_reparse (dump (f_append d p)) = Ok dd
                /\ dd = norm_doc (squash (f_append d p))
                /\ fields_of dd = (fields_of (map_last ensure_item d) ++ [para_fields p])%list)
    /\ ((0 <=? i)%Z = true ->
        exists dd, py_reparse (dump (f_insert d i p)) = Ok dd
                   /\ dd = norm_doc (squash (f_insert d i p))
                   /\ fields_of dd =
                      let L := fields_of d in
                      let n := Z.to_nat i in
                      if (i =? 0)%Z || (n <? List.length L)%nat
                      then (firstn n L ++ para_fields p :: skipn n L)%list
                      else (fields_of (map_last ensure_item d) ++ [para_fields p])%list).
Proof.
  intros d p i H1 H2 H3 H4 H5 H6 H7. split.
  - now apply append_no_merge.
  - intros Hi. now apply insert_no_merge.
Qed.

Theorem C10_built_paragraph_ok :
  forall kvs p, build_para kvs (PN []) = Ok p -> kvs <> [] ->
    para_wf p = true /\ fields_closed (para_fields p) = true /\ para_fields p <> [].
Proof. exact built_para_ok. Qed.

(** * Non-vacuity

    A document without final newline: a free comment, a duplicate-fields paragraph (X, A, a — the
    parser's own class choice and index), a blank line, a no-duplicates paragraph whose last field is
    unterminated.  The history moves both occurrences of A first, moves (A, 0) last, refers to a
    field relative to itself (ValueError), moves (a, 1) before X, sorts, replaces and deletes indexed
    occurrences, moves the unterminated last field (the newline is supplied), appends and inserts
    paragraphs, and uses an index that is out of range (KeyError).  All hypotheses of the theorems above hold for it, and
    the dump is the expected one. *)
Local Open Scope string_scope.
Example C10_nonvacuous :
  let s (x : String.string) := Lib.Dec.dec x in
  let F c n r := mkF (s c) (s n) (s r) in
  let d := [Other OComment (s "# head" ++ [LF])%list; Other OWs [LF];
            Para (from_kvpairs [F "" "X" ": 1
"; F "# c
" "A" ": 2
"; F "" "a" ": 3
 cont
"]);
            Other OWs [LF];
            Para (from_kvpairs [F "" "B" ": b
"; F "" "C" ": c"])] in
  let ops := [SFirst 0 (KStr (s "a"));
              SLast 0 (KIdx (s "A") 0);
              SAfter 0 (KStr (s "A")) (KIdx (s "a") 0);
              SBefore 0 (KIdx (s "a") 1) (KStr (s "x"));
              SSort 0 KDefault;
              SSet 0 (KIdx (s "A") 1) (s "new");
              SFirst 1 (KStr (s "C"));
              SAppend [(s "N", s "x")];
              SInsert 1 [(s "M", s "y")];
              SDel 0 (KIdx (s "a") 0);
              SLast 0 (KIdx (s "A") 5)] in
  wf_doc d = true
  /\ ops_in_range d ops = true
  /\ map (fun o => fst (s_step d o)) [SAfter 0 (KStr (s "A")) (KIdx (s "a") 0); SLast 0 (KIdx (s "A") 5)]
     = [Some ValueError; Some KeyError]
  /\ dump (s_run d ops)
     = s "# head

# c
A: new
X: 1

M: y

C: c
B: b

N: x
".
Proof. vm_compute. repeat split. Qed.

(** sort_fields with keys under which different names tie, on both classes: a duplicate-fields
    paragraph whose repeated field (Depends / depends) is interleaved with other fields and whose last
    field is unterminated, after a no-duplicates paragraph.  "X-" fields last: Depends, A, depends keep
    their order (a sort that grouped the occurrences of a name would give Depends, depends, A);
    by length: X-B, A-B | X-Cc, Abcd keep theirs; a constant key moves nothing. *)
Example C10_sort_keys_nonvacuous :
  let s (x : String.string) := Lib.Dec.dec x in
  let F c n r := mkF (s c) (s n) (s r) in
  let d := [Para (from_kvpairs [F "" "X-Cc" ": 5
"; F "" "X-B" ": 6
"; F "" "Abcd" ": 7
"; F "" "A-B" ": 8
"]);
            Other OWs [LF];
            Para (from_kvpairs [F "" "X-B" ": 1
"; F "" "Depends" ": 2
"; F "# c
" "A" ": 3
"; F "" "depends" ": 4"])] in
  wf_doc d = true
  /\ ops_in_range d [SSort 1 KXLast; SSort 0 KLen; SSort 0 KConst; SSort 1 KFirstChar; SSort 0 KExact] = true
  /\ dump (s_run d [SSort 1 KXLast; SSort 0 KLen; SSort 0 KConst])
     = s "X-B: 6
A-B: 8
X-Cc: 5
Abcd: 7

Depends: 2
# c
A: 3
depends: 4
X-B: 1
"
  /\ dump (s_run d [SSort 1 KConst]) = (dump d ++ [LF])%list
  /\ map (fun p => map f_name (para_fields p)) (paras (s_run d [SSort 1 KFirstChar; SSort 0 KExact]))
     = [[s "A-B"; s "Abcd"; s "X-B"; s "X-Cc"]; [s "A"; s "Depends"; s "depends"; s "X-B"]].
Proof. vm_compute. repeat split. Qed.

(** the hypotheses are satisfiable, with and without a final newline, and the conclusion is what
    the computation gives *)
Example C10_insert_append_nonvacuous :
  let s (x : String.string) := Lib.Dec.dec x in
  let F c n r := mkF (s c) (s n) (s r) in
  let d := [Other OComment (s "# head" ++ [LF])%list; Other OWs [LF];
            Para (from_kvpairs [F "" "X" ": 1
"; F "# c
" "A" ": 2
"; F "" "a" ": 3
 cont
"]);
            Other OWs [LF];
            Para (from_kvpairs [F "" "B" ": b
"; F "" "C" ": c"])] in
  match build_para [(s "N", s "x")] (PN []) with
  | Ok p =>
      forallb para_wf (paras d) = true /\ lines_ok d = true /\ doc_canon d = true /\ tail_ok d = true
      /\ para_wf p = true /\ fields_closed (para_fields p) = true
      /\ fields_of d = [[F "" "X" ": 1
"; F "# c
" "A" ": 2
"; F "" "a" ": 3
 cont
"]; [F "" "B" ": b
"; F "" "C" ": c"]]
      /\ option_map fields_of (match py_reparse (dump (f_append d p)) with Ok x => Some x | Err _ => None end)
         = Some [[F "" "X" ": 1
"; F "# c
" "A" ": 2
"; F "" "a" ": 3
 cont
"]; [F "" "B" ": b
"; F "" "C" ": c
"]; [F "" "N" ": x
"]]
      /\ option_map fields_of (match py_reparse (dump (f_insert d 1 p)) with Ok x => Some x | Err _ => None end)
         = Some [[F "" "X" ": 1
"; F "# c
" "A" ": 2
"; F "" "a" ": 3
 cont
"]; [F "" "N" ": x
"]; [F "" "B" ": b
"; F "" "C" ": c"]]
  | Err _ => False
  end.
Proof. vm_compute. repeat split. Qed.

(** * 5. agree_implies_holds: the bridge between the correspondence and the theorems above

    For every case of the check (Repro/StructCheck.v): whenever the implementation behaved like the
    model ([agree]: same exception kind, same dump, same (name, i) -> position answers after every
    operation), the property held on what the implementation did ([holds]: after every operation
    the observation is explained by one of the list outcomes the reference permits).

    Without a side condition the statement is FALSE, because [holds] uses two things [agree] does
    not determine: (a) [s_reparse], the implementation's fresh parse of every dump, which [agree]
    never looks at; (b) [sep_ok] of the initial items (every field starts at the beginning of a
    line).  [StructCheckProofs.judged c] (boolean, computed from the case) says: the initial
    items satisfy [sep_ok], and for every judged step (ASCII operation inside the reference's
    domain), with [d'] the state of the model after it:
      1. for every operation, [reparse_is]: the recorded fresh parse is [sread (abs d')] -
         observation (a).  For the seven structural operations (order_first / order_last /
         order_before / order_after / sort_fields / del / re-append) NOTHING ELSE is assumed;
      2. for p[k] = v / append / insert only (the operations that build a field from a VALUE,
         C05's subject; the refinement theorem leaves the built field open there): [abs d'] keeps
         [sep_ok] and is among the outcomes [s_cands] permits for the field the reference builds;
      3. for insert only: no OTHER permitted outcome explains the same observation ([holds]
         commits to the first one that does).
    Proved, not assumed: the flag, the dump and the position answers are the model's (from
    [agree]) and satisfy the reference ([C10_step_refines_list],
    [C10_name_index_is_ith_occurrence], [C10_parsed_paragraph_consistent]); the structural
    operations keep [sep_ok] ([StructCheckProofs.structural_sep]); for paragraph operations,
    append and re-append two permitted outcomes with the same flag, dump and fresh parse are EQUAL
    ([unamb_para], [unamb_append]), so [first_match] picks the model's state and the induction
    goes through the whole history. *)
Theorem C10_agree_implies_holds :
  forall c, StructCheckProofs.judged c = true ->
            StructCheck.agree c = true -> StructCheck.holds c = true.
Proof. exact StructCheckProofs.agree_implies_holds. Qed.

(** [judged] and [agree] hold together on non-trivial cases: a bulk move in a paragraph with an
    unterminated last field; delete, insert past the end, p[k] = v on the emptied paragraph *)
Example C10_agree_implies_holds_nonvacuous :
  let cs := ((let s0 := "A: b
" in let s1 := "B: c
" in
    [StructCheck.Run [s0; "B: c"] [StructCheck.IP false [StructCheck.FL "" "A" ": b
"; StructCheck.FL "" "B" ": c"]] [StructCheck.LFirst 0 (StructCheck.KS "B")]
       [StructCheck.mkS None [s1; s0] (Some [[StructCheck.NT "B" s1; StructCheck.NT "A" s0]])
          [StructCheck.PQ 0 [StructCheck.Q "B" 0%Z (Ok 0); StructCheck.Q "A" 0%Z (Ok 1);
                             StructCheck.Q "A" 1%Z (Err KeyError)]]]])
   ++ (let s0 := "X: v
" in let s1 := "N: x
" in let s2 := "A: b
" in
    [StructCheck.Run [s0; "
"; "Dd: v"] [StructCheck.IP false [StructCheck.FL "" "X" ": v
"]; StructCheck.IO OWs "
"; StructCheck.IP false [StructCheck.FL "" "Dd" ": v"]]
       [StructCheck.LDel 1 (StructCheck.KS "Dd"); StructCheck.LInsert 2%Z [("N", "x")];
        StructCheck.LSet 1 (StructCheck.KS "A") "b"]
       [StructCheck.mkS None [s0; "
"] (Some [[StructCheck.NT "X" s0]]) [StructCheck.PQ 1 [StructCheck.Q "Dd" 0%Z (Err KeyError)]];
        StructCheck.mkS None [s0; "
"; "
"; s1] (Some [[StructCheck.NT "X" s0]; [StructCheck.NT "N" s1]])
          [StructCheck.PQ 0 [StructCheck.Q "X" 0%Z (Ok 0)]; StructCheck.PQ 1 [];
           StructCheck.PQ 2 [StructCheck.Q "N" 0%Z (Ok 0)]];
        StructCheck.mkS None [s0; "
"; s2; "
"; s1] (Some [[StructCheck.NT "X" s0]; [StructCheck.NT "A" s2]; [StructCheck.NT "N" s1]])
          [StructCheck.PQ 1 [StructCheck.Q "A" 0%Z (Ok 0); StructCheck.Q "A" 1%Z (Err KeyError)]]]]))%list in
  forallb StructCheckProofs.judged cs = true /\ forallb StructCheck.agree cs = true
  /\ forallb StructCheck.holds cs = true.
Proof. vm_compute. repeat split. Qed.

Print Assumptions C10_byname_consistent.
Print Assumptions C10_byname_is_filtered_order.
Print Assumptions C10_name_index_is_ith_occurrence.
Print Assumptions C10_parsed_paragraph_consistent.
Print Assumptions C10_step_refines_list.
Print Assumptions C10_structural_refines_list.
Print Assumptions C10_moves_permute.
Print Assumptions C10_sort_sorted.
Print Assumptions C10_sort_stable.
Print Assumptions C10_sort_ties.
Print Assumptions C10_sort_default_stable.
Print Assumptions C10_sort_any_key.
Print Assumptions C10_reorder_errors_unchanged.
Print Assumptions C10_newline_only_when_missing.
Print Assumptions C10_newline_is_one_lf_at_the_end.
Print Assumptions C10_insert_append_no_merge_partial.
Print Assumptions C10_insert_append_no_merge.
Print Assumptions C10_built_paragraph_ok.
Print Assumptions C10_agree_implies_holds.
