(** C14 — tie by regeneration.  Only statements; every proof is [exact <lemma>] (lemmas in Version/ParseTie.v).

    Gen/TrVersionParse.v is REGENERATED from lib/debian/debian_support.py by harness/py2coq.py on every run:
    [tr_set_full_version], [tr_setattr], [tr_update_full_version], [tr_init], [tr_getattr], [tr_str] are the
    bodies of BaseVersion._set_full_version / __setattr__ / _update_full_version / __init__ / __getattr__ /
    __str__ as the working tree has them now.

    - The state-changing methods are in METHOD MODE: the private attributes [__full_version], [__epoch],
      [__upstream_version], [__debian_revision] are threaded as state ([stT]) and returned on normal return and
      on an exception alike ([mres unit stT]).
    - [self.full_version = e] (in _update_full_version and __init__) is rendered as what it is: the call
      [self.__setattr__("full_version", e)] of the translated __setattr__ on the current state; __setattr__
      calls [self._update_full_version()]: the two are ONE mutual Fixpoint on explicit fuel.  The theorems hold
      for every fuel >= 3 (__setattr__) / >= 2 (_update_full_version): in particular for the entry fuel that the
      translator passes from outside the group, and [OutOfFuel] is not among the model's results.
    - The [try: … except (ValueError, TypeError): …] of __setattr__ is translated: the handler (write the old
      value back, recompute, raise ValueError) runs on the state that the failed body reached.
    - __getattr__ and __str__ only read the object: plain functions of the four attribute values.

    The theorems say: for ALL states (four arbitrary attribute values), names and values (None / str / int),
    each regenerated method yields the same state and the same exception kind (or none) as the model function of
    Version/Parse.v that [ParseCheck.agree] runs and that the theorems of Props/C14.v are about: [set_full],
    [update_full], [setattr], [version_new], [getattr], [version_str].  [rview st0 r] / [sview r] / [gview o] read
    a model result in the shape of a translated result; they are injective
    ([C14_tie_views_faithful]), so each equation determines the model result completely.

    Guard of [C14_tie_setattr]: [is_private name = false] — the assigned NAME is not itself a mangled private
    name "_BaseVersion__…".  Such an assignment from outside writes a slot behind the class's back (the model
    treats every non-magic name as an ordinary attribute that leaves the four slots alone); the property and its
    callers (harness: the five magic names and ordinary names) never do that.  The five magic names satisfy the
    guard ([C14_tie_magic_not_private]), so [C14_tie_setattr_magic] has none.

    Still hand-modelled inside (Version/ParseTrPrims.v, each DEFINED from the model's leaf functions): the regex
    [re_valid_version] (leaf [match_version]; pattern text asserted by the translator spec, character classes
    regenerated into Gen/VersionConsts.v) and its [group]s; [str()] of None/str/int ([py_str]);
    [getattr]/[setattr(self, "_BaseVersion__<a>", ·)] and [super().__setattr__] as reads/stores of the slots keyed by
    the name string (through the model's [put_private]/[getattr]); [super().__getattribute__] (AttributeError for
    every non-magic name); [isinstance(v, BaseVersion)] = false on the modelled values.  A value of another type
    stored into a slot is outside the model's state space and is reported as [OutOfFuel]: the theorems show it
    never happens.  Not regenerated: __repr__, the comparison operators (C03), __hash__. *)
From Coq Require Import String.
From Verif Require Import Lib.Base Lib.Dec Lib.PyStr Lib.Tr Version.Parse Version.ParseTrPrims
  Gen.TrVersionParse Version.ParseTie.

(** _set_full_version(version): validates, then writes the four slots; raises (ValueError) before any write *)
Theorem C14_tie_set_full_version :
  forall s_full s_ep s_up s_rev version,
    tr_set_full_version s_full s_ep s_up s_rev version
    = rview (s_full, s_ep, s_up, s_rev) (set_full version).
Proof. exact tr_set_full_eq. Qed.
Print Assumptions C14_tie_set_full_version.

(** _update_full_version(): recompose (TypeError when upstream is None; "" and None revision both skipped),
    then assign full_version through __setattr__ *)
Theorem C14_tie_update_full_version :
  forall fuel s_full s_ep s_up s_rev,
    (2 <= fuel)%nat ->
    tr_update_full_version fuel s_full s_ep s_up s_rev
    = rview (s_full, s_ep, s_up, s_rev) (update_full (mkV s_full s_ep s_up s_rev)).
Proof. exact tr_update_ge. Qed.
Print Assumptions C14_tie_update_full_version.

(** __setattr__(name, value) on ANY state: ordinary names, the alias debian_version, full_version, and the three
    components with write / recompute / on ValueError or TypeError write back, recompute, raise ValueError *)
Theorem C14_tie_setattr :
  forall fuel s_full s_ep s_up s_rev name v,
    (3 <= fuel)%nat -> is_private name = false ->
    tr_setattr fuel s_full s_ep s_up s_rev name v
    = sview (setattr (mkV s_full s_ep s_up s_rev) name (pv_of v)).
Proof. exact tr_setattr_ge. Qed.
Print Assumptions C14_tie_setattr.

Theorem C14_tie_magic_not_private :
  forall name, existsb (str_eqb name) magic_attrs = true -> is_private name = false.
Proof. exact magic_not_private. Qed.
Print Assumptions C14_tie_magic_not_private.

(** … hence, for the five magic names, without a guard *)
Theorem C14_tie_setattr_magic :
  forall fuel s_full s_ep s_up s_rev name v,
    (3 <= fuel)%nat -> existsb (str_eqb name) magic_attrs = true ->
    tr_setattr fuel s_full s_ep s_up s_rev name v
    = sview (setattr (mkV s_full s_ep s_up s_rev) name (pv_of v)).
Proof. exact tr_setattr_magic. Qed.
Print Assumptions C14_tie_setattr_magic.

(** why the fuel suffices: assigning "full_version" is _set_full_version(str(value)) and does not come back
    (this is the call that _update_full_version and __init__ make) *)
Theorem C14_tie_setattr_full_version :
  forall fuel s_full s_ep s_up s_rev v,
    (1 <= fuel)%nat ->
    tr_setattr fuel s_full s_ep s_up s_rev s_full_version v
    = tr_set_full_version s_full s_ep s_up s_rev (py_str (pv_of v)).
Proof. exact tr_setattr_full_ge. Qed.
Print Assumptions C14_tie_setattr_full_version.

(** __init__(version) from ANY prior attribute values: the model's [version_new]; nothing is written when it raises *)
Theorem C14_tie_init :
  forall s_full s_ep s_up s_rev v,
    tr_init s_full s_ep s_up s_rev v
    = rview (s_full, s_ep, s_up, s_rev) (version_new (pv_of v)).
Proof. exact tr_init_eq. Qed.
Print Assumptions C14_tie_init.

(** __getattr__(name): the slot for the five magic names (debian_version = debian_revision), AttributeError otherwise *)
Theorem C14_tie_getattr :
  forall s_full s_ep s_up s_rev name,
    tr_getattr s_full s_ep s_up s_rev name = gview (getattr (mkV s_full s_ep s_up s_rev) name).
Proof. exact tr_getattr_eq. Qed.
Print Assumptions C14_tie_getattr.

(** __str__(): the full version string, never an exception *)
Theorem C14_tie_str :
  forall s_full s_ep s_up s_rev,
    tr_str s_full s_ep s_up s_rev = Ok (Some (NStr (version_str (mkV s_full s_ep s_up s_rev)))).
Proof. exact tr_str_eq. Qed.
Print Assumptions C14_tie_str.

(** every value of the model (None, a str, an int) is a value of the translated code and vice versa *)
Theorem C14_tie_values :
  (forall v, pv_of (nn_of v) = v) /\ (forall v, nn_of (pv_of v) = v).
Proof. exact (conj pv_nn nn_pv). Qed.
Print Assumptions C14_tie_values.

(** the views lose nothing *)
Theorem C14_tie_views_faithful :
  (forall st0 r1 r2, rview st0 r1 = rview st0 r2 -> r1 = r2)
  /\ (forall r1 r2, sview r1 = sview r2 -> r1 = r2)
  /\ (forall o1 o2, gview o1 = gview o2 -> o1 = o2).
Proof. exact (conj rview_inj (conj sview_inj gview_inj)). Qed.
Print Assumptions C14_tie_views_faithful.

(** non-vacuity: the regenerated code really runs.  An object "1:2.0-3"; upstream_version = None is refused
    (TypeError inside, rolled back, ValueError) and the state is as before; epoch = 7 (an int) succeeds;
    debian_version = "a b" is refused (ValueError inside, rolled back); construction from an int; a bad string. *)
Local Open Scope string_scope.
Example C14_tie_runs :
  let s := dec "1:2.0-3" in
  let st := (s, Some (dec "1"), Some (dec "2.0"), Some (dec "3")) in
  tr_init [] None None None (Some (NStr s)) = MOk tt st
  /\ tr_setattr 3 s (Some (dec "1")) (Some (dec "2.0")) (Some (dec "3")) (dec "upstream_version") None
     = MErr ValueError st
  /\ tr_setattr 3 s (Some (dec "1")) (Some (dec "2.0")) (Some (dec "3")) (dec "epoch") (Some (NInt 7))
     = MOk tt (dec "7:2.0-3", Some (dec "7"), Some (dec "2.0"), Some (dec "3"))
  /\ tr_setattr 3 s (Some (dec "1")) (Some (dec "2.0")) (Some (dec "3")) (dec "debian_version") (Some (NStr (dec "a b")))
     = MErr ValueError st
  /\ tr_setattr 3 s (Some (dec "1")) (Some (dec "2.0")) (Some (dec "3")) (dec "debian_revision") (Some (NStr []))
     = MOk tt (dec "1:2.0", Some (dec "1"), Some (dec "2.0"), None)
  /\ tr_setattr 3 s (Some (dec "1")) (Some (dec "2.0")) (Some (dec "3")) (dec "foo") (Some (NInt 1)) = MOk tt st
  /\ tr_init [] None None None (Some (NInt 15)) = MOk tt (dec "15", None, Some (dec "15"), None)
  /\ tr_init (dec "x") None None None (Some (NStr (dec "1.0-"))) = MErr ValueError (dec "x", None, None, None)
  /\ tr_update_full_version 2 s None None None = MErr TypeError (s, None, None, None)
  /\ tr_getattr s (Some (dec "1")) (Some (dec "2.0")) (Some (dec "3")) (dec "debian_version") = Ok (Some (NStr (dec "3")))
  /\ tr_getattr s (Some (dec "1")) (Some (dec "2.0")) (Some (dec "3")) (dec "foo") = Err OtherError
  /\ tr_str s (Some (dec "1")) (Some (dec "2.0")) (Some (dec "3")) = Ok (Some (NStr s)).
Proof. vm_compute. repeat split. Qed.
