(** C08 — An accepted field value can never inject fields or split the paragraph.
    Only statements; every proof is [exact <lemma>] or a short composition
    (lemmas in Deb822/InjectStr.v, InjectBrk.v, InjectProofs.v, InjectProofs2.v,
    InjectProofs3.v, InjectProofs4.v).

    Model: Deb822/Model.v — the functions [agree] of Deb822/InjectCheck.v runs:
    [setitem] (= [validate_input] then [dict_set]), [dump], [iter_paragraphs].
    Spec: Deb822/Spec.v + Deb822/InjectSpec.v — what [holds] uses: [c08_dom] (the
    property's alphabet: anything except the characters Python treats as white
    space or line boundary other than SP TAB CR LF), [spec_rejects] (the three
    rejection reasons, written with norm_eol/split_on, not splitlines),
    [no_blank_cont], [para_dom] (names non-empty, without ':' / Python whitespace /
    Python line boundaries, not starting with '#', pairwise distinct ignoring
    case; values in the alphabet), [one_para_with_names].

    [reread_para d] is the paragraph with every value replaced by
    [reread_value v]: first line trimmed, CR / CRLF line ends normalised to LF,
    continuation lines consisting of one single blank dropped — so the theorems
    give the values read back too, not only the names.  [reread_para_file d] is
    the same for a file object, which cuts lines at LF only: a CR inside a line
    stays (CR / LF at the end of a line are removed). *)
From Coq Require Import String.
From Verif Require Import Lib.Base Lib.Dec Lib.PyStr Gen.PyChars
  Deb822.Model Deb822.Spec Deb822.InjectSpec Deb822.InjectStr Deb822.InjectBrk Deb822.InjectProofs
  Deb822.InjectProofs2 Deb822.InjectProofs3 Deb822.InjectCheck Deb822.InjectProofs4.

(** 1. accepted_value_safe_ws_false: a non-empty paragraph over the domain, all
       of whose values validate_input accepts, dumped and read back with
       whitespace-separates-paragraphs = False, is exactly one paragraph with
       the same names in the same order (and the values [reread_value] gives). *)
Theorem C08_accepted_value_safe_ws_false :
  forall d,
    para_dom d = true ->
    forallb (fun kv => is_ok (validate_input (snd kv))) d = true ->
    d <> [] ->
    iter_paragraphs CDeb822 false (InStr (dump d)) = Ok [reread_para d]
    /\ keys (reread_para d) = keys d.
Proof. intros d Hd Ha Hne. apply accepted_safe_str; auto; discriminate. Qed.

(** 2. accepted_value_safe_default: the same with the default strictness
       (whitespace-only lines end a paragraph) provided no continuation line of
       any value is whitespace-only. *)
Theorem C08_accepted_value_safe_default :
  forall d,
    para_dom d = true ->
    forallb (fun kv => is_ok (validate_input (snd kv))) d = true ->
    d <> [] ->
    para_no_blank_cont d = true ->
    iter_paragraphs CDeb822 true (InStr (dump d)) = Ok [reread_para d]
    /\ keys (reread_para d) = keys d.
Proof. intros d Hd Ha Hne Hb. apply accepted_safe_str; auto. Qed.

(** 1f / 2f. The same when the dump is read back through a file object
       (io.StringIO: lines end at LF only). *)
Theorem C08_accepted_value_safe_ws_false_file :
  forall d,
    para_dom d = true ->
    forallb (fun kv => is_ok (validate_input (snd kv))) d = true ->
    d <> [] ->
    iter_paragraphs CDeb822 false (InFile (dump d)) = Ok [reread_para_file d]
    /\ keys (reread_para_file d) = keys d.
Proof. intros d Hd Ha Hne. apply accepted_safe_file; auto; discriminate. Qed.

Theorem C08_accepted_value_safe_default_file :
  forall d,
    para_dom d = true ->
    forallb (fun kv => is_ok (validate_input (snd kv))) d = true ->
    d <> [] ->
    para_no_blank_cont d = true ->
    iter_paragraphs CDeb822 true (InFile (dump d)) = Ok [reread_para_file d]
    /\ keys (reread_para_file d) = keys d.
Proof. intros d Hd Ha Hne Hb. apply accepted_safe_file; auto. Qed.

(** 3. The property as [holds] phrases it, for an assignment: if p[k] = v is
       accepted on a paragraph of the domain, the mapping afterwards is the
       association list of the Spec, and its dump reads back - as str and as file
       object - as one paragraph with exactly its names: under ws=False always,
       under the default when no continuation line is blank. *)
Theorem C08_setitem_accepted_safe :
  forall d k v d',
    para_dom d = true ->
    forallb (fun kv => is_ok (validate_input (snd kv))) d = true ->
    valid_field_name k = true -> c08_dom v = true ->
    setitem d k v = Ok d' ->
    d' = spec_set d k v
    /\ one_para_with_names (names d') (iter_paragraphs CDeb822 false (InStr (dump d'))) = true
    /\ one_para_with_names (names d') (iter_paragraphs CDeb822 false (InFile (dump d'))) = true
    /\ (para_no_blank_cont d' = true ->
        one_para_with_names (names d') (iter_paragraphs CDeb822 true (InStr (dump d'))) = true
        /\ one_para_with_names (names d') (iter_paragraphs CDeb822 true (InFile (dump d'))) = true).
Proof. exact setitem_accepted_safe. Qed.

(** 4. rejected_unchanged: a value that ends in LF, has an empty continuation
       line, or a continuation line not starting with space/tab is refused with
       ValueError by validate_input and by __setitem__, and the step the check
       runs leaves the mapping as it was. *)
Theorem C08_rejected_unchanged :
  forall d k v,
    c08_dom v = true -> spec_rejects v = true ->
    validate_input v = Err ValueError
    /\ setitem d k v = Err ValueError
    /\ model_step d (k, v) = (Some ValueError, d).
Proof. exact rejected_unchanged. Qed.

(** 4'. ... and nothing else is refused: over the alphabet, validate_input is
        exactly the Spec's three reasons; an accepted assignment yields the
        Spec's association list. *)
Theorem C08_validate_input_spec :
  forall v, c08_dom v = true ->
    validate_input v = if spec_rejects v then Err ValueError else Ok tt.
Proof. exact validate_input_spec. Qed.

Theorem C08_accepted_is_spec_set :
  forall d k v, c08_dom v = true -> spec_rejects v = false ->
    setitem d k v = Ok (spec_set d k v).
Proof. exact accepted_ok. Qed.

(** 5. validator_matches_parser: a line the validator accepts as continuation
       line (first character whitespace, in the alphabet) matches neither
       _single nor _multi nor the PGP armour pattern. *)
Theorem C08_validator_matches_parser :
  forall l,
    c08_dom l = true -> check_cont_lines [l] = Ok tt -> no_linebreak l = true ->
    match_single l = None /\ match_multi l = None /\ match_gpgre l = None.
Proof. exact validator_matches_parser. Qed.

Theorem C08_validator_matches_parser_value :
  forall v l,
    c08_dom v = true -> validate_input v = Ok tt ->
    In l (tl (splitlines py_islinebreak false v)) ->
    match_single l = None /\ match_multi l = None /\ match_gpgre l = None.
Proof. exact validator_matches_parser_value. Qed.

(** 6. The Spec's continuation lines (norm_eol / split_on LF) are the lines the
       validator looks at (str.splitlines()[1:]) for every value of the alphabet. *)
Theorem C08_cont_lines_are_splitlines :
  forall v, c08_dom v = true -> cont_lines v = tl (splitlines py_islinebreak false v).
Proof. exact cont_lines_vlines. Qed.

(** 6'. The bytes form (code points of the UTF-8 decoding, see Model.v): for a
        paragraph of the domain bytes.splitlines cuts the dump exactly where
        str.splitlines does, so 1 and 2 hold for it verbatim. *)
Theorem C08_bytes_form_same :
  forall ws d, para_dom d = true ->
    iter_paragraphs CDeb822 ws (InBytes (dump d)) = iter_paragraphs CDeb822 ws (InStr (dump d)).
Proof. exact bytes_form_same. Qed.

(** 7. The check itself: on EVERY case (any sequence of assignments, names and
       values inside or outside the domain), if the observations are what the
       model computes ([agree]: outcomes, recorded states, dump, the four
       re-reads), then the property as the check judges it ([holds]) is true.
       So the model satisfies [holds] universally, and a failing [holds] on the
       implementation always comes with a failing [agree]. *)
Theorem C08_agree_implies_holds :
  forall c : InjectCheck.case, InjectCheck.agree c = true -> InjectCheck.holds c = true.
Proof. exact agree_holds. Qed.

(** Non-vacuity: a paragraph with a multi-line value containing a colon line,
    a CR LF, a CR, a '#' line, a PGP armour line and a whitespace-only line meets
    the hypotheses of 1; it does not meet the extra hypothesis of 2, and the
    default strictness indeed splits it in two. *)
Local Open Scope string_scope.
Definition ex_para : dict :=
  [(dec "Package", dec "foo");
   (dec "Description", dec "short \00000a long: x\00000d y\00000d\00000a .\00000d\00000a #c\00000a \00000a -----BEGIN PGP SIGNATURE-----");
   (dec "-----BEGIN", dec "")].

Example C08_nonvacuous :
  para_dom ex_para = true
  /\ forallb (fun kv => is_ok (validate_input (snd kv))) ex_para = true
  /\ ex_para <> []
  /\ iter_paragraphs CDeb822 false (InStr (dump ex_para)) = Ok [reread_para ex_para]
  /\ iter_paragraphs CDeb822 false (InFile (dump ex_para)) = Ok [reread_para_file ex_para]
  /\ reread_para ex_para <> reread_para_file ex_para
  /\ para_no_blank_cont ex_para = false
  /\ (match iter_paragraphs CDeb822 true (InStr (dump ex_para)) with Ok [_; _] => true | _ => false end) = true.
Proof. vm_compute. repeat split; discriminate. Qed.

Example C08_nonvacuous_default :
  let d := [(dec "A", dec "x\00000a y\00000d\00000a\000009z"); (dec "b", dec "\00000d w")] in
  para_dom d = true
  /\ forallb (fun kv => is_ok (validate_input (snd kv))) d = true
  /\ para_no_blank_cont d = true
  /\ iter_paragraphs CDeb822 true (InStr (dump d)) = Ok [reread_para d].
Proof. vm_compute. repeat split. Qed.

Example C08_nonvacuous_rejected :
  c08_dom (dec "1.0\00000aInjected: yes") = true /\ spec_rejects (dec "1.0\00000aInjected: yes") = true
  /\ spec_rejects (dec "1.0\00000a\00000aPackage: evil") = true
  /\ spec_rejects (dec "x\00000a") = true.
Proof. vm_compute. repeat split. Qed.

(** a real case (observations copied from a run of the implementation): the
    hypothesis of 7 is satisfiable, with a refused assignment in the middle and
    a final paragraph that the default strictness cuts short *)
Example C08_nonvacuous_case :
  let c := InjectCheck.mk
    [("A", "x"); ("a", "1\00000d z\00000d"); ("Bad", "1.0\00000aInjected: yes"); ("B", "y\00000a \00000a w")]
    [None; None; Some ValueError; None]
    [None; (Some [("A", "1\00000d z\00000d")]); (Some [("A", "1\00000d z\00000d")]);
     (Some [("A", "1\00000d z\00000d"); ("B", "y\00000a \00000a w")])]
    "A: 1\00000d z\00000d\00000aB: y\00000a \00000a w\00000a"
    (Ok [[("A", "1\00000a z"); ("B", "y\00000a w")]])
    (Some (Ok [[("A", "1\00000d z"); ("B", "y\00000a w")]]))
    (Some (Ok [[("A", "1\00000a z"); ("B", "y")]]))
    (Some (Ok [[("A", "1\00000d z"); ("B", "y")]])) in
  InjectCheck.agree c = true /\ InjectCheck.holds c = true.
Proof. vm_compute. split; reflexivity. Qed.

Print Assumptions C08_accepted_value_safe_ws_false.
Print Assumptions C08_accepted_value_safe_default.
Print Assumptions C08_accepted_value_safe_ws_false_file.
Print Assumptions C08_accepted_value_safe_default_file.
Print Assumptions C08_setitem_accepted_safe.
Print Assumptions C08_rejected_unchanged.
Print Assumptions C08_validate_input_spec.
Print Assumptions C08_accepted_is_spec_set.
Print Assumptions C08_validator_matches_parser.
Print Assumptions C08_validator_matches_parser_value.
Print Assumptions C08_cont_lines_are_splitlines.
Print Assumptions C08_bytes_form_same.
Print Assumptions C08_agree_implies_holds.
