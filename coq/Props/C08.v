(** C08 - statements are added once the proofs exist (work in progress). *)
From Verif Require Import Lib.Base Deb822.Model Deb822.Spec Deb822.InjectSpec.
