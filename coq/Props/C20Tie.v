(** C20 — tie by regeneration.  Only statements; every proof is [exact <lemma>] (lemmas in Debtags/Tie.v, TieDB.v,
    TieDerive.v, TieWf.v).

    Gen/TrDebtags.v, Gen/TrDebtagsDB.v and Gen/TrDebtagsDerive.v are REGENERATED from lib/debian/debtags.py by
    harness/py2coq.py on every run: the bodies of parse_tags, read_tag_database, read_tag_database_reversed,
    read_tag_database_both_ways, reverse, output and of class DB (__init__, read, insert, reverse, copy, reverse_copy,
    choose_packages[_copy], filter_packages[_copy], filter_packages_tags[_copy], filter_tags[_copy], facet_collection,
    has_package, has_tag, tags_of_package, packages_of_tag, tags_of_packages, packages_of_tags, card, package_count,
    tag_count, iter_packages, iter_tags, iter_packages_tags, iter_tags_packages) as the working tree has them now.

    RENDERING (spec at the end of harness/props/c20.py).  A set of str is the model's [sset] (Debtags/StrSet.v), a dict
    is an association list in INSERTION order (Python's iteration order of a dict).  A set or dict that has one name
    is a VALUE; the translator checks by typing that only a set made on the spot ([x.copy()], [set(..)], a
    comprehension) is stored into a dict, and refuses a function that changes a local dict after storing it into an
    object.  The set and dict objects held by DB objects have identity and are SHARED between collections
    (reverse(), the derivations without _copy): they are references into the model's heap (Debtags/Model.v [heap]),
    which is threaded through every method of DB together with [self.db] and [self.rdb] and returned on exceptions
    too.  [d[k] = <fresh set>] and [res.db = <local dict>] allocate (the model's [alloc_set] / [alloc_dict] /
    [alloc_vdict]); [d[k].add(x)] changes the set object in place; [res.db = self.rdb] shares the dict object.

    WHAT THE THEOREMS SAY.  Each regenerated function equals the model function that [Debtags.Check.agree] runs and
    that Props/C20.v is about — [parse_tags], [read_db], [read_db_reversed], [read_both], [reverse_d], and every case
    of [hstep] ([h_new], the reader, [h_insert false], [h_of_db] / [h_of_db_copy] / [h_of_rdb] / [h_of_rdb_copy] on
    [choose_d] / [filter], [h_facet]) — for ALL inputs: the same heap afterwards, the same attributes, the same result,
    or the same exception kind with the heap unchanged.  Finding K1 is part of the code and of the theorems:
    [set((pkg))] is rendered, by the type of its argument (a str, not a tuple), as [chars_of pkg]
    ([C20_tie_db_insert] is about [h_insert false]; [C20_tie_k1_runs]).

    GUARDS.  Module-level functions, DB.__init__/read/insert/reverse, choose_packages[_copy] and the queries: none.
    copy, reverse_copy, the filters and facet_collection assume boolean representation invariants of the heap:
    [dict_keysb] (the association list of a dict object has distinct keys: it stands for a Python dict) and, where a
    second dict is read after the first was allocated, [dict_closedb] (the dict object and its set objects exist).
    They hold for every live object of every state the model reaches from the empty one
    ([C20_tie_guards_reachable]; from [hwf] and [keys_wf], preserved by every [hstep]).

    ITERATION ORDER OF SETS.  [for x in <set>] runs over the model's canonical order; Python's order is unspecified.
    PROVED for every permutation of the elements ([C20_tie_order_*]): the loops of the readers
    ([db[p] = tags.copy()], the [|=] / [.copy()] loop), of [reverse] and of DB.insert (on the value of the index)
    build THE SAME FINITE MAP ([same_map]: every key has the same value) — only the insertion order of the keys that
    a loop adds follows the iteration order, and [agree] compares dicts sorted by key; a set built from the
    elements a loop produces ([{facet(t) for t in tags}], [set(filter(f, tags))]) is the same set.
    ARGUED, not proved: DB.insert at heap level (the NUMBERING of the set objects allocated for new tags follows the
    order; the objects and what refers to them do not); that [filter(f, <set>)] calls a pure [f] in any order.
    NOT order independent, and stated for the canonical order only: [output] ([", ".join(tags)] prints in the
    set's order), and the insertion order of the dicts returned by the readers and by [reverse].

    STILL HAND-MODELLED (Debtags/TrPrims.v, TrHeapPrims.v, TrDerivePrims.v; each defined from the model's own
    functions): the two regex leaves ([parse_line] for the pattern of parse_tags with groups 1 and 2, [facet] for
    tofacet.sub; pattern texts asserted by the spec, leaves compared with the live patterns by the correspondence),
    [split(', ')] ([split_cs]), sets as canonical lists ([set_add], [set_union], [set_of_list], [chars_of]), dicts as
    association lists ([dict_set], [lookup]), the heap primitives ([alloc_set], [alloc_dict], [alloc_vdict],
    [put_set], [put_dict], [get_set], [get_dict]).  Assumed: the caller's [tags] argument of insert is a set of its
    own; callbacks are pure total functions; a generator (parse_tags) is the list it yields; [print] appends to one
    text.  [DB()] followed by assignments to both attributes is the blank object: the two empty dicts made by
    [DB.__init__] become garbage, which the model's heap never contains; the theorems show that both attributes
    are assigned ([ob_of]).  A method returning a set object (tags_of_package) is rendered as returning its
    elements, as the model's queries do.  Not regenerated: qread/qwrite (pickle), dump, dump_reverse,
    relevance_index_function, discriminance, ideal_tagset, correlations (floats, closures). *)
From Coq Require Import Permutation String.
From Verif Require Import Lib.Base Lib.Dec Lib.PyStr Lib.Tr Debtags.StrSet Debtags.Model Debtags.Proofs
  Debtags.HeapBase Debtags.HeapInsert Debtags.HeapWf
  Debtags.TrPrims Gen.TrDebtags Debtags.Tie Debtags.TrHeapPrims Gen.TrDebtagsDB Debtags.TieDB
  Debtags.TrDerivePrims Gen.TrDebtagsDerive Debtags.TieDerive Debtags.TieWf.

(** * A. The module-level functions *)

Theorem C20_tie_parse_tags : forall lines, tr_parse_tags lines = Ok (parse_tags lines).
Proof. exact tie_parse_tags. Qed.
Print Assumptions C20_tie_parse_tags.

Theorem C20_tie_read_tag_database : forall lines, tr_read_tag_database lines = Ok (read_db lines).
Proof. exact tie_read_tag_database. Qed.
Print Assumptions C20_tie_read_tag_database.

Theorem C20_tie_read_tag_database_reversed :
  forall lines, tr_read_tag_database_reversed lines = Ok (read_db_reversed lines).
Proof. exact tie_read_tag_database_reversed. Qed.
Print Assumptions C20_tie_read_tag_database_reversed.

(** with and without tag_filter *)
Theorem C20_tie_read_tag_database_both_ways :
  forall lines tf, tr_read_tag_database_both_ways lines tf = Ok (read_both tf lines).
Proof. exact tie_read_tag_database_both_ways. Qed.
Print Assumptions C20_tie_read_tag_database_both_ways.

Theorem C20_tie_reverse : forall d : dict, tr_reverse d = Ok (reverse_d d).
Proof. exact tie_reverse. Qed.
Print Assumptions C20_tie_reverse.

(** output has no model function: the text appended to stdout, one line per entry in insertion order, the tags of
    a line in the canonical order of the set *)
Theorem C20_tie_output : forall out (d : dict), tr_output out d = MOk tt (out ++ output_text d).
Proof. exact tie_output. Qed.
Print Assumptions C20_tie_output.

(** * B. class DB: constructor, read, insert, reverse, copy, reverse_copy *)

Theorem C20_tie_db_init :
  forall h d0 r0, tr_db_init h d0 r0 = MOk tt (fst (h_new h), fst (snd (h_new h)), snd (snd (h_new h))).
Proof. exact tie_db_init. Qed.
Print Assumptions C20_tie_db_init.

Theorem C20_tie_db_read :
  forall h d r lines tf,
    tr_db_read h d r lines tf
    = MOk tt (fst (h_read h lines tf), fst (snd (h_read h lines tf)), snd (snd (h_read h lines tf))).
Proof. exact tie_db_read. Qed.
Print Assumptions C20_tie_db_read.

(** insert AS WRITTEN (K1): on every heap, for every receiver, name and set of tags *)
Theorem C20_tie_db_insert :
  forall h d r pkg tags, tr_db_insert h d r pkg tags = MOk tt (h_insert false h (d, r) pkg tags, d, r).
Proof. exact tie_db_insert. Qed.
Print Assumptions C20_tie_db_insert.

Theorem C20_tie_db_reverse : forall h d r, tr_db_reverse h d r = Ok (ob_of (r, d)).
Proof. exact tie_db_reverse. Qed.
Print Assumptions C20_tie_db_reverse.

Theorem C20_tie_db_copy :
  forall h d r,
    dict_keysb h d = true -> dict_keysb h r = true -> dict_closedb h r = true ->
    tr_db_copy h d r = MOk (ob_of (snd (h_copy h (d, r)))) (fst (h_copy h (d, r)), d, r).
Proof. exact tie_db_copy. Qed.
Print Assumptions C20_tie_db_copy.

Theorem C20_tie_db_reverse_copy :
  forall h d r,
    dict_keysb h d = true -> dict_keysb h r = true -> dict_closedb h d = true ->
    tr_db_reverse_copy h d r
    = MOk (ob_of (snd (h_reverse_copy h (d, r)))) (fst (h_reverse_copy h (d, r)), d, r).
Proof. exact tie_db_reverse_copy. Qed.
Print Assumptions C20_tie_db_reverse_copy.

(** * C. The queries: the model's query functions on what the object looks like ([view]) *)

Theorem C20_tie_db_has_package : forall h d r p, tr_db_has_package h d r p = Ok (has_package (view h (d, r)) p).
Proof. exact tie_db_has_package. Qed.
Print Assumptions C20_tie_db_has_package.

Theorem C20_tie_db_has_tag : forall h d r t, tr_db_has_tag h d r t = Ok (has_tag (view h (d, r)) t).
Proof. exact tie_db_has_tag. Qed.
Print Assumptions C20_tie_db_has_tag.

Theorem C20_tie_db_tags_of_package :
  forall h d r p, tr_db_tags_of_package h d r p = Ok (tags_of_package (view h (d, r)) p).
Proof. exact tie_db_tags_of_package. Qed.
Print Assumptions C20_tie_db_tags_of_package.

Theorem C20_tie_db_packages_of_tag :
  forall h d r t, tr_db_packages_of_tag h d r t = Ok (packages_of_tag (view h (d, r)) t).
Proof. exact tie_db_packages_of_tag. Qed.
Print Assumptions C20_tie_db_packages_of_tag.

Theorem C20_tie_db_card : forall h d r t, tr_db_card h d r t = Ok (Z.of_nat (card (view h (d, r)) t)).
Proof. exact tie_db_card. Qed.
Print Assumptions C20_tie_db_card.

Theorem C20_tie_db_package_count :
  forall h d r, tr_db_package_count h d r = Ok (Z.of_nat (package_count (view h (d, r)))).
Proof. exact tie_db_package_count. Qed.
Print Assumptions C20_tie_db_package_count.

Theorem C20_tie_db_tag_count : forall h d r, tr_db_tag_count h d r = Ok (Z.of_nat (tag_count (view h (d, r)))).
Proof. exact tie_db_tag_count. Qed.
Print Assumptions C20_tie_db_tag_count.

Theorem C20_tie_db_iter_packages : forall h d r, tr_db_iter_packages h d r = Ok (keys (c_db (view h (d, r)))).
Proof. exact tie_db_iter_packages. Qed.
Print Assumptions C20_tie_db_iter_packages.

Theorem C20_tie_db_iter_tags : forall h d r, tr_db_iter_tags h d r = Ok (keys (c_rdb (view h (d, r)))).
Proof. exact tie_db_iter_tags. Qed.
Print Assumptions C20_tie_db_iter_tags.

(** the items are (key, set OBJECT): following the references gives the index of [view] *)
Theorem C20_tie_db_iter_packages_tags :
  forall h d r, exists items,
    tr_db_iter_packages_tags h d r = Ok items /\ items = get_dict h d /\ deref h items = c_db (view h (d, r)).
Proof. exact tie_db_iter_packages_tags. Qed.
Print Assumptions C20_tie_db_iter_packages_tags.

Theorem C20_tie_db_iter_tags_packages :
  forall h d r, exists items,
    tr_db_iter_tags_packages h d r = Ok items /\ items = get_dict h r /\ deref h items = c_rdb (view h (d, r)).
Proof. exact tie_db_iter_tags_packages. Qed.
Print Assumptions C20_tie_db_iter_tags_packages.

(** no model function: the union of the single answers; TypeError for no name at all *)
Theorem C20_tie_db_tags_of_packages :
  forall h d r pkgs, tr_db_tags_of_packages h d r pkgs = tags_of_packages (view h (d, r)) pkgs.
Proof. exact tie_db_tags_of_packages. Qed.
Print Assumptions C20_tie_db_tags_of_packages.

Theorem C20_tie_db_packages_of_tags :
  forall h d r tags, tr_db_packages_of_tags h d r tags = packages_of_tags (view h (d, r)) tags.
Proof. exact tie_db_packages_of_tags. Qed.
Print Assumptions C20_tie_db_packages_of_tags.

(** * D. The derivations ([mret ho d r]: the new object [snd ho] is returned, the heap is [fst ho], the receiver's
    attributes are unchanged) *)

Theorem C20_tie_db_choose_packages :
  forall h d r l, tr_db_choose_packages h d r l = mret (h_of_db h (choose_d (get_dict h d) l)) d r.
Proof. exact tie_db_choose_packages. Qed.
Print Assumptions C20_tie_db_choose_packages.

(** KeyError exactly when a requested package is unknown; nothing has been allocated by then *)
Theorem C20_tie_db_choose_packages_copy :
  forall h d r l,
    tr_db_choose_packages_copy h d r l
    = if forallb (fun p => dict_mem p (get_dict h d)) l
      then mret (h_of_db_copy h (choose_d (get_dict h d) l)) d r
      else MErr KeyError (h, d, r).
Proof. exact tie_db_choose_packages_copy. Qed.
Print Assumptions C20_tie_db_choose_packages_copy.

Theorem C20_tie_db_filter_packages :
  forall h d r f, dict_keysb h d = true ->
    tr_db_filter_packages h d r f = mret (h_of_db h (filter (fun kr => f (fst kr)) (get_dict h d))) d r.
Proof. exact tie_db_filter_packages. Qed.
Print Assumptions C20_tie_db_filter_packages.

Theorem C20_tie_db_filter_packages_copy :
  forall h d r f, dict_keysb h d = true ->
    tr_db_filter_packages_copy h d r f = mret (h_of_db_copy h (filter (fun kr => f (fst kr)) (get_dict h d))) d r.
Proof. exact tie_db_filter_packages_copy. Qed.
Print Assumptions C20_tie_db_filter_packages_copy.

Theorem C20_tie_db_filter_packages_tags :
  forall h d r g, dict_keysb h d = true ->
    tr_db_filter_packages_tags h d r g
    = mret (h_of_db h (filter (fun kr => g (fst kr) (get_set h (snd kr))) (get_dict h d))) d r.
Proof. exact tie_db_filter_packages_tags. Qed.
Print Assumptions C20_tie_db_filter_packages_tags.

Theorem C20_tie_db_filter_packages_tags_copy :
  forall h d r g, dict_keysb h d = true ->
    tr_db_filter_packages_tags_copy h d r g
    = mret (h_of_db_copy h (filter (fun kr => g (fst kr) (get_set h (snd kr))) (get_dict h d))) d r.
Proof. exact tie_db_filter_packages_tags_copy. Qed.
Print Assumptions C20_tie_db_filter_packages_tags_copy.

Theorem C20_tie_db_filter_tags :
  forall h d r f, dict_keysb h r = true ->
    tr_db_filter_tags h d r f = mret (h_of_rdb h (filter (fun kr => f (fst kr)) (get_dict h r))) d r.
Proof. exact tie_db_filter_tags. Qed.
Print Assumptions C20_tie_db_filter_tags.

Theorem C20_tie_db_filter_tags_copy :
  forall h d r f, dict_keysb h r = true ->
    tr_db_filter_tags_copy h d r f = mret (h_of_rdb_copy h (filter (fun kr => f (fst kr)) (get_dict h r))) d r.
Proof. exact tie_db_filter_tags_copy. Qed.
Print Assumptions C20_tie_db_filter_tags_copy.

(** facet_collection: the new object is [h_new]'s, filled by [h_facet] over the entries of [self.db] in insertion
    order; with K1 as written inside every insert *)
Theorem C20_tie_db_facet_collection :
  forall h d r,
    let h1 := fst (h_new h) in
    let fc := snd (h_new h) in
    let src := get_dict h1 d in
    dict_keysb h1 d = true ->
    exists h2 trig,
      h_facet false h1 src fc (keys src) = Ok (h2, trig)
      /\ tr_db_facet_collection h d r = MOk fc (h2, d, r).
Proof. exact tie_db_facet_collection. Qed.
Print Assumptions C20_tie_db_facet_collection.

(** * E. The same as steps of [hstep] — the function that [agree] runs through [model_obs] and that the heap theorems
    of Props/C20.v are about.  [ob] is the receiver, object number [o] of the state. *)

Goal forall st op ob res, step_new st op ob res =
  (exists h' nob, res = MOk (ob_of nob) (h', fst ob, snd ob)
                  /\ hstep false st op = (new_obj st (h', nob), None, false)).
Proof. reflexivity. Qed.

Theorem C20_tie_step_new :
  forall st, exists h' nob,
    tr_db_init (st_heap st) 0%nat 0%nat = MOk tt (h', fst nob, snd nob)
    /\ hstep false st HNew = (new_obj st (h', nob), None, false).
Proof. exact tie_step_new. Qed.
Print Assumptions C20_tie_step_new.

Theorem C20_tie_step_read :
  forall st o ob lines tf, nth_error (st_objs st) o = Some ob ->
    exists h' nob,
      tr_db_read (st_heap st) (fst ob) (snd ob) lines tf = MOk tt (h', fst nob, snd nob)
      /\ hstep false st (HRead o lines tf) = (mkS h' (upd o nob (st_objs st)), None, false).
Proof. exact tie_step_read. Qed.
Print Assumptions C20_tie_step_read.

Theorem C20_tie_step_insert :
  forall st o ob pkg tags, nth_error (st_objs st) o = Some ob ->
    exists h' trig,
      tr_db_insert (st_heap st) (fst ob) (snd ob) pkg (set_of_list tags) = MOk tt (h', fst ob, snd ob)
      /\ hstep false st (HInsert o pkg tags) = (mkS h' (st_objs st), None, trig).
Proof. exact tie_step_insert. Qed.
Print Assumptions C20_tie_step_insert.

Theorem C20_tie_step_reverse :
  forall st o ob, nth_error (st_objs st) o = Some ob ->
    exists nob,
      tr_db_reverse (st_heap st) (fst ob) (snd ob) = Ok (ob_of nob)
      /\ hstep false st (HReverse o) = (new_obj st (st_heap st, nob), None, false).
Proof. exact tie_step_reverse. Qed.
Print Assumptions C20_tie_step_reverse.

Theorem C20_tie_step_copy :
  forall st o ob, nth_error (st_objs st) o = Some ob ->
    dict_keysb (st_heap st) (fst ob) = true -> dict_keysb (st_heap st) (snd ob) = true ->
    dict_closedb (st_heap st) (snd ob) = true ->
    step_new st (HCopy o) ob (tr_db_copy (st_heap st) (fst ob) (snd ob)).
Proof. exact tie_step_copy. Qed.
Print Assumptions C20_tie_step_copy.

Theorem C20_tie_step_reverse_copy :
  forall st o ob, nth_error (st_objs st) o = Some ob ->
    dict_keysb (st_heap st) (fst ob) = true -> dict_keysb (st_heap st) (snd ob) = true ->
    dict_closedb (st_heap st) (fst ob) = true ->
    step_new st (HReverseCopy o) ob (tr_db_reverse_copy (st_heap st) (fst ob) (snd ob)).
Proof. exact tie_step_reverse_copy. Qed.
Print Assumptions C20_tie_step_reverse_copy.

Theorem C20_tie_step_choose :
  forall st o ob l, nth_error (st_objs st) o = Some ob ->
    step_new st (HChoose o l) ob (tr_db_choose_packages (st_heap st) (fst ob) (snd ob) l).
Proof. exact tie_step_choose. Qed.
Print Assumptions C20_tie_step_choose.

Theorem C20_tie_step_choose_copy :
  forall st o ob l, nth_error (st_objs st) o = Some ob ->
    if forallb (fun p => dict_mem p (get_dict (st_heap st) (fst ob))) l
    then step_new st (HChooseCopy o l) ob (tr_db_choose_packages_copy (st_heap st) (fst ob) (snd ob) l)
    else tr_db_choose_packages_copy (st_heap st) (fst ob) (snd ob) l = MErr KeyError (st_heap st, fst ob, snd ob)
         /\ hstep false st (HChooseCopy o l) = (st, Some KeyError, false).
Proof. exact tie_step_choose_copy. Qed.
Print Assumptions C20_tie_step_choose_copy.

Theorem C20_tie_step_filter_packages :
  forall st o ob f, nth_error (st_objs st) o = Some ob -> dict_keysb (st_heap st) (fst ob) = true ->
    step_new st (HFilterP o f) ob (tr_db_filter_packages (st_heap st) (fst ob) (snd ob) f).
Proof. exact tie_step_filter_packages. Qed.
Print Assumptions C20_tie_step_filter_packages.

Theorem C20_tie_step_filter_packages_copy :
  forall st o ob f, nth_error (st_objs st) o = Some ob -> dict_keysb (st_heap st) (fst ob) = true ->
    step_new st (HFilterPCopy o f) ob (tr_db_filter_packages_copy (st_heap st) (fst ob) (snd ob) f).
Proof. exact tie_step_filter_packages_copy. Qed.
Print Assumptions C20_tie_step_filter_packages_copy.

Theorem C20_tie_step_filter_packages_tags :
  forall st o ob g, nth_error (st_objs st) o = Some ob -> dict_keysb (st_heap st) (fst ob) = true ->
    step_new st (HFilterPT o g) ob (tr_db_filter_packages_tags (st_heap st) (fst ob) (snd ob) g).
Proof. exact tie_step_filter_packages_tags. Qed.
Print Assumptions C20_tie_step_filter_packages_tags.

Theorem C20_tie_step_filter_packages_tags_copy :
  forall st o ob g, nth_error (st_objs st) o = Some ob -> dict_keysb (st_heap st) (fst ob) = true ->
    step_new st (HFilterPTCopy o g) ob (tr_db_filter_packages_tags_copy (st_heap st) (fst ob) (snd ob) g).
Proof. exact tie_step_filter_packages_tags_copy. Qed.
Print Assumptions C20_tie_step_filter_packages_tags_copy.

Theorem C20_tie_step_filter_tags :
  forall st o ob f, nth_error (st_objs st) o = Some ob -> dict_keysb (st_heap st) (snd ob) = true ->
    step_new st (HFilterT o f) ob (tr_db_filter_tags (st_heap st) (fst ob) (snd ob) f).
Proof. exact tie_step_filter_tags. Qed.
Print Assumptions C20_tie_step_filter_tags.

Theorem C20_tie_step_filter_tags_copy :
  forall st o ob f, nth_error (st_objs st) o = Some ob -> dict_keysb (st_heap st) (snd ob) = true ->
    step_new st (HFilterTCopy o f) ob (tr_db_filter_tags_copy (st_heap st) (fst ob) (snd ob) f).
Proof. exact tie_step_filter_tags_copy. Qed.
Print Assumptions C20_tie_step_filter_tags_copy.

(** [HFacet] with [order] = the keys of the receiver's [self.db] in insertion order — what the harness reads from
    [iter_packages()] and gives to the model *)
Theorem C20_tie_step_facet :
  forall st o ob, nth_error (st_objs st) o = Some ob ->
    (fst ob <? ndicts (st_heap st))%nat = true -> dict_keysb (st_heap st) (fst ob) = true ->
    exists h' trig,
      tr_db_facet_collection (st_heap st) (fst ob) (snd ob) = MOk (snd (h_new (st_heap st))) (h', fst ob, snd ob)
      /\ hstep false st (HFacet o (keys (get_dict (st_heap st) (fst ob))))
         = (new_obj st (h', snd (h_new (st_heap st))), None, trig).
Proof. exact tie_step_facet. Qed.
Print Assumptions C20_tie_step_facet.

(** * F. The guards are established by every reachable state *)

Theorem C20_tie_guards_reachable :
  forall fx ops o ob,
    let st := hrun fx empty_state ops in
    nth_error (st_objs st) o = Some ob ->
    dict_keysb (st_heap st) (fst ob) = true /\ dict_keysb (st_heap st) (snd ob) = true
    /\ dict_closedb (st_heap st) (fst ob) = true /\ dict_closedb (st_heap st) (snd ob) = true
    /\ (fst ob <? ndicts (st_heap st))%nat = true.
Proof. exact reachable_guards. Qed.
Print Assumptions C20_tie_guards_reachable.

(** * G. Order independence of the loops over sets (every permutation of the iteration order) *)

Goal forall V (d d' : list (str * V)), same_map d d' = (forall k, lookup k d = lookup k d').
Proof. reflexivity. Qed.

(** [for p in pkgs: db[p] = tags.copy()] *)
Theorem C20_tie_order_set_all :
  forall (tags : sset) l l' (d : dict), Permutation l l' ->
    same_map (fold_left (fun d p => dict_set p tags d) l d) (fold_left (fun d p => dict_set p tags d) l' d).
Proof. exact order_indep_set_all. Qed.
Print Assumptions C20_tie_order_set_all.

(** [for tag in tags: if tag in dbr: dbr[tag] |= pkgs else: dbr[tag] = pkgs.copy()] *)
Theorem C20_tie_order_rdb_join :
  forall (pkgs : sset) l l' (d : dict), Permutation l l' ->
    same_map (fold_left (rdb_join pkgs) l d) (fold_left (rdb_join pkgs) l' d).
Proof. exact order_indep_rdb_join. Qed.
Print Assumptions C20_tie_order_rdb_join.

(** [for tag in tags: if tag not in res: res[tag] = set(); res[tag].add(pkg)] *)
Theorem C20_tie_order_rev_add :
  forall pkg l l' (res : dict), Permutation l l' ->
    same_map (fold_left (rev_add pkg) l res) (fold_left (rev_add pkg) l' res).
Proof. exact order_indep_rev_add. Qed.
Print Assumptions C20_tie_order_rev_add.

(** the loop of DB.insert, on the value of the index (Props/C20.v, C20_heap_insert_is_linear_insert) *)
Theorem C20_tie_order_ins_rdb :
  forall fx pkg l l' (rdb : dict), Permutation l l' ->
    same_map (fold_left (ins_rdb fx pkg) l rdb) (fold_left (ins_rdb fx pkg) l' rdb).
Proof. exact order_indep_ins_rdb. Qed.
Print Assumptions C20_tie_order_ins_rdb.

Theorem C20_tie_order_set_of_list : forall l l', Permutation l l' -> set_of_list l = set_of_list l'.
Proof. exact order_indep_set_of_list. Qed.
Print Assumptions C20_tie_order_set_of_list.

(** * Non-vacuity: the regenerated code runs.  DB(); read two lines; insert "pkg" under the new tag "t" (K1: the tag's
    package set becomes the CHARACTERS of "pkg") and under the known tag "x"; filter_tags (sharing), then what the
    filtered object and the source answer. *)
Local Open Scope string_scope.
Definition s (x : string) : str := Lib.Dec.dec x.

Example C20_tie_k1_runs :
  match tr_db_init (mkH [] []) 0%nat 0%nat with
  | MOk _ (h0, d, r) =>
    match tr_db_read h0 d r [s "a, b: x, y"; s "c: x"] None with
    | MOk _ (h1, d, r) =>
      match tr_db_insert h1 d r (s "pkg") (set_of_list [s "t"; s "x"]) with
      | MOk _ (h2, d, r) =>
        match tr_db_filter_tags h2 d r (fun t => negb (str_eqb t (s "y"))) with
        | MOk (Some d', Some r') (h3, _, _) =>
            Some (tr_db_packages_of_tag h3 d r (s "t"), tr_db_packages_of_tag h3 d' r' (s "x"),
                  tr_db_iter_tags h3 d' r', tr_db_card h3 d r (s "y"),
                  tr_db_tags_of_packages h3 d' r' [s "a"; s "pkg"])
        | _ => None
        end
      | MErr _ _ => None
      end
    | MErr _ _ => None
    end
  | MErr _ _ => None
  end
  = Some (Ok [s "g"; s "k"; s "p"], Ok [s "a"; s "b"; s "c"; s "pkg"], Ok [s "x"; s "t"], Ok 2%Z, Ok [s "x"]).
Proof. vm_compute. reflexivity. Qed.
