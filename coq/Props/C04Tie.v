(** C04 / C15 — tie by regeneration.  Only statements; every proof is [exact <lemma>] (lemmas in Changelog/Tie.v).

    Gen/TrChangeBlock.v and Gen/TrChangelog.v are REGENERATED from lib/debian/changelog.py by harness/py2coq.py on
    every run: [tr_block_format] (+ [tr_block_format_default]: the same body with the parameter left out, i.e. with
    the default that the `def` has NOW), [tr_block_str], [tr_block_changes], [tr_changelog_format] (+ default),
    [tr_changelog_str], [tr_add_trailing_line], [tr_add_change] are the bodies of ChangeBlock._format / __str__ /
    changes / Changelog._format / __str__ / ChangeBlock.add_trailing_line / add_change as the working tree has them.

    - The printer only reads the object: [self] is the model's record ([block] / [changelog]); an attribute read is
      the record projection; a store would fail the translation closed.  [other_pairs] is a dict = association
      list in insertion order.  ChangelogCreateError is the kind [OtherError], as in the model.
    - add_trailing_line / add_change are in METHOD MODE: the attribute they change ([_trailing] / [_changes]) is
      threaded as state; [mres_map (with_trailing b) r] / [mres_map (set_changes b) r] is the block after the call.
      add_change works on a second name of the list ([changes = self._changes], reversed / inserted into / appended
      to IN PLACE and inserted into while it is being iterated over, followed by an immediate [break]); the
      translator renders that only after checking that the alias cannot come apart (py2coq Fun.alias_state,
      _mut_then_break).

    The theorems say: for ALL blocks / changelogs / lines, each regenerated function yields the same text or the
    same exception kind (resp. the same object afterwards) as the model function of Changelog/Model.v that
    [Check.agree] runs and that the theorems of Props/C04.v / Props/C15.v are about: [format_block],
    [format_changelog], [add_trailing] (used by the parser model), [add_change_list] (used by [apply_op]).

    THE PARSER.  Gen/TrChangelogParse.v: [tr_parse_changelog], [tr_parse_error], [tr_changelog_init] are the bodies of
    Changelog.parse_changelog (the whole line-by-line state machine, the nested key=value loop included),
    Changelog._parse_error and Changelog.__init__.  Method mode: the state is (self._blocks,
    self.initial_blank_lines, self._encoding, the process-wide list of warnings — rendered as the model does: the
    KIND of each warning, newest first).  [file] is a dynamic value ([trp_file]: bytes / str / list of lines / text
    file; [file_input] is the model's view of it).  current_block is a ChangeBlock in a local variable whose
    attributes are assigned (record updates, under the translator's ownership discipline: the name is gone once
    the object is appended to self._blocks); [self._blocks[-1].add_trailing_line(line)] runs the TRANSLATED
    add_trailing_line on the last element.  [forget] drops the state returned next to an exception (the model says
    nothing about the object after ChangelogParseError); [pview] reads a model result in the shape of the
    translated one and keeps blocks, initial lines and warnings ([C04_tie_pview_faithful]).
    The theorems hold for EVERY input, every max_blocks (negative ones included: [Z.to_nat]), allow_empty_author,
    strict, encoding, every prior state of the object and every instance [J] of the thirteen uninterpreted
    patterns (emacs / vim / cvs / comments / old_format_re1..8), exactly as the theorems of Props/C04.v / C15.v.

    Still hand-modelled inside (Changelog/TrPrims.v, TrPrimsParse.v): the seven interpreted regex leaves (= the
    model's [match_topline], [match_blank], [match_change], [match_endline], [match_nodetails], [match_keyvalue],
    [match_value]; pattern texts and flags asserted by the translator spec) and their [group]/[end]; the
    thirteen uninterpreted ones (fields of [J]); [str.strip/lstrip/rstrip/split/lower], [re.split] on the three
    line ends, [list.append/pop/reverse/insert], [dict.items], [''.join]; the dict of seen keys as an association
    list; ChangeBlock(encoding=…) with every other argument left out (= the model's [empty_block]) and the
    attribute stores on a block; [warnings.warn] (records the kind of the message); isinstance/decode on [file].
    Not regenerated: new_block, the Changelog-level attribute setters, ChangeBlock.__init__. *)
From Coq Require Import String.
From Verif Require Import Lib.Base Lib.Dec Lib.PyStr Lib.Tr Changelog.Model Changelog.TrPrims
  Gen.TrChangeBlock Gen.TrChangelog Changelog.Tie Changelog.TrPrimsParse Gen.TrChangelogParse Changelog.TieParse.

(** ChangeBlock._format(allow_missing_author): the text, or ChangelogCreateError for a missing package / version /
    distribution / urgency / author / date — in the order in which the code tests them *)
Theorem C04_tie_block_format :
  forall b allow, tr_block_format b allow = format_block allow b.
Proof. exact tr_block_format_eq. Qed.
Print Assumptions C04_tie_block_format.

(** … called without the argument: the default of the source as it is now (False) *)
Theorem C04_tie_block_format_default :
  forall b, tr_block_format_default b = format_block false b.
Proof. exact tr_block_format_default_eq. Qed.
Print Assumptions C04_tie_block_format_default.

(** str(block) *)
Theorem C04_tie_block_str :
  forall b, tr_block_str b = format_block false b.
Proof. exact tr_block_str_eq. Qed.
Print Assumptions C04_tie_block_str.

(** block.changes() *)
Theorem C04_tie_block_changes :
  forall b, tr_block_changes b = Ok (b_changes b).
Proof. exact tr_block_changes_eq. Qed.
Print Assumptions C04_tie_block_changes.

(** Changelog._format(allow_missing_author): initial lines, then the blocks in order; the first block that cannot
    be formatted decides the exception *)
Theorem C04_tie_changelog_format :
  forall c allow, tr_changelog_format c allow = format_changelog allow c.
Proof. exact tr_changelog_format_eq. Qed.
Print Assumptions C04_tie_changelog_format.

Theorem C04_tie_changelog_format_default :
  forall c, tr_changelog_format_default c = format_changelog false c.
Proof. exact tr_changelog_format_default_eq. Qed.
Print Assumptions C04_tie_changelog_format_default.

(** str(changelog) — the function that the round-trip theorems of Props/C04.v and the normal-form theorems of
    Props/C15.v are about *)
Theorem C04_tie_changelog_str :
  forall c, tr_changelog_str c = format_changelog false c.
Proof. exact tr_changelog_str_eq. Qed.
Print Assumptions C04_tie_changelog_str.

(** block.add_trailing_line(line): the block afterwards is the model's [add_trailing line b]; never raises *)
Theorem C04_tie_add_trailing_line :
  forall b line,
    mres_map (with_trailing b) (tr_add_trailing_line (b_trailing b) line) = MOk tt (add_trailing line b).
Proof. exact tr_add_trailing_line_eq. Qed.
Print Assumptions C04_tie_add_trailing_line.

(** block.add_change(change) on ANY list of changes: the model's [add_change_list]; never raises *)
Theorem C04_tie_add_change :
  forall changes change, tr_add_change changes change = MOk tt (add_change_list change changes).
Proof. exact tr_add_change_eq. Qed.
Print Assumptions C04_tie_add_change.

(** … as the block afterwards (what [apply_op (AddChange _)] stores) *)
Theorem C04_tie_add_change_block :
  forall b change,
    mres_map (set_changes b) (tr_add_change (b_changes b) change)
    = MOk tt (set_changes b (add_change_list change (b_changes b))).
Proof. exact tr_add_change_block. Qed.
Print Assumptions C04_tie_add_change_block.

(** Changelog.parse_changelog(file, max_blocks, allow_empty_author, strict, encoding) on an object in ANY prior
    state: the same blocks, initial lines and warnings as the model's [parse_changelog], or the same exception
    kind (ChangelogParseError in strict mode; never IndexError / AssertionError / TypeError: the model has none,
    and the model never raises in lenient mode — Props/C15.v) *)
Theorem C04_tie_parse_changelog :
  forall J blocks0 initial0 s_enc warn0 file maxb allow strict enc,
    forget (tr_parse_changelog J blocks0 initial0 s_enc warn0 file maxb allow strict enc)
    = pview s_enc warn0 (parse_changelog J strict allow (option_map Z.to_nat maxb) (file_input file)).
Proof. exact tr_parse_changelog_eq. Qed.
Print Assumptions C04_tie_parse_changelog.

(** Changelog(file, max_blocks, allow_empty_author, strict, encoding) — what [Check.agree] compares the model with *)
Theorem C04_tie_changelog_init :
  forall J blocks0 initial0 enc0 warn0 file maxb allow strict encoding,
    forget (tr_changelog_init J blocks0 initial0 enc0 warn0 file maxb allow strict encoding)
    = match file with
      | None => Ok (tt, ([], [], encoding, warn0))
      | Some f => pview encoding warn0 (parse_changelog J strict allow (option_map Z.to_nat maxb) (file_input f))
      end.
Proof. exact tr_changelog_init_eq. Qed.
Print Assumptions C04_tie_changelog_init.

(** _parse_error(message, strict) = the model's [warn] *)
Theorem C04_tie_parse_error :
  forall J st s_enc warn0 message strict,
    forget (tr_parse_error J (p_blocks st) (p_initial st) s_enc (p_warn st ++ warn0) message strict)
    = pview s_enc warn0 (warn strict (trp_msg_kind message) st).
Proof. exact tr_parse_error_eq. Qed.
Print Assumptions C04_tie_parse_error.

(** the view loses nothing that the object or the caller can see *)
Theorem C04_tie_pview_faithful :
  forall s_enc warn0 r1 r2,
    pview s_enc warn0 r1 = pview s_enc warn0 r2 ->
    match r1, r2 with
    | Ok a, Ok b => cl_of a = cl_of b /\ p_warn a = p_warn b
    | Err x, Err y => x = y
    | _, _ => False
    end.
Proof. exact pview_faithful. Qed.
Print Assumptions C04_tie_pview_faithful.

(** non-vacuity: the regenerated code really runs.  A block with two extra pairs, a blank line at the end of the
    changes and a one-space trailer separator; the same block without a date (ChangelogCreateError, and the text
    without it when allow_missing_author is given); add_change puts the entry before the trailing blank line. *)
Local Open Scope string_scope.
Example C04_tie_runs :
  let b := mkBlock (Some (dec "hello")) (Some (dec "1.0-1")) (Some (dec "unstable")) (Some (dec "low")) (dec " (x)")
                   [dec "  * one"; dec ""] (Some (dec "A <a@b>")) (Some (dec "Mon, 01 Jan 2024 10:00:00 +0000"))
                   [dec ""] [(dec "k", dec "v"); (dec "Binary-Only", dec "yes")] false (dec " ") in
  let b' := mkBlock (b_package b) (b_version b) (b_dists b) (b_urgency b) (b_comment b) (b_changes b)
                    (b_author b) None (b_trailing b) (b_pairs b) false (b_sep b) in
  tr_block_str b
  = Ok (dec "hello (1.0-1) unstable; urgency=low (x), k=v, Binary-Only=yes\00000a  * one\00000a\00000a -- A <a@b> Mon, 01 Jan 2024 10:00:00 +0000\00000a\00000a")
  /\ tr_block_format b' false = Err OtherError
  /\ tr_block_format b' true
     = Ok (dec "hello (1.0-1) unstable; urgency=low (x), k=v, Binary-Only=yes\00000a  * one\00000a\00000a -- A <a@b>\00000a\00000a")
  /\ tr_changelog_str (mkCl [dec "# c"] [b; b']) = Err OtherError
  /\ tr_changelog_format (mkCl [dec "# c"] [b']) true
     = Ok (dec "# c\00000ahello (1.0-1) unstable; urgency=low (x), k=v, Binary-Only=yes\00000a  * one\00000a\00000a -- A <a@b>\00000a\00000a")
  /\ tr_add_change (b_changes b) (dec "  * two") = MOk tt [dec "  * one"; dec "  * two"; dec ""]
  /\ tr_add_change [dec " "; dec ""] (dec "  * two") = MOk tt [dec " "; dec ""; dec "  * two"]
  /\ tr_add_trailing_line (b_trailing b) (dec "x") = MOk tt [dec ""; dec "x"].
Proof. vm_compute. repeat split. Qed.

(** … and the regenerated parser: a text with an initial comment line, a header with an urgency comment, an extra
    pair, a repeated key and a malformed pair, a one-space trailer separator, and a second block that ends at EOF:
    lenient parsing gives two blocks and four warnings and str() of them; strict parsing raises
    ChangelogParseError; max_blocks=1 stops before the second heading; the constructor on a prior state. *)
Definition C04_tie_junk : junk :=
  let f := fun _ : str => false in
  mkJunk f f f (fun l => match l with 35%N :: 32%N :: _ => true | _ => false end) f f f f f f f f f.
Definition C04_tie_text : str := dec
  "# c\00000ahello (1.0-1) unstable; urgency=low (x), k=v, K=w, junk\00000a\00000a  * one\00000a -- A <a@b> Mon, 01 Jan 2024 10:00:00 +0000\00000a\00000ahello (0.9) unstable; urgency=low\00000a  * old\00000a".

Example C04_tie_parser_runs :
  (exists st,
     tr_changelog_init C04_tie_junk [empty_block] [dec "x"] [] [] (Some (FStr C04_tie_text)) None false false (dec "utf-8")
     = MOk tt st
     /\ (let '(bs, ini, enc, w) := st in
         List.length bs = 2%nat /\ ini = [dec "# c"] /\ enc = dec "utf-8"
         /\ w = [WEof; WBadTrailer; WInvalidKV; WRepeatedKey]
         /\ map b_pairs bs = [[(dec "k", dec "v"); (dec "K", dec "w")]; []]
         /\ map b_no_trailer bs = [false; true]
         /\ tr_changelog_str (mkCl ini bs)
            = Ok (dec "# c\00000ahello (1.0-1) unstable; urgency=low (x), k=v, K=w\00000a\00000a  * one\00000a -- A <a@b> Mon, 01 Jan 2024 10:00:00 +0000\00000a\00000ahello (0.9) unstable; urgency=low\00000a  * old\00000a")))
  /\ forget (tr_parse_changelog C04_tie_junk [] [] [] [] (FBytes C04_tie_text) None false true None) = Err ParseError
  /\ (exists st,
        tr_parse_changelog C04_tie_junk [] [] [] [] (FLines (split_crlf C04_tie_text)) (Some 1%Z) false false None = MOk tt st
        /\ List.length (fst (fst (fst st))) = 1%nat).
Proof.
  vm_compute. split; [eexists; split; [reflexivity|repeat split]|split; [reflexivity|eexists; split; reflexivity]].
Qed.
