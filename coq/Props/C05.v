(** C05 — placeholder while the check is being built; replaced below. *)
From Verif Require Import Lib.Base Repro.Doc.

Theorem C05_set_rejects_leave_unchanged :
  forall d o e d', step d o = (Some e, d') -> d' = d.
Proof.
  intros d o e d'. unfold step. destruct (run_op d o); intros H; inversion H; reflexivity.
Qed.
Print Assumptions C05_set_rejects_leave_unchanged.
