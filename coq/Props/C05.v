(** C05 — Edits through the format-preserving parser are local and read back.
    Only statements; every proof is [exact <lemma>] or a short composition.

    Model: Repro/Doc.v (the functions [run_op], [step], [run], [dump], [getitem], [scan_para]
    that Repro/DocCheck.agree runs against the implementation); hypotheses: Repro/DocInv.v
    ([doc_ok], [doc_wf]: evaluated by agree on every parsed document); Spec: Repro/DocSpec.v
    ([valid_value], [expected_read]: what DocCheck.holds demands of the implementation);
    proofs: Repro/DocProofs.v, Repro/DocDup.v.

    Vocabulary.
      [split_doc d j = Some (a, p, b)]   paragraph [j] of the document is [p]; [a], [b] are the
                                         items (paragraphs, comments, blank lines) before and after it.
      [para_fields p = l1 ++ f :: l2], [has_name n f]
                                         [f] is the field of [p] called [n] (any case spelling).
      [field_text f = f_comment f ++ f_name f ++ f_rest f]
                                         the field's own comment lines, its name as spelled in the
                                         document, and everything from the colon to the end of its
                                         last line.
      [doc_ok d]                         a valid document: no paragraph has two fields with the same
                                         name (case-insensitively), every field has its colon, and
                                         only the very last item/field may lack its final newline.
                                         Both paragraph classes are covered: the no-duplicates class
                                         (every paragraph of a valid document as parsed) and the
                                         duplicate-fields class in a state without repeated names
                                         (its name index consistent with its node list, [d_wf]);
                                         paragraphs that do repeat a name are modelled and compared
                                         with the implementation but are outside these theorems.
      [own_lines v]                      the new field's text starts with its comment lines (each
                                         complete), then a name made of field-name characters,
                                         the colon, and it ends with a newline. *)
From Coq Require Import String.
From Verif Require Import Repro.DocSpec.
From Verif Require Import Lib.Base Lib.Dec Lib.PyStr Gen.PyChars Repro.Doc Repro.DocInv Repro.DocDup Repro.DocProofs.

(** 1. set_existing_local.  [p[k] = value] on a field that exists: every byte before the field's
       value — including the field's own comment lines and the name in its original spelling — and
       every byte after the field is unchanged; the new value starts at the colon and ends with a
       newline.  For every valid document, every paragraph, every key form, every value for which
       the call succeeds. *)
Theorem C05_set_existing_local :
  forall d j k value d' a p b l1 f l2,
    doc_ok d = true ->
    split_doc d j = Some (a, p, b) ->
    para_fields p = l1 ++ f :: l2 -> has_name (key_name k) f = true ->
    run_op d (OSet j k value) = Ok d' ->
    exists rest',
      dump d  = (dump a ++ ftext l1 ++ f_comment f ++ f_name f) ++ f_rest f ++ (ftext l2 ++ dump b) /\
      dump d' = (dump a ++ ftext l1 ++ f_comment f ++ f_name f) ++ rest'    ++ (ftext l2 ++ dump b) /\
      colon_first rest' = true /\ ends_nl rest' = true /\
      (exists p', d' = a ++ Para p' :: b
                  /\ para_fields p' = l1 ++ mkF (f_comment f) (f_name f) rest' :: l2) /\
      doc_ok d' = true.
Proof.
  intros d j k value d' a p b l1 f l2 Hok Hs Hpf Hf H.
  pose proof (run_op_ok_preserved _ _ _ Hok H) as Hok'.
  unfold doc_ok in Hok. apply andb_true_iff in Hok. destruct Hok as [Hinv _].
  destruct (set_existing_bytes d (OSet j k value) d' a p b l1 f l2 Hinv eq_refl Hs Hpf Hf H)
    as [v [H1 [H2 [H3 [H4 [H5 H6]]]]]].
  cbn [op_comment] in H6. exists (f_rest v).
  unfold own_lines in H5. apply andb_true_iff in H5. destruct H5 as [H5 _].
  apply andb_true_iff in H5. destruct H5 as [H5 H5'].
  apply andb_true_iff in H5. destruct H5 as [_ H5].
  assert (Hv : v = mkF (f_comment f) (f_name f) (f_rest v)) by (destruct v; cbn in *; congruence).
  unfold field_text in H1, H2. rewrite H4, H6 in H2.
  repeat split; try assumption.
  - rewrite H1. now rewrite <- !app_assoc.
  - rewrite H2. now rewrite <- !app_assoc.
  - now rewrite <- Hv.
Qed.

(** the same for set_field_to_simple_value / set_field_from_raw_string with any combination of
    the comment arguments: the field's text is replaced as a whole (the comment may change, as
    [op_comment] says), nothing else changes *)
Theorem C05_set_existing_local_any_setter :
  forall d o d' a p b l1 f l2,
    doc_ok d = true ->
    match o with ODel _ _ => false | _ => true end = true ->
    split_doc d (op_para o) = Some (a, p, b) ->
    para_fields p = l1 ++ f :: l2 -> has_name (key_name (op_key o)) f = true ->
    run_op d o = Ok d' ->
    exists v,
      dump d  = (dump a ++ ftext l1) ++ field_text f ++ (ftext l2 ++ dump b) /\
      dump d' = (dump a ++ ftext l1) ++ field_text v ++ (ftext l2 ++ dump b) /\
      (exists p', d' = a ++ Para p' :: b /\ para_fields p' = l1 ++ v :: l2) /\
      f_name v = f_name f /\ own_lines v = true /\ op_comment o (Some f) (f_comment v).
Proof.
  intros d o d' a p b l1 f l2 Hok. unfold doc_ok in Hok. apply andb_true_iff in Hok.
  destruct Hok as [Hinv _]. now apply set_existing_bytes.
Qed.

(** 2. set_new_appends_own_lines.  A set under a name the paragraph does not have: the new field
       is placed directly after the paragraph's last field, at the beginning of a line, on lines
       of its own (name as given, colon, value, final newline); every byte before and after is
       unchanged, except that a newline is supplied in front of it when the paragraph's text did
       not end with one — which only happens at the very end of the document. *)
Theorem C05_set_new_appends_own_lines :
  forall d o d' a p b,
    doc_ok d = true ->
    match o with ODel _ _ => false | _ => true end = true ->
    split_doc d (op_para o) = Some (a, p, b) ->
    absent (key_name (op_key o)) (para_fields p) = true ->
    run_op d o = Ok d' ->
    exists v,
      let pre := dump a ++ ftext (para_fields p) in
      let nl := nl_suffix (ftext (para_fields p)) in
      dump d  = pre ++ dump b /\
      dump d' = pre ++ nl ++ field_text v ++ dump b /\
      closed (pre ++ nl) = true /\ (nl <> [] -> b = []) /\
      f_name v = key_name (op_key o) /\ own_lines v = true /\ op_comment o None (f_comment v) /\
      (exists p', d' = a ++ Para p' :: b
                  /\ para_fields p' = map_last add_nl (para_fields p) ++ [v]) /\
      doc_ok d' = true.
Proof.
  intros d o d' a p b Hok Hset Hs Hab H.
  pose proof (run_op_ok_preserved _ _ _ Hok H) as Hok'.
  destruct (new_field_position _ _ _ _ _ Hok Hs) as [Hc Hn].
  unfold doc_ok in Hok. apply andb_true_iff in Hok. destruct Hok as [Hinv _].
  destruct (set_new_bytes d o d' a p b Hinv Hset Hs Hab H) as [v [H1 [H2 [H3 [H4 [H5 H6]]]]]].
  exists v. cbv zeta. repeat split; assumption.
Qed.

(** 3. delete_local.  [del p[k]]: the field disappears together with its own lines (comment
       lines, name, value lines) and nothing else changes. *)
Theorem C05_delete_local :
  forall d j k d' a p b l1 f l2,
    doc_ok d = true ->
    split_doc d j = Some (a, p, b) ->
    para_fields p = l1 ++ f :: l2 -> has_name (key_name k) f = true ->
    run_op d (ODel j k) = Ok d' ->
    dump d  = (dump a ++ ftext l1) ++ field_text f ++ (ftext l2 ++ dump b) /\
    dump d' = (dump a ++ ftext l1) ++ (ftext l2 ++ dump b) /\
    (exists p', d' = a ++ Para p' :: b /\ para_fields p' = l1 ++ l2) /\
    doc_ok d' = true.
Proof.
  intros d j k d' a p b l1 f l2 Hok Hs Hpf Hf H.
  pose proof (run_op_ok_preserved _ _ _ Hok H) as Hok'.
  unfold doc_ok in Hok. apply andb_true_iff in Hok. destruct Hok as [Hinv _].
  destruct (delete_bytes d j k d' a p b l1 f l2 Hinv Hs Hpf Hf H) as [H1 [H2 H3]].
  now repeat split.
Qed.

(** a delete (or an indexed key) that names no field is rejected; see theorem 5 *)

(** 4. set_rejects_leave_unchanged.  An operation that raises leaves the document as it was
       (all four operations, all error kinds). *)
Theorem C05_set_rejects_leave_unchanged :
  forall d o e d', step d o = (Some e, d') -> d' = d /\ run_op d o = Err e.
Proof. exact rejects_leave_unchanged. Qed.

(** 5. edit_sequence.  For every history of operations on a valid document (any mixture of
       set / delete / set_field_*, any paragraphs, accepted or rejected), at every point:
       the document is valid; the next operation is either rejected and changes nothing, or it
       edits only the fields of the paragraph it addresses in the way [para_edit] says
       (replace one field in place / append one field / remove one field), all items before and
       after that paragraph being identical; and over the whole history the free text between
       paragraphs and the number and order of paragraphs never change. *)
Theorem C05_edit_sequence :
  forall d ops1 o ops2,
    doc_ok d = true ->
    let d1 := run d ops1 in
    let d2 := run d (ops1 ++ [o]) in
    doc_ok d1 = true
    /\ ((exists e, run_op d1 o = Err e /\ d2 = d1) \/ (run_op d1 o = Ok d2 /\ local_step o d1 d2))
    /\ doc_ok (run d (ops1 ++ o :: ops2)) = true
    /\ skeleton (run d (ops1 ++ o :: ops2)) = skeleton d.
Proof. exact edit_sequence. Qed.

Theorem C05_histories_keep_validity :
  forall ops d, doc_ok d = true -> doc_ok (run d ops) = true.
Proof. exact run_ok. Qed.

(** what [local_step] / [para_edit] mean at byte level is theorems 1-3; this is the general form
    for one successful operation *)
Theorem C05_successful_operation_is_local :
  forall d o d',
    doc_ok d = true -> run_op d o = Ok d' ->
    doc_ok d' = true /\
    exists a p b p',
      split_doc d (op_para o) = Some (a, p, b) /\ d' = a ++ Para p' :: b /\ para_edit o p p' /\
      dump d  = dump a ++ ftext (para_fields p)  ++ dump b /\
      dump d' = dump a ++ ftext (para_fields p') ++ dump b.
Proof.
  intros d o d' Hok H. split; [now apply (run_op_ok_preserved d o)|].
  unfold doc_ok in Hok. apply andb_true_iff in Hok. destruct Hok as [Hinv _].
  destruct (run_op_local _ _ _ Hinv H) as [_ [a [p [b [p' [Hs [-> [_ He]]]]]]]].
  exists a, p, b, p'. split; [exact Hs|]. split; [reflexivity|]. split; [exact He|].
  split; [|apply dump_split].
  rewrite (split_doc_eq _ _ _ _ _ Hs) at 1. apply dump_split.
Qed.

(** 6. set_readback_partial.  After a successful [p[k] = value], on the edited object:
       * for every value deb822 can carry ([valid_value], the Spec's notion: one line, or a first
         line followed by continuation lines with comment lines only between them, no line
         boundary other than LF) the field reads back as the Spec's [expected_read value] under
         every case spelling of the name, with or without index 0, and its stored text is exactly
         ": " + first line stripped + the remaining lines as given (a final newline supplied);
       * every other field reads as it did before;
       * the names of the paragraph and their order are as before, the original spelling of an
         existing name is kept, a new name is appended spelled as given.
       FULL STATEMENT (not proved): the same for a fresh parse of [dump d'].  It needs the
       printer/parser theorem [parse_dump_abs : doc_ok d -> abs (parse (dump d)) = d] for the parser
       model of Repro/Parse.v, which is not proved.  Theorem 8 proves the paragraph level of it
       (re-reading the edited paragraph's text as it stands in the dump); the whole-document fresh
       parse is covered by the correspondence check only (DocCheck.holds judges the
       implementation's own re-parse of every dump against the same [expected_read]). *)
Theorem C05_set_readback_partial :
  forall d j k value d',
    doc_ok d = true ->
    run_op d (OSet j k value) = Ok d' ->
    exists a p b p' v orig,
      split_doc d j = Some (a, p, b) /\ d' = a ++ Para p' :: b /\
      new_for p k p' v orig /\
      (forall k', name_eqb (key_name k') (key_name k) = true -> plain_key k' = true ->
                  getitem p' k' = Ok (value_str v)) /\
      (valid_value value = true ->
         f_rest v = COLON :: setitem_raw value /\ value_str v = expected_read value) /\
      (forall k', plain_key k' = true -> name_eqb (key_name k') (key_name k) = false ->
                  getitem p' k' = getitem p k') /\
      map f_name (para_fields p') =
        match orig with
        | Some _ => map f_name (para_fields p)
        | None => map f_name (para_fields p) ++ [key_name k]
        end.
Proof.
  intros d j k value d' Hok H.
  unfold doc_ok in Hok. apply andb_true_iff in Hok. destruct Hok as [Hinv _].
  destruct (run_op_local _ _ _ Hinv H) as [Hinv' [a [p [b [p' [Hs [-> [Hp He]]]]]]]].
  destruct (run_op_ok _ _ _ H) as [a0 [p0 [b0 [p0' [Hs0 [Hop E]]]]]].
  rewrite Hs in Hs0. injection Hs0 as <- <- <-. apply app_inv_head in E. injection E as <-.
  cbn [op_on_para] in Hop.
  destruct (setitem_readback _ _ _ _ Hp Hop) as [Hp' [v [orig [Hown [Hnew [Hc Hval]]]]]].
  exists a, p, b, p', v, orig. cbn [op_para] in Hs. repeat split; try assumption.
  - intros k' Hk Hplain. now apply (getitem_new p k p' v orig).
  - now apply Hval.
  - now apply Hval.
  - intros k' Hplain Hk. now apply (others_unchanged (OSet j k value) p p' k').
  - now apply (names_after_set p k p' v orig).
Qed.

(** the same for any setter, without the value: the stored field is read under every spelling *)
Theorem C05_setter_readback_partial :
  forall d o d' k',
    doc_ok d = true ->
    match o with ODel _ _ => false | _ => true end = true ->
    run_op d o = Ok d' ->
    plain_key k' = true ->
    exists a p b p' v orig,
      split_doc d (op_para o) = Some (a, p, b) /\ d' = a ++ Para p' :: b /\
      new_for p (op_key o) p' v orig /\
      (name_eqb (key_name k') (key_name (op_key o)) = true -> getitem p' k' = Ok (value_str v)) /\
      (name_eqb (key_name k') (key_name (op_key o)) = false -> getitem p' k' = getitem p k').
Proof.
  intros d o d' k' Hok Hset H Hplain.
  unfold doc_ok in Hok. apply andb_true_iff in Hok. destruct Hok as [Hinv _].
  destruct (run_op_local _ _ _ Hinv H) as [Hinv' [a [p [b [p' [Hs [-> [Hp He]]]]]]]].
  assert (He' : exists v orig, own_lines v = true /\ new_for p (op_key o) p' v orig).
  { destruct o; [|discriminate| |]; destruct He as [w [orig [H1 [H2 _]]]]; now exists w, orig. }
  destruct He' as [v [orig [_ Hnew]]].
  rewrite doc_inv_split in Hinv'. apply andb_true_iff in Hinv'. destruct Hinv' as [_ Hinv'].
  apply andb_true_iff in Hinv'. destruct Hinv' as [Hp' _].
  exists a, p, b, p', v, orig. repeat split; try assumption.
  - intros Hk. now apply (getitem_new p (op_key o) p' v orig).
  - intros Hk. now apply (others_unchanged o p p' k').
Qed.

(** after [del p[k]] the name is gone under every spelling; the other fields read as before *)
Theorem C05_delete_readback_partial :
  forall d j k d' k',
    doc_ok d = true -> run_op d (ODel j k) = Ok d' -> plain_key k' = true ->
    exists a p b p',
      split_doc d j = Some (a, p, b) /\ d' = a ++ Para p' :: b /\
      (name_eqb (key_name k') (key_name k) = true -> getitem p' k' = Err KeyError) /\
      (name_eqb (key_name k') (key_name k) = false -> getitem p' k' = getitem p k').
Proof.
  intros d j k d' k' Hok H Hplain.
  unfold doc_ok in Hok. apply andb_true_iff in Hok. destruct Hok as [Hinv _].
  destruct (run_op_local _ _ _ Hinv H) as [Hinv' [a [p [b [p' [Hs [-> [Hp He]]]]]]]].
  rewrite doc_inv_split in Hinv'. apply andb_true_iff in Hinv'. destruct Hinv' as [_ Hinv'].
  apply andb_true_iff in Hinv'. destruct Hinv' as [Hp' _].
  exists a, p, b, p'. cbn [op_para] in Hs. repeat split; try assumption.
  - intros Hk. cbn [para_edit] in He. destruct He as [l1 [f [l2 [Hpf [Hf [_ Hpf']]]]]].
    now apply (getitem_deleted p p' (key_name k) l1 f l2 k').
  - intros Hk. now apply (others_unchanged (ODel j k) p p' k').
Qed.

(** 7. The duplicate-fields class (Deb822DuplicateFieldsParagraphElement: a linked list of nodes
       plus an index name -> nodes).  From its constructor on, over every set and remove with any
       key form, repeated names or not, the index stays consistent with the node list ([d_wf]);
       so a paragraph of this class whose duplicates have been deleted satisfies [para_inv] and
       theorems 1-6 apply to it. *)
Theorem C05_dup_class_index_consistent :
  (forall fs, d_wf (init_dup fs) = true)
  /\ (forall d k v d', d_wf d = true -> d_set_kvpair d k v = Ok d' -> d_wf d' = true)
  /\ (forall d k d', d_wf d = true -> d_remove d k = Ok d' -> d_wf d' = true).
Proof.
  split; [exact init_dup_wf|]. split.
  - intros d k v d' H H1. apply d_wf_DWf. apply d_wf_DWf in H. exact (d_set_kvpair_wf _ _ _ _ H H1).
  - intros d k d' H H1. apply d_wf_DWf. apply d_wf_DWf in H. exact (d_remove_wf _ _ _ H H1).
Qed.

(** 8. Re-reading (partial form of the fresh-parse half of the property).  [scan_para] is the
       model of what tokenizer + parser make of the text of ONE paragraph (Repro/Doc.v; the
       correspondence check compares it with the implementation's parse of every paragraph of every
       document, and with the implementation's fresh parse of every dump after every edit).
       [doc_wf] = [doc_ok] plus: every field consists of complete '#' comment lines, a name of
       field-name characters, and after the colon the rest of its line followed by continuation
       lines with comment lines only between them.
       For every well-formed document and every history: the document stays well-formed, and
       the text of every paragraph — in particular the edited one, as it stands in the dump —
       re-reads to exactly that paragraph's fields: same comments, names as spelled, value
       texts, order.  With theorem 6 this gives, for the edited paragraph as re-read from the
       dump: the new value under the original spelling, all other fields unchanged.
       FULL STATEMENT (not proved): the same through a parse of the whole dump; what is missing is
       the document level of the parser (splitting the dump into paragraphs at blank lines and
       free comments, dropping emptied paragraphs), for which there is no model theorem. *)
Theorem C05_reread_partial :
  forall d ops,
    doc_wf d = true ->
    doc_wf (run d ops) = true
    /\ forall j a p b, split_doc (run d ops) j = Some (a, p, b) ->
                       scan_para (para_text p) = Ok (para_fields p).
Proof.
  intros d ops H. pose proof (run_wf ops d H) as H'. split; [exact H'|].
  intros j a p b Hs. exact (paragraphs_reread _ _ _ _ _ H' Hs).
Qed.

Theorem C05_set_reread_partial :
  forall d j k value d',
    doc_wf d = true ->
    run_op d (OSet j k value) = Ok d' ->
    exists a p b p' v orig,
      split_doc d j = Some (a, p, b) /\ d' = a ++ Para p' :: b /\
      dump d' = dump a ++ para_text p' ++ dump b /\
      scan_para (para_text p') = Ok (para_fields p') /\
      new_for p k p' v orig /\
      (valid_value value = true -> value_str v = expected_read value) /\
      doc_wf d' = true.
Proof.
  intros d j k value d' Hwf H.
  pose proof (run_op_wf _ _ _ Hwf H) as Hwf'.
  assert (Hok : doc_ok d = true) by (unfold doc_wf in Hwf; apply andb_true_iff in Hwf; now destruct Hwf).
  destruct (C05_set_readback_partial d j k value d' Hok H)
    as [a [p [b [p' [v [orig [Hs [-> [Hnew [_ [Hval _]]]]]]]]]]].
  exists a, p, b, p', v, orig. repeat split; try assumption.
  - now rewrite dump_app, dump_cons.
  - exact (paragraphs_reread _ _ _ _ _ Hwf' (split_doc_app a p' b)).
  - intros Hv. now apply Hval.
Qed.

(** Non-vacuity: a document with a head comment, two paragraphs (a field with its own comment, a
    multi-line value with an inner comment line, tab continuation) and no final newline is valid;
    a history that replaces a field under another spelling, adds a field to the unterminated last
    paragraph, deletes a field, and contains two rejected calls produces the dumps below. *)
Local Open Scope string_scope.
Example C05_nonvacuous :
  let s (x : String.string) := Lib.Dec.dec x in
  let nl := [LF] in
  let d : doc :=
    [ Other OComment (s "# head" ++ nl); Other OWs nl;
      Para (PN [ mkF [] (s "Package") (s ": foo" ++ nl);
                 mkF (s "# why" ++ nl) (s "Depends") (s ": a," ++ nl ++ s "# inner" ++ nl ++ [TAB] ++ s "b" ++ nl) ]);
      Other OWs nl;
      Para (PN [ mkF [] (s "Package") (s ": bar") ]) ]%list in
  let ops :=
    [ OSet 0 (KStr (s "DEPENDS")) (s "x");
      OSet 1 (KStr (s "New")) (s "m" ++ nl ++ s " l2")%list;
      OSet 1 (KStr (s "a b")) (s "v");
      ODel 0 (KStr (s "package"));
      ODel 0 (KIdx (s "Depends") 1) ] in
  doc_ok d = true /\ doc_wf d = true
  /\ split_doc d 1 = Some (firstn 4 d, PN [ mkF [] (s "Package") (s ": bar") ], [])
  /\ map (fun o => fst (step d o)) ops = [None; None; Some ValueError; None; Some KeyError]
  /\ dump (run d ops) =
     (s "# head" ++ nl ++ nl ++ s "# why" ++ nl ++ s "Depends: x" ++ nl ++ nl
      ++ s "Package: bar" ++ nl ++ s "New: m" ++ nl ++ s " l2" ++ nl)%list
  /\ doc_ok (run d ops) = true /\ doc_wf (run d ops) = true
  (* a paragraph of the duplicate-fields class, once its duplicate is deleted, is valid too *)
  /\ (let dd := [ Para (PD (init_dup [ mkF [] (s "A") (s ": 1" ++ nl); mkF [] (s "B") (s ": 2" ++ nl);
                                       mkF [] (s "a") (s ": 3") ])) ]%list in
      doc_ok dd = false
      /\ doc_ok (run dd [ODel 0 (KIdx (s "A") 1)]) = true
      /\ dump (run dd [ODel 0 (KIdx (s "A") 1); OSet 0 (KStr (s "C")) (s "x"); OSet 0 (KStr (s "b")) (s "y")])
         = (s "A: 1" ++ nl ++ s "B: y" ++ nl ++ s "C: x" ++ nl)%list).
Proof. vm_compute. repeat split. Qed.

Print Assumptions C05_set_existing_local.
Print Assumptions C05_set_existing_local_any_setter.
Print Assumptions C05_set_new_appends_own_lines.
Print Assumptions C05_delete_local.
Print Assumptions C05_set_rejects_leave_unchanged.
Print Assumptions C05_edit_sequence.
Print Assumptions C05_histories_keep_validity.
Print Assumptions C05_successful_operation_is_local.
Print Assumptions C05_set_readback_partial.
Print Assumptions C05_setter_readback_partial.
Print Assumptions C05_delete_readback_partial.
Print Assumptions C05_dup_class_index_consistent.
Print Assumptions C05_reread_partial.
Print Assumptions C05_set_reread_partial.
