(** C05 — Edits through the format-preserving parser are local and read back.
    Only statements; every proof is [exact <lemma>] or a short composition.

    Model: Repro/Doc.v (the functions [run_op], [step], [run], [dump], [getitem], [scan_para]
    that Repro/DocCheck.agree runs against the implementation); hypotheses: Repro/DocInv.v
    ([doc_ok], [doc_wf]: evaluated by agree on every parsed document); Spec: Repro/DocSpec.v
    ([valid_value], [expected_read]: what DocCheck.holds demands of the implementation);
    proofs: Repro/DocProofs.v, Repro/DocDup.v; for the fresh-parse theorems (section 9 on) also the
    parser model of C01 (Repro/Token.v, Repro/Parse.v), the abstraction Repro/Abs.v ([abs_of_tree],
    [py_reparse]: compared by DocCheck.agree with the implementation's parse of every case text and
    with its fresh parse of every dump) and the proofs Repro/ParseDumpAbs*.v.

    Vocabulary.
      [split_doc d j = Some (a, p, b)]   paragraph [j] of the document is [p]; [a], [b] are the
                                         items (paragraphs, comments, blank lines) before and after it.
      [para_fields p = l1 ++ f :: l2], [has_name n f]
                                         [f] is the field of [p] called [n] (any case spelling).
      [field_text f = f_comment f ++ f_name f ++ f_rest f]
                                         the field's own comment lines, its name as spelled in the
                                         document, and everything from the colon to the end of its
                                         last line.
      [doc_ok d]                         a valid document: no paragraph has two fields with the same
                                         name (case-insensitively), every field has its colon, and
                                         only the very last item/field may lack its final newline.
                                         Both paragraph classes are covered: the no-duplicates class
                                         (every paragraph of a valid document as parsed) and the
                                         duplicate-fields class in a state without repeated names
                                         (its name index consistent with its node list, [d_wf]);
                                         paragraphs that do repeat a name are modelled and compared
                                         with the implementation but are outside these theorems.
      [own_lines v]                      the new field's text starts with its comment lines (each
                                         complete), then a name made of field-name characters,
                                         the colon, and it ends with a newline. *)
From Coq Require Import String.
From Verif Require Import Repro.DocSpec.
From Verif Require Import Lib.Base Lib.Dec Lib.PyStr Gen.PyChars Repro.Doc Repro.DocInv Repro.DocDup Repro.DocProofs.
From Verif Require Import Repro.Abs Repro.ParseDumpAbs Repro.ParseDumpAbsEdits.

(** 1. set_existing_local.  [p[k] = value] on a field that exists: every byte before the field's
       value — including the field's own comment lines and the name in its original spelling — and
       every byte after the field is unchanged; the new value starts at the colon and ends with a
       newline.  For every valid document, every paragraph, every key form, every value for which
       the call succeeds. *)
Theorem C05_set_existing_local :
  forall d j k value d' a p b l1 f l2,
    doc_ok d = true ->
    split_doc d j = Some (a, p, b) ->
    para_fields p = l1 ++ f :: l2 -> has_name (key_name k) f = true ->
    run_op d (OSet j k value) = Ok d' ->
    exists rest',
      dump d  = (dump a ++ ftext l1 ++ f_comment f ++ f_name f) ++ f_rest f ++ (ftext l2 ++ dump b) /\
      dump d' = (dump a ++ ftext l1 ++ f_comment f ++ f_name f) ++ rest'    ++ (ftext l2 ++ dump b) /\
      colon_first rest' = true /\ ends_nl rest' = true /\
      (exists p', d' = a ++ Para p' :: b
                  /\ para_fields p' = l1 ++ mkF (f_comment f) (f_name f) rest' :: l2) /\
      doc_ok d' = true.
Proof.
  intros d j k value d' a p b l1 f l2 Hok Hs Hpf Hf H.
  pose proof (run_op_ok_preserved _ _ _ Hok H) as Hok'.
  unfold doc_ok in Hok. apply andb_true_iff in Hok. destruct Hok as [Hinv _].
  destruct (set_existing_bytes d (OSet j k value) d' a p b l1 f l2 Hinv eq_refl Hs Hpf Hf H)
    as [v [H1 [H2 [H3 [H4 [H5 H6]]]]]].
  cbn [op_comment] in H6. exists (f_rest v).
  unfold own_lines in H5. apply andb_true_iff in H5. destruct H5 as [H5 _].
  apply andb_true_iff in H5. destruct H5 as [H5 H5'].
  apply andb_true_iff in H5. destruct H5 as [_ H5].
  assert (Hv : v = mkF (f_comment f) (f_name f) (f_rest v)) by (destruct v; cbn in *; congruence).
  unfold field_text in H1, H2. rewrite H4, H6 in H2.
  repeat split; try assumption.
  - rewrite H1. now rewrite <- !app_assoc.
  - rewrite H2. now rewrite <- !app_assoc.
  - now rewrite <- Hv.
Qed.

(** the same for set_field_to_simple_value / set_field_from_raw_string with any combination of
    the comment arguments: the field's text is replaced as a whole (the comment may change, as
    [op_comment] says), nothing else changes *)
Theorem C05_set_existing_local_any_setter :
  forall d o d' a p b l1 f l2,
    doc_ok d = true ->
    match o with ODel _ _ => false | _ => true end = true ->
    split_doc d (op_para o) = Some (a, p, b) ->
    para_fields p = l1 ++ f :: l2 -> has_name (key_name (op_key o)) f = true ->
    run_op d o = Ok d' ->
    exists v,
      dump d  = (dump a ++ ftext l1) ++ field_text f ++ (ftext l2 ++ dump b) /\
      dump d' = (dump a ++ ftext l1) ++ field_text v ++ (ftext l2 ++ dump b) /\
      (exists p', d' = a ++ Para p' :: b /\ para_fields p' = l1 ++ v :: l2) /\
      f_name v = f_name f /\ own_lines v = true /\ op_comment o (Some f) (f_comment v).
Proof.
  intros d o d' a p b l1 f l2 Hok. unfold doc_ok in Hok. apply andb_true_iff in Hok.
  destruct Hok as [Hinv _]. now apply set_existing_bytes.
Qed.

(** 2. set_new_appends_own_lines.  A set under a name the paragraph does not have: the new field
       is placed directly after the paragraph's last field, at the beginning of a line, on lines
       of its own (name as given, colon, value, final newline); every byte before and after is
       unchanged, except that a newline is supplied in front of it when the paragraph's text did
       not end with one — which only happens at the very end of the document. *)
Theorem C05_set_new_appends_own_lines :
  forall d o d' a p b,
    doc_ok d = true ->
    match o with ODel _ _ => false | _ => true end = true ->
    split_doc d (op_para o) = Some (a, p, b) ->
    absent (key_name (op_key o)) (para_fields p) = true ->
    run_op d o = Ok d' ->
    exists v,
      let pre := dump a ++ ftext (para_fields p) in
      let nl := nl_suffix (ftext (para_fields p)) in
      dump d  = pre ++ dump b /\
      dump d' = pre ++ nl ++ field_text v ++ dump b /\
      closed (pre ++ nl) = true /\ (nl <> [] -> b = []) /\
      f_name v = key_name (op_key o) /\ own_lines v = true /\ op_comment o None (f_comment v) /\
      (exists p', d' = a ++ Para p' :: b
                  /\ para_fields p' = map_last add_nl (para_fields p) ++ [v]) /\
      doc_ok d' = true.
Proof.
  intros d o d' a p b Hok Hset Hs Hab H.
  pose proof (run_op_ok_preserved _ _ _ Hok H) as Hok'.
  destruct (new_field_position _ _ _ _ _ Hok Hs) as [Hc Hn].
  unfold doc_ok in Hok. apply andb_true_iff in Hok. destruct Hok as [Hinv _].
  destruct (set_new_bytes d o d' a p b Hinv Hset Hs Hab H) as [v [H1 [H2 [H3 [H4 [H5 H6]]]]]].
  exists v. cbv zeta. repeat split; assumption.
Qed.

(** 3. delete_local.  [del p[k]]: the field disappears together with its own lines (comment
       lines, name, value lines) and nothing else changes. *)
Theorem C05_delete_local :
  forall d j k d' a p b l1 f l2,
    doc_ok d = true ->
    split_doc d j = Some (a, p, b) ->
    para_fields p = l1 ++ f :: l2 -> has_name (key_name k) f = true ->
    run_op d (ODel j k) = Ok d' ->
    dump d  = (dump a ++ ftext l1) ++ field_text f ++ (ftext l2 ++ dump b) /\
    dump d' = (dump a ++ ftext l1) ++ (ftext l2 ++ dump b) /\
    (exists p', d' = a ++ Para p' :: b /\ para_fields p' = l1 ++ l2) /\
    doc_ok d' = true.
Proof.
  intros d j k d' a p b l1 f l2 Hok Hs Hpf Hf H.
  pose proof (run_op_ok_preserved _ _ _ Hok H) as Hok'.
  unfold doc_ok in Hok. apply andb_true_iff in Hok. destruct Hok as [Hinv _].
  destruct (delete_bytes d j k d' a p b l1 f l2 Hinv Hs Hpf Hf H) as [H1 [H2 H3]].
  now repeat split.
Qed.

(** a delete (or an indexed key) that names no field is rejected; see theorem 5 *)

(** 4. set_rejects_leave_unchanged.  An operation that raises leaves the document as it was
       (all four operations, all error kinds). *)
Theorem C05_set_rejects_leave_unchanged :
  forall d o e d', step d o = (Some e, d') -> d' = d /\ run_op d o = Err e.
Proof. exact rejects_leave_unchanged. Qed.

(** 5. edit_sequence.  For every history of operations on a valid document (any mixture of
       set / delete / set_field_*, any paragraphs, accepted or rejected), at every point:
       the document is valid; the next operation is either rejected and changes nothing, or it
       edits only the fields of the paragraph it addresses in the way [para_edit] says
       (replace one field in place / append one field / remove one field), all items before and
       after that paragraph being identical; and over the whole history the free text between
       paragraphs and the number and order of paragraphs never change. *)
Theorem C05_edit_sequence :
  forall d ops1 o ops2,
    doc_ok d = true ->
    let d1 := run d ops1 in
    let d2 := run d (ops1 ++ [o]) in
    doc_ok d1 = true
    /\ ((exists e, run_op d1 o = Err e /\ d2 = d1) \/ (run_op d1 o = Ok d2 /\ local_step o d1 d2))
    /\ doc_ok (run d (ops1 ++ o :: ops2)) = true
    /\ skeleton (run d (ops1 ++ o :: ops2)) = skeleton d.
Proof. exact edit_sequence. Qed.

Theorem C05_histories_keep_validity :
  forall ops d, doc_ok d = true -> doc_ok (run d ops) = true.
Proof. exact run_ok. Qed.

(** what [local_step] / [para_edit] mean at byte level is theorems 1-3; this is the general form
    for one successful operation *)
Theorem C05_successful_operation_is_local :
  forall d o d',
    doc_ok d = true -> run_op d o = Ok d' ->
    doc_ok d' = true /\
    exists a p b p',
      split_doc d (op_para o) = Some (a, p, b) /\ d' = a ++ Para p' :: b /\ para_edit o p p' /\
      dump d  = dump a ++ ftext (para_fields p)  ++ dump b /\
      dump d' = dump a ++ ftext (para_fields p') ++ dump b.
Proof.
  intros d o d' Hok H. split; [now apply (run_op_ok_preserved d o)|].
  unfold doc_ok in Hok. apply andb_true_iff in Hok. destruct Hok as [Hinv _].
  destruct (run_op_local _ _ _ Hinv H) as [_ [a [p [b [p' [Hs [-> [_ He]]]]]]]].
  exists a, p, b, p'. split; [exact Hs|]. split; [reflexivity|]. split; [exact He|].
  split; [|apply dump_split].
  rewrite (split_doc_eq _ _ _ _ _ Hs) at 1. apply dump_split.
Qed.

(** 6. set_readback_partial.  After a successful [p[k] = value], on the edited object:
       * for every value deb822 can carry ([valid_value], the Spec's notion: one line, or a first
         line followed by continuation lines with comment lines only between them, no line
         boundary other than LF) the field reads back as the Spec's [expected_read value] under
         every case spelling of the name, with or without index 0, and its stored text is exactly
         ": " + first line stripped + the remaining lines as given (a final newline supplied);
       * every other field reads as it did before;
       * the names of the paragraph and their order are as before, the original spelling of an
         existing name is kept, a new name is appended spelled as given.
       This is the statement about the LIVE object, on the larger domain [doc_ok] (no demand on the
       texts of the fields or on the free text between paragraphs).  The FULL STATEMENT — the same
       for a fresh parse of [dump d'] — is theorem [C05_set_readback] in section 10 (hypotheses
       [doc_wf] and [doc_canon]: documents as the parser produces them). *)
Theorem C05_set_readback_partial :
  forall d j k value d',
    doc_ok d = true ->
    run_op d (OSet j k value) = Ok d' ->
    exists a p b p' v orig,
      split_doc d j = Some (a, p, b) /\ d' = a ++ Para p' :: b /\
      new_for p k p' v orig /\
      (forall k', name_eqb (key_name k') (key_name k) = true -> plain_key k' = true ->
                  getitem p' k' = Ok (value_str v)) /\
      (valid_value value = true ->
         f_rest v = COLON :: setitem_raw value /\ value_str v = expected_read value) /\
      (forall k', plain_key k' = true -> name_eqb (key_name k') (key_name k) = false ->
                  getitem p' k' = getitem p k') /\
      map f_name (para_fields p') =
        match orig with
        | Some _ => map f_name (para_fields p)
        | None => map f_name (para_fields p) ++ [key_name k]
        end.
Proof.
  intros d j k value d' Hok H.
  unfold doc_ok in Hok. apply andb_true_iff in Hok. destruct Hok as [Hinv _].
  destruct (run_op_local _ _ _ Hinv H) as [Hinv' [a [p [b [p' [Hs [-> [Hp He]]]]]]]].
  destruct (run_op_ok _ _ _ H) as [a0 [p0 [b0 [p0' [Hs0 [Hop E]]]]]].
  rewrite Hs in Hs0. injection Hs0 as <- <- <-. apply app_inv_head in E. injection E as <-.
  cbn [op_on_para] in Hop.
  destruct (setitem_readback _ _ _ _ Hp Hop) as [Hp' [v [orig [Hown [Hnew [Hc Hval]]]]]].
  exists a, p, b, p', v, orig. cbn [op_para] in Hs. repeat split; try assumption.
  - intros k' Hk Hplain. now apply (getitem_new p k p' v orig).
  - now apply Hval.
  - now apply Hval.
  - intros k' Hplain Hk. now apply (others_unchanged (OSet j k value) p p' k').
  - now apply (names_after_set p k p' v orig).
Qed.

(** the same for any setter, without the value: the stored field is read under every spelling
    (live object; through a fresh parse: [C05_setter_readback]) *)
Theorem C05_setter_readback_partial :
  forall d o d' k',
    doc_ok d = true ->
    match o with ODel _ _ => false | _ => true end = true ->
    run_op d o = Ok d' ->
    plain_key k' = true ->
    exists a p b p' v orig,
      split_doc d (op_para o) = Some (a, p, b) /\ d' = a ++ Para p' :: b /\
      new_for p (op_key o) p' v orig /\
      (name_eqb (key_name k') (key_name (op_key o)) = true -> getitem p' k' = Ok (value_str v)) /\
      (name_eqb (key_name k') (key_name (op_key o)) = false -> getitem p' k' = getitem p k').
Proof.
  intros d o d' k' Hok Hset H Hplain.
  unfold doc_ok in Hok. apply andb_true_iff in Hok. destruct Hok as [Hinv _].
  destruct (run_op_local _ _ _ Hinv H) as [Hinv' [a [p [b [p' [Hs [-> [Hp He]]]]]]]].
  assert (He' : exists v orig, own_lines v = true /\ new_for p (op_key o) p' v orig).
  { destruct o; [|discriminate| |]; destruct He as [w [orig [H1 [H2 _]]]]; now exists w, orig. }
  destruct He' as [v [orig [_ Hnew]]].
  rewrite doc_inv_split in Hinv'. apply andb_true_iff in Hinv'. destruct Hinv' as [_ Hinv'].
  apply andb_true_iff in Hinv'. destruct Hinv' as [Hp' _].
  exists a, p, b, p', v, orig. repeat split; try assumption.
  - intros Hk. now apply (getitem_new p (op_key o) p' v orig).
  - intros Hk. now apply (others_unchanged o p p' k').
Qed.

(** after [del p[k]] the name is gone under every spelling; the other fields read as before
    (live object; through a fresh parse: [C05_delete_readback]) *)
Theorem C05_delete_readback_partial :
  forall d j k d' k',
    doc_ok d = true -> run_op d (ODel j k) = Ok d' -> plain_key k' = true ->
    exists a p b p',
      split_doc d j = Some (a, p, b) /\ d' = a ++ Para p' :: b /\
      (name_eqb (key_name k') (key_name k) = true -> getitem p' k' = Err KeyError) /\
      (name_eqb (key_name k') (key_name k) = false -> getitem p' k' = getitem p k').
Proof.
  intros d j k d' k' Hok H Hplain.
  unfold doc_ok in Hok. apply andb_true_iff in Hok. destruct Hok as [Hinv _].
  destruct (run_op_local _ _ _ Hinv H) as [Hinv' [a [p [b [p' [Hs [-> [Hp He]]]]]]]].
  rewrite doc_inv_split in Hinv'. apply andb_true_iff in Hinv'. destruct Hinv' as [_ Hinv'].
  apply andb_true_iff in Hinv'. destruct Hinv' as [Hp' _].
  exists a, p, b, p'. cbn [op_para] in Hs. repeat split; try assumption.
  - intros Hk. cbn [para_edit] in He. destruct He as [l1 [f [l2 [Hpf [Hf [_ Hpf']]]]]].
    now apply (getitem_deleted p p' (key_name k) l1 f l2 k').
  - intros Hk. now apply (others_unchanged (ODel j k) p p' k').
Qed.

(** 7. The duplicate-fields class (Deb822DuplicateFieldsParagraphElement: a linked list of nodes
       plus an index name -> nodes).  From its constructor on, over every set and remove with any
       key form, repeated names or not, the index stays consistent with the node list ([d_wf]);
       so a paragraph of this class whose duplicates have been deleted satisfies [para_inv] and
       theorems 1-6 apply to it. *)
Theorem C05_dup_class_index_consistent :
  (forall fs, d_wf (init_dup fs) = true)
  /\ (forall d k v d', d_wf d = true -> d_set_kvpair d k v = Ok d' -> d_wf d' = true)
  /\ (forall d k d', d_wf d = true -> d_remove d k = Ok d' -> d_wf d' = true).
Proof.
  split; [exact init_dup_wf|]. split.
  - intros d k v d' H H1. apply d_wf_DWf. apply d_wf_DWf in H. exact (d_set_kvpair_wf _ _ _ _ H H1).
  - intros d k d' H H1. apply d_wf_DWf. apply d_wf_DWf in H. exact (d_remove_wf _ _ _ H H1).
Qed.

(** 8. Re-reading (partial form of the fresh-parse half of the property).  [scan_para] is the
       model of what tokenizer + parser make of the text of ONE paragraph (Repro/Doc.v; the
       correspondence check compares it with the implementation's parse of every paragraph of every
       document, and with the implementation's fresh parse of every dump after every edit).
       [doc_wf] = [doc_ok] plus: every field consists of complete '#' comment lines, a name of
       field-name characters, and after the colon the rest of its line followed by continuation
       lines with comment lines only between them.
       For every well-formed document and every history: the document stays well-formed, and
       the text of every paragraph — in particular the edited one, as it stands in the dump —
       re-reads to exactly that paragraph's fields: same comments, names as spelled, value
       texts, order.  With theorem 6 this gives, for the edited paragraph as re-read from the
       dump: the new value under the original spelling, all other fields unchanged.
       This is the paragraph level, with [scan_para].  The FULL STATEMENT — a parse of the whole
       dump by the parser model of C01 (splitting into paragraphs at blank lines and free comments,
       dropping emptied paragraphs) — is [C05_reread] in section 10. *)
Theorem C05_reread_partial :
  forall d ops,
    doc_wf d = true ->
    doc_wf (run d ops) = true
    /\ forall j a p b, split_doc (run d ops) j = Some (a, p, b) ->
                       scan_para (para_text p) = Ok (para_fields p).
Proof.
  intros d ops H. pose proof (run_wf ops d H) as H'. split; [exact H'|].
  intros j a p b Hs. exact (paragraphs_reread _ _ _ _ _ H' Hs).
Qed.

Theorem C05_set_reread_partial :
  forall d j k value d',
    doc_wf d = true ->
    run_op d (OSet j k value) = Ok d' ->
    exists a p b p' v orig,
      split_doc d j = Some (a, p, b) /\ d' = a ++ Para p' :: b /\
      dump d' = dump a ++ para_text p' ++ dump b /\
      scan_para (para_text p') = Ok (para_fields p') /\
      new_for p k p' v orig /\
      (valid_value value = true -> value_str v = expected_read value) /\
      doc_wf d' = true.
Proof.
  intros d j k value d' Hwf H.
  pose proof (run_op_wf _ _ _ Hwf H) as Hwf'.
  assert (Hok : doc_ok d = true) by (unfold doc_wf in Hwf; apply andb_true_iff in Hwf; now destruct Hwf).
  destruct (C05_set_readback_partial d j k value d' Hok H)
    as [a [p [b [p' [v [orig [Hs [-> [Hnew [_ [Hval _]]]]]]]]]]].
  exists a, p, b, p', v, orig. repeat split; try assumption.
  - now rewrite dump_app, dump_cons.
  - exact (paragraphs_reread _ _ _ _ _ Hwf' (split_doc_app a p' b)).
  - intros Hv. now apply Hval.
Qed.

(** 9. parse_dump_abs: the printer/parser theorem at document level.

       [py_reparse text] = split [text] after every LF, run the parser model of C01 ([Token.tokenize],
       the six grouping stages of [Parse.stages]) in accepting mode with the interpreter's character
       tables, and abstract the element tree with [abs_of_tree] (paragraph elements -> [Para] with
       comment / name / rest texts per key-value pair, whitespace tokens -> [Other OWs], comment
       elements -> [Other OComment], anything else -> [Other OError]);  [py_reparse_strict] = the same
       through the call the drivers make (error tokens rejected).
       [doc_wf d]     (DocInv.v) no repeated names, colons, only the very end of the document may lack
                      its newline, and every field is: complete '#' lines, a name of field-name
                      characters, the rest of the field line from the colon on, then continuation
                      lines (space/tab first, not blank) with '#' lines only between them.
       [doc_canon d]  (Abs.v; the ADDED boolean hypothesis, evaluated by the correspondence check on
                      every document the implementation parsed): the ITEM structure is one a parse
                      produces — no error items; no paragraph without fields; a whitespace item is a
                      non-empty run of whitespace-only lines, all terminated, or the single
                      unterminated whitespace-only line at the very end; a comment item is a non-empty
                      run of '#' lines and is followed by a whitespace item or the end (directly in
                      front of a field it would be that field's comment); two whitespace items are
                      adjacent only as "terminated run, unterminated last line"; two paragraphs are
                      not adjacent.  Without it the statement is false ([Other OWs] with arbitrary
                      text, two adjacent paragraphs, ... dump to texts that parse differently).
       Conclusion: the fresh parse is [d] itself, up to the one thing the parser cannot see: the
       class of the paragraph OBJECT — every paragraph comes back in the no-duplicates class with
       exactly its fields ([plain_doc]; [para_fields] of both classes is the field list in document
       order).  Nothing is rejected in either mode.  Covers documents with and without final
       newline, comments before fields, inside values and between paragraphs. *)
Theorem C05_parse_dump_abs :
  forall d, doc_wf d = true -> doc_canon d = true ->
    py_reparse (dump d) = Ok (plain_doc d) /\ py_reparse_strict (dump d) = Ok (plain_doc d).
Proof. exact py_parse_dump_abs_wf. Qed.

(** the same for the parser model itself, any pair of field-name classes that agree with the
    ones the document model uses, any combination of the two acceptance flags *)
Theorem C05_parse_dump_abs_model :
  forall name_first name_rest,
    (forall c, name_first c = Doc.name_first c) -> (forall c, name_rest c = Doc.name_char c) ->
  forall d, doc_wf d = true -> doc_canon d = true ->
  forall accept_errors accept_dups,
    exists t, Parse.parse py_isspace name_first name_rest accept_errors accept_dups
                (lines_of (dump d)) = Ok t
              /\ abs_of_tree t = Ok (plain_doc d).
Proof. exact parse_dump_abs_wf. Qed.

(** ... and without the demand that names are not repeated (accepting mode): every paragraph
    comes back in the class [from_kvpairs] chooses for its fields *)
Theorem C05_parse_dump_abs_any_names :
  forall d, forallb para_wf (paras d) = true -> lines_ok d = true -> doc_canon d = true ->
    py_reparse (dump d) = Ok (norm_doc d).
Proof. exact py_parse_dump_abs. Qed.

(** 10. Read-back through a FRESH PARSE (the full statements of 6 and 8).

    set_readback.  After a successful [p[k] = value] on a well-formed parser-shaped document, the
    fresh parse of the new dump is: every item before and after the paragraph as it was, and the
    paragraph with exactly the fields of the edited object ([new_for]: the old field replaced in
    place, its name in the ORIGINAL spelling — or, for a new name, the field appended, spelled as
    given); reading the re-parsed paragraph gives the new value under every case spelling of the
    name, with or without index 0 — for every value deb822 can carry ([valid_value]) that is the
    Spec's [expected_read value] — and what the paragraph held before under every other name;
    names and order are unchanged. *)
Theorem C05_set_readback :
  forall d j k value d',
    doc_wf d = true -> doc_canon d = true ->
    run_op d (OSet j k value) = Ok d' ->
    exists a p b p' v orig,
      split_doc d j = Some (a, p, b) /\ d' = a ++ Para p' :: b /\
      py_reparse (dump d') = Ok (plain_doc a ++ Para (PN (para_fields p')) :: plain_doc b) /\
      new_for p k p' v orig /\
      (forall k', name_eqb (key_name k') (key_name k) = true -> plain_key k' = true ->
                  getitem (PN (para_fields p')) k' = Ok (value_str v)) /\
      (valid_value value = true ->
         f_rest v = COLON :: setitem_raw value /\ value_str v = expected_read value) /\
      (forall k', plain_key k' = true -> name_eqb (key_name k') (key_name k) = false ->
                  getitem (PN (para_fields p')) k' = getitem p k') /\
      map f_name (para_fields p') =
        match orig with
        | Some _ => map f_name (para_fields p)
        | None => map f_name (para_fields p) ++ [key_name k]
        end.
Proof. exact set_readback_full. Qed.

(** any setter (set_field_to_simple_value / set_field_from_raw_string with any comment arguments) *)
Theorem C05_setter_readback :
  forall d o d' k',
    doc_wf d = true -> doc_canon d = true ->
    match o with ODel _ _ => false | _ => true end = true ->
    run_op d o = Ok d' -> plain_key k' = true ->
    exists a p b p' v orig,
      split_doc d (op_para o) = Some (a, p, b) /\ d' = a ++ Para p' :: b /\
      py_reparse (dump d') = Ok (plain_doc a ++ Para (PN (para_fields p')) :: plain_doc b) /\
      new_for p (op_key o) p' v orig /\
      (name_eqb (key_name k') (key_name (op_key o)) = true ->
         getitem (PN (para_fields p')) k' = Ok (value_str v)) /\
      (name_eqb (key_name k') (key_name (op_key o)) = false ->
         getitem (PN (para_fields p')) k' = getitem p k').
Proof. exact setter_readback_full. Qed.

(** [del p[k]]: the fresh parse shows the paragraph without that field — the name is gone under
    every spelling, every other field reads as before, all other items are as they were; when it
    was the paragraph's last field the paragraph is gone: the dump and its fresh parse are those
    of the items before and after it ([squash]: the blank lines on both sides are one run). *)
Theorem C05_delete_readback :
  forall d j k d',
    doc_wf d = true -> doc_canon d = true -> run_op d (ODel j k) = Ok d' ->
    exists a p b p',
      split_doc d j = Some (a, p, b) /\ d' = a ++ Para p' :: b /\
      py_reparse (dump d') = Ok (plain_doc (squash d')) /\
      (para_fields p' <> [] ->
         squash d' = d' /\
         py_reparse (dump d') = Ok (plain_doc a ++ Para (PN (para_fields p')) :: plain_doc b)) /\
      (para_fields p' = [] -> squash d' = squash (a ++ b) /\ dump d' = dump (a ++ b)) /\
      (forall k', plain_key k' = true -> name_eqb (key_name k') (key_name k) = true ->
                  getitem (PN (para_fields p')) k' = Err KeyError) /\
      (forall k', plain_key k' = true -> name_eqb (key_name k') (key_name k) = false ->
                  getitem (PN (para_fields p')) k' = getitem p k').
Proof. exact delete_readback_full. Qed.

(** reread.  For EVERY history of operations (accepted or rejected, sets and deletes, paragraphs
    emptied or not) from a well-formed parser-shaped document: the fresh parse of the dump — in
    both modes — is the document with emptied paragraphs dropped and blank-line runs that became
    adjacent merged ([squash]); its paragraphs are exactly the non-empty paragraphs of the edited
    object, in order, each with exactly its fields (comment, name as spelled, value text); where no
    paragraph was emptied nothing is squashed. *)
Theorem C05_reread :
  forall d ops,
    doc_wf d = true -> doc_canon d = true ->
    doc_wf (run d ops) = true
    /\ py_reparse (dump (run d ops)) = Ok (plain_doc (squash (run d ops)))
    /\ py_reparse_strict (dump (run d ops)) = Ok (plain_doc (squash (run d ops)))
    /\ paras (plain_doc (squash (run d ops)))
       = map (fun p => PN (para_fields p)) (filter nonempty_para (paras (run d ops)))
    /\ (doc_canon (run d ops) = true -> squash (run d ops) = run d ops).
Proof. exact reread_history. Qed.

(** the fresh parse of any well-formed document whose item structure is parser-shaped except that
    paragraphs may be empty ([doc_shape]: what field edits can reach) *)
Theorem C05_reparse_squash :
  forall d, doc_wf d = true -> doc_shape d = true ->
    py_reparse (dump d) = Ok (plain_doc (squash d))
    /\ py_reparse_strict (dump d) = Ok (plain_doc (squash d)).
Proof. exact reparse_squash. Qed.

(** Non-vacuity: a document with a head comment, two paragraphs (a field with its own comment, a
    multi-line value with an inner comment line, tab continuation) and no final newline is valid;
    a history that replaces a field under another spelling, adds a field to the unterminated last
    paragraph, deletes a field, and contains two rejected calls produces the dumps below. *)
Local Open Scope string_scope.
Example C05_nonvacuous :
  let s (x : String.string) := Lib.Dec.dec x in
  let nl := [LF] in
  let d : doc :=
    [ Other OComment (s "# head" ++ nl); Other OWs nl;
      Para (PN [ mkF [] (s "Package") (s ": foo" ++ nl);
                 mkF (s "# why" ++ nl) (s "Depends") (s ": a," ++ nl ++ s "# inner" ++ nl ++ [TAB] ++ s "b" ++ nl) ]);
      Other OWs nl;
      Para (PN [ mkF [] (s "Package") (s ": bar") ]) ]%list in
  let ops :=
    [ OSet 0 (KStr (s "DEPENDS")) (s "x");
      OSet 1 (KStr (s "New")) (s "m" ++ nl ++ s " l2")%list;
      OSet 1 (KStr (s "a b")) (s "v");
      ODel 0 (KStr (s "package"));
      ODel 0 (KIdx (s "Depends") 1) ] in
  doc_ok d = true /\ doc_wf d = true
  /\ split_doc d 1 = Some (firstn 4 d, PN [ mkF [] (s "Package") (s ": bar") ], [])
  /\ map (fun o => fst (step d o)) ops = [None; None; Some ValueError; None; Some KeyError]
  /\ dump (run d ops) =
     (s "# head" ++ nl ++ nl ++ s "# why" ++ nl ++ s "Depends: x" ++ nl ++ nl
      ++ s "Package: bar" ++ nl ++ s "New: m" ++ nl ++ s " l2" ++ nl)%list
  /\ doc_ok (run d ops) = true /\ doc_wf (run d ops) = true
  (* a paragraph of the duplicate-fields class, once its duplicate is deleted, is valid too *)
  /\ (let dd := [ Para (PD (init_dup [ mkF [] (s "A") (s ": 1" ++ nl); mkF [] (s "B") (s ": 2" ++ nl);
                                       mkF [] (s "a") (s ": 3") ])) ]%list in
      doc_ok dd = false
      /\ doc_ok (run dd [ODel 0 (KIdx (s "A") 1)]) = true
      /\ dump (run dd [ODel 0 (KIdx (s "A") 1); OSet 0 (KStr (s "C")) (s "x"); OSet 0 (KStr (s "b")) (s "y")])
         = (s "A: 1" ++ nl ++ s "B: y" ++ nl ++ s "C: x" ++ nl)%list).
Proof. vm_compute. repeat split. Qed.

(** Non-vacuity of sections 9-10: the same document is parser-shaped; its dump parses back to it;
    so does the dump after the history above; deleting both fields of the first paragraph leaves a
    document whose fresh parse has one paragraph and the two blank lines as one run. *)
Example C05_parse_dump_abs_nonvacuous :
  let s (x : String.string) := Lib.Dec.dec x in
  let nl := [LF] in
  let d : doc :=
    [ Other OComment (s "# head" ++ nl); Other OWs nl;
      Para (PN [ mkF [] (s "Package") (s ": foo" ++ nl);
                 mkF (s "# why" ++ nl) (s "Depends") (s ": a," ++ nl ++ s "# inner" ++ nl ++ [TAB] ++ s "b" ++ nl) ]);
      Other OWs nl;
      Para (PN [ mkF [] (s "Package") (s ": bar") ]) ]%list in
  let ops :=
    [ OSet 0 (KStr (s "DEPENDS")) (s "x");
      OSet 1 (KStr (s "New")) (s "m" ++ nl ++ s " l2")%list;
      ODel 0 (KStr (s "package")) ] in
  let dels := [ ODel 0 (KStr (s "package")); ODel 0 (KStr (s "depends")) ] in
  doc_wf d = true /\ doc_canon d = true
  /\ py_reparse (dump d) = Ok (plain_doc d)
  /\ doc_canon (run d ops) = true
  /\ py_reparse (dump (run d ops)) = Ok (plain_doc (run d ops))
  /\ doc_canon (run d dels) = false /\ doc_shape (run d dels) = true
  /\ py_reparse (dump (run d dels))
     = Ok [ Other OComment (s "# head" ++ nl); Other OWs (nl ++ nl);
            Para (PN [ mkF [] (s "Package") (s ": bar") ]) ]%list.
Proof. vm_compute. repeat split. Qed.

(** 11. The bridge between the correspondence and the property: on every case of the check
        (Repro/DocCheck.v) on which the implementation behaved like the model ([agree]: exception
        kind, dump, live read-out and fresh parse after every operation), the property as [holds]
        judges it on the observations - every edit local (the new dump is the old one with one field
        text replaced / appended / removed, found as the hole between the unchanged prefix and
        suffix), on lines of its own, under the original spelling, reading back through a fresh
        parse as the Spec's [expected_read] - is true.  Proved from theorems 1-8 (paragraph level:
        [setitem_readback], [set_simple_spec], [set_raw_spec], [p_remove_spec], [run_op_wf],
        [new_field_position], [getitem_new]) plus, new in Repro/DocCheckProofs.v, the reading of
        the duplicate-fields class ([read_para_rows]), the value read back after
        set_field_to_simple_value / set_field_from_raw_string ([setter_para]) and the progress
        of valid edits ([set_progress]).

        Side condition [judged] (Repro/DocCheckProofs.v), checked on every step up to the first one
        outside the property's quantifier (where [holds] stops judging too):
        (J1) no paragraph of the current document repeats a field name ([agree] evaluates the
             hypotheses [doc_wf] of theorems 1-10 only on such states, [hyp_state]); excluded: an
             edit of a duplicate-free paragraph while ANOTHER paragraph still has duplicates;
        (J2) the step recorded a fresh parse ([s_reparse] is [Some]): [agree] accepts [None];
        (J3) the lookups under alternative spellings, an observation [agree] never consults, show
             what the model reads: all [Ok (model value)] after a set, all errors (or the
             paragraph gone) after a delete.
        That the model's verdict (accept / reject) on every in-domain call is one the Spec allows
        - index resolution of both paragraph classes, and PROGRESS: a certainly meaningful edit
        (valid value, usable arguments, existing or safe name, un-indexed key or index 0) is never
        rejected - is proved, not assumed ([accept_head], [del_rejected_ok], [set_rejected_ok]).
        All three conditions are computable from the case; on the quick run they hold on 603 of 604
        cases (the exception: corpus case multi-para-dup, by J1). *)
From Verif Require Repro.DocCheckProofs.
From Verif Require Import Repro.DocCheck.
Theorem C05_agree_implies_holds :
  forall c, DocCheckProofs.judged c = true -> DocCheck.agree c = true -> DocCheck.holds c = true.
Proof. exact DocCheckProofs.agree_implies_holds. Qed.

(** Non-vacuity: a real case (observations copied from a run of the implementation: set under
    another spelling with a multi-line value, append to the unterminated last paragraph,
    set_field_to_simple_value with a field comment and index 0, a rejected delete, a delete that
    empties a paragraph) meets all hypotheses; and the side condition cannot be dropped: the same
    case with the lookups of the first step missing has [agree] true and [holds] false. *)
Example C05_agree_implies_holds_nonvacuous :
  let good := (
(let s0 := "# h
" in
let s1 := "A: 1
" in
let s2 := "# c
" in
let s3 := "P: q" in
let s4 := "n
 l2" in
let s5 := "B: n
" in
let s6 := " l2
" in
let s7 := "P: q
" in
let s8 := "C: new
" in
let s9 := "new" in
let s10 := "# why
" in
let s11 := "A: s
" in
let r0 : list (string * result string) := [("A", (Ok "1")); ("B", (Ok s4))] in
let r1 : list (string * result string) := [("P", (Ok "q"))] in
let r2 : list (string * result string) := [("P", (Ok "q")); ("C", (Ok s9))] in
let r3 : list (string * result string) := [("A", (Ok "s")); ("B", (Ok s4))] in
let r4 : list (string * result string) := [("C", (Ok s9))] in
Run [s0; "
"; s1; s2; "B: 2
"; " x
"; "
"; s3] [IO OComment s0; IO OWs "
"; IP false [("", "A", ": 1
"); (s2, "B", ": 2
 x
")]; IO OWs "
"; IP false [("", "P", ": q")]] [[("A", (Ok "1")); ("B", (Ok "2
 x"))]; r1] [LSet 0 (KS "b") s4; LSet 1 (KS "C") " new "; LSimple 0 (KI "A" (0)%Z) "s" None (Some ["why"]); LDel 0 (KI "B" (1)%Z); LDel 1 (KS "p")] [mkS None [s0; "
"; s1; s2; s5; s6; "
"; s3] [r0; r1] (Some [r0; r1]) [[(Ok s4); (Ok s4)]; [(Err KeyError); (Err KeyError)]]; mkS None [s0; "
"; s1; s2; s5; s6; "
"; s7; s8] [r0; r2] (Some [r0; r2]) [[(Err KeyError); (Err KeyError)]; [(Ok s9); (Ok s9)]]; mkS None [s0; "
"; s10; s11; s2; s5; s6; "
"; s7; s8] [r3; r2] (Some [r3; r2]) [[(Ok "s"); (Ok "s")]; [(Err KeyError); (Err KeyError)]]; mkS (Some KeyError) [s0; "
"; s10; s11; s2; s5; s6; "
"; s7; s8] [r3; r2] (Some [r3; r2]) [[(Err KeyError); (Err KeyError)]; [(Err KeyError); (Err KeyError)]]; mkS None [s0; "
"; s10; s11; s2; s5; s6; "
"; s8] [r3; r4] (Some [r3; r4]) [[(Err KeyError); (Err KeyError)]; [(Err KeyError); (Err KeyError)]]])) in
  let wrong := (
(let s0 := "# h
" in
let s1 := "A: 1
" in
let s2 := "# c
" in
let s3 := "P: q" in
let s4 := "n
 l2" in
let s5 := "B: n
" in
let s6 := " l2
" in
let s7 := "P: q
" in
let s8 := "C: new
" in
let s9 := "new" in
let s10 := "# why
" in
let s11 := "A: s
" in
let r0 : list (string * result string) := [("A", (Ok "1")); ("B", (Ok s4))] in
let r1 : list (string * result string) := [("P", (Ok "q"))] in
let r2 : list (string * result string) := [("P", (Ok "q")); ("C", (Ok s9))] in
let r3 : list (string * result string) := [("A", (Ok "s")); ("B", (Ok s4))] in
let r4 : list (string * result string) := [("C", (Ok s9))] in
Run [s0; "
"; s1; s2; "B: 2
"; " x
"; "
"; s3] [IO OComment s0; IO OWs "
"; IP false [("", "A", ": 1
"); (s2, "B", ": 2
 x
")]; IO OWs "
"; IP false [("", "P", ": q")]] [[("A", (Ok "1")); ("B", (Ok "2
 x"))]; r1] [LSet 0 (KS "b") s4; LSet 1 (KS "C") " new "; LSimple 0 (KI "A" (0)%Z) "s" None (Some ["why"]); LDel 0 (KI "B" (1)%Z); LDel 1 (KS "p")] [mkS None [s0; "
"; s1; s2; s5; s6; "
"; s3] [r0; r1] (Some [r0; r1]) []; mkS None [s0; "
"; s1; s2; s5; s6; "
"; s7; s8] [r0; r2] (Some [r0; r2]) [[(Err KeyError); (Err KeyError)]; [(Ok s9); (Ok s9)]]; mkS None [s0; "
"; s10; s11; s2; s5; s6; "
"; s7; s8] [r3; r2] (Some [r3; r2]) [[(Ok "s"); (Ok "s")]; [(Err KeyError); (Err KeyError)]]; mkS (Some KeyError) [s0; "
"; s10; s11; s2; s5; s6; "
"; s7; s8] [r3; r2] (Some [r3; r2]) [[(Err KeyError); (Err KeyError)]; [(Err KeyError); (Err KeyError)]]; mkS None [s0; "
"; s10; s11; s2; s5; s6; "
"; s8] [r3; r4] (Some [r3; r4]) [[(Err KeyError); (Err KeyError)]; [(Err KeyError); (Err KeyError)]]])) in
  (DocCheckProofs.judged good = true /\ DocCheck.agree good = true /\ DocCheck.holds good = true)
  /\ (DocCheckProofs.judged wrong = false /\ DocCheck.agree wrong = true /\ DocCheck.holds wrong = false).
Proof. vm_compute. repeat split. Qed.

Print Assumptions C05_set_existing_local.
Print Assumptions C05_set_existing_local_any_setter.
Print Assumptions C05_set_new_appends_own_lines.
Print Assumptions C05_delete_local.
Print Assumptions C05_set_rejects_leave_unchanged.
Print Assumptions C05_edit_sequence.
Print Assumptions C05_histories_keep_validity.
Print Assumptions C05_successful_operation_is_local.
Print Assumptions C05_set_readback_partial.
Print Assumptions C05_setter_readback_partial.
Print Assumptions C05_delete_readback_partial.
Print Assumptions C05_dup_class_index_consistent.
Print Assumptions C05_reread_partial.
Print Assumptions C05_set_reread_partial.
Print Assumptions C05_parse_dump_abs.
Print Assumptions C05_parse_dump_abs_model.
Print Assumptions C05_parse_dump_abs_any_names.
Print Assumptions C05_set_readback.
Print Assumptions C05_setter_readback.
Print Assumptions C05_delete_readback.
Print Assumptions C05_reread.
Print Assumptions C05_reparse_squash.
Print Assumptions C05_agree_implies_holds.
