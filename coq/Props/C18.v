(** C18 — ed-style patch scripts are applied exactly.
    Only statements; every proof is [exact <lemma>]. *)
From Coq Require Import String.
From Verif Require Import Lib.Base Lib.Dec Lib.PySlice Gen.PyChars
  Pdiff.Ed Pdiff.EdSpec Pdiff.EdProofs Pdiff.EdInst Pdiff.EdGrammar
  Pdiff.EdCheck Pdiff.EdCheckProofs.

(** The model, for bytes ([true]) or str ([false]) scripts. *)
Definition apply_script_of (bytes : bool) :=
  if bytes then apply_script is_ascii_digit ascii_digit_val
  else apply_script re_d nd_val.

(** 1. A script in ed's concrete syntax whose addresses are valid for the
       evolving buffer is applied with ed's semantics. *)
Theorem C18_script_matches_ed :
  forall bytes wide cs buf b,
    forallb cmd_text_ok cs = true ->
    ed_run buf cs = Some b ->
    apply_script_of bytes buf (render wide cs) = Ok b.
Proof.
  intros [|]; [exact (script_matches_ed _ _ digit_class_ok_bytes)
              |exact (script_matches_ed _ _ digit_class_ok_str)].
Qed.

(** 2. For every alignment between two files (every way of pairing kept lines,
       hence every (old, new) and every diff algorithm), the descending script of
       the alignment turns old into new — in ed, and through the model. *)
Theorem C18_alignment_script_exact_ed :
  forall al, forallb seg_ok al = true ->
    ed_run (old_of al) (script_of al) = Some (new_of al).
Proof. exact alignment_script_exact. Qed.

Theorem C18_diff_script_exact :
  forall bytes wide al, forallb seg_ok al = true ->
    apply_script_of bytes (old_of al) (render wide (script_of al)) = Ok (new_of al).
Proof.
  intros bytes wide al Hok.
  apply C18_script_matches_ed.
  - apply script_of_from_text_ok; [assumption|reflexivity].
  - now apply alignment_script_exact.
Qed.

(** 3. Malformed scripts raise ValueError (after any well-formed prefix). *)
Theorem C18_bad_command_rejected_bytes :
  forall wide cs bad rest buf,
    forallb cmd_text_ok cs = true -> forallb cmd_addr_ordered cs = true ->
    match_cmd is_ascii_digit ascii_digit_val bad = None ->
    apply_script_of true buf (render wide cs ++ bad :: rest) = Err ValueError.
Proof. exact (bad_command_rejected _ _ digit_class_ok_bytes). Qed.

Theorem C18_bad_command_rejected_str :
  forall wide cs bad rest buf,
    forallb cmd_text_ok cs = true -> forallb cmd_addr_ordered cs = true ->
    match_cmd re_d nd_val bad = None ->
    apply_script_of false buf (render wide cs ++ bad :: rest) = Err ValueError.
Proof. exact (bad_command_rejected _ _ digit_class_ok_str). Qed.

Theorem C18_append_with_range_rejected :
  forall bytes wide cs n m rest buf,
    forallb cmd_text_ok cs = true -> forallb cmd_addr_ordered cs = true ->
    apply_script_of bytes buf
      (render wide cs ++ (print_dec n ++ [44%N] ++ print_dec m ++ [97; LF]%N) :: rest)
    = Err ValueError.
Proof.
  intros [|]; [exact (append_with_range_rejected _ _ digit_class_ok_bytes)
              |exact (append_with_range_rejected _ _ digit_class_ok_str)].
Qed.

Theorem C18_unterminated_block_rejected :
  forall bytes wide cs n m c txt buf,
    forallb cmd_text_ok cs = true -> forallb cmd_addr_ordered cs = true ->
    forallb (fun t => negb (is_terminator t)) txt = true ->
    (c = 97%N /\ n = m /\ wide = false) \/ c = 99%N ->
    apply_script_of bytes buf (render wide cs ++ (render_addr wide n m ++ [c; LF]) :: txt)
    = Err ValueError.
Proof.
  intros [|]; [exact (unterminated_block_rejected _ _ digit_class_ok_bytes)
              |exact (unterminated_block_rejected _ _ digit_class_ok_str)].
Qed.

(** 4. The script grammar that the correspondence check uses to decide what
       counts as "malformed" recognises exactly the rendered concrete syntax. *)
Theorem C18_grammar_recognises_rendered :
  forall wide cs,
    forallb cmd_text_ok cs = true -> forallb cmd_addr_ordered cs = true ->
    spec_parse (render wide cs) = Some cs.
Proof. exact spec_parse_render. Qed.

(** 5. The bridge between the correspondence and the property: on EVERY case
       of the check (Pdiff/EdCheck.v) on which the implementation behaved like
       the model ([agree]), the property as [holds] judges it on the
       observation is true.  No side condition: [agree] has two conjuncts,
       [agree_obs] (the model reproduces both observed results) and
       [agree_expect] (when the harness derived the script from a target file,
       the MODEL produces that target — the expectation [holds] also compares
       the observation with).  [agree_obs c = true -> holds c = agree_expect c]
       ([agree_holds_iff_judged]): the second conjunct is exactly what is needed.
       The proof rests on two facts about the model for EVERY concrete syntax the
       grammar [spec_parse] accepts or rejects: [model_spec_some] (accepted and in
       range => ed's result) and [model_spec_none] (rejected, no non-ASCII
       digit => ValueError). *)
Theorem C18_agree_implies_holds :
  forall c, agree c = true -> holds c = true.
Proof. exact agree_implies_holds_full. Qed.

(** the two facts, for every script (they extend theorems 1 and 3 from rendered scripts to all scripts) *)
Theorem C18_any_accepted_script_matches_ed :
  forall bytes old script cs b,
    spec_parse script = Some cs -> ed_run old cs = Some b ->
    model_run bytes old script = Ok b.
Proof. exact model_spec_some. Qed.

(** Non-vacuity: a case with an expectation on which everything is true, and the
    expectation conjunct matters (same run, wrong expectation: the observations agree
    with the model, [agree] and [holds] are both false). *)
Example C18_agree_implies_holds_nonvacuous :
  let nl s := String.append s "\00000a"%string in
  let old := [nl "a"; nl "b"; nl "c"]%string in
  let script := [nl "2,3c"; nl "x"; nl "."; nl "1d"]%string in
  let out := Ok [nl "x"]%string in
  let good := mk false old script (Some [nl "x"]%string) out out in
  let wrong := mk false old script (Some [nl "y"]%string) out out in
  (agree good = true /\ holds good = true)
  /\ (agree_obs wrong = true /\ agree wrong = false /\ holds wrong = false).
Proof. vm_compute. repeat split. Qed.

(** Non-vacuity: a concrete alignment with an insertion at the top, a change, a
    deletion of the last line and adjacent hunks meets the hypotheses. *)
Example C18_nonvacuous :
  let l (c : N) := [c; 10%N] in
  let al := [Hunk [] [l 120]; Keep [l 97]; Hunk [l 98; l 99] [l 121]; Hunk [l 100] [];
             Keep [l 101]; Hunk [l 102] []]%N in
  forallb seg_ok al = true
  /\ old_of al = [l 97; l 98; l 99; l 100; l 101; l 102]%N
  /\ new_of al = [l 120; l 97; l 121; l 101]%N
  /\ apply_script_of false (old_of al) (render false (script_of al)) = Ok (new_of al).
Proof. vm_compute. repeat split. Qed.

Print Assumptions C18_script_matches_ed.
Print Assumptions C18_alignment_script_exact_ed.
Print Assumptions C18_diff_script_exact.
Print Assumptions C18_bad_command_rejected_bytes.
Print Assumptions C18_bad_command_rejected_str.
Print Assumptions C18_append_with_range_rejected.
Print Assumptions C18_unterminated_block_rejected.
Print Assumptions C18_grammar_recognises_rendered.
Print Assumptions C18_agree_implies_holds.
Print Assumptions C18_any_accepted_script_matches_ed.
