(** C17 — tie by regeneration.  Only statements; every proof is [exact <lemma>] (Copyright/FieldsTie.v).

    Gen/TrCopyrightFields.v is REGENERATED from lib/debian/copyright.py by harness/py2coq.py on every run:
    [tr_single_line], [tr_lb_from_str], [tr_lb_item], [tr_lb_to_str], [tr_ss_from_str], [tr_ss_to_str],
    [tr_format_multiline_lines], [tr_format_multiline], [tr_parse_multiline_as_lines], [tr_parse_multiline],
    [tr_license_new], [tr_license_new1], [tr_license_from_str], [tr_license_to_str] are the Python bodies of
    [_single_line], [_LineBased.from_str], [_LineBased.to_str.process_and_validate], [_LineBased.to_str],
    [_SpaceSeparated.from_str/to_str], [format_multiline_lines], [format_multiline],
    [parse_multiline_as_lines], [parse_multiline], [License.__new__] (with [text] given / defaulted),
    [License.from_str], [License.to_str] as the working tree has them now — for-loops as structural
    Fixpoints, [lines[i] = line] with its IndexError, [l[0]] with its IndexError, [raise
    MachineReadableFormatError] as [Err FormatError], early returns and [None] handling in place.

    The theorems say that, for ALL inputs, the regenerated functions compute exactly the hand-written model
    functions of Copyright/Fields.v — the ones the theorems of Props/C17.v are about and that [agree] runs —,
    the exception (same kind) included; where the model function is total the regenerated code is shown
    never to raise.  No guard, no fuel.  An edit of one of these Python functions changes the generated text
    and the theorems are re-checked against it.

    Still hand-modelled inside them (Copyright/FieldsTrPrims.v, behaviour compared with the live code by the
    correspondence and by ./check LIB): str.strip/splitlines/split/startswith/join as instances of
    Lib/PyStr.v with the tables of Gen/PyChars.v — instantiated exactly as the model does —, the regex leaf
    [_has_space] (pattern text asserted by the translator), [itertools.islice], and the namedtuple
    [License] rendered as the model's Record [license] ([super().__new__] = the constructor,
    [.synopsis]/[.text] = the projections). *)
From Verif Require Import Lib.Base Lib.PyStr Copyright.Fields Gen.TrCopyrightFields Copyright.FieldsTie.

Theorem C17_tie_single_line : forall s, tr_single_line s = single_line s.
Proof. exact tr_single_line_eq. Qed.
Print Assumptions C17_tie_single_line.

Theorem C17_tie_LineBased_from_str : forall s, tr_lb_from_str s = Ok (lb_from_str s).
Proof. exact tr_lb_from_str_eq. Qed.
Print Assumptions C17_tie_LineBased_from_str.

Theorem C17_tie_LineBased_process_and_validate : forall s, tr_lb_item s = lb_item s.
Proof. exact tr_lb_item_eq. Qed.
Print Assumptions C17_tie_LineBased_process_and_validate.

Theorem C17_tie_LineBased_to_str : forall seq, tr_lb_to_str seq = lb_to_str seq.
Proof. exact tr_lb_to_str_eq. Qed.
Print Assumptions C17_tie_LineBased_to_str.

Theorem C17_tie_SpaceSeparated_from_str : forall s, tr_ss_from_str s = Ok (ss_from_str s).
Proof. exact tr_ss_from_str_eq. Qed.
Print Assumptions C17_tie_SpaceSeparated_from_str.

Theorem C17_tie_SpaceSeparated_to_str : forall seq, tr_ss_to_str seq = ss_to_str seq.
Proof. exact tr_ss_to_str_eq. Qed.
Print Assumptions C17_tie_SpaceSeparated_to_str.

Theorem C17_tie_format_multiline_lines :
  forall lines, tr_format_multiline_lines lines = Ok (format_multiline_lines lines).
Proof. exact tr_format_multiline_lines_eq. Qed.
Print Assumptions C17_tie_format_multiline_lines.

Theorem C17_tie_format_multiline : forall s, tr_format_multiline s = Ok (format_multiline s).
Proof. exact tr_format_multiline_eq. Qed.
Print Assumptions C17_tie_format_multiline.

Theorem C17_tie_parse_multiline_as_lines :
  forall s, tr_parse_multiline_as_lines s = parse_multiline_as_lines s.
Proof. exact tr_parse_multiline_as_lines_eq. Qed.
Print Assumptions C17_tie_parse_multiline_as_lines.

Theorem C17_tie_parse_multiline : forall s, tr_parse_multiline s = parse_multiline s.
Proof. exact tr_parse_multiline_eq. Qed.
Print Assumptions C17_tie_parse_multiline.

Theorem C17_tie_License_new :
  forall synopsis text, tr_license_new synopsis text = mk_license synopsis text.
Proof. exact tr_license_new_eq. Qed.
Print Assumptions C17_tie_License_new.

(** [License(synopsis)]: the default value of [text] is read from the source *)
Theorem C17_tie_License_new_default :
  forall synopsis, tr_license_new1 synopsis = mk_license synopsis (Some []).
Proof. exact tr_license_new1_eq. Qed.
Print Assumptions C17_tie_License_new_default.

Theorem C17_tie_License_from_str : forall s, tr_license_from_str s = lic_from_str s.
Proof. exact tr_license_from_str_eq. Qed.
Print Assumptions C17_tie_License_from_str.

Theorem C17_tie_License_to_str : forall l, tr_license_to_str l = Ok (lic_to_str l).
Proof. exact tr_license_to_str_eq. Qed.
Print Assumptions C17_tie_License_to_str.

(** non-vacuity: the regenerated code really runs, on the normal and on the error paths *)
Example C17_tie_runs :
  (* format_multiline_lines(["GPL", "a", " ", "b"]) = "GPL\n a\n .\n b" *)
  tr_format_multiline_lines [[71; 80; 76]; [97]; [32]; [98]]%N
    = Ok [71; 80; 76; 10; 32; 97; 10; 32; 46; 10; 32; 98]%N
  (* License.from_str("GPL\n a\n .\n b") = License("GPL", "a\n\nb") *)
  /\ tr_license_from_str (Some [71; 80; 76; 10; 32; 97; 10; 32; 46; 10; 32; 98]%N)
    = Ok (Some (mkLic [71; 80; 76]%N [97; 10; 10; 98]%N))
  (* parse_multiline_as_lines("a\nb"): continued line must begin with " " *)
  /\ tr_parse_multiline_as_lines [97; 10; 98]%N = Err FormatError
  (* _LineBased.to_str(["a", " b "]) = "\n a\n b";  _LineBased.to_str(["a", " "]) raises *)
  /\ tr_lb_to_str [[97]; [32; 98; 32]]%N = Ok (Some [10; 32; 97; 10; 32; 98]%N)
  /\ tr_lb_to_str [[97]; [32]]%N = Err FormatError
  (* _SpaceSeparated.to_str(["a", "b c"]) raises;  from_str(" a  b ") = ("a", "b") *)
  /\ tr_ss_to_str [[97]; [98; 32; 99]]%N = Err FormatError
  /\ tr_ss_from_str (Some [32; 97; 32; 32; 98; 32]%N) = Ok [[97]; [98]]%N.
Proof. vm_compute. repeat split. Qed.
