(** C19 — update_file converges to the published content and never corrupts the
    local file.  (statements follow; being built) *)
From Verif Require Import Lib.Base Pdiff.Update Pdiff.UpdateSpec.
