(** C19 — update_file converges to the published content and never corrupts the
    local file.  Only statements; every proof is [exact <lemma>] from
    Pdiff/UpdateProofs.v.

    Model: Pdiff/Update.v (the functions UpdateCheck.agree runs), instantiated
    exactly as the check instantiates it (py_isspace, py_islinebreak, re_d,
    nd_val); the hash [H] is universally quantified in every theorem.
    Spec: Pdiff/UpdateSpec.v — Part 1 is what UpdateCheck.holds evaluates, Part 2
    says what "a repository publishes a pdiff index for a history" means (history =
    oldest version + one EdSpec alignment per patch), Part 3 is the Index file as
    deb822 text, Part 4 the mirror (Index text, patches, full file) of a history.
    Hash assumptions are explicit hypotheses of the theorems that need them:
    [no_collision] (boolean: the local content vs. the n+1 published versions) and,
    for the fault theorems that conclude "= vn", that no other content has the
    digest of vn.  Theorem 1 needs no assumption on the hash at all. *)
From Coq Require Import String.
From Verif Require Import Lib.Base Lib.Dec Lib.PyStr Gen.PyChars
  Pdiff.Ed Pdiff.EdSpec Pdiff.EdProofs Pdiff.EdInst
  Pdiff.Update Pdiff.UpdateSpec Pdiff.UpdateCheck Pdiff.UpdateProofs.

(** The model as the check runs it. *)
Definition update_file_py (H : hkind -> list str -> str) :=
  update_file py_isspace py_islinebreak re_d nd_val H.
Definition publishes_py := publishes py_isspace py_islinebreak.

(** * 1. update_fault_safe

    For EVERY hash, EVERY environment (whatever the index, the patches and the
    full file are: intact, corrupted, truncated, missing, lying), EVERY local
    state and EVERY fault schedule (open, i-th write, close, rename, unlink):
    either the call returns lines and the local file holds exactly those lines,
    with no '.new' left — or it raises, the local file is exactly as before, and
    '.new' is gone (unless removing it was itself scheduled to fail). *)
Theorem C19_update_fault_safe :
  forall H e fs sc,
    f_new fs = None ->
    let out := update_file_py H e fs sc in
    match fst out with
    | Ok ls => f_local (snd out) = Some ls /\ f_new (snd out) = None
    | Err _ => f_local (snd out) = f_local fs
               /\ (s_unlink sc = false -> f_new (snd out) = None)
    end.
Proof. exact (update_file_safe py_isspace py_islinebreak re_d nd_val). Qed.

(** the same in the words of the Spec: the clause [holds] evaluates for a run
    whose premise is void (verdict SafetyOnly), and the disjunction of the two
    admissible outcomes in every other case *)
Theorem C19_update_fault_safe_spec :
  forall H e fs sc s,
    f_new fs = None -> sn_local s = f_local fs -> sn_unlink s = s_unlink sc ->
    let o := observe (update_file_py H e fs sc) in
    returned_is_local o || failed_safely s o = true.
Proof. exact (update_fault_safe_spec py_isspace py_islinebreak re_d nd_val). Qed.

(** and tied to the check: on every case where [agree] holds, what the
    IMPLEMENTATION did satisfies that clause *)
Theorem C19_agree_implies_safe :
  forall u, agree_update u = true ->
    returned_is_local (observation_of u)
    || failed_safely (scenario_of u) (observation_of u) = true.
Proof. exact agree_implies_safe. Qed.

(** * 2. update_converges

    A repository publishes the history v0..vn ([versions v0 steps]: any number of
    versions, each step any alignment of its two versions, i.e. any diff) through
    an index [px] in any field order, with any extra fields and paragraphs, and
    the patches and the full file are served as published.  The digest selected
    by update_file separates the local content from the published versions
    ([no_collision]: a boolean fact about n+1 digests).  With no fault scheduled,
    from a local copy at ANY v_i, current, foreign ([Some] anything) or absent
    ([None]): the call returns vn and the local file holds vn. *)
Theorem C19_update_converges :
  forall H e fs sc paras v0 steps px,
    let k := choose_kind (concat paras) in
    let vn := current (versions v0 steps) in
    f_new fs = None ->
    read_index py_isspace (e_index e) = Ok (IndexFields paras) ->
    concat paras = px_fields px ->
    hash_avail e k = true ->
    publishes_py (prefix_of k) (H k) v0 steps px = true ->
    patches_published e steps = true ->
    full_published e vn = true ->
    match f_local fs with
    | Some local => no_collision (H k) local (versions v0 steps)
    | None => true
    end = true ->
    no_faults sc = true ->
    update_file_py H e fs sc = (Ok vn, mkfs (Some vn) None).
Proof. exact update_converges_py. Qed.

(** as [holds] judges it: the scenario obliges to converge, and the run does *)
Theorem C19_update_converges_holds :
  forall H e fs sc paras v0 steps px,
    let k := choose_kind (concat paras) in
    let vn := current (versions v0 steps) in
    let s := mkscn (versions v0 steps) (f_local fs) IdxIntact [] false (s_eff sc) (s_unlink sc) in
    f_new fs = None ->
    read_index py_isspace (e_index e) = Ok (IndexFields paras) ->
    concat paras = px_fields px ->
    hash_avail e k = true ->
    publishes_py (prefix_of k) (H k) v0 steps px = true ->
    patches_published e steps = true ->
    full_published e vn = true ->
    match f_local fs with
    | Some local => no_collision (H k) local (versions v0 steps)
    | None => true
    end = true ->
    no_faults sc = true ->
    verdict_of s = MustConverge
    /\ property_holds s (observe (update_file_py H e fs sc)) = true.
Proof. exact update_converges_spec_py. Qed.

(** the index given as TEXT: a deb822 file ([index_lines]: paragraphs separated by a
    blank line, continuation lines, " ." for an empty line) is read back by the
    PackageFile model as exactly its fields ... *)
Theorem C19_index_text_parses :
  forall ps, index_text_ok py_isspace ps = true ->
    parse_pf py_isspace (map Some (index_lines ps)) = Ok (map (map rf_field) ps).
Proof. exact index_text_parses_py. Qed.

(** ... so update_converges holds with the premise on the text of the Index file *)
Theorem C19_update_converges_text :
  forall H e fs sc rps v0 steps px,
    let paras := map (map rf_field) rps in
    let k := choose_kind (concat paras) in
    let vn := current (versions v0 steps) in
    f_new fs = None ->
    e_index e = IdxLines (map Some (index_lines rps)) ->
    index_text_ok py_isspace rps = true ->
    concat paras = px_fields px ->
    hash_avail e k = true ->
    publishes_py (prefix_of k) (H k) v0 steps px = true ->
    patches_published e steps = true ->
    full_published e vn = true ->
    match f_local fs with
    | Some local => no_collision (H k) local (versions v0 steps)
    | None => true
    end = true ->
    no_faults sc = true ->
    update_file_py H e fs sc = (Ok vn, mkfs (Some vn) None).
Proof. exact update_converges_text_py. Qed.

(** * 3. update_unusable_index_downloads

    absent, unparseable or structurally unusable index => exactly the full
    download; and the full download, with no fault, converges (from any local
    state). *)
Theorem C19_download_converges :
  forall e fs sc vn,
    full_published e vn = true -> no_faults sc = true -> f_new fs = None ->
    download_file e fs sc = (Ok vn, mkfs (Some vn) None).
Proof. exact download_file_quiet. Qed.

Theorem C19_unusable_index_absent :
  forall H e fs sc,
    e_index e = IdxAbsent -> update_file_py H e fs sc = download_file e fs sc.
Proof. exact (update_index_absent py_isspace py_islinebreak re_d nd_val). Qed.

Theorem C19_unusable_index_unparseable :
  forall H e fs sc ls,
    e_index e = IdxLines ls -> parse_pf py_isspace ls = Err ParseError ->
    update_file_py H e fs sc = download_file e fs sc.
Proof. exact (update_index_unparseable py_isspace py_islinebreak re_d nd_val). Qed.

(** no -Current field of the selected kind anywhere in the index (D15, third form) *)
Theorem C19_unusable_index_no_current :
  forall H e paras fs sc,
    let k := choose_kind (concat paras) in
    read_index py_isspace (e_index e) = Ok (IndexFields paras) ->
    hash_avail e k = true ->
    field_count (f_current k) (concat paras) = 0%nat ->
    update_file_py H e fs sc = download_file e fs sc.
Proof. exact (update_file_no_current_downloads py_isspace py_islinebreak re_d nd_val). Qed.

(** a -Current without exactly two columns, or a -History / -Patches line
    without exactly three (D15, second form), reached before any -Current field *)
Theorem C19_unusable_index_malformed_field :
  forall H e paras pre f post fs sc,
    let k := choose_kind (concat paras) in
    read_index py_isspace (e_index e) = Ok (IndexFields paras) ->
    hash_avail e k = true ->
    concat paras = pre ++ f :: post ->
    field_count (f_current k) pre = 0%nat ->
    malformed_field py_isspace py_islinebreak k f = true ->
    update_file_py H e fs sc = download_file e fs sc.
Proof. exact (update_file_malformed_field_downloads py_isspace py_islinebreak re_d nd_val). Qed.

(** the same anywhere in the index, as long as no -Current field before it records
    the digest of the local content (that one returns "up to date" first) *)
Theorem C19_unusable_index_malformed_field_anywhere :
  forall H e paras pre f post lines fs sc,
    let k := choose_kind (concat paras) in
    f_local fs = Some lines ->
    read_index py_isspace (e_index e) = Ok (IndexFields paras) ->
    hash_avail e k = true ->
    concat paras = pre ++ f :: post ->
    forallb (not_uptodate py_isspace k (H k lines)) pre = true ->
    malformed_field py_isspace py_islinebreak k f = true ->
    update_file_py H e fs sc = download_file e fs sc.
Proof. exact (update_file_malformed_field_downloads_gen py_isspace py_islinebreak re_d nd_val). Qed.

(** an index that records the history, but whose -Patches field ([psteps]) lacks
    the digest of a patch that would have to be applied (D15, first form) *)
Theorem C19_unusable_index_missing_digest :
  forall H e fs sc local paras v0 steps psteps px sfx,
    let k := choose_kind (concat paras) in
    let vn := current (versions v0 steps) in
    f_local fs = Some local ->
    read_index py_isspace (e_index e) = Ok (IndexFields paras) ->
    concat paras = px_fields px ->
    hash_avail e k = true ->
    index_records py_isspace py_islinebreak (prefix_of k) (H k) v0 steps psteps px = true ->
    no_collision (H k) local (versions v0 steps) = true ->
    lines_eqb local vn = false ->
    chain_from local v0 steps = Some sfx ->
    existsb (fun s => negb (existsb (str_eqb (ps_name s)) (map ps_name psteps))) sfx = true ->
    update_file_py H e fs sc = download_file e fs sc.
Proof. exact update_missing_digest_downloads_py. Qed.

(** the forms above that can be read off the index alone, as one boolean premise
    ([unusable_index]: absent | not a deb822 file | no -Current field | a
    malformed field before any usable -Current), with the conclusion of
    update_converges *)
Theorem C19_update_unusable_index_downloads :
  forall H e fs sc,
    unusable_index py_isspace py_islinebreak e = true ->
    update_file_py H e fs sc = download_file e fs sc.
Proof. exact (update_unusable_index_downloads py_isspace py_islinebreak re_d nd_val). Qed.

Theorem C19_update_unusable_index_converges :
  forall H e fs sc vn,
    unusable_index py_isspace py_islinebreak e = true ->
    full_published e vn = true -> no_faults sc = true -> f_new fs = None ->
    update_file_py H e fs sc = (Ok vn, mkfs (Some vn) None).
Proof. exact (update_unusable_index_converges py_isspace py_islinebreak re_d nd_val). Qed.

(** * 4. update_fault_safe, with the premise of the property

    Premise: every -Current field (of the kind update_file selects) records the
    digest of vn, and the full file, if it can be fetched, is vn.  EVERYTHING else
    is arbitrary: -History and -Patches (consistent, lying, absent), every patch
    (intact, corrupted, truncated, missing), the local file, the fault schedule. *)

(** a successful run returns — and by theorem 1 has stored — a content with the
    digest recorded as current (no assumption on the hash) *)
Theorem C19_update_success_is_current :
  forall H e fs sc vn sep size ls,
    index_current_honest py_isspace H e vn sep size = true -> full_honest e vn = true ->
    fst (update_file_py H e fs sc) = Ok ls ->
    H (kind_of py_isspace e) ls = H (kind_of py_isspace e) vn.
Proof. exact (update_success_is_current py_isspace py_islinebreak re_d nd_val). Qed.

(** hence, if nothing else has the digest of vn: success with local = returned =
    vn and no '.new', or an error with the local file as before and no '.new' *)
Theorem C19_update_fault_safe_converges :
  forall H e fs sc vn sep size s,
    f_new fs = None ->
    index_current_honest py_isspace H e vn sep size = true -> full_honest e vn = true ->
    (forall x, H (kind_of py_isspace e) x = H (kind_of py_isspace e) vn -> x = vn) ->
    current (sn_hist s) = vn -> sn_local s = f_local fs -> sn_unlink s = s_unlink sc ->
    let o := observe (update_file_py H e fs sc) in
    converged s o || failed_safely s o = true.
Proof. exact (update_fault_safe_converges_spec py_isspace py_islinebreak re_d nd_val). Qed.

(** "writing fails at any point => an error is raised": when the local file is not
    current, a fault among open / write_1..write_n / close / rename of the
    replacement by vn always ends in the safe failure *)
Theorem C19_update_write_fault_raises :
  forall H e fs sc vn sep size s,
    f_new fs = None ->
    index_current_honest py_isspace H e vn sep size = true -> full_honest e vn = true ->
    (forall x, H (kind_of py_isspace e) x = H (kind_of py_isspace e) vn -> x = vn) ->
    match f_local fs with Some local => negb (lines_eqb local vn) | None => true end = true ->
    fs_fault_certain vn (s_eff sc) = true ->
    sn_local s = f_local fs -> sn_unlink s = s_unlink sc ->
    let o := observe (update_file_py H e fs sc) in
    failed_safely s o = true.
Proof. exact (update_write_fault_fails_spec py_isspace py_islinebreak re_d nd_val). Qed.

(** "a downloaded patch does not match the recorded hash => an error is raised":
    in a publishing repository, local at some v_i (chain = the steps from the
    first such i on), each patch of the chain either as published or bad
    (missing / digest differs from the recorded one), at least one bad: the call
    raises and nothing is touched. *)
Theorem C19_update_garbled_patch_raises :
  forall H e fs sc local paras v0 steps px sfx,
    let k := choose_kind (concat paras) in
    let vn := current (versions v0 steps) in
    f_local fs = Some local ->
    read_index py_isspace (e_index e) = Ok (IndexFields paras) ->
    concat paras = px_fields px ->
    hash_avail e k = true ->
    publishes_py (prefix_of k) (H k) v0 steps px = true ->
    no_collision (H k) local (versions v0 steps) = true ->
    lines_eqb local vn = false ->
    chain_from local v0 steps = Some sfx ->
    forallb (fun s => patch_good e s || patch_bad (H k) e s) sfx = true ->
    existsb (patch_bad (H k) e) sfx = true ->
    exists x, update_file_py H e fs sc = (Err x, fs).
Proof. exact update_garbled_patch_raises_py. Qed.

(** * 5. The whole verdict table on an intact index

    The property's quantifier in one statement.  A repository publishes v0..vn
    ([publishes]); the scenario lists an ARBITRARY set [pf] of published patches
    that are bad (missing, or with a digest other than the recorded one — corrupted
    or truncated), whether the full file is unavailable ([ff]), and ANY schedule of
    open / write_i / close / rename / unlink faults; the local copy is at any v_i,
    current, foreign or absent.  Then the run of the model satisfies
    [property_holds] — the very predicate [holds] evaluates on the implementation:
    it converges where the Spec says it must, fails safely where it must, and
    does one of the two everywhere else.
    Hash hypotheses: [no_collision] (local vs. the n+1 published versions) and
    no second content with the digest of vn. *)
Theorem C19_update_meets_spec_intact :
  forall H e fs sc paras v0 steps px pf ff,
    let k := choose_kind (concat paras) in
    let vn := current (versions v0 steps) in
    let s := mkscn (versions v0 steps) (f_local fs) IdxIntact pf ff (s_eff sc) (s_unlink sc) in
    f_new fs = None ->
    read_index py_isspace (e_index e) = Ok (IndexFields paras) ->
    concat paras = px_fields px ->
    hash_avail e k = true ->
    publishes_py (prefix_of k) (H k) v0 steps px = true ->
    patches_as_scenario (H k) e pf 0 steps = true ->
    forallb (fun j => j <? List.length steps) pf = true ->
    full_as_scenario e vn ff = true ->
    match f_local fs with
    | Some local => no_collision (H k) local (versions v0 steps)
    | None => true
    end = true ->
    (forall x, H k x = H k vn -> x = vn) ->
    property_holds s (observe (update_file_py H e fs sc)) = true.
Proof. exact update_meets_spec_intact_py. Qed.

(** and through the correspondence: a case of the check on which [agree] holds
    and whose world is such a repository satisfies [holds] *)
Theorem C19_agree_intact_implies_holds :
  forall u paras v0 steps px pf ff,
    let pool := pool_of u in
    let H := pool_hash (map (@concat N) pool) in
    let e := env_of u in
    let fs := mkfs (option_map (deref pool) (u_local u)) None in
    let sc := mksched (u_eff u) (u_unlink u) in
    let k := choose_kind (concat paras) in
    let vn := current (versions v0 steps) in
    agree_update u = true ->
    scenario_of u = mkscn (versions v0 steps) (f_local fs) IdxIntact pf ff (s_eff sc) (s_unlink sc) ->
    read_index py_isspace (e_index e) = Ok (IndexFields paras) ->
    concat paras = px_fields px ->
    hash_avail e k = true ->
    publishes_py (prefix_of k) (H k) v0 steps px = true ->
    patches_as_scenario (H k) e pf 0 steps = true ->
    forallb (fun j => j <? List.length steps) pf = true ->
    full_as_scenario e vn ff = true ->
    match f_local fs with
    | Some local => no_collision (H k) local (versions v0 steps)
    | None => true
    end = true ->
    (forall x, H k x = H k vn -> x = vn) ->
    holds_update u = true.
Proof. exact agree_intact_implies_holds. Qed.

(** * 6. Every history

    The premises about the index of theorems 2 and 5 are themselves theorems about
    the mirror of a history ([mirror_env] / [mirror_index]: the Index file as text,
    each patch under its name, the full file).  What remains as hypothesis is only
    that the history can be published at all ([history_ok]: alignments chain up,
    distinct patch names, names / sizes / digests are single tokens), that the
    interpreter has the digest, and the hash hypotheses. *)
Theorem C19_update_converges_all_histories :
  forall H k cur_size v0 steps,
    history_ok py_isspace (H k) cur_size v0 steps = true ->
    forall sha1 sha256 sha2 local sc,
    let e := mirror_env k (H k) sha1 sha256 sha2 cur_size v0 steps in
    let vn := current (versions v0 steps) in
    hash_avail e k = true ->
    match local with
    | Some l => no_collision (H k) l (versions v0 steps)
    | None => true
    end = true ->
    no_faults sc = true ->
    update_file_py H e (mkfs local None) sc = (Ok vn, mkfs (Some vn) None).
Proof. exact update_converges_all_histories. Qed.

Theorem C19_update_meets_spec_all_histories :
  forall H k cur_size v0 steps,
    history_ok py_isspace (H k) cur_size v0 steps = true ->
    forall e fs sc pf ff,
    let vn := current (versions v0 steps) in
    let s := mkscn (versions v0 steps) (f_local fs) IdxIntact pf ff (s_eff sc) (s_unlink sc) in
    f_new fs = None ->
    e_index e = IdxLines (map Some (index_lines (mirror_index (prefix_of k) (H k) cur_size v0 steps))) ->
    hash_avail e k = true ->
    patches_as_scenario (H k) e pf 0 steps = true ->
    forallb (fun j => j <? List.length steps) pf = true ->
    full_as_scenario e vn ff = true ->
    match f_local fs with
    | Some local => no_collision (H k) local (versions v0 steps)
    | None => true
    end = true ->
    (forall x, H k x = H k vn -> x = vn) ->
    property_holds s (observe (update_file_py H e fs sc)) = true.
Proof. exact update_meets_spec_all_histories. Qed.

(** * Non-vacuity

    One concrete world: history v0 -> v1 -> v2 (a change in the middle; an insertion
    at the top plus a deletion of the last two lines), an Index with two
    paragraphs, an extra field, fields out of order, blank entries, irregular
    spacing, and [injH] as digest — an injective function whose values are single
    tokens (UpdateProofs §9), so that also the hash hypotheses are met. *)
Module Ex.
Local Open Scope string_scope.
Definition l (c : N) : str := [c; 10%N].
Definition v0 : list str := [l 97; l 98; l 99].
Definition al0 : list seg := [Keep [l 97]; Hunk [l 98] [l 120; l 121]; Keep [l 99]].
Definition al1 : list seg := [Hunk [] [l 122]; Keep [l 97; l 120]; Hunk [l 121; l 99] []].
Definition s1 := mkstep (dec "T-1") (dec "6") (dec "14") false al0.
Definition s2 := mkstep (dec "T-2") (dec "8") (dec "15") true al1.
Definition steps : list pstep := [s1; s2].
Definition v1 := [l 97; l 120; l 121; l 99].
Definition v2 := [l 122; l 97; l 120].
Definition Hk := injH SHA1.
Definition rowh (v : list str) (s n : string) : str :=
  (Hk v ++ dec " " ++ dec s ++ dec " " ++ dec n)%list.
Definition hist_es : list str := [[]; rowh v0 "6" "T-1"; rowh v1 "8" "T-2"].
Definition patch_es : list str :=
  [rowh (ps_script s1) "14" "T-1"; []; rowh (ps_script s2) "15" "T-2"].
(** the Index file as the network delivers it, line by line (hand-written:
    two blanks and a TAB around the -Current value) *)
Definition index_lines : list (option str) :=
  map Some
    ([dec "X-Origin: somewhere" ++ [10%N];
      dec "SHA1-History:" ++ [10%N]]
     ++ map (fun r => 32%N :: r ++ [10%N]) (tl hist_es)
     ++ [dec "SHA1-Current:  " ++ Hk v2 ++ dec " 6" ++ [9; 10]%N;
         [10%N];
         dec "SHA1-Patches: " ++ nth 0 patch_es [] ++ [10%N];
         dec " ." ++ [10%N];
         32%N :: nth 2 patch_es [] ++ [10%N]])%list.
Definition paras : list para :=
  [[(dec "X-Origin", dec "somewhere"); (dec "SHA1-History", entries_value hist_es);
    (dec "SHA1-Current", (Hk v2 ++ dec " 6")%list)];
   [(dec "SHA1-Patches", entries_value patch_es)]].
(** the same index as structured text *)
Definition rparas : list (list rfield) :=
  [[mkrf (dec "X-Origin") (dec "somewhere") [];
    mkrf (dec "SHA1-History") [] (tl hist_es);
    mkrf (dec "SHA1-Current") (Hk v2 ++ dec " 6")%list []];
   [mkrf (dec "SHA1-Patches") (nth 0 patch_es []) [[]; nth 2 patch_es []]]].
Definition px : pubindex := mkpidx (concat paras) (dec " ") (dec "6") hist_es patch_es.
Definition served (garble2 : bool) (n : str) : result (list str) :=
  if str_eqb n (dec "T-1") then Ok (ps_script s1)
  else if str_eqb n (dec "T-2")
       then Ok (if garble2 then removelast (ps_script s2) else ps_script s2)
  else Err IOError.
Definition e : env := mkenv true false true (IdxLines index_lines) (served false) (Ok v2).
(** the second patch is served truncated *)
Definition e_garbled : env := mkenv true false true (IdxLines index_lines) (served true) (Ok v2).
(** an index whose -Patches field lacks the row of T-2 *)
Definition px_short : pubindex :=
  mkpidx [(dec "SHA1-Current", (Hk v2 ++ dec " 6")%list);
          (dec "SHA1-History", entries_value hist_es);
          (dec "SHA1-Patches", entries_value [nth 0 patch_es []])]
         (dec " ") (dec "6") hist_es [nth 0 patch_es []].
Definition e_short : env :=
  mkenv true false true
    (IdxLines (map Some (UpdateSpec.index_lines
       [[mkrf (dec "SHA1-Current") (Hk v2 ++ dec " 6")%list [];
         mkrf (dec "SHA1-History") [] (tl hist_es);
         mkrf (dec "SHA1-Patches") (nth 0 patch_es []) []]])))
    (served false) (Ok v2).
Definition quiet : sched := mksched [] false.
Definition at_v0 : fsstate := mkfs (Some v0) None.
End Ex.

(** hypotheses of update_converges / _holds / _text, for local = v0, v1, v2, foreign *)
Example C19_nonvacuous_converges :
  let k := choose_kind (concat Ex.paras) in
  read_index py_isspace (e_index Ex.e) = Ok (IndexFields Ex.paras)
  /\ k = SHA1 /\ hash_avail Ex.e k = true
  /\ versions Ex.v0 Ex.steps = [Ex.v0; Ex.v1; Ex.v2]
  /\ publishes_py (prefix_of k) (injH k) Ex.v0 Ex.steps Ex.px = true
  /\ patches_published Ex.e Ex.steps = true
  /\ full_published Ex.e Ex.v2 = true
  /\ forallb (fun loc => no_collision (injH k) loc (versions Ex.v0 Ex.steps))
       [Ex.v0; Ex.v1; Ex.v2; [[113; 10]%N]] = true
  /\ no_faults Ex.quiet = true
  /\ index_text_ok py_isspace Ex.rparas = true /\ map (map rf_field) Ex.rparas = Ex.paras
  (* and what the model does there *)
  /\ update_file_py injH Ex.e Ex.at_v0 Ex.quiet = (Ok Ex.v2, mkfs (Some Ex.v2) None).
Proof. vm_compute. repeat split. Qed.

(** hypotheses of the fault theorems and of the unusable-index theorems *)
Example C19_nonvacuous_faults :
  let k := SHA1 in
  let write2 := mksched [false; false; true] false in
  (* honest -Current, honest full file, the hash hypothesis *)
  index_current_honest py_isspace injH Ex.e_garbled Ex.v2 (dec " ") (dec "6") = true
  /\ full_honest Ex.e_garbled Ex.v2 = true
  /\ kind_of py_isspace Ex.e_garbled = k
  /\ (forall x, injH k x = injH k Ex.v2 -> x = Ex.v2)
  (* a write fault while local is not current *)
  /\ fs_fault_certain Ex.v2 (s_eff write2) = true
  /\ update_file_py injH Ex.e Ex.at_v0 write2 = (Err IOError, Ex.at_v0)
  (* a garbled patch in the chain *)
  /\ chain_from Ex.v0 Ex.v0 Ex.steps = Some Ex.steps
  /\ forallb (fun s => patch_good Ex.e_garbled s || patch_bad (injH k) Ex.e_garbled s) Ex.steps = true
  /\ existsb (patch_bad (injH k) Ex.e_garbled) Ex.steps = true
  /\ update_file_py injH Ex.e_garbled Ex.at_v0 Ex.quiet = (Err ValueError, Ex.at_v0)
  (* unusable indexes *)
  /\ parse_pf py_isspace [Some (dec " leading continuation")] = Err ParseError
  /\ field_count (f_current k) [(dec "SHA1-History", [])] = 0%nat
  /\ malformed_field py_isspace py_islinebreak k (dec "SHA1-Current", dec "abc") = true
  /\ malformed_field py_isspace py_islinebreak k (dec "SHA1-History", dec "a b c d") = true
  /\ read_index py_isspace (e_index Ex.e_short) = Ok (IndexFields [px_fields Ex.px_short])
  /\ index_records py_isspace py_islinebreak (prefix_of k) (injH k) Ex.v0 Ex.steps [Ex.s1] Ex.px_short = true
  /\ existsb (fun s => negb (existsb (str_eqb (ps_name s)) (map ps_name [Ex.s1]))) Ex.steps = true
  /\ update_file_py injH Ex.e_short Ex.at_v0 Ex.quiet = (Ok Ex.v2, mkfs (Some Ex.v2) None)
  /\ map (fun i => unusable_index py_isspace py_islinebreak (mkenv true true true i (fun _ => Err IOError) (Ok Ex.v2)))
       [IdxAbsent; IdxLines []; IdxLines [Some (dec " x")];
        IdxLines [Some (dec "SHA1-History: a b" ++ [10%N])%list; Some (dec "SHA1-Current: a 1" ++ [10%N])%list];
        IdxLines [Some (dec "SHA1-Current: a 1 2" ++ [10%N])%list];
        e_index Ex.e]
     = [true; true; true; true; true; false]
  /\ forallb (not_uptodate py_isspace k (injH k Ex.v0)) [(dec "SHA1-Current", (injH k Ex.v2 ++ dec " 6")%list)] = true
  (* the mirror of the history *)
  /\ history_ok py_isspace (injH k) (dec "6") Ex.v0 Ex.steps = true
  /\ hash_avail (mirror_env k (injH k) true false false (dec "6") Ex.v0 Ex.steps) k = true
  (* the verdict table: second patch bad, local at v0 / at v2, with and without a rename fault *)
  /\ patches_as_scenario (injH k) Ex.e_garbled [1%nat] 0 Ex.steps = true
  /\ full_as_scenario Ex.e_garbled Ex.v2 false = true
  /\ map (fun c : option (list str) * list bool =>
            verdict_of (mkscn [Ex.v0; Ex.v1; Ex.v2] (fst c) IdxIntact [1%nat] false (snd c) false))
       [(Some Ex.v0, []); (Some Ex.v2, []); (Some Ex.v2, [false; true]); (None, []);
        (None, [false; false; false; false; false; false; true]); (None, [true])]
     = [MustFail; MustConverge; Either; MustConverge; Either; MustFail].
Proof.
  cbv zeta. split; [vm_compute; reflexivity|]. split; [vm_compute; reflexivity|].
  split; [vm_compute; reflexivity|]. split; [intros x; apply injH_inj|].
  vm_compute. repeat split.
Qed.

Print Assumptions C19_update_fault_safe.
Print Assumptions C19_update_fault_safe_spec.
Print Assumptions C19_agree_implies_safe.
Print Assumptions C19_update_converges.
Print Assumptions C19_update_converges_holds.
Print Assumptions C19_index_text_parses.
Print Assumptions C19_update_converges_text.
Print Assumptions C19_download_converges.
Print Assumptions C19_unusable_index_absent.
Print Assumptions C19_unusable_index_unparseable.
Print Assumptions C19_unusable_index_no_current.
Print Assumptions C19_unusable_index_malformed_field.
Print Assumptions C19_unusable_index_malformed_field_anywhere.
Print Assumptions C19_unusable_index_missing_digest.
Print Assumptions C19_update_unusable_index_downloads.
Print Assumptions C19_update_unusable_index_converges.
Print Assumptions C19_update_success_is_current.
Print Assumptions C19_update_fault_safe_converges.
Print Assumptions C19_update_write_fault_raises.
Print Assumptions C19_update_garbled_patch_raises.
Print Assumptions C19_update_meets_spec_intact.
Print Assumptions C19_agree_intact_implies_holds.
Print Assumptions C19_update_converges_all_histories.
Print Assumptions C19_update_meets_spec_all_histories.
