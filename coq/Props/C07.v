(** C07 - statements are added once the proofs exist (work in progress). *)
From Verif Require Import Lib.Base Deb.Model Deb.Spec Deb.Check.
