(** C07 — DebFile returns exactly what was packed and rejects malformed packages.
    Only statements; every proof is [exact <lemma>] or a short composition.

    Model: Deb/Model.v (the functions Deb/Check.v runs); reference: Deb/Spec.v;
    proofs: Deb/Proofs.v, Deb/ProofsView.v, Deb/ProofsPacked.v; the bridge to the
    correspondence check (theorem 7): Deb/CheckProofs.v.

    PARTIAL BY CONSTRUCTION (DESIGN §4 C07): the tar container and the gz/bz2/xz/lzma
    codecs are CPython's and are not modelled.  Everything below that speaks of the
    content of a part does so for a part that tarfile opens to a given listing
    ([tgz pt = Ok v]); theorem 6 carries tarfile.open as a Section variable with one
    round-trip hypothesis.  What is library logic — part discovery and validation,
    the three DebError exits, name normalisation and the './'+name look-up,
    scripts(), the md5sums line parser, the extension gate — is proved for all
    inputs. *)
From Coq Require Import String Permutation.
From Verif Require Import Lib.Base Lib.Dec Lib.PyStr Gen.DebConsts
  Deb.Model Deb.Spec Deb.Proofs Deb.ProofsView Deb.ProofsPacked Deb.ProofsMore Deb.Payload
  Deb.Check Deb.CheckProofs.

(** 1. deb_accept_iff.  For every member list (any payloads, any order, any number
       of members): DebFile(...) succeeds iff 'debian-binary' is a member name and
       exactly one member NAME is a control candidate and exactly one is a data
       candidate.  Candidates are those of the source constants (regenerated); names
       are a set — two members with the very same name are one candidate, as in the
       code (stated, not hidden). *)
Theorem C07_deb_accept_iff :
  forall (P : Type) (p_bytes : P -> str) (ms : list (str * P)),
    is_ok (deb_init P p_bytes ms) = true <->
    exists c d, In INFO_PART (map fst ms)
                /\ unique_candidate (map fst ms) CTRL_PART c
                /\ unique_candidate (map fst ms) DATA_PART d.
Proof. exact deb_init_ok_iff. Qed.

(** the same decision, as the reference of [holds] computes it from the part names
    of the property text (Deb/Spec.v: uncompressed or gz/bz2/xz/lzma) *)
Theorem C07_deb_accept_spec :
  forall (P : Type) (p_bytes : P -> str) (ms : list (str * P)),
    is_ok (deb_init P p_bytes ms) = spec_accept (map fst ms).
Proof. exact deb_init_accept. Qed.

(** otherwise DebError — never KeyError from a member look-up, never anything else *)
Theorem C07_reject_is_deberror :
  forall (P : Type) (p_bytes : P -> str) (ms : list (str * P)) e,
    deb_init P p_bytes ms = Err e -> e = DebError.
Proof. exact deb_init_only_deberror. Qed.

(** on success the parts are the members found under the unique candidate names, the
    version is debian-binary's content stripped; a member look-up finds the LAST
    member of a name *)
Theorem C07_accepted_parts :
  forall (P : Type) (p_bytes : P -> str) (ms : list (str * P)) c d,
    deb_open (map fst ms) = Ok (c, d) ->
    exists cp dp ip,
      ar_getmember ms c = Ok cp /\ ar_getmember ms d = Ok dp /\ ar_getmember ms INFO_PART = Ok ip
      /\ deb_init P p_bytes ms = Ok (mkDeb (c, cp) (d, dp) (strip_by bytes_isspace (p_bytes ip))).
Proof. exact deb_init_ok. Qed.

Theorem C07_getmember_is_last :
  forall (P : Type) (ms : list (str * P)) n p,
    ar_getmember ms n = Ok p <->
    exists pre post, ms = pre ++ (n, p) :: post /\ ~ In n (map fst post).
Proof. intros P. exact ar_getmember_last. Qed.

(** every candidate name passes the extension gate of DebPart.tgz() *)
Theorem C07_gate_passes_candidates :
  forall c, In c (candidates CTRL_PART ++ candidates DATA_PART) -> ext_gate c = true.
Proof. intros c H. pose proof gate_candidates as G. rewrite forallb_forall in G. now apply G. Qed.

(** 2. spelling_invariant.  For every part (whether or not it opens), every name n
       not starting with '/' or './', and s any of n, './'+n, '/'+n: has_file and
       get_content give the same answer — the same value or the same error. *)
Theorem C07_spelling_invariant :
  forall (P : Type) (p_open : P -> option tarview) (pt : part P) n s,
    plain_name n = true -> In s (spellings n) ->
    part_has_file P p_open pt s = part_has_file P p_open pt n
    /\ part_get_content P p_open pt s = part_get_content P p_open pt n.
Proof. exact spelling_invariant_part. Qed.

(** and what that answer is: the last entry named './'+n of the listing *)
Theorem C07_spellings_lookup :
  forall v n s,
    plain_name n = true -> key_ok n = true -> In s (spellings n) ->
    has_file v s = is_some (tar_find v (dot_slash n))
    /\ get_file v s = match tar_find v (dot_slash n) with
                      | None => Err KeyError
                      | Some None => Err DebError
                      | Some (Some b) => Ok b
                      end.
Proof. exact spellings_lookup. Qed.

(** [key_ok] is not a hidden restriction: plain, non-empty, no trailing '/' *)
Theorem C07_key_ok_plain :
  forall f c, plain_name (f ++ [c]) = true -> is_slash c = false -> key_ok (f ++ [c]) = true.
Proof. exact key_ok_plain. Qed.

(** 3. md5sums_roundtrip.  Any list of entries (digest: non-empty ASCII without
       blanks; separator: any non-empty run of blanks other than LF; file name:
       non-empty, not starting with a blank, no LF inside, not ending in CR — inner and
       trailing spaces allowed; line end LF or CR..CR LF) written one per line into
       './md5sums' is read back by md5sums() as the dict name -> digest, later lines
       overriding earlier ones of the same name, keys in first-occurrence order. *)
Theorem C07_md5sums_roundtrip :
  forall (P : Type) (p_open : P -> option tarview) (pt : part P) v es,
    tgz P p_open pt = Ok v ->
    tar_find v (dot_slash MD5_FILE) = Some (Some (render_md5 es)) ->
    forallb entry_ok es = true ->
    md5sums P p_open pt = Ok (md5_dict es).
Proof. exact md5sums_roundtrip. Qed.

(** ... also when the last line lacks its LF (CRs allowed) *)
Theorem C07_md5sums_roundtrip_open :
  forall (P : Type) (p_open : P -> option tarview) (pt : part P) v es e,
    tgz P p_open pt = Ok v ->
    tar_find v (dot_slash MD5_FILE) = Some (Some (render_md5 es ++ render_open e)) ->
    forallb entry_ok es = true -> entry_ok e = true ->
    md5sums P p_open pt = Ok (md5_dict (es ++ [e])).
Proof. exact md5sums_roundtrip_open. Qed.

Theorem C07_md5_dict_distinct :
  forall es, NoDup (map m_name es) -> md5_dict es = map (fun e => (m_name e, m_md5 e)) es.
Proof. exact md5_dict_nodup. Qed.

Theorem C07_md5sums_missing :
  forall (P : Type) (p_open : P -> option tarview) (pt : part P) v,
    tgz P p_open pt = Ok v -> tar_find v (dot_slash MD5_FILE) = None ->
    md5sums P p_open pt = Err DebError.
Proof. exact md5sums_missing. Qed.

(** 4. scripts_exact.  On a control part that opens to listing v, scripts() is
       exactly the maintainer-script names present as files, in MAINT_SCRIPTS order,
       each with the content of its (last) entry; DebError iff one of the names is a
       directory.  Nothing else of the listing is returned. *)
Theorem C07_scripts_exact :
  forall (P : Type) (p_open : P -> option tarview) (pt : part P) v,
    tgz P p_open pt = Ok v ->
    scripts P p_open pt =
      if existsb (script_is_dir v) MAINT_SCRIPTS then Err DebError
      else Ok (script_entries v MAINT_SCRIPTS).
Proof. exact scripts_exact. Qed.

(** the script names are the five of the property text; and for a package whose
    scripts are distinct maintainer-script names, the dict of theorem 6
    ([restrict MAINT_SCRIPTS m]) is, as a map, exactly what was packed — in the very
    sense [holds] compares maps ([Spec.same_map]) *)
Theorem C07_script_names_match_spec : same_set MAINT_SCRIPTS SPEC_SCRIPTS = true.
Proof. exact script_names_match_spec. Qed.

Theorem C07_scripts_as_map :
  forall m : pairs,
    nodup_keys m = true -> forallb (fun kv => mem (fst kv) MAINT_SCRIPTS) m = true ->
    same_map (restrict MAINT_SCRIPTS m) m = true.
Proof. intros m. exact (restrict_same_map MAINT_SCRIPTS m scripts_nodup). Qed.

Theorem C07_same_map_refl : forall m : pairs, nodup_keys m = true -> same_map m m = true.
Proof. exact same_map_refl. Qed.

(** 5. the bytes handed to Deb822 by debcontrol() *)
Theorem C07_control_bytes :
  forall (P : Type) (p_open : P -> option tarview) (pt : part P) v b,
    tgz P p_open pt = Ok v -> tar_find v (dot_slash CONTROL_FILE) = Some (Some b) ->
    control_bytes P p_open pt = Ok b.
Proof. exact control_bytes_ok. Qed.

(** 6. deb_returns_packed.  [arch k v] = the member bytes of a tar archive with
       listing v under codec k (0 stored, 1..4 gz/bz2/xz/lzma); hypothesis
       [arch_opens]: tarfile.open(mode='r:*') recovers the listing from each of them.
       Then for ANY member list (any order, duplicates, unrelated members) on which
       part discovery selects members holding [arch kc cv] and [arch kd dv] — any of
       the 5 x 5 codec pairs, under any candidate names — where cv carries the
       control file, the md5sums list and exactly the packed scripts and dv carries
       the data files: DebFile(...) succeeds, the control bytes, scripts() and
       md5sums() are what was packed, and every data file is found with its content
       under each of its three spellings. *)
Theorem C07_deb_returns_packed :
  forall (P : Type) (p_bytes : P -> str) (p_open : P -> option tarview)
         (arch : nat -> tarview -> P),
    (forall k v, k < 5 -> p_open (arch k v) = Some v) ->
  forall ms cn dn kc kd cv dv ip pk,
    kc < 5 -> kd < 5 ->
    deb_open (map fst ms) = Ok (cn, dn) ->
    ar_getmember ms cn = Ok (arch kc cv) ->
    ar_getmember ms dn = Ok (arch kd dv) ->
    ar_getmember ms INFO_PART = Ok ip ->
    control_view_ok pk cv = true ->
    data_view_ok pk dv = true ->
    exists deb, deb_init P p_bytes ms = Ok deb
      /\ d_version deb = strip_by bytes_isspace (p_bytes ip)
      /\ returns_packed P p_open deb pk.
Proof. exact deb_returns_packed. Qed.

(** the same for a package as it is assembled — debian-binary, one control member,
    one data member under any candidate names, in ANY member order, with unrelated
    members anywhere *)
Theorem C07_deb_returns_packed_assembled :
  forall (P : Type) (p_bytes : P -> str) (p_open : P -> option tarview)
         (arch : nat -> tarview -> P) (raw : str -> P),
    (forall k v, k < 5 -> p_open (arch k v) = Some v) ->
    (forall b, p_bytes (raw b) = b) ->
  forall ms extras cn dn kc kd cv dv info pk,
    kc < 5 -> kd < 5 ->
    In cn (candidates CTRL_PART) -> In dn (candidates DATA_PART) ->
    unrelated P extras = true ->
    Permutation ms ((INFO_PART, raw info) :: (cn, arch kc cv) :: (dn, arch kd dv) :: extras) ->
    control_view_ok pk cv = true ->
    data_view_ok pk dv = true ->
    exists deb, deb_init P p_bytes ms = Ok deb
      /\ d_version deb = strip_by bytes_isspace info
      /\ returns_packed P p_open deb pk.
Proof. exact deb_returns_packed_assembled. Qed.

(** 7. The bridge to the correspondence check (Deb/Check.v), at the instance of the
       model's Section variables that Check.v runs ([payload], [pl_bytes], [pl_open]; the
       tar/codec hypothesis of theorem 6 is met there by [arch _ v := PTar v], by
       computation): for every case — every member list, expectation, query lists and
       observation of both constructors, and the malformed literal [None] — an observation
       that agrees with the model ([agree]) passes the property's judgement ([holds]).
       Acceptance, the DebError-only rejection, the spelling clause on both parts and the
       gate are forced by [agree] for all cases.  The unconditional statement is false on
       one branch: an accepted package with an expectation [Some e], where [holds] compares
       the observed fields / scripts / md5 map / files with [e] — a field of the case that
       [agree] never reads — and the observed FIELDS are compared by [agree] only when the
       control file could not be read (Deb822 is C02's).  [judged] is exactly that conjunct
       ([returned_packed e dqs o], or the member list is not accepted; [true] on every other
       case); it is the weakest side condition ([C07_judged_is_needed]). *)
Theorem C07_agree_implies_holds :
  forall c, judged c = true -> agree c = true -> holds c = true.
Proof. exact agree_implies_holds. Qed.

Theorem C07_judged_is_needed :
  forall c, agree c = true -> judged c = false -> holds c = false.
Proof. exact judged_is_needed. Qed.

(** ... and what [judged] comes from.  Given a witness [pk] that the members the reader
    selects are tar archives carrying [pk] ([packs]: theorem 6's hypotheses, decided),
    an expectation that describes [pk] ([expect_of]: its scripts — distinct maintainer-script
    names —, the map of its md5sums list, its data files — distinct, all queried) and
    observed FIELDS equal to the expected ones ([fields_judged], the Deb822 part this model
    does not contain): agreement gives the whole judgement — scripts, md5 map and every
    data file under its three spellings by theorem 6. *)
Theorem C07_agree_implies_holds_packed :
  forall pk ms e cqs dqs obs,
    packs pk ms = true -> expect_of pk e dqs = true -> fields_judged e obs = true ->
    agree (Some (CDeb ms (Some e) cqs dqs obs)) = true ->
    holds (Some (CDeb ms (Some e) cqs dqs obs)) = true.
Proof. exact agree_implies_holds_packed. Qed.

(** * Non-vacuity *)
Local Open Scope string_scope.
Definition s (x : String.string) : str := Lib.Dec.dec x.

(** part discovery: accepted, rejected for each reason, identical duplicate accepted *)
Example C07_accept_examples :
  deb_open [s "data.tar.xz"; s "_gpgorigin"; s "debian-binary"; s "control.tar.gz"]
    = Ok (s "control.tar.gz", s "data.tar.xz")
  /\ deb_open [s "debian-binary"; s "control.tar"; s "data.tar.lzma"; s "data.tar.lzma"]
    = Ok (s "control.tar", s "data.tar.lzma")
  /\ deb_open [s "control.tar.gz"; s "data.tar.gz"] = Err DebError
  /\ deb_open [s "debian-binary"; s "data.tar.gz"] = Err DebError
  /\ deb_open [s "debian-binary"; s "control.tar.gz"; s "data.tar.zst"] = Err DebError
  /\ deb_open [s "debian-binary"; s "control.tar.gz"; s "control.tar"; s "data.tar"] = Err DebError
  /\ spec_accept [s "data.tar.xz"; s "_gpgorigin"; s "debian-binary"; s "control.tar.gz"] = true
  /\ spec_accept [s "debian-binary"; s "control.tar.gz"; s "control.tar"; s "data.tar"] = false.
Proof. vm_compute. repeat split. Qed.

(** md5sums lines: inner and trailing spaces in names, tab separator, CR LF *)
Definition ex_md5 : list md5_entry :=
  [mkE (s "d41d8cd98f00b204e9800998ecf8427e") (s "  ") (s "usr/share/doc/a b  c.txt") 0;
   mkE (s "900150983cd24fb0d6963f7d28e17f72") [9%N] (s "etc/trailing ") 1;
   mkE (s "0cc175b9c0f1b6a831c399e269772661") (s " ") (s "usr/share/doc/a b  c.txt") 0].

Example C07_md5_nonvacuous :
  forallb entry_ok ex_md5 = true
  /\ md5_lines (readlines (render_md5 ex_md5)) []
     = Ok [(s "usr/share/doc/a b  c.txt", s "0cc175b9c0f1b6a831c399e269772661");
           (s "etc/trailing ", s "900150983cd24fb0d6963f7d28e17f72")].
Proof. vm_compute. repeat split. Qed.

(** the last line without LF; the packed scripts as a map; a key_ok name *)
Example C07_more_nonvacuous :
  md5_lines (readlines (render_md5 ex_md5 ++ render_open (mkE (s "abc") (s "  ") (s "last one") 2))%list) []
    = Ok (md5_dict (ex_md5 ++ [mkE (s "abc") (s "  ") (s "last one") 2])%list)
  /\ nodup_keys [(s "postinst", s "x"); (s "config", [])] = true
  /\ forallb (fun kv => mem (fst kv) MAINT_SCRIPTS) [(s "postinst", s "x"); (s "config", [])] = true
  /\ restrict MAINT_SCRIPTS [(s "config", []); (s "postinst", s "x")] = [(s "postinst", s "x"); (s "config", [])]
  /\ plain_name (s "usr/share/doc/a b  c.txt") = true /\ key_ok (s "usr/share/doc/a b  c.txt") = true
  /\ key_ok (s "dir/") = false /\ plain_name (s "./x") = false.
Proof. vm_compute. repeat split. Qed.

(** a package, assembled in the order data, junk, debian-binary, control, read
    through the very instance the correspondence check runs ([PTar]/[PRaw] payloads:
    [arch k v := PTar v] meets the round-trip hypothesis by computation) *)
Definition ex_pk : package :=
  mkPackage (s "Package: foo\00000aVersion: 1.0\00000a")
            [(s "postinst", s "#!/bin/sh\00000a"); (s "config", [])]
            ex_md5
            [(s "usr/share/doc/a b  c.txt", s "a"); (s "etc/trailing ", [0; 255; 10]%N)].

Definition ex_cv : tarview :=
  [(s ".", None); (s "./md5sums", Some (render_md5 ex_md5)); (s "./config", Some []);
   (s "./control", Some (pk_control ex_pk)); (s "./postinst", Some (s "#!/bin/sh\00000a"))].
Definition ex_dv : tarview :=
  [(s ".", None); (s "./usr", None); (s "./usr/share/doc/a b  c.txt", Some (s "a"));
   (s "./etc", None); (s "./etc/trailing ", Some [0; 255; 10]%N)].
Definition ex_ms : list (str * payload) :=
  [(s "data.tar.bz2", PTar ex_dv); (s "_gpgorigin", PRaw (s "sig")); (s "debian-binary", PRaw (s "2.0\00000a"));
   (s "control.tar.xz", PTar ex_cv)].

Example C07_nonvacuous :
  (forall k v, k < 5 -> pl_open ((fun _ v => PTar v) k v) = Some v)
  /\ (forall b, pl_bytes (PRaw b) = b)
  /\ In (s "control.tar.xz") (candidates CTRL_PART) /\ In (s "data.tar.bz2") (candidates DATA_PART)
  /\ unrelated payload [(s "_gpgorigin", PRaw (s "sig"))] = true
  /\ Permutation ex_ms ((INFO_PART, PRaw (s "2.0\00000a")) :: (s "control.tar.xz", PTar ex_cv)
                        :: (s "data.tar.bz2", PTar ex_dv) :: [(s "_gpgorigin", PRaw (s "sig"))])
  /\ control_view_ok ex_pk ex_cv = true
  /\ data_view_ok ex_pk ex_dv = true
  /\ forallb (fun fb => plain_name (fst fb)) (pk_files ex_pk) = true
  /\ match deb_init payload pl_bytes ex_ms with
     | Ok deb =>
         d_version deb = s "2.0"
         /\ scripts payload pl_open (d_control deb)
            = Ok [(s "postinst", s "#!/bin/sh\00000a"); (s "config", [])]
         /\ part_get_content payload pl_open (d_data deb) (s "/etc/trailing ") = Ok [0; 255; 10]%N
         /\ part_has_file payload pl_open (d_data deb) (s "./usr/share/doc/a b  c.txt") = Ok true
     | Err _ => False
     end.
Proof.
  split; [reflexivity|]. split; [reflexivity|].
  split; [vm_compute; tauto|]. split; [vm_compute; tauto|].
  split; [reflexivity|].
  split.
  { unfold ex_ms. change INFO_PART with (s "debian-binary").
    eapply perm_trans; [apply perm_swap|]. eapply perm_trans; [apply perm_skip; apply perm_swap|].
    eapply perm_trans; [apply perm_swap|]. apply perm_skip.
    eapply perm_trans; [apply perm_skip; apply perm_swap|].
    eapply perm_trans; [apply perm_swap|]. apply perm_skip. apply perm_swap. }
  vm_compute. repeat split.
Qed.

(** the bridge on that package: the witness, the expectation and the observation satisfy
    every hypothesis of 7; with a foreign expectation the case still agrees but does not
    hold (the unconditional statement fails) *)
Definition ex_fields : pairs := [(s "Package", s "foo"); (s "Version", s "1.0")].
Definition ex_exp : expect :=
  mkExp ex_fields (pk_scripts ex_pk) (md5_dict ex_md5) (pk_files ex_pk).
Definition ex_cqs : list str := [s "control"; s "postinst"; s "absent"].
Definition ex_dqs : list str := [s "usr/share/doc/a b  c.txt"; s "etc/trailing "; s "usr"; s "absent"].
Definition ex_obs : result obsrec :=
  match deb_init payload pl_bytes ex_ms with
  | Ok d => Ok (mkObs (s "2.0") (Ok (pk_control ex_pk)) (Ok ex_fields)
                      (Ok [(s "postinst", s "#!/bin/sh\00000a"); (s "config", [])])
                      (Ok [(s "usr/share/doc/a b  c.txt", s "0cc175b9c0f1b6a831c399e269772661");
                           (s "etc/trailing ", s "900150983cd24fb0d6963f7d28e17f72")])
                      (run_queries (d_control d) ex_cqs) (run_queries (d_data d) ex_dqs))
  | Err e => Err e
  end.

Example C07_agree_implies_holds_nonvacuous :
  let c := Some (CDeb ex_ms (Some ex_exp) ex_cqs ex_dqs ex_obs) in
  let c' := Some (CDeb ex_ms (Some (mkExp ex_fields [] (md5_dict ex_md5) (pk_files ex_pk))) ex_cqs ex_dqs ex_obs) in
  packs ex_pk ex_ms = true /\ expect_of ex_pk ex_exp ex_dqs = true /\ fields_judged ex_exp ex_obs = true
  /\ judged c = true /\ agree c = true /\ holds c = true
  /\ judged c' = false /\ agree c' = true /\ holds c' = false.
Proof. vm_compute. repeat split. Qed.

Print Assumptions C07_deb_accept_iff.
Print Assumptions C07_deb_accept_spec.
Print Assumptions C07_reject_is_deberror.
Print Assumptions C07_accepted_parts.
Print Assumptions C07_getmember_is_last.
Print Assumptions C07_gate_passes_candidates.
Print Assumptions C07_spelling_invariant.
Print Assumptions C07_spellings_lookup.
Print Assumptions C07_key_ok_plain.
Print Assumptions C07_md5sums_roundtrip.
Print Assumptions C07_md5sums_roundtrip_open.
Print Assumptions C07_md5_dict_distinct.
Print Assumptions C07_md5sums_missing.
Print Assumptions C07_scripts_exact.
Print Assumptions C07_script_names_match_spec.
Print Assumptions C07_scripts_as_map.
Print Assumptions C07_same_map_refl.
Print Assumptions C07_control_bytes.
Print Assumptions C07_deb_returns_packed.
Print Assumptions C07_deb_returns_packed_assembled.
Print Assumptions C07_agree_implies_holds.
Print Assumptions C07_judged_is_needed.
Print Assumptions C07_agree_implies_holds_packed.
