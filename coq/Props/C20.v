(** C20 — the debtags database keeps its two indexes mutually inverse.  (work in progress) *)
From Verif Require Import Lib.Base Debtags.StrSet Debtags.Model Debtags.Spec.

Definition Inv (c : coll) : Prop :=
  forall p t, In p (packages_of_tag c t) <-> In t (tags_of_package c p).

Theorem C20_inverse_invariant_refuted :
  exists pkg tags, ~ Inv (insert false empty_coll pkg tags).
Proof.
  exists [112; 107; 103]%N, [[116%N]]. intros H.
  specialize (H [112%N] [116%N]). vm_compute in H.
  destruct H as [H _]. apply H. right; right; left; reflexivity.
Qed.
Print Assumptions C20_inverse_invariant_refuted.
