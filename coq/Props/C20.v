(** C20 — the debtags database keeps its two indexes mutually inverse.
    Only statements; every proof is [exact <lemma>].

    Model: Debtags/Model.v (linear layer [step]/[run], heap layer [hstep]);
    spec: Debtags/Spec.v; proofs: Debtags/SetProofs.v, DictProofs.v, Proofs.v. *)
From Verif Require Import Lib.Base Debtags.StrSet Debtags.Model Debtags.Spec Debtags.Proofs.

(** [Inv c] (Debtags/Proofs.v): a package is listed under a tag exactly when the tag
    is listed for the package. *)
Goal forall c, Inv c =
  (forall p t, In p (packages_of_tag c t) <-> In t (tags_of_package c p)).
Proof. reflexivity. Qed.

(** 1. inverse_invariant, model with the one-token repair of K1 ([set((pkg,))]):
       unconditional.  From ANY well-formed collection ([coll_wf]: distinct keys, sets
       sorted, indexes inverse — the empty DB is one) and for ANY sequence of read /
       insert / derivation steps inside the property's domain ([hist_dom]: tag files
       with distinct package names, inserts of packages not yet known), the indexes
       are mutually inverse afterwards. *)
Theorem C20_inverse_invariant_repaired :
  forall c ops, coll_wf c = true -> hist_dom true c ops = true -> Inv (run true c ops).
Proof. exact inverse_invariant_repaired. Qed.

(** 2. inverse_invariant, code as written: under the side condition that no step
       executes K1's trigger ([k1_free]: no first insert under a tag not yet in rdb
       with a package name of length <> 1). *)
Theorem C20_inverse_invariant :
  forall c ops, coll_wf c = true -> hist_dom false c ops = true -> k1_free c ops = true ->
    Inv (run false c ops).
Proof. exact inverse_invariant_faithful. Qed.

(** 3. off the trigger the code as written and the repaired code are the same function *)
Theorem C20_faithful_eq_repaired_off_trigger :
  forall ops c, k1_free c ops = true -> run false c ops = run true c ops.
Proof. exact run_faithful_eq_repaired. Qed.

Theorem C20_insert_eq_repaired_off_trigger :
  forall c pkg tags, ins_trigger c pkg tags = false -> insert false c pkg tags = insert true c pkg tags.
Proof. exact insert_faithful_eq_repaired. Qed.

(** 4. the side condition is exact: an insert that executes the trigger always
       breaks the invariant (whatever the collection). *)
Theorem C20_trigger_breaks_invariant :
  forall c pkg tags, ins_trigger c pkg (set_of_list tags) = true ->
    ~ Inv (insert false c pkg (set_of_list tags)).
Proof. exact trigger_breaks_inv. Qed.

(** 5. K1: the invariant is refuted for the code as written. *)
Theorem C20_inverse_invariant_refuted :
  exists pkg tags, ~ Inv (insert false empty_coll pkg tags).
Proof.
  exists [112; 107; 103]%N, (set_of_list [[116%N]]).
  exact (trigger_breaks_inv empty_coll [112; 107; 103]%N [[116%N]] eq_refl).
Qed.

(** 6. every query method agrees with the reference relation obtained by running
       the Spec operations on the relation the initial collection stands for. *)
Theorem C20_queries_agree_repaired :
  forall c ops, coll_wf c = true -> hist_dom true c ops = true ->
    queries_agree (run true c ops) (spec_run (rel_of c) ops).
Proof. exact queries_agree_repaired. Qed.

Theorem C20_queries_agree :
  forall c ops, coll_wf c = true -> hist_dom false c ops = true -> k1_free c ops = true ->
    queries_agree (run false c ops) (spec_run (rel_of c) ops).
Proof. exact queries_agree_faithful. Qed.

(** [choose_packages_copy] raises KeyError exactly when the Spec says so *)
Theorem C20_choose_copy_keyerror :
  forall fx c ops l, coll_wf c = true -> hist_dom true c ops = true ->
    step fx (run true c ops) (OChooseCopy l) = Err KeyError
    <-> forallb (q_has_package (spec_run (rel_of c) ops)) l = false.
Proof.
  intros fx c ops l Hc Hd. apply choose_copy_error, run_repr; [now apply coll_wf_repr|assumption].
Qed.

Print Assumptions C20_inverse_invariant_repaired.
Print Assumptions C20_inverse_invariant.
Print Assumptions C20_faithful_eq_repaired_off_trigger.
Print Assumptions C20_insert_eq_repaired_off_trigger.
Print Assumptions C20_trigger_breaks_invariant.
Print Assumptions C20_inverse_invariant_refuted.
Print Assumptions C20_queries_agree_repaired.
Print Assumptions C20_queries_agree.
Print Assumptions C20_choose_copy_keyerror.
