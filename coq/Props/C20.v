(** C20 — the debtags database keeps its two indexes mutually inverse.
    Only statements; every proof is [exact <lemma>] (or a two-line composition).

    Model: Debtags/Model.v — LINEAR layer ([insert], [step], [run]: one collection
    value) and HEAP layer ([h_insert], [hstep]: set and dict objects with
    references, several live DB objects; this is the function the correspondence
    check runs).  Spec: Debtags/Spec.v (a finite relation; several objects with
    sharing groups).  Proofs: Debtags/SetProofs.v, DictProofs.v, Proofs.v (linear),
    HeapBase.v, HeapInsert.v, HeapDerive.v, HeapWf.v, HeapSim.v, HeapTheorems.v,
    CheckProofs.v (the link to the predicates [agree] / [holds] of Debtags/Check.v). *)
From Coq Require Import String.
From Verif Require Import Lib.Base Lib.Dec Debtags.StrSet Debtags.Model Debtags.Spec
  Debtags.Check Debtags.Proofs Debtags.HeapWf Debtags.HeapSim Debtags.HeapTheorems
  Debtags.CheckProofs.

(** [Inv c]: a package is listed under a tag exactly when the tag is listed for
    the package. *)
Goal forall c, Inv c =
  (forall p t, In p (packages_of_tag c t) <-> In t (tags_of_package c p)).
Proof. reflexivity. Qed.

(** * A. One collection (linear layer) *)

(** 1. inverse_invariant for the model with the one-token repair of K1
       ([set((pkg,))]): unconditional.  From ANY well-formed collection
       ([coll_wf]: distinct keys, sorted sets, indexes inverse; the empty DB is
       one) and for ANY sequence of read / insert / derivation steps inside the
       property's domain ([hist_dom]: tag files with distinct package names, inserts
       of packages not yet known, [facet_collection] iterating over exactly the
       packages of the collection), the indexes are mutually inverse afterwards. *)
Theorem C20_inverse_invariant_repaired :
  forall c ops, coll_wf c = true -> hist_dom true c ops = true -> Inv (run true c ops).
Proof. exact inverse_invariant_repaired. Qed.

(** 2. inverse_invariant for the code as written, under the side condition that
       no step executes K1's trigger ([k1_free]: no first insert under a tag not yet
       in rdb with a package name of length <> 1, directly or inside
       facet_collection). *)
Theorem C20_inverse_invariant :
  forall c ops, coll_wf c = true -> hist_dom false c ops = true -> k1_free c ops = true ->
    Inv (run false c ops).
Proof. exact inverse_invariant_faithful. Qed.

(** 3. faithful_eq_repaired_off_trigger *)
Theorem C20_faithful_eq_repaired_off_trigger :
  forall ops c, k1_free c ops = true -> run false c ops = run true c ops.
Proof. exact run_faithful_eq_repaired. Qed.

Theorem C20_insert_eq_repaired_off_trigger :
  forall c pkg tags, ins_trigger c pkg tags = false -> insert false c pkg tags = insert true c pkg tags.
Proof. exact insert_faithful_eq_repaired. Qed.

(** 4. the side condition is exact: an insert that executes the trigger breaks the
       invariant, whatever the collection. *)
Theorem C20_trigger_breaks_invariant :
  forall c pkg tags, ins_trigger c pkg (set_of_list tags) = true ->
    ~ Inv (insert false c pkg (set_of_list tags)).
Proof. exact trigger_breaks_inv. Qed.

(** 5. inverse_invariant_refuted (finding K1): insert "pkg" {"t"} on the empty DB. *)
Theorem C20_inverse_invariant_refuted :
  exists pkg tags, ~ Inv (insert false empty_coll pkg tags).
Proof.
  exists [112; 107; 103]%N, (set_of_list [[116%N]]).
  exact (trigger_breaks_inv empty_coll [112; 107; 103]%N [[116%N]] eq_refl).
Qed.

(** 6. every query method (tags_of_package, packages_of_tag, card, has_package,
       has_tag, package_count, tag_count) agrees with the reference relation
       obtained by running the Spec operations on the relation the initial
       collection stands for. *)
Theorem C20_queries_agree_repaired :
  forall c ops, coll_wf c = true -> hist_dom true c ops = true ->
    queries_agree (run true c ops) (spec_run (rel_of c) ops).
Proof. exact queries_agree_repaired. Qed.

Theorem C20_queries_agree :
  forall c ops, coll_wf c = true -> hist_dom false c ops = true -> k1_free c ops = true ->
    queries_agree (run false c ops) (spec_run (rel_of c) ops).
Proof. exact queries_agree_faithful. Qed.

(** [choose_packages_copy] raises KeyError exactly when the Spec says a requested
    package is unknown *)
Theorem C20_choose_copy_keyerror :
  forall fx c ops l, coll_wf c = true -> hist_dom true c ops = true ->
    step fx (run true c ops) (OChooseCopy l) = Err KeyError
    <-> forallb (q_has_package (spec_run (rel_of c) ops)) l = false.
Proof.
  intros fx c ops l Hc Hd. apply choose_copy_error, run_repr; [now apply coll_wf_repr|assumption].
Qed.

(** the module-level functions: [reverse(db)] is the inverse index of any dict;
    in particular of [read_tag_database(f)]; and [read_tag_database_both_ways(f)]
    is the pair of the two one-way readers. *)
Theorem C20_reverse_is_inverse_index :
  forall d : dict, nodupb (keys d) = true -> Inv (of_db d).
Proof. exact reverse_inverse. Qed.

Theorem C20_read_then_reverse_inverse : forall lines, Inv (of_db (read_db lines)).
Proof. exact read_db_reverse_inverse. Qed.

Theorem C20_read_both_ways_components :
  forall lines, read_both None lines = (read_db lines, read_db_reversed lines).
Proof. exact read_both_components. Qed.

(** * B. Several live objects (heap layer: the functions [agree] runs) *)

(** 7. In every reachable state, [DB.insert] changes the receiver exactly as the
       linear [insert] of part A says (so theorems 1-6 speak about [h_insert]). *)
Theorem C20_heap_insert_is_linear_insert :
  forall fx ops o ob pkg tags,
    let st := hrun fx empty_state ops in
    nth_error (st_objs st) o = Some ob ->
    let st' := hstate_of (hstep fx st (HInsert o pkg tags)) in
    nth_error (st_objs st') o = Some ob
    /\ view (st_heap st') ob = insert fx (view (st_heap st) ob) pkg (set_of_list tags).
Proof. exact heap_insert_is_linear. Qed.

(** 8. inverse_invariant for ANY history of operations on ANY number of live
       objects (DB(), read, insert, and every derivation applied to any object,
       inserts into sources and results alike): every object that the Spec still
       specifies ([so_valid]: not a partner, documented as "sharing tagsets", of an
       object that was modified; not read from a file with a repeated package; no
       re-insert) has mutually inverse indexes, and all its queries agree with its
       reference relation.  Repaired insert: unconditional; as written: off the trigger. *)
Theorem C20_heap_inverse_invariant_repaired :
  forall ops i, hops_dom true empty_state ops = true ->
    obj_ok (hrun true empty_state ops) (srun true empty_state s_init ops) i.
Proof. exact heap_inverse_invariant_repaired. Qed.

Theorem C20_heap_inverse_invariant :
  forall ops i, hops_dom false empty_state ops = true -> hk1_free empty_state ops = true ->
    obj_ok (hrun false empty_state ops) (srun false empty_state s_init ops) i.
Proof. exact heap_inverse_invariant_faithful. Qed.

Goal forall st ss i, obj_ok st ss i =
  (forall ob so,
    nth_error (st_objs st) i = Some ob -> nth_error (ss_objs ss) i = Some so -> so_valid so = true ->
    Inv (view (st_heap st) ob) /\ queries_agree (view (st_heap st) ob) (so_rel so)).
Proof. reflexivity. Qed.

Theorem C20_heap_faithful_eq_repaired_off_trigger :
  forall ops, hk1_free empty_state ops = true -> hrun false empty_state ops = hrun true empty_state ops.
Proof. exact (fun ops => hrun_faithful_eq_repaired ops empty_state hwf_empty). Qed.

(** 9. copy_independent: in any reachable state, after [c' = c.copy()], ANY
       interleaving of inserts into [c] and [c'] leaves each of the two looking
       exactly as if only its own inserts had happened (D16: with the shallow
       copy of the unrepaired tree this fails). *)
Theorem C20_copy_independent :
  forall fx ops o ob (l : mixed),
    let st := hrun fx empty_state ops in
    nth_error (st_objs st) o = Some ob ->
    let st1 := hstate_of (hstep fx st (HCopy o)) in
    let o' := length (st_objs st) in
    exists ob',
      nth_error (st_objs st1) o' = Some ob'
      /\ nth_error (st_objs st1) o = Some ob
      /\ view (st_heap st1) ob' = view (st_heap st) ob
      /\ let st2 := hrun fx st1 (to_hops o o' l) in
         st_objs st2 = st_objs st1
         /\ view (st_heap st2) ob = lin_inserts fx (view (st_heap st) ob) (pick false l)
         /\ view (st_heap st2) ob' = lin_inserts fx (view (st_heap st) ob) (pick true l).
Proof. exact copy_independent. Qed.

(** the same for every derivation documented as returning a copy (copy,
    reverse_copy, choose_packages_copy, filter_packages_copy,
    filter_packages_tags_copy, filter_tags_copy, facet_collection): the source and
    the result evolve independently under any interleaving of inserts. *)
Theorem C20_copying_derivations_independent :
  forall fx ops op o ob (l : mixed),
    let st := hrun fx empty_state ops in
    copying_of op = Some o -> nth_error (st_objs st) o = Some ob ->
    herr_of (hstep fx st op) = None ->
    let st1 := hstate_of (hstep fx st op) in
    let o' := length (st_objs st) in
    exists ob',
      nth_error (st_objs st1) o' = Some ob'
      /\ nth_error (st_objs st1) o = Some ob
      /\ view (st_heap st1) ob = view (st_heap st) ob
      /\ let st2 := hrun fx st1 (to_hops o o' l) in
         st_objs st2 = st_objs st1
         /\ view (st_heap st2) ob = lin_inserts fx (view (st_heap st) ob) (pick false l)
         /\ view (st_heap st2) ob' = lin_inserts fx (view (st_heap st1) ob') (pick true l).
Proof. exact copying_independent. Qed.

(** * C. The predicates of the correspondence check *)

(** 10. For EVERY history the harness can produce ([hist_wf]: operations name live
        objects, the records given with a read are those of its lines, the order
        given with a facet_collection is the receiver's), the answers predicted by
        the model with the repaired insert satisfy [holds_run] — the very predicate
        by which [holds] judges the implementation's answers: mutual inverse of the
        observed indexes and agreement of all queries with the Spec for every
        object the Spec still specifies.  For the code as written: off the trigger. *)
Theorem C20_repaired_model_satisfies_holds :
  forall probes cops, hist_wf empty_state cops = true ->
    holds_run probes s_init cops (model_obs true probes empty_state (map to_hop cops)) = true.
Proof. exact repaired_model_holds. Qed.

Theorem C20_faithful_model_satisfies_holds :
  forall probes cops, hist_wf empty_state cops = true ->
    hk1_free empty_state (map to_hop cops) = true ->
    holds_run probes s_init cops (model_obs false probes empty_state (map to_hop cops)) = true.
Proof. exact faithful_model_holds. Qed.

(** 11. Hence, on trigger-free histories, a case on which the implementation agrees
        with the model satisfies the property: [agree] implies [holds]. *)
Theorem C20_agree_implies_holds :
  forall probes ops (obs : list fstep),
    hist_wf empty_state ops = true -> hk1_free empty_state (map to_hop ops) = true ->
    list_eqb fstep_eqb (model_obs false probes empty_state (map to_hop ops)) obs = true ->
    holds_run probes s_init ops obs = true.
Proof. exact agree_implies_holds. Qed.

(** ([agree] and [holds] of a history case are, by definition, these two
    expressions with [obs] the decoded observations of the implementation; the
    theorem is stated on the decoded list so that it does not mention the
    primitive-integer packing of the case files.) *)
Goal forall probes ops obs,
  agree (Hist probes ops obs)
  = list_eqb fstep_eqb (model_obs false (map dec probes) empty_state (map to_hop ops)) (expand [] obs)
  /\ holds (Hist probes ops obs) = holds_run (map dec probes) s_init ops (expand [] obs).
Proof. intros. split; reflexivity. Qed.

(** * Non-vacuity *)

Local Open Scope string_scope.

(** a linear history inside the domain, trigger-free, touching every kind of step *)
Definition ex_ops : list op :=
  [ORead [dec "a, b: role::program, use::editing"; dec "c: use::editing"; dec "d"] None;
   OInsert (dec "e") [dec "use::editing"; dec "role::program"];
   OFilterT (fun t => negb (str_eqb t (dec "zz")));
   OChooseCopy [dec "a"; dec "c"; dec "e"];
   OReverse; OReverseCopy;
   OFilterPT (fun p ts => (1 <=? length ts)%nat);
   OFacet [dec "a"; dec "c"; dec "e"];
   OCopy].

Example C20_nonvacuous_linear :
  coll_wf empty_coll = true
  /\ hist_dom false empty_coll ex_ops = true /\ hist_dom true empty_coll ex_ops = true
  /\ k1_free empty_coll ex_ops = true
  /\ package_count (run false empty_coll ex_ops) = 3%nat
  /\ packages_of_tag (run false empty_coll ex_ops) (dec "use") = [dec "a"; dec "c"; dec "e"]
  /\ q_pkgs_of (spec_run (rel_of empty_coll) ex_ops) (dec "use") = [dec "a"; dec "c"; dec "e"]
  /\ ins_trigger empty_coll (dec "pkg") (set_of_list [dec "t"]) = true.
Proof. vm_compute. repeat split. Qed.

(** a heap history: four live objects, a sharing derivation, a copy, inserts into
    source and copy, facet_collection *)
Definition ex_hops : list hop :=
  [HNew;
   HRead 0 [dec "a, b: role::program, use::editing"; dec "c: use::editing"] None;
   HCopy 0;
   HInsert 1 (dec "d") [dec "use::editing"];
   HFilterT 0 (fun t => str_eqb t (dec "use::editing"));
   HInsert 0 (dec "e") [dec "role::program"];
   HFacet 1 [dec "a"; dec "b"; dec "c"; dec "d"]].

Example C20_nonvacuous_heap :
  hops_dom false empty_state ex_hops = true /\ hops_dom true empty_state ex_hops = true
  /\ hk1_free empty_state ex_hops = true
  /\ map so_valid (ss_objs (srun false empty_state s_init ex_hops)) = [true; true; false; true]
  /\ map (fun ob => package_count (view (st_heap (hrun false empty_state ex_hops)) ob))
         (st_objs (hrun false empty_state ex_hops)) = [4; 4; 3; 4]%nat.
Proof. vm_compute. repeat split. Qed.

(** the hypotheses of 9: a live object of a reachable state and a copying derivation
    that does not raise *)
Example C20_nonvacuous_copy :
  exists ob,
    nth_error (st_objs (hrun false empty_state ex_hops)) 1 = Some ob
    /\ package_count (view (st_heap (hrun false empty_state ex_hops)) ob) = 4%nat
    /\ copying_of (HChooseCopy 1 [dec "a"; dec "d"]) = Some 1%nat
    /\ herr_of (hstep false (hrun false empty_state ex_hops) (HChooseCopy 1 [dec "a"; dec "d"])) = None.
Proof. eexists. vm_compute. repeat split. Qed.

Definition ex_cops : list cop :=
  [CNew;
   CRead 0 ["a, b: role::program, use::editing"; "c: use::editing"] None
         [(["a"; "b"], ["role::program"; "use::editing"]); (["c"], ["use::editing"])];
   CCopy 0;
   CInsert 1 "d" ["use::editing"];
   CFilterT 0 (PIn ["use::editing"]);
   CInsert 0 "e" ["role::program"];
   CChooseCopy 1 ["a"; "zz"];
   CFacet 1 ["a"; "b"; "c"; "d"]].

Example C20_nonvacuous_check :
  hist_wf empty_state ex_cops = true
  /\ hk1_free empty_state (map to_hop ex_cops) = true
  /\ map f_err (model_obs false [dec "a"] empty_state (map to_hop ex_cops))
     = [None; None; None; None; None; None; Some KeyError; None].
Proof. vm_compute. repeat split. Qed.

Print Assumptions C20_inverse_invariant_repaired.
Print Assumptions C20_inverse_invariant.
Print Assumptions C20_faithful_eq_repaired_off_trigger.
Print Assumptions C20_insert_eq_repaired_off_trigger.
Print Assumptions C20_trigger_breaks_invariant.
Print Assumptions C20_inverse_invariant_refuted.
Print Assumptions C20_queries_agree_repaired.
Print Assumptions C20_queries_agree.
Print Assumptions C20_choose_copy_keyerror.
Print Assumptions C20_reverse_is_inverse_index.
Print Assumptions C20_read_then_reverse_inverse.
Print Assumptions C20_read_both_ways_components.
Print Assumptions C20_heap_insert_is_linear_insert.
Print Assumptions C20_heap_inverse_invariant_repaired.
Print Assumptions C20_heap_inverse_invariant.
Print Assumptions C20_heap_faithful_eq_repaired_off_trigger.
Print Assumptions C20_copy_independent.
Print Assumptions C20_copying_derivations_independent.
Print Assumptions C20_repaired_model_satisfies_holds.
Print Assumptions C20_faithful_model_satisfies_holds.
Print Assumptions C20_agree_implies_holds.
