(** C07 — tie by regeneration.  Only statements; every proof is [exact <lemma>] (lemmas in Deb/Tie.v).

    Gen/TrDebFile.v is REGENERATED from lib/debian/debfile.py by harness/py2coq.py on every run: the bodies, as the
    working tree has them now, of
      DebFile.__init__ (METHOD MODE) with its nested helper compressed_part_name,
      DebPart.__normalize_member, has_file, get_file, get_content, __contains__, __getitem__,
      DebControl.scripts, debcontrol, md5sums,
      DebFile.version, data, control (properties), debcontrol, scripts, md5sums (delegating methods).
    The constants DATA_PART, CTRL_PART, PART_EXTS, INFO_PART, MAINT_SCRIPTS, CONTROL_FILE, MD5_FILE in them are the
    generated tables of Gen/DebConsts.v.  The theorems say that each regenerated function computes the model function
    of Deb/Model.v that [Deb.Check.agree] runs and that the theorems of Props/C07.v are about — the same value or the
    same exception kind — for ALL payload types [P] with [p_bytes] / [p_open] (the Section variables of the model:
    ArMember.read() and tarfile.open), ALL member lists, parts and file names.

    Still hand-modelled inside them (Deb/TrPrims.v, each DEFINED as the model's own leaf): the ArFile base class
    (ArFile.__init__ leaves the member list [ms]; getnames / getmember over it = [map fst] / [ar_getmember]);
    DebPart.tgz() = the model's [tgz] (extension gate + [p_open]: the assumed tar / codec oracle, exactly the
    hypothesis [tgz pt = Ok v] of Props/C07.v); TarFile.getnames / extractfile over the listing ([tar_getmember]);
    a set of str as a duplicate-free list; the dict [__parts]; bytes.strip / rstrip / split(None, 1) / decode /
    startswith and file.readlines ([strip_by], [rstrip_by], [split_none_1], [utf8_decode], [startswith],
    [readlines]); Deb822(...) as the argument it is given ([Deb822_of]: the object is C02's).
    Text mode (encoding is not None) is translated but is outside the model: the tie theorems of get_content and
    md5sums are for encoding = None (guard), which is how [agree] and the driver call them.  Not regenerated:
    DebPart.tgz, __iter__, close, DebFile.changelog, __updatePkgName, close. *)
From Coq Require Import String.
From Verif Require Import Lib.Base Lib.Dec Lib.PyStr Lib.Tr Gen.DebConsts Deb.Model Deb.Payload Deb.TrPrims
  Gen.TrDebFile Deb.Tie.

(** * 1. DebFile.__init__ *)

(** compressed_part_name(basename), the nested helper, with [actual_names = set(names)]: the single candidate
    present, DebError when none ("missing required part") or several ("too many parts") *)
Theorem C07_tie_compressed_part_name :
  forall (names : list str) (basename : str),
    tr_compressed_part_name (trp_set names) basename = compressed_part_name names basename.
Proof. exact tr_compressed_part_name_set. Qed.
Print Assumptions C07_tie_compressed_part_name.

(** ... and for ANY list representing the set of names (with or without duplicates, in any order) *)
Theorem C07_tie_compressed_part_name_any :
  forall (s : list str) (basename : str),
    tr_compressed_part_name s basename = compressed_part_name s basename.
Proof. exact tr_compressed_part_name_eq. Qed.
Print Assumptions C07_tie_compressed_part_name_any.

(** DebFile(filename, mode, fileobj) on an archive whose members are [ms] (what ArFile.__init__ collects), from ANY
    prior attribute values: the caller's view of the outcome — the exception kind, or the object read through its
    properties control / data / version — is [deb_init ms] *)
Theorem C07_tie_init :
  forall (P : Type) (p_bytes : P -> str) (ms : list (str * P)) s0 pa0 pk0 v0 filename mode fileobj,
    init_view (tr_debfile_init P p_bytes ms s0 pa0 pk0 v0 filename mode fileobj) = deb_init P p_bytes ms.
Proof. exact tr_debfile_init_eq. Qed.
Print Assumptions C07_tie_init.

(** ... and on success the whole object: the members, [__parts] = {CTRL_PART: control, DATA_PART: data} (two
    entries: the generated constants differ), [__pkgname] = None, [__version] *)
Theorem C07_tie_init_state :
  forall (P : Type) (p_bytes : P -> str) (ms : list (str * P)) s0 pa0 pk0 v0 filename mode fileobj,
    match deb_init P p_bytes ms with
    | Ok d => tr_debfile_init P p_bytes ms s0 pa0 pk0 v0 filename mode fileobj
              = MOk tt (Some ms, deb_parts d, None, d_version d)
    | Err e => exists st, tr_debfile_init P p_bytes ms s0 pa0 pk0 v0 filename mode fileobj = MErr e st
    end.
Proof. exact tr_debfile_init_full. Qed.
Print Assumptions C07_tie_init_state.

(** * 2. DebPart *)
Theorem C07_tie_normalize_member :
  forall fname, tr_normalize_member fname = Ok (normalize_member fname).
Proof. exact tr_normalize_member_eq. Qed.
Print Assumptions C07_tie_normalize_member.

Theorem C07_tie_has_file :
  forall (P : Type) (p_open : P -> option tarview) (pt : part P) fname,
    tr_has_file P p_open pt fname = part_has_file P p_open pt fname.
Proof. exact tr_has_file_eq. Qed.
Print Assumptions C07_tie_has_file.

(** get_file(fname, encoding, errors): KeyError / DebError / the file object — the member's bytes, as they are
    (encoding None) or wrapped by io.TextIOWrapper *)
Theorem C07_tie_get_file :
  forall (P : Type) (p_open : P -> option tarview) (pt : part P) fname encoding errors,
    tr_get_file P p_open pt fname encoding errors
    = do b <- part_get_content P p_open pt fname;
      Ok (match encoding with None => FBytes b | Some enc => FText b enc errors end).
Proof. exact tr_get_file_eq. Qed.
Print Assumptions C07_tie_get_file.

(** get_content(fname, None, errors) and get_content(fname) (the defaults of the source): never None *)
Theorem C07_tie_get_content :
  forall (P : Type) (p_open : P -> option tarview) (pt : part P) fname errors,
    tr_get_content P p_open pt fname None errors = do b <- part_get_content P p_open pt fname; Ok (Some b).
Proof. exact tr_get_content_eq. Qed.
Print Assumptions C07_tie_get_content.

Theorem C07_tie_get_content_default :
  forall (P : Type) (p_open : P -> option tarview) (pt : part P) fname,
    tr_get_content1 P p_open pt fname = do b <- part_get_content P p_open pt fname; Ok (Some b).
Proof. exact tr_get_content1_eq. Qed.
Print Assumptions C07_tie_get_content_default.

Theorem C07_tie_contains :
  forall (P : Type) (p_open : P -> option tarview) (pt : part P) fname,
    tr_contains P p_open pt fname = part_has_file P p_open pt fname.
Proof. exact tr_contains_eq. Qed.
Print Assumptions C07_tie_contains.

Theorem C07_tie_getitem :
  forall (P : Type) (p_open : P -> option tarview) (pt : part P) fname,
    tr_getitem P p_open pt fname = do b <- part_get_content P p_open pt fname; Ok (Some b).
Proof. exact tr_getitem_eq. Qed.
Print Assumptions C07_tie_getitem.

(** * 3. DebControl *)
Theorem C07_tie_scripts :
  forall (P : Type) (p_open : P -> option tarview) (pt : part P),
    tr_scripts P p_open pt = scripts P p_open pt.
Proof. exact tr_scripts_eq. Qed.
Print Assumptions C07_tie_scripts.

(** debcontrol(): Deb822 of the bytes that [control_bytes] names *)
Theorem C07_tie_debcontrol :
  forall (P : Type) (p_open : P -> option tarview) (pt : part P),
    tr_debcontrol P p_open pt = do b <- control_bytes P p_open pt; Ok (Deb822_of (Some b)).
Proof. exact tr_debcontrol_eq. Qed.
Print Assumptions C07_tie_debcontrol.

(** md5sums(encoding=None, errors): the file object is binary, its lines are bytes ([is_bytes = true]) *)
Theorem C07_tie_md5sums :
  forall (P : Type) (p_open : P -> option tarview) (pt : part P) errors,
    tr_md5sums P p_open true pt None errors = md5sums P p_open pt.
Proof. exact tr_md5sums_eq. Qed.
Print Assumptions C07_tie_md5sums.

(** * the properties and delegating methods of DebFile, on the object that __init__ leaves ([C07_tie_init_state]) *)
Theorem C07_tie_debfile_version : forall v, tr_debfile_version v = Ok v.
Proof. exact tr_debfile_version_eq. Qed.
Print Assumptions C07_tie_debfile_version.

Theorem C07_tie_debfile_control :
  forall (P : Type) (d : debfile P), tr_debfile_control P (deb_parts d) = Ok (d_control d).
Proof. exact @tr_debfile_control_eq. Qed.
Print Assumptions C07_tie_debfile_control.

Theorem C07_tie_debfile_data :
  forall (P : Type) (d : debfile P), tr_debfile_data P (deb_parts d) = Ok (d_data d).
Proof. exact @tr_debfile_data_eq. Qed.
Print Assumptions C07_tie_debfile_data.

Theorem C07_tie_debfile_debcontrol :
  forall (P : Type) (p_open : P -> option tarview) (d : debfile P),
    tr_debfile_debcontrol P p_open (deb_parts d)
    = do b <- control_bytes P p_open (d_control d); Ok (Deb822_of (Some b)).
Proof. exact tr_debfile_debcontrol_eq. Qed.
Print Assumptions C07_tie_debfile_debcontrol.

Theorem C07_tie_debfile_scripts :
  forall (P : Type) (p_open : P -> option tarview) (d : debfile P),
    tr_debfile_scripts P p_open (deb_parts d) = scripts P p_open (d_control d).
Proof. exact tr_debfile_scripts_eq. Qed.
Print Assumptions C07_tie_debfile_scripts.

Theorem C07_tie_debfile_md5sums :
  forall (P : Type) (p_open : P -> option tarview) (d : debfile P) errors,
    tr_debfile_md5sums P p_open true (deb_parts d) None errors = md5sums P p_open (d_control d).
Proof. exact tr_debfile_md5sums_eq. Qed.
Print Assumptions C07_tie_debfile_md5sums.

(** * non-vacuity: the regenerated code really runs (on the payload instance that [agree] uses) *)
Local Open Scope string_scope.
Definition s (x : String.string) : str := Lib.Dec.dec x.

Definition ex_cv : tarview :=
  [(s ".", None); (s "./md5sums", Some (s "abc  usr/bin/a b\00000adef\000009x\00000d\00000a"));
   (s "./control", Some (s "Package: foo\00000a")); (s "./postinst", Some (s "#!/bin/sh\00000a")); (s "./prerm", None)].
Definition ex_ms : list (str * payload) :=
  [(s "data.tar.bz2", PTar [(s "./usr", None); (s "./usr/f", Some (s "x"))]); (s "_gpgorigin", PRaw (s "sig"));
   (s "debian-binary", PRaw (s " 2.0\00000a")); (s "control.tar.xz", PTar ex_cv)].
Definition ex_ctl : part payload := (s "control.tar.xz", PTar ex_cv).

Example C07_tie_runs :
  tr_debfile_init payload pl_bytes ex_ms None [] (Some (s "junk")) (s "junk") None (s "r") (Some tt)
  = MOk tt (Some ex_ms,
            [(s "control.tar", ex_ctl); (s "data.tar", (s "data.tar.bz2", PTar [(s "./usr", None); (s "./usr/f", Some (s "x"))]))],
            None, s "2.0")
  /\ tr_debfile_init payload pl_bytes (ex_ms ++ [(s "control.tar", PRaw [])])%list None [] None [] None (s "r") None
     = MErr DebError (Some (ex_ms ++ [(s "control.tar", PRaw [])])%list, [], None, [])
  /\ tr_debfile_init payload pl_bytes (tl ex_ms) None [] None [] None (s "r") None
     = MErr DebError (Some (tl ex_ms), [(s "control.tar", ex_ctl)], None, [])
  /\ tr_has_file payload pl_open ex_ctl (s "/postinst") = Ok true
  /\ tr_get_content1 payload pl_open ex_ctl (s "./control") = Ok (Some (s "Package: foo\00000a"))
  /\ tr_get_content1 payload pl_open ex_ctl (s "prerm") = Err DebError
  /\ tr_get_content1 payload pl_open ex_ctl (s "nope") = Err KeyError
  /\ tr_scripts payload pl_open ex_ctl = Err DebError
  /\ tr_md5sums payload pl_open true ex_ctl None None = Ok [(s "usr/bin/a b", s "abc"); (s "x", s "def")]
  /\ tr_md5sums payload pl_open true ex_ctl (Some (s "utf-8")) None = Err OutOfFuel
  /\ tr_debfile_scripts payload pl_open [(s "control.tar", (s "control.tar.gz", PTar [(s "./config", Some (s "c"))]))]
     = Ok [(s "config", s "c")].
Proof. vm_compute. repeat split. Qed.
