(** C13 — tie by regeneration.  Only statements; every proof is [exact <lemma>] (Deb822/RelationTie.v).

    Gen/TrRelation.v is REGENERATED from lib/debian/deb822.py by harness/py2coq.py on every run.

    Formatter: [tr_pp_arch], [tr_pp_restrictions], [tr_pp_atomic_dep], [tr_rel_str] are the Python bodies of
    the nested helpers [pp_arch], [pp_restrictions], [pp_atomic_dep] of [PkgRelation.str] and of
    [PkgRelation.str] itself as the working tree has them now ('%s%s' % (…) as concatenation, the for-loop
    with [s.append] as a structural Fixpoint, [dep.get(key) is not None] / [dep[key]] on the relation
    dict, [' (%s %s)' % v] on the version pair, [sep.join(map(f, l))] with the lambda and the nested
    helpers as the functions mapped).

    Parser: [tr_parse_archs], [tr_parse_restrictions], [tr_parse_rel], [tr_parse_relations] are the bodies of
    the nested helpers [parse_archs], [parse_restrictions], [parse_rel] of [PkgRelation.parse_relations] and
    of [parse_relations] itself: the loops (nested in parse_restrictions) as structural Fixpoints, [arch[0]]
    with its IndexError, [arch[1:]], [if match:] on the match objects, [parts[key]] on the groupdicts, the
    truth values of the Optional groups, the dict literal and [d[key] = …], the lazy
    [map(cls.__pipe_sep_RE.split, tl_deps)] and the final nested comprehension.  [warnings.warn] is a
    primitive on a hidden state — the number of warnings emitted so far —, so [tr_parse_rel] and
    [tr_parse_relations] take that number and return the number reached (METHOD MODE, [mres]); inside the
    comprehension the state is threaded from element to element ([tr_mapS]).

    The theorems say that, for ALL inputs, the regenerated functions compute exactly the hand-written
    model functions of Deb822/Relation.v — the ones the theorems of Props/C13.v are about and that
    [agree] runs ([rel_str], [pp_atomic], [pp_group], [pp_term]; [parse_relations], [parse_rel],
    [parse_restrictions], [parse_archs]) —: the same string; the same parsed structure and the same number
    of warnings, or the same exception kind (IndexError of parse_archs).  Where the model is total the
    regenerated code is shown never to raise (the KeyError of [dep['archqual']], the AttributeError of
    [raw.strip()] on None inside parse_rel, the "unrendered" version pair with a None component are
    unreachable).  No guard, no fuel.  [mres_result] reads a translated [mres] in the model's shape:
    value and final state on return, exception kind otherwise.

    Still hand-modelled inside them (Deb822/RelationTrPrims.v): the six regex leaves (each DEFINED as the
    model's leaf — [match_dep], [sep_split], [blank_split], [restr_split], [parse_term]; pattern texts
    asserted by the translator), [str.strip/lower/join] as the instances of Lib/PyStr.v the model uses
    ([lower] = ASCII), the relation dict as the model's Record [rel] (a missing key = a None-valued key =
    [None]; 'name' always present), the namedtuples ArchRestriction / BuildRestriction as the model's
    [term], [warnings.warn] as "one more warning" (no filter turning it into an exception). *)
From Verif Require Import Lib.Base Lib.PyStr Lib.Tr Deb822.Relation Deb822.RelationTrPrims Gen.TrRelation
  Deb822.RelationTie.

Theorem C13_tie_pp_arch : forall t, tr_pp_arch t = Ok (pp_term t).
Proof. exact tr_pp_arch_eq. Qed.
Print Assumptions C13_tie_pp_arch.

Theorem C13_tie_pp_restrictions : forall g, tr_pp_restrictions g = Ok (pp_group g).
Proof. exact tr_pp_restrictions_eq. Qed.
Print Assumptions C13_tie_pp_restrictions.

Theorem C13_tie_pp_atomic_dep : forall d, tr_pp_atomic_dep d = Ok (pp_atomic d).
Proof. exact tr_pp_atomic_dep_eq. Qed.
Print Assumptions C13_tie_pp_atomic_dep.

(** PkgRelation.str(rels) *)
Theorem C13_tie_str : forall rels, tr_rel_str rels = Ok (rel_str rels).
Proof. exact tr_rel_str_eq. Qed.
Print Assumptions C13_tie_str.

(** parse_archs(raw) (on None: the AttributeError of [raw.strip()], never reached from parse_rel) *)
Theorem C13_tie_parse_archs :
  forall o, tr_parse_archs o = match o with Some raw => parse_archs raw | None => Err OtherError end.
Proof. exact tr_parse_archs_eq. Qed.
Print Assumptions C13_tie_parse_archs.

Theorem C13_tie_parse_restrictions :
  forall o, tr_parse_restrictions o
            = match o with Some raw => Ok (parse_restrictions raw) | None => Err OtherError end.
Proof. exact tr_parse_restrictions_eq. Qed.
Print Assumptions C13_tie_parse_restrictions.

(** parse_rel(raw) after [n] warnings: the model's structure, and one more warning exactly when the
    model's flag is set; on the exception no warning has been emitted *)
Theorem C13_tie_parse_rel :
  forall n raw,
    tr_parse_rel n raw
    = match parse_rel raw with
      | Ok (d, w) => MOk d (n + (if w then 1 else 0))%N
      | Err e => MErr e n
      end.
Proof. exact tr_parse_rel_eq. Qed.
Print Assumptions C13_tie_parse_rel.

(** PkgRelation.parse_relations(raw) after [n] warnings *)
Theorem C13_tie_parse_relations_from :
  forall n raw,
    mres_result (tr_parse_relations n raw)
    = (do rn <- parse_relations raw; Ok (fst rn, (n + snd rn)%N)).
Proof. exact tr_parse_relations_eq. Qed.
Print Assumptions C13_tie_parse_relations_from.

(** PkgRelation.parse_relations(raw): the same structure and number of warnings, or the same exception kind *)
Theorem C13_tie_parse_relations :
  forall raw, mres_result (tr_parse_relations 0%N raw) = parse_relations raw.
Proof. exact tr_parse_relations_eq0. Qed.
Print Assumptions C13_tie_parse_relations.

(** non-vacuity: the regenerated code really runs, on the normal, the warning and the error paths *)
Example C13_tie_runs :
  (* PkgRelation.str([[{'name': 'a', 'archqual': 'any', 'version': ('>=', '1'), 'arch': [ArchRestriction(False, 'i386')],
                        'restrictions': [[BuildRestriction(True, 'x'), BuildRestriction(False, 'y')]]}, {'name': 'b'}],
                      [{'name': 'c'}]])  =  "a:any (>= 1) [!i386] <x !y> | b, c" *)
  let s := [97; 58; 97; 110; 121; 32; 40; 62; 61; 32; 49; 41; 32; 91; 33; 105; 51; 56; 54; 93; 32; 60; 120; 32; 33;
            121; 62; 32; 124; 32; 98; 44; 32; 99]%N in
  let rels := [[mkRel [97]%N (Some [97; 110; 121]%N) (Some ([62; 61]%N, [49]%N)) (Some [(false, [105; 51; 56; 54]%N)])
                      (Some [[(true, [120]%N); (false, [121]%N)]]);
                mkRel [98]%N None None None None];
               [mkRel [99]%N None None None None]] in
  tr_rel_str rels = Ok s
  (* … and parse_relations of that text gives the structure back, without a warning *)
  /\ tr_parse_relations 0%N s = MOk rels 0%N
  (* parse_relations("a, -, b | +") : two unparsable relations, two warnings *)
  /\ tr_parse_relations 0%N [97; 44; 32; 45; 44; 32; 98; 32; 124; 32; 43]%N
     = MOk [[mkRel [97]%N None None None None]; [mkRel [45]%N None None None None];
            [mkRel [98]%N None None None None; mkRel [43]%N None None None None]] 2%N
  (* parse_relations("-, a [ ]") : blanks only between the brackets — IndexError, after one warning *)
  /\ tr_parse_relations 0%N [45; 44; 32; 97; 32; 91; 32; 93]%N = MErr IndexError 1%N.
Proof. vm_compute. repeat split. Qed.
