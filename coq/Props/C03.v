(** C03 — Version comparison agrees with dpkg and is a consistent total preorder.
    Only statements; every proof is [exact <lemma>].

    Model:  Version/Compare.v on top of Version/Parse.v ([py_compare], [py_ops],
            [py_version_compare], [py_hash_key] — the functions [agree] runs).
    Spec:   Version/Dpkg.v ([dpkg_compare]: dpkg's parseversion + verrevcmp) and the
            validity predicate [valid_spec] of Version/ParseSpec.v — what [holds] uses.
    Proofs: Version/CompareLex.v (padded lexicographic orders), CompareKey.v (the
            Python chunk loop computes the order [keys_cmp] on the key [pkey], for every
            string), CompareDpkg.v (so does dpkg's character loop, without running out
            of fuel), CompareHash.v (the tuple of [_hash_key] is the trimmed key),
            CompareProofs.v (assembly; uses C14's [inv] and parse theorems).

    [inv v = true] (Version/ParseProofs.v) is the invariant of a live Version object:
    its components are the grammar's decomposition of its full string.  Every object
    made by [Version(s)] has it and every [setattr] keeps it (C14), so the theorems
    stated for [inv] objects cover objects modified through their attributes too. *)
From Coq Require Import String.
From Verif Require Import Lib.Base Lib.Dec Version.Parse Version.ParseSpec Version.ParseProofs
  Version.Compare Version.Dpkg Version.CompareCheck Version.CompareProofs Version.CompareCheckProofs.
Local Open Scope Z_scope.

(** 1. py_compare_is_dpkg.  For all valid version strings a and b: both objects are
       created, the comparison does not raise, and [_compare], [version_compare] and
       the six operators all give dpkg's verdict (-1, 0 or 1) on the two strings. *)
Theorem C03_py_compare_is_dpkg :
  forall a b, valid_spec a = true -> valid_spec b = true ->
  exists va vb z,
    version_new (VStr a) = Ok va /\ version_new (VStr b) = Ok vb
    /\ py_compare va vb = Ok z /\ py_version_compare a b = Ok z
    /\ py_ops va vb = Ok (ops_of z)
    /\ dpkg_compare a b = Some z.
Proof. exact py_compare_is_dpkg. Qed.

(** the same for any two live objects, however they were reached *)
Theorem C03_py_compare_is_dpkg_obj :
  forall va vb, inv va = true -> inv vb = true ->
  exists z, py_compare va vb = Ok z /\ dpkg_compare (st_full va) (st_full vb) = Some z.
Proof. exact py_compare_is_dpkg_obj. Qed.

(** 2. The order laws.  They hold for ANY two/three objects on which the comparison
       does not raise (equivalently: whose epochs are integers, [epoch_int]) — valid
       or not, so in particular for all live objects ([C03_live_epoch_int]). *)
Theorem C03_compare_total :
  forall a b, epoch_int a = true -> epoch_int b = true ->
  exists z, py_compare a b = Ok z /\ (z = -1 \/ z = 0 \/ z = 1).
Proof. exact compare_total. Qed.

Theorem C03_live_epoch_int : forall v, inv v = true -> epoch_int v = true.
Proof. exact inv_epoch_int. Qed.

Theorem C03_compare_refl : forall a, epoch_int a = true -> py_compare a a = Ok 0.
Proof. exact compare_refl. Qed.

(** compare(b, a) = -compare(a, b) *)
Theorem C03_compare_antisym :
  forall a b z, py_compare a b = Ok z -> py_compare b a = Ok (- z).
Proof. exact compare_antisym. Qed.

(** [<=] and [>=] are transitive, strictness is inherited; [trans_ok] is the boolean
    form evaluated by [holds] on the implementation's answers *)
Theorem C03_compare_trans :
  forall a b c x y, py_compare a b = Ok x -> py_compare b c = Ok y ->
  exists z, py_compare a c = Ok z
    /\ (x <= 0 -> y <= 0 -> z <= 0) /\ (x <= 0 -> y <= 0 -> x < 0 \/ y < 0 -> z < 0)
    /\ (0 <= x -> 0 <= y -> 0 <= z) /\ (0 <= x -> 0 <= y -> 0 < x \/ 0 < y -> 0 < z)
    /\ trans_ok x y z = true.
Proof. exact compare_trans. Qed.

(** equal versions are interchangeable: comparison is a congruence for [== 0] *)
Theorem C03_compare_congruence :
  forall a b c x y, py_compare a b = Ok x -> py_compare b c = Ok y ->
  exists z, py_compare a c = Ok z /\ (x = 0 -> z = y) /\ (y = 0 -> z = x).
Proof.
  intros a b c x y H1 H2. destruct (compare_trans_rel a b c x y H1 H2) as (z & H3 & T1 & T2 & _).
  now exists z.
Qed.

(** exactly one of <, ==, > holds *)
Theorem C03_trichotomy :
  forall a b o, py_ops a b = Ok o ->
  (b2n (o_lt o) + b2n (o_eq o) + b2n (o_gt o) = 1)%nat.
Proof. exact trichotomy. Qed.

(** the six operators tell one story, and the swapped operators the mirrored one *)
Theorem C03_operators_consistent :
  forall a b o, py_ops a b = Ok o ->
  exists z, py_compare a b = Ok z /\ o = ops_of z
    /\ o_le o = o_lt o || o_eq o /\ o_ge o = o_gt o || o_eq o /\ o_ne o = negb (o_eq o)
    /\ o_ge o = negb (o_lt o) /\ o_le o = negb (o_gt o)
    /\ py_ops b a = Ok (ops_of (- z))
    /\ o_lt (ops_of (- z)) = o_gt o /\ o_gt (ops_of (- z)) = o_lt o
    /\ o_eq (ops_of (- z)) = o_eq o.
Proof. exact operators_consistent. Qed.

(** 3. equal_iff_same_key / hash_respects_eq.  For live objects, comparing equal is
       the same as having identical tuples handed to [hash()] (epoch number, trimmed
       key of the upstream version, trimmed key of the revision); so equal versions
       have equal hashes, and — conversely — the key is canonical. *)
Theorem C03_equal_iff_same_key :
  forall a b, inv a = true -> inv b = true ->
  (py_compare a b = Ok 0 <-> hash_eq a b = true).
Proof. exact equal_iff_same_key. Qed.

Theorem C03_hash_respects_eq :
  forall a b, inv a = true -> inv b = true ->
  py_compare a b = Ok 0 -> hash_eq a b = true.
Proof. exact hash_respects_eq. Qed.

(** 4. The model meets the property exactly as the correspondence check evaluates it
       ([holds] of Version/CompareCheck.v), on every pair and every triple of inputs
       (valid or not, any code points). *)
Theorem C03_model_pair_holds :
  forall a b, holds (CPair a b (model_pair (dec a) (dec b))) = true.
Proof. exact model_pair_holds. Qed.

Theorem C03_model_triple_holds :
  forall a b c,
    holds (CTriple a b c (py_version_compare (dec a) (dec b)) (py_version_compare (dec b) (dec c))
                         (py_version_compare (dec a) (dec c))) = true.
Proof. exact model_triple_holds. Qed.

(** ... and on every pair of histories: two objects made from any strings [a], [b], each
    taken through any sequence of attribute assignments (accepted and rejected ones,
    any names, None or any string).  The model's output is taken as the observation
    ([hist_obs_of]); [sa], [sb] are literals spelling the two strings the model displays
    ([spells] — the observation record holds literals, the model code-point lists). *)
Theorem C03_model_hist_holds :
  forall a aops b bops sa sb,
    let m := model_hist (dec a) (lit_ops aops) (dec b) (lit_ops bops) in
    spells m sa sb = true ->
    holds (CHist a aops b bops (hist_obs_of m sa sb)) = true.
Proof. exact model_hist_holds. Qed.

(** what that rests on: every object reached through a history is live ([inv], by C14),
    and a live object IS the fresh object made from its own string — so it compares equal
    to it and has its hash key *)
Theorem C03_history_keeps_live :
  forall st ops, inv st = true -> inv (final_state st (run_assigns st ops)) = true.
Proof. exact final_state_inv. Qed.

Theorem C03_live_equals_fresh :
  forall v, inv v = true ->
    version_new (VStr (version_str v)) = Ok v /\ fresh_cmp v = Ok (true, true).
Proof. intros v H. split; [exact (fresh_of_inv v H)|exact (fresh_cmp_inv v H)]. Qed.

(** 4b. The bridge to the run-time check.  For EVERY case of Version/CompareCheck.v (pairs,
    triples, histories, the leaves; any strings, any assignment sequences, any
    observation): if the implementation's observation equals the model's output ([agree],
    evaluated on each generated case), then the property as [holds] judges it on that
    observation is true.  So a [holds] failure cannot occur without an [agree] failure. *)
Theorem C03_agree_implies_holds :
  forall c, agree c = true -> holds c = true.
Proof. exact agree_implies_holds. Qed.

(** 5. The machinery behind 1-3, stated on its own: on every pair of strings (any code
       points) [_version_cmp_part] is the order [keys_cmp] on the keys; on strings of
       non-NUL characters whose Unicode digit class is C's, dpkg's [verrevcmp]
       terminates within its fuel with the same sign. *)
Theorem C03_cmp_part_is_key_order :
  forall a b, py_cmp_part a b = CompareKey.z_of_cmp (CompareKey.keys_cmp (CompareKey.pkey a) (CompareKey.pkey b)).
Proof. exact CompareKey.py_cmp_part_key. Qed.

Theorem C03_verrevcmp_is_key_order :
  forall a b, forallb CompareDpkg.nice a = true -> forallb CompareDpkg.nice b = true ->
  exists r, verrevcmp a b = Ok r
    /\ Z.sgn r = CompareKey.z_of_cmp (CompareKey.keys_cmp (CompareKey.pkey a) (CompareKey.pkey b)).
Proof. exact CompareDpkg.verrevcmp_key. Qed.

(** Non-vacuity: valid strings with epoch, revision, '~', leading zeros and mixed runs
    satisfy the hypotheses; two differently spelled equal versions; a strict chain. *)
Example C03_nonvacuous :
  let a := dec "0:1.0~rc1+b01-0" in
  let b := dec "1.00~rc01+b1" in
  let c := dec "1:0.9a-1" in
  valid_spec a = true /\ valid_spec b = true /\ valid_spec c = true
  /\ py_version_compare a b = Ok 0 /\ dpkg_compare a b = Some 0
  /\ py_version_compare b c = Ok (-1) /\ py_version_compare a c = Ok (-1)
  /\ dpkg_compare c a = Some 1
  /\ match version_new (VStr a), version_new (VStr b) with
     | Ok va, Ok vb =>
         inv va = true /\ inv vb = true /\ epoch_int va = true
         /\ py_compare va vb = Ok 0 /\ hash_eq va vb = true
         /\ py_ops va vb = Ok (mkOps false true true false true false)
     | _, _ => False
     end.
Proof. vm_compute. repeat split. Qed.

Example C03_nonvacuous_nice :
  forallb CompareDpkg.nice (dec "1.0~rc1+b01") = true
  /\ verrevcmp (dec "1.0~rc1+b01") (dec "1.00~rc01+b1") = Ok 0
  /\ verrevcmp (dec "1.0~rc1") (dec "1.0") = Ok (-1).
Proof. vm_compute. repeat split. Qed.

(** a history case: "1.0-1" with the epoch set, a refused upstream_version, the revision
    removed; "2:1.00" with an ordinary attribute and a refused full_version.  Both end up
    displaying differently spelled equal versions: the model's output spelled by the literals,
    [agree] and [holds] true, and the hypotheses of the two history theorems met. *)
Example C03_nonvacuous_hist :
  let aops := [("epoch", Some "2"); ("upstream_version", Some "a b"); ("debian_revision", None)]%string in
  let bops := [("foo", Some "x"); ("full_version", Some "1:")]%string in
  let m := model_hist (dec "1.0-1") (lit_ops aops) (dec "2:1.00") (lit_ops bops) in
  spells m "2:1.0" "2:1.00" = true
  /\ hist_obs_of m "2:1.0" "2:1.00"
     = Ok (mkH [None; Some ValueError; None] [None; Some ValueError] "2:1.0" "2:1.00"
               (mkOps false true true false true false) true (true, true) (true, true))
  /\ agree (CHist "1.0-1" aops "2:1.00" bops (hist_obs_of m "2:1.0" "2:1.00")) = true
  /\ holds (CHist "1.0-1" aops "2:1.00" bops (hist_obs_of m "2:1.0" "2:1.00")) = true
  /\ holds (CHist "1.0-1" aops "2:1.00" bops
       (Ok (mkH [None; Some ValueError; None] [None; Some ValueError] "2:1.0" "2:1.00"
                (mkOps false true true false true false) false (true, true) (true, true)))) = false
  /\ match version_new (VStr (dec "1.0-1")) with
     | Ok st => inv st = true
                /\ version_str (final_state st (run_assigns st (lit_ops aops))) = dec "2:1.0"
     | Err _ => False
     end.
Proof. vm_compute. repeat split. Qed.

Print Assumptions C03_py_compare_is_dpkg.
Print Assumptions C03_py_compare_is_dpkg_obj.
Print Assumptions C03_compare_total.
Print Assumptions C03_live_epoch_int.
Print Assumptions C03_compare_refl.
Print Assumptions C03_compare_antisym.
Print Assumptions C03_compare_trans.
Print Assumptions C03_compare_congruence.
Print Assumptions C03_trichotomy.
Print Assumptions C03_operators_consistent.
Print Assumptions C03_equal_iff_same_key.
Print Assumptions C03_hash_respects_eq.
Print Assumptions C03_model_pair_holds.
Print Assumptions C03_model_triple_holds.
Print Assumptions C03_model_hist_holds.
Print Assumptions C03_history_keeps_live.
Print Assumptions C03_live_equals_fresh.
Print Assumptions C03_agree_implies_holds.
Print Assumptions C03_cmp_part_is_key_order.
Print Assumptions C03_verrevcmp_is_key_order.
