(** C16 — tie by regeneration.  Only statements; every proof is [exact <lemma>].

    Gen/TrGlobsToRe.v is REGENERATED from lib/debian/copyright.py by harness/py2coq.py on every run:
    [tr_globs_to_re] is the Python body of [globs_to_re] as the working tree has it now — the loop
    [for i, glob in enumerate(globs)] by structural recursion, the nested [while i < n] as a Fixpoint
    on explicit fuel, [glob[i]] with its IndexError, the two [raise MachineReadableFormatError]
    (= FormatError), every [buf.write] in source order, the final
    [re.compile(buf.getvalue(), re.MULTILINE | re.DOTALL)].  The theorems say that, for ALL lists of
    globs, the regenerated function returns (no IndexError, fuel never exhausted) exactly what the
    hand-written model [Glob.globs_to_re] returns — the function that [agree] runs and that the
    theorems of Props/C16.v are about: the same error, or the same pattern text
    ([Glob.regex_text] of the model's syntax tree, which is what [agree] compares with [pat.pattern])
    and the same two flags.  An edit of the Python function changes the generated text and these
    theorems are re-checked against it.

    Still hand-modelled inside it (Copyright/GlobTrPrims.v): [re.escape] of one character
    (= [Glob.re_escape_char], table regenerated from the running interpreter); [re.compile] as the
    identity on the text, its flag argument accepted by the translator only as the literal source
    text `re.MULTILINE | re.DOTALL` (anything else fails the translation closed) and rendered as
    (MULTILINE, DOTALL) = (true, true).  What the text MEANS to Python's re is the fragment semantics
    of Glob.v, tied by the correspondence (leaf cases), not here.  Not regenerated: FilesParagraph
    (files_pattern cache, matches) and Copyright.find_files_paragraph (classes, attributes). *)
From Verif Require Import Lib.Base Lib.PyStr Copyright.Glob Copyright.GlobSpec Gen.TrGlobsToRe Copyright.GlobTie.

(** the regenerated code = the model, errors included; result = (pattern text, (MULTILINE, DOTALL)) *)
Theorem C16_tie_globs_to_re :
  forall globs,
    tr_globs_to_re globs
    = do re <- globs_to_re globs; Ok (regex_text (re_alts re), (re_multiline re, re_dotall re)).
Proof. exact tr_globs_to_re_eq. Qed.
Print Assumptions C16_tie_globs_to_re.

(** the pattern text alone *)
Theorem C16_tie_globs_to_re_text :
  forall globs,
    (do p <- tr_globs_to_re globs; Ok (fst p))
    = do re <- globs_to_re globs; Ok (regex_text (re_alts re)).
Proof. exact tr_globs_to_re_text. Qed.
Print Assumptions C16_tie_globs_to_re_text.

(** consequences for the regenerated code itself, through Props/C16.v's theorems about the model:
    it raises nothing but the format error, and converts exactly the well-formed lists *)
Theorem C16_tie_only_format_errors :
  forall globs e, tr_globs_to_re globs = Err e -> e = FormatError.
Proof. exact tr_globs_to_re_err. Qed.
Print Assumptions C16_tie_only_format_errors.

Theorem C16_tie_valid_globs_convert :
  forall globs, is_ok (tr_globs_to_re globs) = forallb glob_valid globs.
Proof. exact tr_globs_to_re_ok_iff. Qed.
Print Assumptions C16_tie_valid_globs_convert.

(** non-vacuity: the regenerated code really runs *)
Example C16_tie_runs :
  (* ["debian/*", "a?\*"]  ->  r"debian/.*|a.\*\Z" *)
  tr_globs_to_re [[100; 101; 98; 105; 97; 110; 47; 42]; [97; 63; 92; 42]]%N
    = Ok ([100; 101; 98; 105; 97; 110; 47; 46; 42; 124; 97; 46; 92; 42; 92; 90]%N, (true, true))
  /\ tr_globs_to_re [] = Ok ([92; 90]%N, (true, true))                          (* r"\Z" *)
  /\ tr_globs_to_re [[97]; [92]]%N = Err FormatError                            (* ["a", "\\"]: backslash at the end *)
  /\ tr_globs_to_re [[92; 97]]%N = Err FormatError                              (* ["\\a"]: invalid escape *)
  /\ tr_globs_to_re [[46; 32]]%N = Ok ([92; 46; 92; 32; 92; 90]%N, (true, true)). (* [". "] -> r"\.\ \Z" *)
Proof. vm_compute. repeat split. Qed.
