(** C01 — the format-preserving parser is lossless: parse then dump reproduces the input.
    Only statements; every proof is [exact <lemma>] or a short composition.

    Model: Repro/Token.v (tokenizer), Repro/Parse.v (six grouping stages, dump);
    spec:  Repro/LosslessSpec.v (the two input forms and the text to be reproduced);
    proofs: Repro/TokenProofs.v, Repro/ParseProofs.v;
    the functions named here are the ones Repro/Check.v runs in [agree]
    ([py_tokenize], [py_parse] = [tokenize]/[parse] at the interpreter's tables) and
    [expected_text] is what [holds] compares the implementation's output with.

    The theorems of sections 1-4 hold for EVERY whitespace class [is_space] that
    contains LF, SP and TAB, and for EVERY pair of field-name character classes;
    section 5 instantiates them with the generated tables. *)
From Verif Require Import Repro.Check Repro.TokenProofs Repro.ParseProofs Repro.ParseCheckProofs.

(** * 1. The token stream *)

(** Form 1 (every line non-empty, LF only as last character, all but possibly the
    last line LF-terminated): the tokenizer returns, and the token texts
    concatenate to the input. *)
Theorem C01_tokenize_total_lossless :
  forall is_space name_first name_rest,
    is_space LF = true -> is_space SP = true -> is_space TAB = true ->
  forall ls, form1 ls = true ->
    exists ts, tokenize is_space name_first name_rest ls = Ok ts
               /\ text_of_tokens ts = concat ls.
Proof. exact tokenize_form1. Qed.

(** Form 2 (two or more lines, no LF anywhere): the token texts concatenate to the
    lines each followed by a newline. *)
Theorem C01_tokenize_lossless_autocorrect :
  forall is_space name_first name_rest,
    is_space LF = true -> is_space SP = true -> is_space TAB = true ->
  forall ls, form2 ls = true ->
    exists ts, tokenize is_space name_first name_rest ls = Ok ts
               /\ text_of_tokens ts = concat (map add_lf ls).
Proof. exact tokenize_form2. Qed.

(** The [_verify_token_text] contract, for every successful tokenization of ANY
    input and any character classes: no token is empty; a whitespace token that
    contains LF ends with LF (merged blank lines: whole lines only); a comment or
    error token contains LF at most as its last character; no other token
    contains LF.  So no token other than a run of whole blank lines straddles a
    line boundary. *)
Theorem C01_token_single_line :
  forall is_space name_first name_rest ls ts,
    tokenize is_space name_first name_rest ls = Ok ts ->
    forallb token_line_ok ts = true.
Proof. exact tokenize_single_line. Qed.

(** * 2. The six grouping stages only group: the token sequence is unchanged *)

Theorem C01_stage_flatten_1 :       (* _combine_comment_tokens_into_elements *)
  forall l, flatten_list (combine_comments l) = flatten_list l.
Proof. exact combine_comments_flatten. Qed.

Theorem C01_stage_flatten_2 :       (* _build_value_line *)
  forall l, flatten_list (build_value_lines l) = flatten_list l.
Proof. exact build_value_lines_flatten. Qed.

Theorem C01_stage_flatten_3 :       (* _combine_vl_elements_into_value_elements *)
  forall l, flatten_list (combine_value_lines l) = flatten_list l.
Proof. exact combine_value_lines_flatten. Qed.

(** Stage 4 has one lossy branch: on "field name not followed by separator and
    value element" it builds an error element and silently drops a comment element
    it had already consumed.  It is lossless exactly when that branch is not taken
    with a pending comment; [fields_ok] (every top-level field-name token is followed
    by a separator token and a value element) excludes the branch altogether ... *)
Theorem C01_stage_flatten_4 :       (* _build_field_with_value *)
  forall l, fields_ok l = true -> flatten_list (build_fields l) = flatten_list l.
Proof. exact build_fields_flatten. Qed.

(** ... and stages 1-3 establish [fields_ok] for every stream in which each
    field-name token is followed by a separator token — which every successful
    tokenization is ([C01_tokens_names_sep]). *)
Theorem C01_stage_4_precondition :
  forall l, names_sep l = true ->
    fields_ok (combine_value_lines (build_value_lines (combine_comments l))) = true.
Proof. exact stages123_fields_ok. Qed.

Theorem C01_tokens_names_sep :
  forall is_space name_first name_rest ls ts,
    tokenize is_space name_first name_rest ls = Ok ts ->
    names_sep (map node_of_token ts) = true.
Proof.
  intros is_space nf nr ls ts H. rewrite names_sep_tokens.
  exact (proj2 (tokenize_inv is_space nf nr ls ts H)).
Qed.

Theorem C01_stage_flatten_5 :       (* _combine_kvp_elements_into_paragraphs (both paragraph classes) *)
  forall l, flatten_list (combine_paragraphs l) = flatten_list l.
Proof. exact combine_paragraphs_flatten. Qed.

Theorem C01_stage_flatten_6 :       (* _combine_error_tokens_into_elements *)
  forall l, flatten_list (combine_errors l) = flatten_list l.
Proof. exact combine_errors_flatten. Qed.

(** * 3. parse, then dump *)

(** For ANY input on which the tokenizer returns, the accepting parser returns a
    file element whose token sequence is exactly the token stream, so its dump is
    the concatenation of the token texts. *)
Theorem C01_parse_keeps_tokens :
  forall is_space name_first name_rest ls ts,
    tokenize is_space name_first name_rest ls = Ok ts ->
    exists top, parse_accepting is_space name_first name_rest ls = Ok (Elem EFile top)
                /\ flatten (Elem EFile top) = ts
                /\ dump (Elem EFile top) = text_of_tokens ts.
Proof. exact parse_of_tokens. Qed.

(** parse_dump_lossless: both input forms, against the Spec. *)
Theorem C01_parse_dump_lossless :
  forall is_space name_first name_rest,
    is_space LF = true -> is_space SP = true -> is_space TAB = true ->
  forall ls e, expected_text ls = Some e ->
    exists t, parse_accepting is_space name_first name_rest ls = Ok t /\ dump t = e.
Proof. exact parse_dump_expected. Qed.

Theorem C01_parse_dump_lossless_form1 :
  forall is_space name_first name_rest,
    is_space LF = true -> is_space SP = true -> is_space TAB = true ->
  forall ls, form1 ls = true ->
    exists t, parse_accepting is_space name_first name_rest ls = Ok t /\ dump t = concat ls.
Proof. exact parse_dump_form1. Qed.

Theorem C01_parse_dump_lossless_form2 :
  forall is_space name_first name_rest,
    is_space LF = true -> is_space SP = true -> is_space TAB = true ->
  forall ls, form2 ls = true ->
    exists t, parse_accepting is_space name_first name_rest ls = Ok t
              /\ dump t = concat (map add_lf ls).
Proof. exact parse_dump_form2. Qed.

(** * 4. The accepting mode never raises on the two forms; elsewhere it raises only
       what the tokenizer raises. *)
Theorem C01_parse_accepting_total :
  forall is_space name_first name_rest,
    is_space LF = true -> is_space SP = true -> is_space TAB = true ->
  forall ls, form1 ls || form2 ls = true ->
    is_ok (parse_accepting is_space name_first name_rest ls) = true.
Proof. exact parse_accepting_total. Qed.

Theorem C01_parse_accepting_only_tokenizer_errors :
  forall is_space name_first name_rest ls e,
    parse_accepting is_space name_first name_rest ls = Err e ->
    tokenize is_space name_first name_rest ls = Err e.
Proof.
  intros sp nf nr ls e H. destruct (tokenize sp nf nr ls) as [ts|e'] eqn:E.
  - destruct (parse_of_tokens sp nf nr ls ts E) as [top [P _]]. congruence.
  - pose proof (parse_accepting_err sp nf nr ls e' E) as P. congruence.
Qed.

(** * 5. The instance the implementation runs with (what [agree] evaluates) *)

Theorem C01_py_tokenize_lossless :
  forall ls e, expected_text ls = Some e ->
    exists ts, py_tokenize ls = Ok ts /\ text_of_tokens ts = e.
Proof.
  exact (tokenize_expected py_isspace field_name_first field_name_rest
           eq_refl eq_refl eq_refl).
Qed.

Theorem C01_py_parse_dump_lossless :
  forall ls e, expected_text ls = Some e ->
    exists t, py_parse true true ls = Ok t /\ dump t = e.
Proof.
  exact (parse_dump_expected py_isspace field_name_first field_name_rest
           eq_refl eq_refl eq_refl).
Qed.

(** * 6. The bridge to the correspondence check: for every case the harness can
       write, if the implementation's observation (token kinds and texts, element
       tree, dump) equals what the model computes ([agree], evaluated at run time),
       then the property judged on that observation against the Spec ([holds]) is
       true.  So a run with agree-fail 0 needs no separate evidence for [holds]
       on the compared cases: it follows from the theorems above. *)
Theorem C01_agree_implies_holds :
  forall c, agree c = true -> holds c = true.
Proof. exact agree_implies_holds. Qed.

(** Non-vacuity.  A form-1 document with a comment before a field, a comment inside
    a continuation, odd whitespace (TAB, CR, NBSP, FF), duplicate fields in
    different case, a continuation line without a field, a syntactically invalid
    line, two merged whitespace-only lines and an unterminated whitespace-only
    last line (the D1 shape); and a form-2 document with whitespace-only lines to
    merge.  Both meet the hypotheses, and the model returns what the theorems say. *)
From Coq Require Import String.
Local Open Scope string_scope.
Example C01_nonvacuous :
  let ls1 := List.map dec ["# c\00000a"; "A: b \00000a"; "# in value\00000a"; "\000009more\00000d\00000a"; "a:\0000a0x\00000c\00000a"; " \00000a"; "\000009\00000a"; " orphan\00000a"; "garbage\00000a"; "B:\00000a"; " "] in
  let ls2 := List.map dec ["A: b"; " "; " "; "C: d"; ""] in
  form1 ls1 = true /\ expected_text ls1 = Some (List.concat ls1)
  /\ form2 ls2 = true /\ expected_text ls2 = Some (List.concat (List.map add_lf ls2))
  /\ py_isspace LF = true /\ py_isspace SP = true /\ py_isspace TAB = true
  /\ (exists ts, py_tokenize ls1 = Ok ts /\ List.length ts = 24%nat
                 /\ forallb token_line_ok ts = true
                 /\ names_sep (List.map node_of_token ts) = true
                 /\ text_of_tokens ts = List.concat ls1)
  /\ (exists t, py_parse true true ls1 = Ok t /\ dump t = List.concat ls1)
  /\ (exists t, py_parse true true ls2 = Ok t /\ dump t = List.concat (List.map add_lf ls2))
  /\ py_parse false false ls1 = Err ValueError.
Proof.
  vm_compute. repeat split; try (eexists; repeat split).
Qed.

Print Assumptions C01_tokenize_total_lossless.
Print Assumptions C01_tokenize_lossless_autocorrect.
Print Assumptions C01_token_single_line.
Print Assumptions C01_stage_flatten_1.
Print Assumptions C01_stage_flatten_2.
Print Assumptions C01_stage_flatten_3.
Print Assumptions C01_stage_flatten_4.
Print Assumptions C01_stage_4_precondition.
Print Assumptions C01_tokens_names_sep.
Print Assumptions C01_stage_flatten_5.
Print Assumptions C01_stage_flatten_6.
Print Assumptions C01_parse_keeps_tokens.
Print Assumptions C01_parse_dump_lossless.
Print Assumptions C01_parse_dump_lossless_form1.
Print Assumptions C01_parse_dump_lossless_form2.
Print Assumptions C01_parse_accepting_total.
Print Assumptions C01_parse_accepting_only_tokenizer_errors.
Print Assumptions C01_py_tokenize_lossless.
Print Assumptions C01_py_parse_dump_lossless.
Print Assumptions C01_agree_implies_holds.
