(** C01 — placeholder while the proofs are being written. *)
From Verif Require Import Repro.Check.
