(** C15 — Changelog parsing is total and strictness-consistent; str() output is a normal form.
    Only statements; every proof is [exact <lemma>].

    Model: Changelog/Model.v ([parse_changelog], [format_changelog], [apply_ops] -- the
    functions Changelog/Check.v [agree] runs); proofs: Changelog/ParseProofs.v,
    Changelog/NormalProofs.v.  The thirteen "junk" classifiers (emacs / vim mode lines, cvs
    keywords, comments, old_format_re1..8) are the record [J]: every theorem holds for
    EVERY instance of them. *)
From Coq Require Import String.
From Verif Require Import Lib.Base Lib.Dec Lib.PyStr Changelog.Model Changelog.ParseProofs.

(** 1. lenient_total.  For every input (a str, any list of lines, a file), every
       allow_empty_author, every max_blocks, the lenient constructor returns.  Rests on
       the invariant "next-heading (or slurp entered from it) => _blocks is non-empty",
       which is what makes [self._blocks[-1]] safe. *)
Theorem C15_lenient_total :
  forall J allow maxb inp, exists st, parse_changelog J false allow maxb inp = Ok st.
Proof. exact lenient_total. Qed.

(** 2. strict_iff_warning.  Strict parsing raises ChangelogParseError -- and never
       anything else -- exactly when lenient parsing emits at least one warning; when it
       emits none, strict parsing returns the very same object (blocks, initial lines). *)
Theorem C15_strict_iff_warning :
  forall J allow maxb inp,
  exists st, parse_changelog J false allow maxb inp = Ok st /\
    match parse_changelog J true allow maxb inp with
    | Ok st' => st' = st /\ p_warn st = []
    | Err e => e = ParseError /\ p_warn st <> []
    end.
Proof. exact strict_iff_warning. Qed.

Theorem C15_strict_raises_iff_lenient_warns :
  forall J allow maxb inp st,
  parse_changelog J false allow maxb inp = Ok st ->
  (parse_changelog J true allow maxb inp = Err ParseError <-> p_warn st <> [])
  /\ (parse_changelog J true allow maxb inp = Ok st <-> p_warn st = []).
Proof. exact strict_raises_iff_lenient_warns. Qed.

(** Non-vacuity: with no junk classifier firing, a text whose trailer has a single
    space before the date parses leniently to one block with one warning and is refused
    by strict parsing; the two-space text parses identically in both modes. *)
Definition no_junk : junk :=
  let f := fun _ : str => false in mkJunk f f f f f f f f f f f f f.

Local Open Scope string_scope.
Example C15_nonvacuous :
  let good := dec "p (1.0) unstable; urgency=low\00000a\00000a  * x\00000a\00000a -- A <a@b>  Mon, 01 Jan 2001 00:00:00 +0000\00000a" in
  let bad := dec "p (1.0) unstable; urgency=low\00000a\00000a  * x\00000a\00000a -- A <a@b> Mon, 01 Jan 2001 00:00:00 +0000\00000a" in
  (exists st, parse_changelog no_junk true false None (InStr good) = Ok st
              /\ parse_changelog no_junk false false None (InStr good) = Ok st
              /\ List.length (p_blocks st) = 1%nat /\ p_warn st = [])
  /\ parse_changelog no_junk true false None (InStr bad) = Err ParseError
  /\ (exists st, parse_changelog no_junk false false None (InStr bad) = Ok st
                 /\ List.length (p_blocks st) = 1%nat /\ p_warn st = [WBadTrailer]).
Proof.
  vm_compute. split; [|split]; [eexists; repeat split|reflexivity|eexists; repeat split].
Qed.

Print Assumptions C15_lenient_total.
Print Assumptions C15_strict_iff_warning.
Print Assumptions C15_strict_raises_iff_lenient_warns.
