(** C15 — Changelog parsing is total and strictness-consistent; str() output is a normal form.
    Only statements; every proof is [exact <lemma>].

    Model: Changelog/Model.v ([parse_changelog], [format_changelog], [apply_ops] -- the
    functions Changelog/Check.v [agree] runs); domains of edited values: Changelog/Spec.v and
    Changelog/EditSpec.v [op_dom] (what [holds] uses); proofs: Changelog/ParseProofs.v,
    NormalBase.v, NormalHeader.v, NormalProofs.v, BuiltProofs.v, EditBase.v, EditReplay.v,
    EditForm.v, EditParsed.v.  The thirteen "junk" classifiers (emacs / vim mode lines, cvs
    keywords, comments, old_format_re1..8) are the record [J]: every theorem holds for
    EVERY instance of them. *)
From Coq Require Import String.
From Verif Require Import Lib.Base Lib.Dec Lib.PyStr Changelog.Model Changelog.Spec Changelog.EditSpec
  Changelog.ParseProofs Changelog.NormalProofs Changelog.BuiltProofs
  Changelog.EditReplay Changelog.EditParsed
  Changelog.Lit Changelog.Check Changelog.WfCheckProofs Changelog.NormalCheckProofs.

(** 1. lenient_total.  For every input (a str, any list of lines, a file), every
       allow_empty_author, every max_blocks, the lenient constructor returns.  Rests on
       the invariant "next-heading (or slurp entered from it) => _blocks is non-empty",
       which is what makes [self._blocks[-1]] safe. *)
Theorem C15_lenient_total :
  forall J allow maxb inp, exists st, parse_changelog J false allow maxb inp = Ok st.
Proof. exact lenient_total. Qed.

(** 2. strict_iff_warning.  Strict parsing raises ChangelogParseError -- and never
       anything else -- exactly when lenient parsing emits at least one warning; when it
       emits none, strict parsing returns the very same object (blocks, initial lines). *)
Theorem C15_strict_iff_warning :
  forall J allow maxb inp,
  exists st, parse_changelog J false allow maxb inp = Ok st /\
    match parse_changelog J true allow maxb inp with
    | Ok st' => st' = st /\ p_warn st = []
    | Err e => e = ParseError /\ p_warn st <> []
    end.
Proof. exact strict_iff_warning. Qed.

Theorem C15_strict_raises_iff_lenient_warns :
  forall J allow maxb inp st,
  parse_changelog J false allow maxb inp = Ok st ->
  (parse_changelog J true allow maxb inp = Err ParseError <-> p_warn st <> [])
  /\ (parse_changelog J true allow maxb inp = Ok st <-> p_warn st = []).
Proof. exact strict_raises_iff_lenient_warns. Qed.

(** 3. format_normal_form, parsed changelogs.  For EVERY text [s] (no well-formedness
       assumed: junk, missing trailers, mode lines, old-format markers, repeated keys, ...),
       every allow_empty_author and every instance of the junk classifiers: if str() of the
       leniently parsed object succeeds and gives [t], then parsing [t] (same options)
       succeeds and yields the same object -- the same initial lines and the same blocks, in
       every attribute (package, version, distributions, urgency, comment, pairs, changes,
       author, date, trailing lines, trailer separator) -- and therefore formats to the
       identical text [t] again.  ([cl_of]: initial_blank_lines and _blocks of the object.) *)
Theorem C15_format_normal_form_parsed :
  forall J allow s st t,
  parse_changelog J false allow None (InStr s) = Ok st ->
  format_changelog false (cl_of st) = Ok t ->
  exists st', parse_changelog J false allow None (InStr t) = Ok st'
              /\ cl_of st' = cl_of st
              /\ format_changelog false (cl_of st') = Ok t.
Proof. exact format_normal_form_parsed. Qed.

(** 4. format_normal_form, programmatically built changelogs.  Starting from the empty
       Changelog(), after ANY sequence of editing calls -- new_block with any subset of its
       arguments, add_change, assignment to package / version / distributions / urgency /
       author / date -- whose values lie in their documented domains ([op_dom]: package,
       version, distribution list, urgency and key=value pairs of the deb-changelog grammar,
       one-line change text that is blank or starts with two spaces, author "name <mail>",
       RFC-2822 shaped date): if the object can be formatted, the text parses (any
       allow_empty_author) to exactly the object that was formatted, formats to the identical
       text again, and -- unless the object has no block -- does so without any warning. *)
Theorem C15_format_normal_form_built :
  forall J allow ops c t,
  forallb op_dom ops = true ->
  apply_ops empty_changelog ops = Ok c ->
  format_changelog false c = Ok t ->
  exists st', parse_changelog J false allow None (InStr t) = Ok st'
              /\ cl_of st' = c
              /\ format_changelog false (cl_of st') = Ok t
              /\ (cl_blocks c <> [] -> p_warn st' = []).
Proof. exact normal_form_built. Qed.

(** 5. format_normal_form, in full: parsed, then edited.  For EVERY text [s], every
       allow_empty_author, every instance of the junk classifiers and EVERY sequence [ops] of
       editing calls with values in their documented domains applied to the parsed object
       (a new block in front of parsed blocks, changes added to or attributes assigned on a
       parsed block -- including a block that was parsed without trailer or from a malformed
       heading): if the edited object [c] can be formatted to [t], then parsing [t] succeeds
       and gives the initial lines of [c] and, block for block, the blocks of [c] -- equal in
       package, version, distributions, urgency, urgency comment, extra pairs, changes,
       author, date, trailing lines and trailer separator ([block_norm] changes only the
       private flag "parsed without trailer", theorem 6) -- and formats to the identical text.
       With [ops = []] this contains theorem 3 (up to that flag). *)
Theorem C15_format_normal_form :
  forall J allow s st ops c t,
  parse_changelog J false allow None (InStr s) = Ok st ->
  forallb op_dom ops = true -> apply_ops (cl_of st) ops = Ok c ->
  format_changelog false c = Ok t ->
  exists st', parse_changelog J false allow None (InStr t) = Ok st'
              /\ cl_of st' = mkCl (cl_initial c) (map block_norm (cl_blocks c))
              /\ format_changelog false (cl_of st') = Ok t.
Proof. exact format_normal_form. Qed.

(** 6. what [block_norm] keeps: everything the property names, and more *)
Theorem C15_block_norm_attributes :
  forall b,
  b_package (block_norm b) = b_package b /\ b_version (block_norm b) = b_version b
  /\ b_dists (block_norm b) = b_dists b /\ b_urgency (block_norm b) = b_urgency b
  /\ b_comment (block_norm b) = b_comment b /\ b_changes (block_norm b) = b_changes b
  /\ b_author (block_norm b) = b_author b /\ b_date (block_norm b) = b_date b
  /\ b_trailing (block_norm b) = b_trailing b /\ b_pairs (block_norm b) = b_pairs b
  /\ b_sep (block_norm b) = b_sep b.
Proof. exact block_norm_attrs. Qed.

(** Non-vacuity: with no junk classifier firing, a text whose trailer has a single
    space before the date parses leniently to one block with one warning and is refused
    by strict parsing; the two-space text parses identically in both modes. *)
Definition no_junk : junk :=
  let f := fun _ : str => false in mkJunk f f f f f f f f f f f f f.

Local Open Scope string_scope.
Example C15_nonvacuous :
  let good := dec "p (1.0) unstable; urgency=low\00000a\00000a  * x\00000a\00000a -- A <a@b>  Mon, 01 Jan 2001 00:00:00 +0000\00000a" in
  let bad := dec "p (1.0) unstable; urgency=low\00000a\00000a  * x\00000a\00000a -- A <a@b> Mon, 01 Jan 2001 00:00:00 +0000\00000a" in
  (exists st, parse_changelog no_junk true false None (InStr good) = Ok st
              /\ parse_changelog no_junk false false None (InStr good) = Ok st
              /\ List.length (p_blocks st) = 1%nat /\ p_warn st = [])
  /\ parse_changelog no_junk true false None (InStr bad) = Err ParseError
  /\ (exists st, parse_changelog no_junk false false None (InStr bad) = Ok st
                 /\ List.length (p_blocks st) = 1%nat /\ p_warn st = [WBadTrailer]
                 /\ format_changelog false (cl_of st) = Ok bad).
Proof.
  vm_compute. split; [|split]; [eexists; repeat split|reflexivity|eexists; repeat split].
Qed.

(** a text with a repeated key, an urgency comment, a ';' inside the version, junk before
    the first heading and a missing trailer parses with warnings; its str() is NOT the input
    (the heading is normalised) but is a fixed point, as theorem 3 says *)
Example C15_normal_form_nonvacuous :
  let s := dec "junk\00000ap (1;2) a  b; x,urgency=low (c) , K=1, k=2\00000a  * x\00000a" in
  match parse_changelog no_junk false false None (InStr s) with
  | Ok st =>
      match format_changelog false (cl_of st) with
      | Ok t =>
          List.length (p_warn st) = 4%nat /\ str_eqb t s = false
          /\ match parse_changelog no_junk false false None (InStr t) with
             | Ok st' => cl_of st' = cl_of st
             | Err _ => False
             end
      | Err _ => False
      end
  | Err _ => False
  end.
Proof. vm_compute. repeat split. Qed.

(** an editing script in the documented domains: a full new_block, an added change, a new
    version -- formats, and the text parses back to the object without a warning *)
Example C15_built_nonvacuous :
  let ops := [NewBlock (Some (dec "pkg")) (Some (dec "1.0-1")) (Some (dec "unstable stable")) (Some (dec "low"))
                       (Some (dec " (a comment)")) (Some [dec ""; dec "  * first"; dec ""])
                       (Some (dec "A B <a@b.c>")) (Some (dec "Mon, 01 Jan 2001 00:00:00 +0000"))
                       (Some [(dec "x-y", dec "1"); (dec "Binary-Only", dec "yes")]);
              AddChange (dec "  * second"); SetAttr AVersion (dec "1:1.0-2")] in
  forallb op_dom ops = true
  /\ match apply_ops empty_changelog ops with
     | Ok c => match format_changelog false c with
               | Ok t => match parse_changelog no_junk false false None (InStr t) with
                         | Ok st' => cl_of st' = c /\ p_warn st' = []
                                     /\ map b_changes (cl_blocks c) = [[dec ""; dec "  * first"; dec "  * second"; dec ""]]
                         | Err _ => False
                         end
               | Err _ => False
               end
     | Err _ => False
     end.
Proof. vm_compute. repeat split. Qed.

(** a parsed object with a junk line, a normalised heading and NO trailer, then edited: a
    change added, author and date assigned, a new block put in front.  str() now writes the
    trailer (fix 0b48ef1), and the text parses back to the same blocks *)
Example C15_edit_parsed_nonvacuous :
  let s := dec "junk\00000ap (1;2) a  b; x,urgency=low (c) , K=1, k=2\00000a  * x\00000a" in
  let ops := [AddChange (dec "  * y"); SetAttr AAuthor (dec "A B <a@b.c>");
              SetAttr ADate (dec "Mon, 01 Jan 2001 00:00:00 +0000");
              NewBlock (Some (dec "q")) (Some (dec "2.0")) (Some (dec "unstable")) None None
                       (Some [dec "  * new"]) (Some (dec "C <c@d>")) (Some (dec "1 Jan 2002 1:00:00 -0100")) None] in
  forallb op_dom ops = true
  /\ match parse_changelog no_junk false false None (InStr s) with
     | Ok st =>
         match apply_ops (cl_of st) ops with
         | Ok c =>
             match format_changelog false c with
             | Ok t =>
                 match parse_changelog no_junk false false None (InStr t) with
                 | Ok st' => cl_of st' = mkCl (cl_initial c) (map block_norm (cl_blocks c))
                             /\ List.length (cl_blocks c) = 2%nat
                             /\ map b_no_trailer (cl_blocks c) = [false; true]
                             /\ map b_no_trailer (cl_blocks (cl_of st')) = [false; false]
                 | Err _ => False
                 end
             | Err _ => False
             end
         | Err _ => False
         end
     | Err _ => False
     end.
Proof. vm_compute. repeat split. Qed.

(** 7. agree implies holds (the bridge between the correspondence and the theorems above).
       For EVERY case of Changelog/Check.v ([CMut] and [CEdit] are C15's constructors; the module
       is shared with C04): whenever the implementation behaved like the model, the property
       held -- under the side condition [judged] (Changelog/NormalCheckProofs.v), which says
       - [CMut]: a list-of-lines or file input consists of lines of a text (no CR, no inner LF,
         after rstrip('\n')); max_blocks is not 0; and where the normal form is judged, blocks of
         the object and of its re-parse that have the same raw version show the same public
         version ([ob_pubversion], which [agree] does not compare);
       - [CEdit]: the same for the start input and the public versions, and only when all
         editing values are in their domains and no call raised (otherwise [holds] claims nothing);
       - [CWf]: see Props/C04.v.
       Without it the statement is false ([C15_agree_alone_is_not_enough]).  The list-of-lines
       and max_blocks conditions are the ones the check declares in its ASSUMPTIONS. *)
Theorem C15_agree_implies_holds :
  forall c, judged c = true -> agree c = true -> holds c = true.
Proof. exact agree_implies_holds. Qed.

(** the strictness part of [holds] needs no side condition at all: for every input form
    (lines with CR included), allow_empty_author and max_blocks, [agree] alone gives: the
    lenient constructor returned; the strict one raised ChangelogParseError, and nothing
    else, exactly when the lenient one warned; otherwise it built the same object *)
Theorem C15_agree_implies_strictness :
  forall inp allow maxb tbl len str re,
  agree (CMut inp allow maxb tbl len str re) = true ->
  exists os, len = Ok os /\
    match str with
    | Err ParseError => negb (os_warnings os =? 0)%N
    | Err _ => false
    | Ok os' =>
        (os_warnings os =? 0)%N && (os_warnings os' =? 0)%N
        && list_eqb block_eqb (map block_of (os_blocks os)) (map block_of (os_blocks os'))
        && strs_eqb (map declit (os_initial os)) (map declit (os_initial os'))
    end = true.
Proof. exact agree_implies_strictness. Qed.

(** judged cases that agree and hold (a file with max_blocks = 1 and allow_empty_author; an
    editing script on a parsed changelog), and the three ways in which [agree] alone is not
    enough: a re-parse observed without its public version; a change line with a CR given in
    a list of lines (written with the CR, read back as two lines); max_blocks = 0 after a
    blank line (str() is a blank text, whose parse formats to "") *)
Definition C15_L (s : string) : lit := enclit (dec s).
Definition C15_hdr : string := "p (1) u; urgency=low".
Definition C15_trl : string := " -- a <b>  1 J 2001 1:00:00 +0000".
Definition C15_block (v : string) (ch : list lit) (pv : option lit) : oblock :=
  mkOB (Some (C15_L "p")) (Some (C15_L v)) (Some (C15_L "u")) (Some (C15_L "low")) (C15_L "") ch
       (Some (C15_L "a <b>")) (Some (C15_L "1 J 2001 1:00:00 +0000")) [] [] false (C15_L "  ") pv.
Definition C15_text : lit :=
  C15_L "p (1) u; urgency=low\00000a  * x\00000a -- a <b>  1 J 2001 1:00:00 +0000\00000a".
Definition C15_obs (pv : option lit) : result ostate :=
  Ok (mkOS [] [C15_block "1" [C15_L "  * x"] pv] 0 (Ok C15_text)).

Example C15_agree_holds_nonvacuous :
  let one := Some (C15_L "1") in
  let mut := CMut (LFile C15_text) true (Some 1%N) [] (C15_obs one) (C15_obs one) (Some (C15_obs one)) in
  let o := Ok (mkOS [] [C15_block "2" [C15_L "  * x"; C15_L "  * y"] (Some (C15_L "2"))] 0
     (Ok (C15_L "p (2) u; urgency=low\00000a  * x\00000a  * y\00000a -- a <b>  1 J 2001 1:00:00 +0000\00000a"))) in
  let edit := CEdit (Some (LStr C15_text)) [] [LAddChange (C15_L "  * y"); LSetAttr AVersion (C15_L "2")] o (Some o) in
  (judged mut = true /\ agree mut = true /\ holds mut = true)
  /\ (judged edit = true /\ agree edit = true /\ holds edit = true).
Proof. vm_compute. repeat split. Qed.

Example C15_agree_alone_is_not_enough :
  let one := Some (C15_L "1") in
  let pub := CMut (LStr C15_text) false None [] (C15_obs one) (C15_obs one) (Some (C15_obs None)) in
  let t_cr := C15_L "p (1) u; urgency=low\00000a  * a\00000db\00000a -- a <b>  1 J 2001 1:00:00 +0000\00000a" in
  let t_lf := C15_L "p (1) u; urgency=low\00000a  * a\00000ab\00000a -- a <b>  1 J 2001 1:00:00 +0000\00000a" in
  let o_cr := Ok (mkOS [] [C15_block "1" [C15_L "  * a\00000db"] one] 0 (Ok t_cr)) in
  let o_lf := Ok (mkOS [] [C15_block "1" [C15_L "  * a"; C15_L "b"] one] 1 (Ok t_lf)) in
  let cr := CMut (LLines [C15_L C15_hdr; C15_L "  * a\00000db"; C15_L C15_trl]) false None [] o_cr o_cr (Some o_lf) in
  let o_m0 := Ok (mkOS [C15_L ""] [] 0 (Ok (C15_L "\00000a"))) in
  let m0 := CMut (LLines [C15_L ""; C15_L C15_hdr]) false (Some 0%N) [] o_m0 o_m0
                 (Some (Ok (mkOS [] [] 1 (Ok (C15_L ""))))) in
  (agree pub = true /\ holds pub = false /\ judged pub = false)
  /\ (agree cr = true /\ holds cr = false /\ judged cr = false)
  /\ (agree m0 = true /\ holds m0 = false /\ judged m0 = false).
Proof. vm_compute. repeat split. Qed.

Print Assumptions C15_lenient_total.
Print Assumptions C15_strict_iff_warning.
Print Assumptions C15_strict_raises_iff_lenient_warns.
Print Assumptions C15_format_normal_form_parsed.
Print Assumptions C15_format_normal_form_built.
Print Assumptions C15_format_normal_form.
Print Assumptions C15_block_norm_attributes.
(** The case type carries its texts as packed primitive 63-bit integers (Changelog/Lit.v), so the two
    statements below mention [declit]: Print Assumptions lists Coq's primitive integer type and the
    four operations [declit] uses (PrimInt63.int, lsr, land, leb, eqb) -- kernel primitives that come
    with the case type itself -- and nothing else. *)
Print Assumptions C15_agree_implies_holds.
Print Assumptions C15_agree_implies_strictness.
