(** C15 - statements are added once the proofs exist (work in progress). *)
From Verif Require Import Lib.Base Changelog.Model Changelog.Spec.
