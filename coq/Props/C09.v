(** C09 — Deb822 mappings stay ordered, case-insensitive, case-preserving in any history.
    Only statements; every proof is [exact <lemma>].

    Model: Dict/Heap.v (pointer-level: one heap of LinkedListNode cells, LinkedList, OrderedSet,
    Deb822Dict, the paragraph objects of a history).  Spec: Dict/Spec.v (association list).
    Check: Dict/Check.v ([agree] runs [model_frames]; [holds] is [holds_frames] over [ref_step]).
    Proofs: Dict/ProofsLL.v (linked list), ProofsOS.v (OrderedSet), ProofsD.v (Deb822Dict),
    ProofsW.v (worlds and histories).

    [lower] (= str.lower) is universally quantified: nothing is assumed about it.

    Domain of the history theorems, as boolean predicates on the INPUTS (Dict/Check.v):
    - [start_ok s]: the initial values pass Deb822.validate_input and, for a parsed start, the
      text parses to the listed fields (otherwise the constructor raises and there is no paragraph);
    - [hist_ok lower W xs]: every dump+reparse of the history is applied to a paragraph on which
      dump-then-parse is the identity (evaluated on the reference run).  Everything else is
      unrestricted: any keys, any values (multi-line and invalid ones included), any object
      indices (missing ones included), any length. *)
From Verif Require Import Lib.Base Lib.PyStr Gen.PyChars Dict.Common Dict.Heap Dict.Spec Dict.Check
  Dict.ProofsLL Dict.ProofsOS Dict.ProofsD Dict.ProofsW Dict.ProofsParse.

(** 1. dll_wf_preserved.  The representation invariant [wf_world] — for every paragraph object:
       the cells reachable from head form a doubly linked list whose prev/next mirror the id list,
       ids are distinct and allocated, head/tail are its ends, size its length, the table maps
       exactly the lowered keys to the node holding that key, table and value dict have no
       duplicate key, all values passed validate_input; different objects own disjoint cells —
       holds after every history (successful and failing operations alike). *)
Theorem C09_dll_wf_preserved :
  forall lower s xs,
    start_ok s = true -> hist_ok lower (s_start lower s) xs = true ->
    wf_world lower (run lower (snd (start_world lower s)) xs).
Proof. exact wf_preserved. Qed.

(** ... and it is preserved by every single operation from ANY well-formed world (not only
    those reachable from the three starts), where the operation also does what the reference
    does: same result or exception kind, and the abstraction commutes. *)
Theorem C09_step_refines :
  forall lower w Cs x,
    W_rep lower w Cs -> reparse_ok (map its Cs) x = true ->
    exists Cs',
      W_rep lower (snd (step lower w x)) Cs'
      /\ ref_step lower (map its Cs) x (fst (step lower w x)) = (fst (step lower w x), map its Cs').
Proof. exact step_sim. Qed.

(** In a well-formed world every walk from a head terminates and finds only live cells:
    the model's "dangling id" / "cycle" results (OtherError / OutOfFuel) cannot occur, and
    list(d.items()) of every paragraph is the abstract content. *)
Theorem C09_wf_observable :
  forall lower w Cs,
    W_rep lower w Cs ->
    map (obj_items lower w) (w_objs w) = map (fun d => Ok d) (map its Cs).
Proof. exact W_rep_items. Qed.

(** 2. dict_refines_assoc.  For every start (empty, dict-initialised, parsed) and every history,
       the trace of the pointer-level model — result or exception kind of every operation,
       list(d), values, len(d), k in d for every probed key, d.dump() of the paragraph operated
       on, and the items of EVERY paragraph after every operation — is exactly what the
       association-list reference prescribes, as judged by the function [holds] is made of. *)
Theorem C09_dict_refines_assoc :
  forall lower alpha s xs,
    start_ok s = true -> hist_ok lower (s_start lower s) xs = true ->
    holds_frames lower alpha s xs (model_frames lower alpha s xs) = true.
Proof. exact model_refines. Qed.

(** The same in plain terms: after any history, list(d.items()) of every paragraph object is the
    content of the corresponding paragraph of the reference run (keys as first spelled, in order,
    with their values); and when every assigned value passes validate_input, the reference run
    is [Spec.s_run] itself. *)
Theorem C09_run_refines :
  forall lower s xs,
    start_ok s = true -> hist_ok lower (s_start lower s) xs = true ->
    let w := run lower (snd (start_world lower s)) xs in
    map (obj_items lower w) (w_objs w)
    = map (fun d => Ok d) (fold_left (spec_next lower) xs (s_start lower s)).
Proof. exact run_refines. Qed.

Theorem C09_reference_run_is_s_run :
  forall lower xs W,
    forallb sets_valid xs = true -> fold_left (spec_next lower) xs W = s_run lower W xs.
Proof. exact spec_run_s_run. Qed.

(** sort_fields(key=...) for the five key functions of [sortkey] (default, len, constant, a rank
    table, reverse-lexicographic): what the reference prescribes -- and hence, by theorems 2 above,
    what the model does -- is THE stable sort by key value: a permutation of the paragraph, in
    non-decreasing key order, in which the fields with any given key value keep their relative
    order (fields the key function ranks equally are not re-ordered). *)
Theorem C09_sort_stable :
  forall lower o sk (d : items),
    let key := fun p : str * str => sort_key lower sk (fst p) in
    let d' := snd (s_step1 lower d (OSort o sk)) in
    Permutation.Permutation d' d
    /\ Sorted.StronglySorted (fun x y => zs_leb (key x) (key y) = true) d'
    /\ forall k, filter (fun y => zs_eqb (key y) k) d' = filter (fun y => zs_eqb (key y) k) d.
Proof. exact sort_reference_stable. Qed.

(** 3. failed_op_unchanged.  After any history, an operation that raises (KeyError on a missing
       key, ValueError on re-ordering relative to itself or on an invalid value, ...) leaves every
       paragraph of the world unchanged. *)
Theorem C09_failed_op_unchanged :
  forall lower s xs x e,
    start_ok s = true -> hist_ok lower (s_start lower s) (xs ++ [x]) = true ->
    let w := run lower (snd (start_world lower s)) xs in
    fst (step lower w x) = RErr e ->
    map (obj_items lower (snd (step lower w x))) (w_objs (snd (step lower w x)))
    = map (obj_items lower w) (w_objs w).
Proof. exact failed_op_unchanged. Qed.

(** 4. The bridge to the correspondence check, for every case whatsoever: if the case is in the
       declared domain and the model reproduces what the implementation did (together: [agree],
       Dict/Check.v), then the property holds of what the implementation did ([holds]). *)
Theorem C09_agree_implies_holds :
  forall c, agree c = true -> holds c = true.
Proof. exact agree_implies_holds. Qed.

(** 5. The dump/parse cycle.  On a paragraph whose keys are field names (non-empty, no ':',
       white space or line boundary, not starting with '#') and whose values are single lines
       without surrounding white space, dump-then-parse is the identity ... *)
Theorem C09_parse_dump_identity :
  forall d, forallb simple_kv d = true -> parse_text (s_dump d) = d.
Proof. exact parse_dump_simple. Qed.

(** ... hence every history over such keys and values is in the domain, whatever it does
    (any interleaving of the fourteen operations on any objects, re-parses included) ... *)
Theorem C09_simple_histories_in_domain :
  forall lower s xs,
    start_simple s = true -> forallb op_simple xs = true ->
    hist_ok lower (s_start lower s) xs = true.
Proof. exact hist_ok_simple. Qed.

(** ... and theorem 2 holds for it with hypotheses on the keys and values only. *)
Theorem C09_dict_refines_assoc_simple :
  forall lower alpha s xs,
    start_ok s = true -> start_simple s = true -> forallb op_simple xs = true ->
    holds_frames lower alpha s xs (model_frames lower alpha s xs) = true.
Proof. exact model_refines_simple. Qed.

(** Non-vacuity: a dict-initialised start with case variants, a history with every kind of
    operation (a failing re-order, a missing key, an invalid value, a copy and a dump+reparse
    included) meets the hypotheses; the final contents are as expected. *)
Example C09_nonvacuous :
  let A := [65]%N in let a := [97]%N in let B := [66]%N in let b := [98]%N in
  let Cc := [67; 99]%N in let D := [68]%N in
  let one := [49]%N in let two := [50]%N in
  let s := SDict [(A, one); (b, two); (Cc, [120; 32; 121]%N)] in
  let xs := [OSet 0 a two; OSet 0 D [49; 10; 32; 50]%N; OSet 0 D [49; 10]%N; OFirst 0 B;
             OBefore 0 D a; OAfter 0 Cc Cc; OLast 0 [90]%N; ODel 0 [99; 67]%N; OCopy 0; OSort 1 KDefault;
             OReparse 1; OGet 2 [100]%N; OBefore 1 A b; ODump 0; OSet 7 a a] in
  start_ok s = true
  /\ hist_ok ascii_lower (s_start ascii_lower s) (xs ++ [OLast 0 [90]%N]) = true
  /\ map (obj_items ascii_lower (run ascii_lower (snd (start_world ascii_lower s)) xs))
         (w_objs (run ascii_lower (snd (start_world ascii_lower s)) xs))
     = [Ok [(b, two); (D, [49; 10; 32; 50]%N); (A, two)];
        Ok [(A, two); (b, two); (D, [49; 10; 32; 50]%N)];
        Ok [(A, two); (b, two); (D, [49; 10; 32; 50]%N)]]
  /\ fst (step ascii_lower (run ascii_lower (snd (start_world ascii_lower s)) xs) (OLast 0 [90]%N))
     = RErr KeyError.
Proof. vm_compute. repeat split. Qed.

(** The Prop hypothesis [W_rep] of theorems C09_step_refines / C09_wf_observable is satisfiable by
    a non-trivial world (three paragraphs sharing one heap, after re-orderings, a copy, a sort and
    a re-parse): by theorem 1. *)
Example C09_wf_nonvacuous :
  let A := [65]%N in let b := [98]%N in let Cc := [67; 99]%N in
  let s := SDict [(A, [49]%N); (b, [50]%N); (Cc, [120]%N)] in
  let xs := [OFirst 0 [66]%N; OCopy 0; OSort 1 KDefault; OReparse 1; ODel 2 [97]%N; OAfter 0 A Cc] in
  exists Cs, W_rep ascii_lower (run ascii_lower (snd (start_world ascii_lower s)) xs) Cs.
Proof. cbv zeta. apply C09_dll_wf_preserved; vm_compute; reflexivity. Qed.

(** Non-vacuity of the simple domain: a parsed start and a history with re-parses. *)
Example C09_nonvacuous_simple :
  let A := [65]%N in let a := [97]%N in let b := [98]%N in
  let text := [65; 58; 32; 49; 10; 98; 58; 10]%N in       (* "A: 1\nb:\n" *)
  let s := SParsed text [(A, [49]%N); (b, [])] in
  let xs := [OSet 0 a [120; 32; 121]%N; OReparse 0; OFirst 1 b; OReparse 1; OSort 2 KLen; OCopy 2] in
  start_ok s = true /\ start_simple s = true /\ forallb op_simple xs = true
  /\ map (obj_items ascii_lower (run ascii_lower (snd (start_world ascii_lower s)) xs))
         (w_objs (run ascii_lower (snd (start_world ascii_lower s)) xs))
     = [Ok [(A, [120; 32; 121]%N); (b, [])]; Ok [(b, []); (A, [120; 32; 121]%N)];
        Ok [(b, []); (A, [120; 32; 121]%N)]; Ok [(b, []); (A, [120; 32; 121]%N)]].
  (* sort_fields(key=len) on "b", "A": a tie, the order is kept *)
Proof. vm_compute. repeat split. Qed.

Print Assumptions C09_dll_wf_preserved.
Print Assumptions C09_step_refines.
Print Assumptions C09_wf_observable.
Print Assumptions C09_dict_refines_assoc.
Print Assumptions C09_run_refines.
Print Assumptions C09_reference_run_is_s_run.
Print Assumptions C09_sort_stable.
Print Assumptions C09_failed_op_unchanged.
Print Assumptions C09_agree_implies_holds.
Print Assumptions C09_parse_dump_identity.
Print Assumptions C09_simple_histories_in_domain.
Print Assumptions C09_dict_refines_assoc_simple.
