(** C09 — placeholder while the proofs are being built (replaced below). *)
From Verif Require Import Lib.Base Dict.Common Dict.Heap Dict.Spec.
