(** TIE BY REGENERATION for C16.  Gen/TrGlobsToRe.v is regenerated from lib/debian/copyright.py on
    every run by harness/py2coq.py: the control flow of [globs_to_re] as the source has it now —
    [for i, glob in enumerate(globs)] (structural recursion), the nested [while i < n] (Fixpoint on
    explicit fuel, its exit passed as a continuation), [glob[i]] with its IndexError, both
    [raise MachineReadableFormatError], the [buf.write]s in source order, the final
    [re.compile(buf.getvalue(), re.MULTILINE | re.DOTALL)].
    This file proves that the regenerated function never raises IndexError, never runs out of
    fuel, and returns on ALL lists of globs exactly what the hand-written model [Glob.globs_to_re]
    (the function [agree] runs and the theorems of Props/C16.v are about) returns: the same error
    or the same pattern text ([Glob.regex_text] of the model's syntax tree) and flags. *)
From Coq Require Import Lia.
From Verif Require Import Lib.Base Lib.Dec Lib.PyStr Lib.Tr Gen.PyChars Gen.ReEscape.
From Verif Require Import Copyright.Glob Copyright.GlobSpec Copyright.GlobProofs Copyright.GlobTrPrims Gen.TrGlobsToRe.
Local Open Scope Z_scope.

(** * [glob[i]] inside the bounds *)
Lemma tr_index_app {A} (pre : list A) (x : A) (rest : list A) :
  tr_index (pre ++ x :: rest) (Z.of_nat (length pre)) = Ok x.
Proof.
  apply tr_index_nth. rewrite nth_error_app2 by lia. rewrite Nat.sub_diag. reflexivity.
Qed.

Lemma alt_text_cons a r : alt_text (a :: r) = atom_text a ++ alt_text r.
Proof. reflexivity. Qed.

(** * The inner loop [while i < n]: from position [i = len(pre)] of [glob = pre ++ rest] it writes
      the text of [glob_atoms rest] (or raises what [glob_atoms rest] raises) and leaves [i = n]. *)
Lemma loop2_eq : forall fuel kx globs buf i glob n pre rest,
  glob = pre ++ rest -> i = Z.of_nat (length pre) -> n = tr_len glob ->
  (length rest < fuel)%nat ->
  tr_globs_to_re_loop2 fuel kx globs buf i glob n
  = match glob_atoms rest with
    | Ok a => kx globs (buf ++ alt_text a) n glob n
    | Err e => Err e
    end.
Proof.
  induction fuel as [|fuel IH]; intros kx globs buf i glob n pre rest Hg Hi Hn Hf; [lia|].
  cbn [tr_globs_to_re_loop2].
  assert (Hlen : n = Z.of_nat (length pre) + Z.of_nat (length rest)).
  { rewrite Hn, Hg. unfold tr_len. rewrite app_length. lia. }
  destruct rest as [|c rest].
  - (* i = n: the loop is left *)
    cbn [length] in Hlen. replace (i <? n) with false by (symmetry; apply Z.ltb_ge; lia).
    cbn [glob_atoms alt_text map concat]. rewrite app_nil_r. replace i with n by lia. reflexivity.
  - cbn [length] in Hlen, Hf.
    replace (i <? n) with true by (symmetry; apply Z.ltb_lt; lia).
    rewrite Hg at 1. rewrite Hi at 1. rewrite tr_index_app. cbn [bind]. cbv beta zeta.
    (* the state after [c = glob[i]; i += 1] *)
    assert (Hg1 : glob = (pre ++ [c]) ++ rest) by (rewrite <- app_assoc; exact Hg).
    assert (Hi1 : i + 1 = Z.of_nat (length (pre ++ [c]))) by (rewrite app_length; cbn [length]; lia).
    cbn [glob_atoms]. unfold STAR, QMARK, BSLASH.
    destruct (c =? 42)%N.
    { rewrite (IH kx globs _ (i + 1) glob n (pre ++ [c]) rest Hg1 Hi1 Hn) by lia.
      destruct (glob_atoms rest) as [a|e]; cbn [bind]; [|reflexivity].
      rewrite alt_text_cons, <- app_assoc. reflexivity. }
    destruct (c =? 63)%N.
    { rewrite (IH kx globs _ (i + 1) glob n (pre ++ [c]) rest Hg1 Hi1 Hn) by lia.
      destruct (glob_atoms rest) as [a|e]; cbn [bind]; [|reflexivity].
      rewrite alt_text_cons, <- app_assoc. reflexivity. }
    destruct (c =? 92)%N.
    { destruct rest as [|e rest].
      - (* single backslash at the end *)
        cbn [length] in Hlen. replace (i + 1 <? n) with false by (symmetry; apply Z.ltb_ge; lia).
        reflexivity.
      - cbn [length] in Hlen, Hf.
        replace (i + 1 <? n) with true by (symmetry; apply Z.ltb_lt; lia).
        rewrite Hg1 at 1. rewrite Hi1 at 1. rewrite tr_index_app. cbn [bind]. cbv beta zeta.
        change (tr_char_in e [92; 63; 42]%N) with (in_chars [92; 63; 42]%N e).
        destruct (in_chars [92; 63; 42]%N e); [|reflexivity].
        assert (Hg2 : glob = (pre ++ [c; e]) ++ rest) by (rewrite <- app_assoc; exact Hg).
        assert (Hi2 : i + 1 + 1 = Z.of_nat (length (pre ++ [c; e])))
          by (rewrite app_length; cbn [length]; lia).
        rewrite (IH kx globs _ (i + 1 + 1) glob n (pre ++ [c; e]) rest Hg2 Hi2 Hn) by lia.
        destruct (glob_atoms rest) as [a|e']; cbn [bind]; [|reflexivity].
        rewrite alt_text_cons, <- app_assoc. reflexivity. }
    rewrite (IH kx globs _ (i + 1) glob n (pre ++ [c]) rest Hg1 Hi1 Hn) by lia.
    destruct (glob_atoms rest) as [a|e]; cbn [bind]; [|reflexivity].
    rewrite alt_text_cons, <- app_assoc. reflexivity.
Qed.

(** * The outer loop: what it appends to the buffer for a list of alternatives;
      [first] = "this is the iteration with [i == 0]" (no '|' in front) *)
Fixpoint pieces (first : bool) (alts : list alt) : str :=
  match alts with
  | [] => []
  | a :: r => (if first then [] else [BAR]) ++ alt_text a ++ pieces false r
  end.

Lemma loop1_eq : forall gs j globs buf, 0 <= j ->
  tr_globs_to_re_loop1 (tr_enumerate_from j gs) globs buf
  = match globs_atoms gs with
    | Ok alts => Ok (buf ++ pieces (j =? 0) alts ++ [BSLASH; 90%N], (true, true))
    | Err e => Err e
    end.
Proof.
  induction gs as [|g gs IH]; intros j globs buf Hj.
  - cbn [tr_enumerate_from tr_globs_to_re_loop1 globs_atoms pieces app]. reflexivity.
  - cbn [tr_enumerate_from tr_globs_to_re_loop1 globs_atoms]. cbv beta zeta.
    assert (E : forall b,
      tr_globs_to_re_loop2 (S (length g))
        (fun (globs0 : list str) (buf0 : str) (_ : Z) (_ : str) (_ : Z) =>
           tr_globs_to_re_loop1 (tr_enumerate_from (j + 1) gs) globs0 buf0) globs b 0 g (tr_len g)
      = match glob_atoms g with
        | Ok a => match globs_atoms gs with
                  | Ok alts => Ok ((b ++ alt_text a) ++ pieces false alts ++ [BSLASH; 90%N], (true, true))
                  | Err e => Err e
                  end
        | Err e => Err e
        end).
    { intros b. rewrite (loop2_eq _ _ globs b 0 g (tr_len g) [] g eq_refl eq_refl eq_refl) by lia.
      destruct (glob_atoms g) as [a|e]; [|reflexivity].
      rewrite IH by lia. replace (j + 1 =? 0) with false by (symmetry; apply Z.eqb_neq; lia).
      reflexivity. }
    rewrite !E.
    destruct (j =? 0); cbn [negb];
      destruct (glob_atoms g) as [a|e]; cbn [bind]; try reflexivity;
      destruct (globs_atoms gs) as [alts|e]; cbn [bind pieces]; try reflexivity.
    + rewrite <- !app_assoc. reflexivity.
    + cbn [app]. rewrite <- !app_assoc. reflexivity.
Qed.

(** * The buffer is the model's pattern text *)
Lemma pieces_true_join : forall alts, pieces true alts = join [BAR] (map alt_text alts).
Proof.
  induction alts as [|a r IH]; [reflexivity|].
  destruct r as [|b r].
  - cbn. apply app_nil_r.
  - change (map alt_text (a :: b :: r)) with (alt_text a :: map alt_text (b :: r)).
    rewrite join_cons by discriminate. rewrite <- IH. reflexivity.
Qed.

Lemma add_endz_nonempty alts : add_endz alts <> [].
Proof. destruct alts as [|a [|b r]]; discriminate. Qed.

Lemma regex_text_add_endz : forall alts,
  regex_text (add_endz alts) = join [BAR] (map alt_text alts) ++ [BSLASH; 90%N].
Proof.
  unfold regex_text.
  induction alts as [|a r IH]; [reflexivity|].
  destruct r as [|b r].
  - cbn [add_endz map join intersperse_concat]. unfold alt_text. rewrite map_app, concat_app.
    cbn [map concat atom_text]. rewrite app_nil_r. reflexivity.
  - change (add_endz (a :: b :: r)) with (a :: add_endz (b :: r)).
    change (map alt_text (a :: b :: r)) with (alt_text a :: map alt_text (b :: r)).
    cbn [map]. rewrite join_cons.
    2:{ intros H. apply map_eq_nil in H. exact (add_endz_nonempty _ H). }
    rewrite IH. rewrite join_cons by discriminate. rewrite <- !app_assoc. reflexivity.
Qed.

(** * The tie *)
Theorem tr_globs_to_re_eq globs :
  tr_globs_to_re globs
  = do re <- globs_to_re globs; Ok (regex_text (re_alts re), (re_multiline re, re_dotall re)).
Proof.
  unfold tr_globs_to_re, tr_enumerate, globs_to_re. cbv beta zeta.
  rewrite loop1_eq by lia.
  destruct (globs_atoms globs) as [alts|e]; cbn [bind]; [|reflexivity].
  cbn [re_alts re_multiline re_dotall Z.eqb app].
  rewrite pieces_true_join, regex_text_add_endz. reflexivity.
Qed.

(** the pattern text alone *)
Corollary tr_globs_to_re_text globs :
  (do p <- tr_globs_to_re globs; Ok (fst p))
  = do re <- globs_to_re globs; Ok (regex_text (re_alts re)).
Proof.
  rewrite tr_globs_to_re_eq. destruct (globs_to_re globs) as [re|e]; reflexivity.
Qed.

(** in particular (through the model's theorems of GlobProofs.v): the regenerated code raises nothing
    but the format error, and exactly on the lists the specification calls ill-formed *)
Corollary tr_globs_to_re_err globs e : tr_globs_to_re globs = Err e -> e = FormatError.
Proof.
  rewrite tr_globs_to_re_eq. destruct (globs_to_re globs) as [re|e'] eqn:H; cbn [bind]; [discriminate|].
  intros E. injection E as <-. exact (globs_to_re_err globs e' H).
Qed.

Corollary tr_globs_to_re_ok_iff globs : is_ok (tr_globs_to_re globs) = forallb glob_valid globs.
Proof.
  rewrite tr_globs_to_re_eq, <- globs_to_re_ok_iff. destruct (globs_to_re globs); reflexivity.
Qed.
