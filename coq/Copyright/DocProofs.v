(** PROOFS for C17, part 2: a copyright document built through the API from values of
    the domain [wf_copyright] dumps to a text that Copyright() reads back as the very same
    paragraphs, whose properties are the values that were put in.

    The deb822 reader enters through ONE hypothesis ([reader_ok], a Section variable):
    valid, trimmed, non-empty paragraphs dumped and separated by one empty line are read
    back unchanged by iter_paragraphs.  Copyright/DocRoundtrip.v discharges it from C02's
    theorems; everything in this file is independent of C02's proofs. *)
From Verif Require Import Lib.Base Lib.PyStr Gen.PyChars Gen.CopyrightConsts Deb822.Spec
  Copyright.Fields Copyright.Doc Copyright.DocSpec Copyright.DocBridge Copyright.FieldsProofs.
From Verif Require Deb822.Model.

(** * A. Values and mappings *)

Lemma sp_tab_space c : is_sp_tab c = true -> py_isspace c = true.
Proof.
  unfold is_sp_tab. intros H. apply orb_true_iff in H.
  destruct H as [H|H]; apply N.eqb_eq in H; subst c; reflexivity.
Qed.

Lemma valid_cont_parts l :
  valid_cont l = true -> exists c r, l = c :: r /\ py_isspace c = true /\ lb_free l = true.
Proof.
  destruct l as [|c r]; [discriminate|]. unfold valid_cont. intros H.
  apply andb_true_iff in H. destruct H as [H Hn]. apply andb_true_iff in H. destruct H as [Hs _].
  exists c, r. repeat split; [now apply sp_tab_space|exact Hn].
Qed.

Lemma validate_conts conts : forallb valid_cont conts = true -> validate_cont_lines conts = Ok tt.
Proof.
  induction conts as [|l conts IH]; [reflexivity|]. intros H.
  cbn [forallb] in H. apply andb_true_iff in H. destruct H as [Hl Hc].
  destruct (valid_cont_parts l Hl) as (c & r & -> & Hsp & _).
  cbn [validate_cont_lines]. rewrite Hsp. now apply IH.
Qed.

(** a valid deb822 value is accepted by Deb822.__setitem__ *)
Lemma validate_valid_value v : valid_value v = true -> validate_input v = Ok tt.
Proof.
  unfold valid_value. intros H.
  pose proof (join_split_on LF v) as J. pose proof (last_nonempty_split_on LF v) as L.
  destruct (split_on LF v) as [|first conts] eqn:E; [discriminate|].
  apply andb_true_iff in H. destruct H as [Hf Hc].
  destruct v as [|x v'].
  - reflexivity.
  - cbn [is_empty negb andb] in L.
    assert (Hlast : last_nonempty (first :: conts) = true).
    { destruct conts as [|c conts'].
      - cbn [join intersperse_concat] in J. subst first. reflexivity.
      - rewrite last_nonempty_cons by discriminate.
        clear - Hc. revert c Hc. induction conts' as [|c2 r IH]; intros c Hc.
        + cbn [forallb] in Hc. rewrite andb_true_r in Hc.
          destruct (valid_cont_parts c Hc) as (c0 & r0 & -> & _). reflexivity.
        + rewrite last_nonempty_cons by discriminate. apply IH.
          cbn [forallb] in Hc. apply andb_true_iff in Hc. tauto. }
    rewrite Hlast in L. symmetry in L. apply negb_true_iff in L.
    unfold validate_input. rewrite L. rewrite <- J.
    rewrite splitlines_join.
    + cbn [tl]. now apply validate_conts.
    + cbn [forallb]. rewrite <- no_linebreak_lb_free, Hf. cbn [andb].
      rewrite forallb_forall in *. intros l Hl. specialize (Hc l Hl).
      now destruct (valid_cont_parts l Hc) as (c0 & r0 & _ & _ & Hfree).
    + exact Hlast.
Qed.

(** ** keys *)
Definition keq (a b : str) : bool := str_eqb (ascii_lower a) (ascii_lower b).

Lemma key_eqb_keq a b : key_eqb a b = keq a b. Proof. reflexivity. Qed.
Lemma keq_refl a : keq a a = true. Proof. apply str_eqb_refl. Qed.
Lemma keq_sym a b : keq a b = keq b a.
Proof.
  unfold keq. destruct (str_eqb (ascii_lower a) (ascii_lower b)) eqn:E.
  - apply str_eqb_eq in E. rewrite E. symmetry. apply str_eqb_refl.
  - destruct (str_eqb (ascii_lower b) (ascii_lower a)) eqn:E2; [|reflexivity].
    apply str_eqb_eq in E2. rewrite E2, str_eqb_refl in E. discriminate.
Qed.
Lemma keq_trans_false a b c : keq a b = true -> keq b c = false -> keq a c = false.
Proof. unfold keq. intros H. apply str_eqb_eq in H. now rewrite H. Qed.
Lemma keq_trans a b c : keq a b = true -> keq b c = true -> keq a c = true.
Proof. unfold keq. intros H. apply str_eqb_eq in H. now rewrite H. Qed.

(** case-insensitive membership in a key list, as [distinct_keys] tests it *)
Definition kmem (k : str) (ks : list str) : bool := existsb (str_eqb (ascii_lower k)) (map ascii_lower ks).

Lemma kmem_cons k x ks : kmem k (x :: ks) = keq k x || kmem k ks.
Proof. reflexivity. Qed.

Lemma kmem_app k a b : kmem k (a ++ b) = kmem k a || kmem k b.
Proof. unfold kmem. now rewrite map_app, existsb_app. Qed.

Lemma kmem_keq k k' ks : keq k k' = true -> kmem k ks = kmem k' ks.
Proof. unfold keq, kmem. intros H. apply str_eqb_eq in H. now rewrite H. Qed.

Lemma dcontains_kmem d k : dcontains d k = kmem k (map fst d).
Proof.
  induction d as [|[k' v] d IH]; [reflexivity|].
  cbn [dcontains map fst]. rewrite kmem_cons, IH, key_eqb_keq. now rewrite keq_sym.
Qed.

Lemma distinct_keys_cons k ks : distinct_keys (k :: ks) = negb (kmem k ks) && distinct_keys ks.
Proof. reflexivity. Qed.

Lemma distinct_keys_snoc ks k :
  distinct_keys ks = true -> kmem k ks = false -> distinct_keys (ks ++ [k]) = true.
Proof.
  induction ks as [|x ks IH]; intros Hd Hk; [reflexivity|].
  cbn [app]. rewrite distinct_keys_cons in *. apply andb_true_iff in Hd. destruct Hd as [Hx Hd].
  rewrite kmem_cons in Hk. apply orb_false_iff in Hk. destruct Hk as [Hkx Hk].
  rewrite kmem_app, kmem_cons. cbn [kmem map existsb]. rewrite orb_false_r.
  apply negb_true_iff in Hx. rewrite Hx. rewrite keq_sym, Hkx. cbn. now apply IH.
Qed.

Lemma distinct_keys_remove a x b : distinct_keys (a ++ x :: b) = true -> distinct_keys (a ++ b) = true.
Proof.
  induction a as [|y a IH]; cbn [app].
  - rewrite distinct_keys_cons. intros H. apply andb_true_iff in H. tauto.
  - rewrite !distinct_keys_cons. intros H. apply andb_true_iff in H. destruct H as [Hy Hd].
    rewrite IH by exact Hd. rewrite andb_true_r.
    rewrite kmem_app in *. rewrite kmem_cons in Hy. apply negb_true_iff in Hy.
    apply orb_false_iff in Hy. destruct Hy as [Ha Hy]. apply orb_false_iff in Hy.
    destruct Hy as [_ Hb]. now rewrite Ha, Hb.
Qed.

(** ** dset / dget / ddel *)
Lemma dset_keys d k v :
  map fst (dset d k v) = if dcontains d k then map fst d else map fst d ++ [k].
Proof.
  induction d as [|[k' v'] d IH]; [reflexivity|].
  cbn [dset dcontains]. destruct (key_eqb k' k) eqn:E; [reflexivity|].
  cbn [map fst orb]. rewrite IH. now destruct (dcontains d k).
Qed.

Lemma dset_In d k v kv : In kv (dset d k v) -> In kv d \/ snd kv = v.
Proof.
  induction d as [|[k' v'] d IH]; cbn [dset].
  - intros [<-|[]]. now right.
  - destruct (key_eqb k' k).
    + intros [<-|H]; [now right|left; now right].
    + intros [<-|H]; [left; now left|]. destruct (IH H); [left; now right|now right].
Qed.

Lemma dset_In_key d k v kv : In kv (dset d k v) -> In kv d \/ kv = (k, v) \/ (snd kv = v /\ In (fst kv) (map fst d)).
Proof.
  induction d as [|[k' v'] d IH]; cbn [dset].
  - intros [<-|[]]. right. now left.
  - destruct (key_eqb k' k).
    + intros [<-|H]; [right; right; split; [reflexivity|now left]|left; now right].
    + intros [<-|H]; [left; now left|].
      destruct (IH H) as [H1|[H1|[H1 H2]]]; [left; now right|right; now left|right; right; split; [exact H1|now right]].
Qed.

Lemma dget_dset_same d k v : dget (dset d k v) k = Some v.
Proof.
  induction d as [|[k' v'] d IH]; cbn [dset dget].
  - now rewrite key_eqb_keq, keq_refl.
  - destruct (key_eqb k' k) eqn:E; cbn [dget]; rewrite E; [reflexivity|exact IH].
Qed.

Lemma dget_dset_other d k v k2 : keq k k2 = false -> dget (dset d k v) k2 = dget d k2.
Proof.
  intros Hne. induction d as [|[k' v'] d IH]; cbn [dset dget].
  - now rewrite key_eqb_keq, Hne.
  - destruct (key_eqb k' k) eqn:E; cbn [dget].
    + rewrite key_eqb_keq in *. now rewrite (keq_trans_false _ _ _ E Hne).
    + now rewrite IH.
Qed.

Lemma dcontains_dget d k : dcontains d k = match dget d k with Some _ => true | None => false end.
Proof.
  induction d as [|[k' v'] d IH]; [reflexivity|]. cbn [dcontains dget].
  destruct (key_eqb k' k); [reflexivity|exact IH].
Qed.

Lemma dcontains_dset_other d k v k2 : keq k k2 = false -> dcontains (dset d k v) k2 = dcontains d k2.
Proof. intros H. now rewrite !dcontains_dget, dget_dset_other. Qed.

Lemma ddel_split d k :
  dcontains d k = true ->
  exists a x b, d = a ++ x :: b /\ ddel d k = Ok (a ++ b)
                /\ (forall k2, keq k k2 = false -> dget (a ++ b) k2 = dget d k2).
Proof.
  induction d as [|[k' v'] d IH]; [discriminate|]. cbn [dcontains ddel].
  destruct (key_eqb k' k) eqn:E.
  - intros _. exists [], (k', v'), d. repeat split. intros k2 Hne. cbn [app dget].
    rewrite key_eqb_keq in *. now rewrite (keq_trans_false _ _ _ E Hne).
  - cbn [orb]. intros H. destruct (IH H) as (a & x & b & -> & Hd & Hg).
    exists ((k', v') :: a), x, b. rewrite Hd. repeat split.
    intros k2 Hne. cbn [app dget]. now rewrite Hg.
Qed.

(** ** good paragraphs: valid for the deb822 round trip, first lines already trimmed *)
Definition trimmed (v : str) : bool := str_eqb (trim_value v) v.
Definition good_entry (kv : str * str) : bool :=
  valid_name (fst kv) && valid_value (snd kv) && trimmed (snd kv).
Definition good_para (d : para) : bool := forallb good_entry d && distinct_keys (map fst d).

Lemma good_para_valid d : good_para d = true -> valid_para d = true.
Proof.
  unfold good_para, valid_para. intros H. apply andb_true_iff in H. destruct H as [He Hd].
  rewrite Hd, andb_true_r. rewrite forallb_forall in *. intros kv Hkv. specialize (He kv Hkv).
  unfold good_entry in He. apply andb_true_iff in He. tauto.
Qed.

Lemma good_para_expected d : good_para d = true -> expected_para d = d.
Proof.
  unfold good_para. intros H. apply andb_true_iff in H. destruct H as [He _].
  unfold expected_para. induction d as [|[k v] d IH]; [reflexivity|].
  cbn [forallb] in He. apply andb_true_iff in He. destruct He as [Hkv Hd].
  cbn [map fst snd]. rewrite IH by exact Hd. f_equal. f_equal.
  unfold good_entry in Hkv. apply andb_true_iff in Hkv. destruct Hkv as [_ Ht].
  now apply str_eqb_eq in Ht.
Qed.

Lemma good_para_dset d k v :
  good_para d = true -> valid_name k = true -> valid_value v = true -> trimmed v = true ->
  good_para (dset d k v) = true.
Proof.
  unfold good_para. intros H Hk Hv Ht. apply andb_true_iff in H. destruct H as [He Hd].
  apply andb_true_iff. split.
  - rewrite forallb_forall in *. intros kv Hkv.
    destruct (dset_In_key _ _ _ _ Hkv) as [H1|[->|[H1 H2]]].
    + now apply He.
    + unfold good_entry. cbn [fst snd]. now rewrite Hk, Hv, Ht.
    + (* an existing key, kept with its spelling, now with the new value *)
      apply in_map_iff in H2. destruct H2 as [kv0 [Hf Hin]]. specialize (He kv0 Hin).
      unfold good_entry in *. rewrite H1, <- Hf, Hv, Ht.
      apply andb_true_iff in He. destruct He as [He _]. apply andb_true_iff in He.
      destruct He as [He _]. now rewrite He.
  - rewrite dset_keys. destruct (dcontains d k) eqn:E; [exact Hd|].
    apply distinct_keys_snoc; [exact Hd|]. now rewrite <- dcontains_kmem.
Qed.

Lemma good_para_remove a x b : good_para (a ++ x :: b) = true -> good_para (a ++ b) = true.
Proof.
  unfold good_para. intros H. apply andb_true_iff in H. destruct H as [He Hd].
  apply andb_true_iff. split.
  - rewrite forallb_app in *. cbn [forallb] in He. apply andb_true_iff in He.
    destruct He as [Ha Hb]. apply andb_true_iff in Hb. destruct Hb as [_ Hb]. now rewrite Ha, Hb.
  - rewrite map_app in *. cbn [map] in Hd. now apply distinct_keys_remove in Hd.
Qed.

Lemma dset_checked_ok d k v : valid_value v = true -> dset_checked d k v = Ok (dset d k v).
Proof. intros H. unfold dset_checked. now rewrite validate_valid_value. Qed.

(** * B. What the setters store is a valid, trimmed deb822 value *)

Lemma lb_free_no_lf s : lb_free s = true -> mem_char LF s = false.
Proof. exact (no_linebreak_no_lf s). Qed.

Lemma split_on_none c s : mem_char c s = false -> split_on c s = [s].
Proof.
  induction s as [|x s IH]; [reflexivity|]. cbn [mem_char existsb]. intros H.
  apply orb_false_iff in H. destruct H as [Hx Hs]. cbn [split_on].
  rewrite N.eqb_sym, Hx. unfold mem_char in IH. now rewrite IH.
Qed.

Lemma split_on_first_none c s : mem_char c s = false -> split_on_first c s = (s, None).
Proof.
  induction s as [|x s IH]; [reflexivity|]. cbn [mem_char existsb]. intros H.
  apply orb_false_iff in H. destruct H as [Hx Hs]. cbn [split_on_first].
  rewrite N.eqb_sym, Hx. unfold mem_char in IH. now rewrite IH.
Qed.

Lemma split_on_first_app c first rest :
  mem_char c first = false -> split_on_first c (first ++ c :: rest) = (first, Some rest).
Proof.
  induction first as [|x s IH]; cbn [mem_char existsb app split_on_first].
  - intros _. now rewrite N.eqb_refl.
  - intros H. apply orb_false_iff in H. destruct H as [Hx Hs].
    rewrite N.eqb_sym, Hx. unfold mem_char in IH. now rewrite IH.
Qed.

(** a one-line value *)
Lemma single_line_value s :
  lb_free s = true -> strip_by py_isspace s = s -> valid_value s = true /\ trimmed s = true.
Proof.
  intros Hf Hs. pose proof (lb_free_no_lf s Hf) as Hlf. split.
  - unfold valid_value. rewrite split_on_none by exact Hlf. cbn [forallb]. now rewrite andb_true_r.
  - unfold trimmed, trim_value. rewrite split_on_first_none by exact Hlf. rewrite Hs. apply str_eqb_refl.
Qed.

(** a value of several lines whose first line needs no trimming *)
Lemma multi_line_value first conts :
  lb_free first = true -> strip_by py_isspace first = first -> forallb valid_cont conts = true ->
  valid_value (join [LF] (first :: conts)) = true /\ trimmed (join [LF] (first :: conts)) = true.
Proof.
  intros Hf Hs Hc.
  assert (Hall : forallb (fun l => negb (mem_char LF l)) (first :: conts) = true).
  { cbn [forallb]. rewrite (lb_free_no_lf first Hf). cbn [negb andb].
    rewrite forallb_forall in *. intros l Hl. specialize (Hc l Hl).
    destruct (valid_cont_parts l Hc) as (c0 & r0 & _ & _ & Hfree). now rewrite (lb_free_no_lf l Hfree). }
  split.
  - unfold valid_value. rewrite split_on_join; [|discriminate|exact Hall]. now rewrite Hc, andb_true_r.
  - destruct conts as [|c conts']; [now apply single_line_value|].
    unfold trimmed, trim_value. rewrite join_cons by discriminate. cbn [app].
    rewrite split_on_first_app by now apply lb_free_no_lf. rewrite Hs. apply str_eqb_refl.
Qed.

Lemma bytes_space_is_space c : bytes_isspace c = true -> py_isspace c = true.
Proof.
  unfold bytes_isspace. intros H. apply orb_true_iff in H. destruct H as [H|H].
  - apply N.eqb_eq in H. now subst c.
  - unfold py_isspace, in_ranges, py_space_ranges. cbn [existsb fst snd]. now rewrite H.
Qed.

Lemma has_nonspace_bytes l :
  existsb (fun c => negb (py_isspace c)) l = true -> existsb (fun x => negb (bytes_isspace x)) l = true.
Proof.
  intros H. apply existsb_exists in H. destruct H as [x [Hin Hx]]. apply existsb_exists.
  exists x. split; [exact Hin|]. apply negb_true_iff in Hx. apply negb_true_iff.
  destruct (bytes_isspace x) eqn:E; [|reflexivity]. apply bytes_space_is_space in E. congruence.
Qed.

(** " " + text is a continuation line when the text has a non-blank character *)
Lemma valid_cont_sp l :
  lb_free l = true -> existsb (fun c => negb (py_isspace c)) l = true -> valid_cont (SP :: l) = true.
Proof.
  intros Hf Hn. unfold valid_cont. change (is_sp_tab SP) with true. cbn [andb existsb].
  change (bytes_isspace SP) with true. cbn [negb orb]. rewrite (has_nonspace_bytes l Hn). cbn [andb].
  unfold no_linebreak. cbn [forallb]. rewrite sp_not_linebreak. exact Hf.
Qed.

Lemma not_all_exists {A} (p : A -> bool) l : forallb p l = false -> existsb (fun c => negb (p c)) l = true.
Proof.
  induction l as [|x l IH]; [discriminate|]. cbn [forallb existsb].
  destruct (p x); cbn [negb andb orb]; [exact IH|reflexivity].
Qed.

Lemma enc_cont_valid l : plain_line l = true -> valid_cont (enc_cont l) = true.
Proof.
  intros H. pose proof (plain_line_lb_free l H) as Hf.
  unfold plain_line in H. apply andb_true_iff in H. destruct H as [H _].
  apply andb_true_iff in H. destruct H as [_ Hws]. apply negb_true_iff in Hws.
  unfold enc_cont. destruct (nonempty (py_strip l)) eqn:E.
  - apply valid_cont_sp; [exact Hf|]. apply not_all_exists.
    destruct (forallb py_isspace l) eqn:Ea; [|reflexivity].
    unfold py_strip in E. rewrite strip_all_nil in E by exact Ea. discriminate.
  - reflexivity.
Qed.

(** the stored form of a License *)
Lemma license_value syn text :
  license_ok syn text = true ->
  valid_value (lic_to_str (mkLic syn (otext text))) = true
  /\ trimmed (lic_to_str (mkLic syn (otext text))) = true.
Proof.
  unfold license_ok, lic_dom. intros H. apply andb_true_iff in H. destruct H as [H Hst].
  apply andb_true_iff in H. destruct H as [H Hl]. apply andb_true_iff in H. destruct H as [Hs He].
  apply negb_true_iff in He.
  unfold lic_to_str. cbn [lic_synopsis lic_text].
  rewrite splitlines_text by (try exact He; now apply forallb_plain_lb_free).
  unfold format_multiline_lines. apply multi_line_value.
  - exact Hs.
  - now apply strip_stripped.
  - rewrite forallb_forall in *. intros c Hc. apply in_map_iff in Hc. destruct Hc as [l [<- Hin]].
    apply enc_cont_valid. now apply Hl.
Qed.

(** generalisation of [join_ends_ns] to any separator *)
Lemma join_sep_ends_ns sep ms : ms <> [] -> (forall m, In m ms -> ends_ns m) -> ends_ns (join sep ms).
Proof.
  induction ms as [|m ms IH]; [congruence|]. intros _ H.
  destruct ms as [|m2 ms'].
  - cbn [join intersperse_concat]. apply H. now left.
  - rewrite join_cons by discriminate. rewrite app_assoc. apply ends_ns_app.
    apply IH; [discriminate|]. intros m' Hm'. apply H. now right.
Qed.

Lemma nows_lb_free s : forallb (fun c => negb (py_isspace c)) s = true -> lb_free s = true.
Proof.
  unfold lb_free. intros H. rewrite forallb_forall in *. intros c Hc. specialize (H c Hc).
  apply negb_true_iff in H. apply negb_true_iff.
  destruct (py_islinebreak c) eqn:E; [|reflexivity]. apply linebreak_is_space in E. congruence.
Qed.

(** the stored form of a pattern list *)
Lemma files_value fs :
  fs <> [] -> ss_dom fs = true ->
  valid_value (join [SP] fs) = true /\ trimmed (join [SP] fs) = true.
Proof.
  intros Hne H. apply single_line_value.
  - (* no line boundary *)
    clear Hne. induction fs as [|s fs IH]; [reflexivity|].
    unfold ss_dom in H. cbn [forallb] in H. apply andb_true_iff in H. destruct H as [Hs Hfs].
    unfold ss_item_ok in Hs. apply andb_true_iff in Hs. destruct Hs as [_ Hs].
    destruct fs as [|s2 fs']; [now apply nows_lb_free|].
    rewrite join_cons by discriminate. unfold lb_free. rewrite !forallb_app.
    fold (lb_free s). rewrite (nows_lb_free s Hs). cbn [forallb]. rewrite sp_not_linebreak.
    cbn [negb andb]. now apply IH.
  - destruct fs as [|s fs']; [congruence|].
    assert (Hs : ss_item_ok s = true) by (unfold ss_dom in H; cbn [forallb] in H; apply andb_true_iff in H; tauto).
    unfold ss_item_ok in Hs. apply andb_true_iff in Hs. destruct Hs as [Hsne Hsw].
    destruct s as [|c s']; [discriminate|].
    cbn [forallb] in Hsw. apply andb_true_iff in Hsw. destruct Hsw as [Hc _]. apply negb_true_iff in Hc.
    unfold strip_by, lstrip_by.
    assert (Hhead : dropwhile py_isspace (join [SP] ((c :: s') :: fs')) = join [SP] ((c :: s') :: fs')).
    { destruct fs'; [cbn [join intersperse_concat]|rewrite join_cons by discriminate; cbn [app]];
        now apply dropwhile_head_false. }
    apply (eq_trans (f_equal (rstrip_by py_isspace) Hhead)). apply rstrip_ends_ns. apply join_sep_ends_ns; [discriminate|].
    intros m Hm. unfold ss_dom in H. rewrite forallb_forall in H. specialize (H m Hm).
    unfold ss_item_ok in H. apply andb_true_iff in H. destruct H as [Hmne Hmw].
    apply stripped_ends_ns; [destruct m; [discriminate|discriminate]|now apply nows_stripped].
Qed.

(** the stored form of a line-based list *)
Lemma lb_item_nonspace s : lb_item_ok s = true -> existsb (fun c => negb (py_isspace c)) s = true.
Proof.
  intros H. destruct (lb_item_ok_parts s H) as [Hne [_ Hst]].
  destruct s as [|c r]; [congruence|]. unfold stripped in Hst.
  apply andb_true_iff in Hst. destruct Hst as [Hc _]. cbn [existsb]. now rewrite Hc.
Qed.

Lemma lines_value l o :
  lb_dom l = true -> lb_to_str l = Ok (Some o) -> valid_value o = true /\ trimmed o = true.
Proof.
  intros H. destruct l as [|x [|y r]].
  - discriminate.
  - unfold lb_dom in H. cbn [forallb] in H. rewrite andb_true_r in H.
    unfold lb_to_str. rewrite lb_item_id by exact H. cbn [bind]. intros [= <-].
    destruct (lb_item_ok_parts x H) as [_ [Hf Hst]].
    apply single_line_value; [exact Hf|now apply strip_stripped].
  - unfold lb_to_str. rewrite mapM_lb_item by exact H. cbn [bind]. intros E.
    replace o with (join [LF] ([] :: map (fun v => SP :: v) (x :: y :: r))) by congruence. clear E.
    apply multi_line_value; [reflexivity|reflexivity|].
    rewrite forallb_forall. intros c Hc. apply in_map_iff in Hc. destruct Hc as [v [<- Hv]].
    unfold lb_dom in H. rewrite forallb_forall in H. specialize (H v Hv).
    destruct (lb_item_ok_parts v H) as [_ [Hf _]].
    apply valid_cont_sp; [exact Hf|now apply lb_item_nonspace].
Qed.
