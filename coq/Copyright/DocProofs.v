(** PROOFS for C17, part 2: a copyright document built through the API from values of
    the domain [wf_copyright] dumps to a text that Copyright() reads back as the very same
    paragraphs, whose properties are the values that were put in.

    The deb822 reader enters through ONE hypothesis ([reader_ok], a Section variable):
    valid, trimmed, non-empty paragraphs dumped and separated by one empty line are read
    back unchanged by iter_paragraphs.  Copyright/DocRoundtrip.v discharges it from C02's
    theorems; everything in this file is independent of C02's proofs. *)
From Verif Require Import Lib.Base Lib.PyStr Gen.PyChars Gen.CopyrightConsts Deb822.Spec
  Copyright.Fields Copyright.Doc Copyright.DocSpec Copyright.DocBridge Copyright.FieldsProofs.
From Verif Require Deb822.Model.

(** * A. Values and mappings *)

Lemma sp_tab_space c : is_sp_tab c = true -> py_isspace c = true.
Proof.
  unfold is_sp_tab. intros H. apply orb_true_iff in H.
  destruct H as [H|H]; apply N.eqb_eq in H; subst c; reflexivity.
Qed.

Lemma valid_cont_parts l :
  valid_cont l = true -> exists c r, l = c :: r /\ py_isspace c = true /\ lb_free l = true.
Proof.
  destruct l as [|c r]; [discriminate|]. unfold valid_cont. intros H.
  apply andb_true_iff in H. destruct H as [H Hn]. apply andb_true_iff in H. destruct H as [Hs _].
  exists c, r. repeat split; [now apply sp_tab_space|exact Hn].
Qed.

Lemma validate_conts conts : forallb valid_cont conts = true -> validate_cont_lines conts = Ok tt.
Proof.
  induction conts as [|l conts IH]; [reflexivity|]. intros H.
  cbn [forallb] in H. apply andb_true_iff in H. destruct H as [Hl Hc].
  destruct (valid_cont_parts l Hl) as (c & r & -> & Hsp & _).
  cbn [validate_cont_lines]. rewrite Hsp. now apply IH.
Qed.

(** a valid deb822 value is accepted by Deb822.__setitem__ *)
Lemma validate_valid_value v : valid_value v = true -> validate_input v = Ok tt.
Proof.
  unfold valid_value. intros H.
  pose proof (join_split_on LF v) as J. pose proof (last_nonempty_split_on LF v) as L.
  destruct (split_on LF v) as [|first conts] eqn:E; [discriminate|].
  apply andb_true_iff in H. destruct H as [Hf Hc].
  destruct v as [|x v'].
  - reflexivity.
  - cbn [is_empty negb andb] in L.
    assert (Hlast : last_nonempty (first :: conts) = true).
    { destruct conts as [|c conts'].
      - cbn [join intersperse_concat] in J. subst first. reflexivity.
      - rewrite last_nonempty_cons by discriminate.
        clear - Hc. revert c Hc. induction conts' as [|c2 r IH]; intros c Hc.
        + cbn [forallb] in Hc. rewrite andb_true_r in Hc.
          destruct (valid_cont_parts c Hc) as (c0 & r0 & -> & _). reflexivity.
        + rewrite last_nonempty_cons by discriminate. apply IH.
          cbn [forallb] in Hc. apply andb_true_iff in Hc. tauto. }
    rewrite Hlast in L. symmetry in L. apply negb_true_iff in L.
    unfold validate_input. rewrite L. rewrite <- J.
    rewrite splitlines_join.
    + cbn [tl]. now apply validate_conts.
    + cbn [forallb]. rewrite <- no_linebreak_lb_free, Hf. cbn [andb].
      rewrite forallb_forall in *. intros l Hl. specialize (Hc l Hl).
      now destruct (valid_cont_parts l Hc) as (c0 & r0 & _ & _ & Hfree).
    + exact Hlast.
Qed.

(** ** keys *)
Definition keq (a b : str) : bool := str_eqb (ascii_lower a) (ascii_lower b).

Lemma key_eqb_keq a b : key_eqb a b = keq a b. Proof. reflexivity. Qed.
Lemma keq_refl a : keq a a = true. Proof. apply str_eqb_refl. Qed.
Lemma keq_sym a b : keq a b = keq b a.
Proof.
  unfold keq. destruct (str_eqb (ascii_lower a) (ascii_lower b)) eqn:E.
  - apply str_eqb_eq in E. rewrite E. symmetry. apply str_eqb_refl.
  - destruct (str_eqb (ascii_lower b) (ascii_lower a)) eqn:E2; [|reflexivity].
    apply str_eqb_eq in E2. rewrite E2, str_eqb_refl in E. discriminate.
Qed.
Lemma keq_trans_false a b c : keq a b = true -> keq b c = false -> keq a c = false.
Proof. unfold keq. intros H. apply str_eqb_eq in H. now rewrite H. Qed.
Lemma keq_trans a b c : keq a b = true -> keq b c = true -> keq a c = true.
Proof. unfold keq. intros H. apply str_eqb_eq in H. now rewrite H. Qed.

(** case-insensitive membership in a key list, as [distinct_keys] tests it *)
Definition kmem (k : str) (ks : list str) : bool := existsb (str_eqb (ascii_lower k)) (map ascii_lower ks).

Lemma kmem_cons k x ks : kmem k (x :: ks) = keq k x || kmem k ks.
Proof. reflexivity. Qed.

Lemma kmem_app k a b : kmem k (a ++ b) = kmem k a || kmem k b.
Proof. unfold kmem. now rewrite map_app, existsb_app. Qed.

Lemma kmem_keq k k' ks : keq k k' = true -> kmem k ks = kmem k' ks.
Proof. unfold keq, kmem. intros H. apply str_eqb_eq in H. now rewrite H. Qed.

Lemma dcontains_kmem d k : dcontains d k = kmem k (map fst d).
Proof.
  induction d as [|[k' v] d IH]; [reflexivity|].
  cbn [dcontains map fst]. rewrite kmem_cons, IH, key_eqb_keq. now rewrite keq_sym.
Qed.

Lemma distinct_keys_cons k ks : distinct_keys (k :: ks) = negb (kmem k ks) && distinct_keys ks.
Proof. reflexivity. Qed.

Lemma distinct_keys_snoc ks k :
  distinct_keys ks = true -> kmem k ks = false -> distinct_keys (ks ++ [k]) = true.
Proof.
  induction ks as [|x ks IH]; intros Hd Hk; [reflexivity|].
  cbn [app]. rewrite distinct_keys_cons in *. apply andb_true_iff in Hd. destruct Hd as [Hx Hd].
  rewrite kmem_cons in Hk. apply orb_false_iff in Hk. destruct Hk as [Hkx Hk].
  rewrite kmem_app, kmem_cons. cbn [kmem map existsb]. rewrite orb_false_r.
  apply negb_true_iff in Hx. rewrite Hx. rewrite keq_sym, Hkx. cbn. now apply IH.
Qed.

Lemma distinct_keys_remove a x b : distinct_keys (a ++ x :: b) = true -> distinct_keys (a ++ b) = true.
Proof.
  induction a as [|y a IH]; cbn [app].
  - rewrite distinct_keys_cons. intros H. apply andb_true_iff in H. tauto.
  - rewrite !distinct_keys_cons. intros H. apply andb_true_iff in H. destruct H as [Hy Hd].
    rewrite IH by exact Hd. rewrite andb_true_r.
    rewrite kmem_app in *. rewrite kmem_cons in Hy. apply negb_true_iff in Hy.
    apply orb_false_iff in Hy. destruct Hy as [Ha Hy]. apply orb_false_iff in Hy.
    destruct Hy as [_ Hb]. now rewrite Ha, Hb.
Qed.

(** ** dset / dget / ddel *)
Lemma dset_keys d k v :
  map fst (dset d k v) = if dcontains d k then map fst d else map fst d ++ [k].
Proof.
  induction d as [|[k' v'] d IH]; [reflexivity|].
  cbn [dset dcontains]. destruct (key_eqb k' k) eqn:E; [reflexivity|].
  cbn [map fst orb]. rewrite IH. now destruct (dcontains d k).
Qed.

Lemma dset_In d k v kv : In kv (dset d k v) -> In kv d \/ snd kv = v.
Proof.
  induction d as [|[k' v'] d IH]; cbn [dset].
  - intros [<-|[]]. now right.
  - destruct (key_eqb k' k).
    + intros [<-|H]; [now right|left; now right].
    + intros [<-|H]; [left; now left|]. destruct (IH H); [left; now right|now right].
Qed.

Lemma dset_In_key d k v kv : In kv (dset d k v) -> In kv d \/ kv = (k, v) \/ (snd kv = v /\ In (fst kv) (map fst d)).
Proof.
  induction d as [|[k' v'] d IH]; cbn [dset].
  - intros [<-|[]]. right. now left.
  - destruct (key_eqb k' k).
    + intros [<-|H]; [right; right; split; [reflexivity|now left]|left; now right].
    + intros [<-|H]; [left; now left|].
      destruct (IH H) as [H1|[H1|[H1 H2]]]; [left; now right|right; now left|right; right; split; [exact H1|now right]].
Qed.

Lemma dget_dset_same d k v : dget (dset d k v) k = Some v.
Proof.
  induction d as [|[k' v'] d IH]; cbn [dset dget].
  - now rewrite key_eqb_keq, keq_refl.
  - destruct (key_eqb k' k) eqn:E; cbn [dget]; rewrite E; [reflexivity|exact IH].
Qed.

Lemma dget_dset_other d k v k2 : keq k k2 = false -> dget (dset d k v) k2 = dget d k2.
Proof.
  intros Hne. induction d as [|[k' v'] d IH]; cbn [dset dget].
  - now rewrite key_eqb_keq, Hne.
  - destruct (key_eqb k' k) eqn:E; cbn [dget].
    + rewrite key_eqb_keq in *. now rewrite (keq_trans_false _ _ _ E Hne).
    + now rewrite IH.
Qed.

Lemma dcontains_dget d k : dcontains d k = match dget d k with Some _ => true | None => false end.
Proof.
  induction d as [|[k' v'] d IH]; [reflexivity|]. cbn [dcontains dget].
  destruct (key_eqb k' k); [reflexivity|exact IH].
Qed.

Lemma dcontains_dset_other d k v k2 : keq k k2 = false -> dcontains (dset d k v) k2 = dcontains d k2.
Proof. intros H. now rewrite !dcontains_dget, dget_dset_other. Qed.

Lemma ddel_split d k :
  dcontains d k = true ->
  exists a x b, d = a ++ x :: b /\ ddel d k = Ok (a ++ b)
                /\ (forall k2, keq k k2 = false -> dget (a ++ b) k2 = dget d k2).
Proof.
  induction d as [|[k' v'] d IH]; [discriminate|]. cbn [dcontains ddel].
  destruct (key_eqb k' k) eqn:E.
  - intros _. exists [], (k', v'), d. repeat split. intros k2 Hne. cbn [app dget].
    rewrite key_eqb_keq in *. now rewrite (keq_trans_false _ _ _ E Hne).
  - cbn [orb]. intros H. destruct (IH H) as (a & x & b & -> & Hd & Hg).
    exists ((k', v') :: a), x, b. rewrite Hd. repeat split.
    intros k2 Hne. cbn [app dget]. now rewrite Hg.
Qed.

(** ** good paragraphs: valid for the deb822 round trip, first lines already trimmed *)
Definition trimmed (v : str) : bool := str_eqb (trim_value v) v.
Definition good_entry (kv : str * str) : bool :=
  valid_name (fst kv) && valid_value (snd kv) && trimmed (snd kv).
Definition good_para (d : para) : bool := forallb good_entry d && distinct_keys (map fst d).

Lemma good_para_valid d : good_para d = true -> valid_para d = true.
Proof.
  unfold good_para, valid_para. intros H. apply andb_true_iff in H. destruct H as [He Hd].
  rewrite Hd, andb_true_r. rewrite forallb_forall in *. intros kv Hkv. specialize (He kv Hkv).
  unfold good_entry in He. apply andb_true_iff in He. tauto.
Qed.

Lemma good_para_expected d : good_para d = true -> expected_para d = d.
Proof.
  unfold good_para. intros H. apply andb_true_iff in H. destruct H as [He _].
  unfold expected_para. induction d as [|[k v] d IH]; [reflexivity|].
  cbn [forallb] in He. apply andb_true_iff in He. destruct He as [Hkv Hd].
  cbn [map fst snd]. rewrite IH by exact Hd. f_equal. f_equal.
  unfold good_entry in Hkv. apply andb_true_iff in Hkv. destruct Hkv as [_ Ht].
  now apply str_eqb_eq in Ht.
Qed.

Lemma good_para_dset d k v :
  good_para d = true -> valid_name k = true -> valid_value v = true -> trimmed v = true ->
  good_para (dset d k v) = true.
Proof.
  unfold good_para. intros H Hk Hv Ht. apply andb_true_iff in H. destruct H as [He Hd].
  apply andb_true_iff. split.
  - rewrite forallb_forall in *. intros kv Hkv.
    destruct (dset_In_key _ _ _ _ Hkv) as [H1|[->|[H1 H2]]].
    + now apply He.
    + unfold good_entry. cbn [fst snd]. now rewrite Hk, Hv, Ht.
    + (* an existing key, kept with its spelling, now with the new value *)
      apply in_map_iff in H2. destruct H2 as [kv0 [Hf Hin]]. specialize (He kv0 Hin).
      unfold good_entry in *. rewrite H1, <- Hf, Hv, Ht.
      apply andb_true_iff in He. destruct He as [He _]. apply andb_true_iff in He.
      destruct He as [He _]. now rewrite He.
  - rewrite dset_keys. destruct (dcontains d k) eqn:E; [exact Hd|].
    apply distinct_keys_snoc; [exact Hd|]. now rewrite <- dcontains_kmem.
Qed.

Lemma good_para_remove a x b : good_para (a ++ x :: b) = true -> good_para (a ++ b) = true.
Proof.
  unfold good_para. intros H. apply andb_true_iff in H. destruct H as [He Hd].
  apply andb_true_iff. split.
  - rewrite forallb_app in *. cbn [forallb] in He. apply andb_true_iff in He.
    destruct He as [Ha Hb]. apply andb_true_iff in Hb. destruct Hb as [_ Hb]. now rewrite Ha, Hb.
  - rewrite map_app in *. cbn [map] in Hd. now apply distinct_keys_remove in Hd.
Qed.

Lemma dset_checked_ok d k v : valid_value v = true -> dset_checked d k v = Ok (dset d k v).
Proof. intros H. unfold dset_checked. now rewrite validate_valid_value. Qed.

(** * B. What the setters store is a valid, trimmed deb822 value *)

Lemma lb_free_no_lf s : lb_free s = true -> mem_char LF s = false.
Proof. exact (no_linebreak_no_lf s). Qed.

Lemma split_on_none c s : mem_char c s = false -> split_on c s = [s].
Proof.
  induction s as [|x s IH]; [reflexivity|]. cbn [mem_char existsb]. intros H.
  apply orb_false_iff in H. destruct H as [Hx Hs]. cbn [split_on].
  rewrite N.eqb_sym, Hx. unfold mem_char in IH. now rewrite IH.
Qed.

Lemma split_on_first_none c s : mem_char c s = false -> split_on_first c s = (s, None).
Proof.
  induction s as [|x s IH]; [reflexivity|]. cbn [mem_char existsb]. intros H.
  apply orb_false_iff in H. destruct H as [Hx Hs]. cbn [split_on_first].
  rewrite N.eqb_sym, Hx. unfold mem_char in IH. now rewrite IH.
Qed.

Lemma split_on_first_app c first rest :
  mem_char c first = false -> split_on_first c (first ++ c :: rest) = (first, Some rest).
Proof.
  induction first as [|x s IH]; cbn [mem_char existsb app split_on_first].
  - intros _. now rewrite N.eqb_refl.
  - intros H. apply orb_false_iff in H. destruct H as [Hx Hs].
    rewrite N.eqb_sym, Hx. unfold mem_char in IH. now rewrite IH.
Qed.

(** a one-line value *)
Lemma single_line_value s :
  lb_free s = true -> strip_by py_isspace s = s -> valid_value s = true /\ trimmed s = true.
Proof.
  intros Hf Hs. pose proof (lb_free_no_lf s Hf) as Hlf. split.
  - unfold valid_value. rewrite split_on_none by exact Hlf. cbn [forallb]. now rewrite andb_true_r.
  - unfold trimmed, trim_value. rewrite split_on_first_none by exact Hlf. rewrite Hs. apply str_eqb_refl.
Qed.

(** a value of several lines whose first line needs no trimming *)
Lemma multi_line_value first conts :
  lb_free first = true -> strip_by py_isspace first = first -> forallb valid_cont conts = true ->
  valid_value (join [LF] (first :: conts)) = true /\ trimmed (join [LF] (first :: conts)) = true.
Proof.
  intros Hf Hs Hc.
  assert (Hall : forallb (fun l => negb (mem_char LF l)) (first :: conts) = true).
  { cbn [forallb]. rewrite (lb_free_no_lf first Hf). cbn [negb andb].
    rewrite forallb_forall in *. intros l Hl. specialize (Hc l Hl).
    destruct (valid_cont_parts l Hc) as (c0 & r0 & _ & _ & Hfree). now rewrite (lb_free_no_lf l Hfree). }
  split.
  - unfold valid_value. rewrite split_on_join; [|discriminate|exact Hall]. now rewrite Hc, andb_true_r.
  - destruct conts as [|c conts']; [now apply single_line_value|].
    unfold trimmed, trim_value. rewrite join_cons by discriminate. cbn [app].
    rewrite split_on_first_app by now apply lb_free_no_lf. rewrite Hs. apply str_eqb_refl.
Qed.

Lemma bytes_space_is_space c : bytes_isspace c = true -> py_isspace c = true.
Proof.
  unfold bytes_isspace. intros H. apply orb_true_iff in H. destruct H as [H|H].
  - apply N.eqb_eq in H. now subst c.
  - unfold py_isspace, in_ranges, py_space_ranges. cbn [existsb fst snd]. now rewrite H.
Qed.

Lemma has_nonspace_bytes l :
  existsb (fun c => negb (py_isspace c)) l = true -> existsb (fun x => negb (bytes_isspace x)) l = true.
Proof.
  intros H. apply existsb_exists in H. destruct H as [x [Hin Hx]]. apply existsb_exists.
  exists x. split; [exact Hin|]. apply negb_true_iff in Hx. apply negb_true_iff.
  destruct (bytes_isspace x) eqn:E; [|reflexivity]. apply bytes_space_is_space in E. congruence.
Qed.

(** " " + text is a continuation line when the text has a non-blank character *)
Lemma valid_cont_sp l :
  lb_free l = true -> existsb (fun c => negb (py_isspace c)) l = true -> valid_cont (SP :: l) = true.
Proof.
  intros Hf Hn. unfold valid_cont. change (is_sp_tab SP) with true. cbn [andb existsb].
  change (bytes_isspace SP) with true. cbn [negb orb]. rewrite (has_nonspace_bytes l Hn). cbn [andb].
  unfold no_linebreak. cbn [forallb]. rewrite sp_not_linebreak. exact Hf.
Qed.

Lemma not_all_exists {A} (p : A -> bool) l : forallb p l = false -> existsb (fun c => negb (p c)) l = true.
Proof.
  induction l as [|x l IH]; [discriminate|]. cbn [forallb existsb].
  destruct (p x); cbn [negb andb orb]; [exact IH|reflexivity].
Qed.

Lemma enc_cont_valid l : lb_free l = true -> valid_cont (enc_cont l) = true.
Proof.
  intros Hf.
  unfold enc_cont. destruct (nonempty (py_strip l)) eqn:E.
  - apply valid_cont_sp; [exact Hf|]. apply not_all_exists.
    destruct (forallb py_isspace l) eqn:Ea; [|reflexivity].
    unfold py_strip in E. rewrite strip_all_nil in E by exact Ea. discriminate.
  - reflexivity.
Qed.

(** the stored form of a License (also when some text lines are whitespace-only or '.') *)
Lemma license_value syn text :
  license_ok_weak syn text = true ->
  valid_value (lic_to_str (mkLic syn (otext text))) = true
  /\ trimmed (lic_to_str (mkLic syn (otext text))) = true.
Proof.
  unfold license_ok_weak, lic_dom_weak. intros H. apply andb_true_iff in H. destruct H as [H Hst].
  apply andb_true_iff in H. destruct H as [H Hl]. apply andb_true_iff in H. destruct H as [Hs He].
  apply negb_true_iff in He.
  unfold lic_to_str. cbn [lic_synopsis lic_text].
  rewrite splitlines_text by (try exact He; exact Hl).
  unfold format_multiline_lines. apply multi_line_value.
  - exact Hs.
  - now apply strip_stripped.
  - rewrite forallb_forall in *. intros c Hc. apply in_map_iff in Hc. destruct Hc as [l [<- Hin]].
    apply enc_cont_valid. now apply Hl.
Qed.

(** the exact domain is inside the wider one *)
Lemma plain_line_no_linebreak l : plain_line l = true -> no_linebreak l = true.
Proof. exact (plain_line_lb_free l). Qed.

Lemma lic_dom_weaken syn text : lic_dom syn text = true -> lic_dom_weak syn text = true.
Proof.
  unfold lic_dom, lic_dom_weak. intros H. apply andb_true_iff in H. destruct H as [H Hl].
  rewrite H. cbn [andb]. rewrite forallb_forall in *. intros l Hin. apply plain_line_no_linebreak. now apply Hl.
Qed.

Lemma license_ok_weaken syn text : license_ok syn text = true -> license_ok_weak syn text = true.
Proof.
  unfold license_ok, license_ok_weak. intros H. apply andb_true_iff in H. destruct H as [H1 H2].
  now rewrite (lic_dom_weaken _ _ H1), H2.
Qed.

Lemma value_ok_weaken k v : value_ok k v = true -> value_ok_weak k v = true.
Proof. destruct k, v; cbn [value_ok value_ok_weak]; auto. apply license_ok_weaken. Qed.

Lemma hop_ok_weaken o : hop_ok o = true -> hop_ok_weak o = true.
Proof.
  destruct o as [i v|k v]; cbn [hop_ok hop_ok_weak]; [|auto].
  destruct (nth_error header_kinds (N.to_nat i)); [apply value_ok_weaken|auto].
Qed.

Lemma para_ok_weaken p : para_ok p = true -> para_ok_weak p = true.
Proof.
  destruct p as [f c l cm|l cm]; cbn [para_ok para_ok_weak].
  - destruct f as [| |fs|]; auto. destruct c as [|c| |]; auto. destruct l as [| | |syn text]; auto.
    intros H. apply andb_true_iff in H. destruct H as [H Hcm]. apply andb_true_iff in H. destruct H as [H Hl].
    now rewrite H, (license_ok_weaken _ _ Hl), Hcm.
  - destruct l as [| | |syn text]; auto.
    intros H. apply andb_true_iff in H. destruct H as [Hl Hcm]. now rewrite (license_ok_weaken _ _ Hl), Hcm.
Qed.

Lemma forallb_weaken {A} (p q : A -> bool) l :
  (forall x, p x = true -> q x = true) -> forallb p l = true -> forallb q l = true.
Proof. intros Hpq H. rewrite forallb_forall in *. intros x Hx. apply Hpq. now apply H. Qed.

Lemma wf_copyright_weaken hops ps : wf_copyright hops ps = true -> wf_copyright_weak hops ps = true.
Proof.
  unfold wf_copyright, wf_copyright_weak. intros H. apply andb_true_iff in H. destruct H as [H1 H2].
  rewrite (forallb_weaken _ _ _ hop_ok_weaken H1). now rewrite (forallb_weaken _ _ _ para_ok_weaken H2).
Qed.

(** generalisation of [join_ends_ns] to any separator *)
Lemma join_sep_ends_ns sep ms : ms <> [] -> (forall m, In m ms -> ends_ns m) -> ends_ns (join sep ms).
Proof.
  induction ms as [|m ms IH]; [congruence|]. intros _ H.
  destruct ms as [|m2 ms'].
  - cbn [join intersperse_concat]. apply H. now left.
  - rewrite join_cons by discriminate. rewrite app_assoc. apply ends_ns_app.
    apply IH; [discriminate|]. intros m' Hm'. apply H. now right.
Qed.

Lemma nows_lb_free s : forallb (fun c => negb (py_isspace c)) s = true -> lb_free s = true.
Proof.
  unfold lb_free. intros H. rewrite forallb_forall in *. intros c Hc. specialize (H c Hc).
  apply negb_true_iff in H. apply negb_true_iff.
  destruct (py_islinebreak c) eqn:E; [|reflexivity]. apply linebreak_is_space in E. congruence.
Qed.

(** the stored form of a pattern list *)
Lemma files_value fs :
  fs <> [] -> ss_dom fs = true ->
  valid_value (join [SP] fs) = true /\ trimmed (join [SP] fs) = true.
Proof.
  intros Hne H. apply single_line_value.
  - (* no line boundary *)
    clear Hne. induction fs as [|s fs IH]; [reflexivity|].
    unfold ss_dom in H. cbn [forallb] in H. apply andb_true_iff in H. destruct H as [Hs Hfs].
    unfold ss_item_ok in Hs. apply andb_true_iff in Hs. destruct Hs as [_ Hs].
    destruct fs as [|s2 fs']; [now apply nows_lb_free|].
    rewrite join_cons by discriminate. unfold lb_free. rewrite !forallb_app.
    fold (lb_free s). rewrite (nows_lb_free s Hs). cbn [forallb]. rewrite sp_not_linebreak.
    cbn [negb andb]. now apply IH.
  - destruct fs as [|s fs']; [congruence|].
    assert (Hs : ss_item_ok s = true) by (unfold ss_dom in H; cbn [forallb] in H; apply andb_true_iff in H; tauto).
    unfold ss_item_ok in Hs. apply andb_true_iff in Hs. destruct Hs as [Hsne Hsw].
    destruct s as [|c s']; [discriminate|].
    cbn [forallb] in Hsw. apply andb_true_iff in Hsw. destruct Hsw as [Hc _]. apply negb_true_iff in Hc.
    unfold strip_by, lstrip_by.
    assert (Hhead : dropwhile py_isspace (join [SP] ((c :: s') :: fs')) = join [SP] ((c :: s') :: fs')).
    { destruct fs'; [cbn [join intersperse_concat]|rewrite join_cons by discriminate; cbn [app]];
        now apply dropwhile_head_false. }
    apply (eq_trans (f_equal (rstrip_by py_isspace) Hhead)). apply rstrip_ends_ns. apply join_sep_ends_ns; [discriminate|].
    intros m Hm. unfold ss_dom in H. rewrite forallb_forall in H. specialize (H m Hm).
    unfold ss_item_ok in H. apply andb_true_iff in H. destruct H as [Hmne Hmw].
    apply stripped_ends_ns; [destruct m; [discriminate|discriminate]|now apply nows_stripped].
Qed.

(** the stored form of a line-based list *)
Lemma lb_item_nonspace s : lb_item_ok s = true -> existsb (fun c => negb (py_isspace c)) s = true.
Proof.
  intros H. destruct (lb_item_ok_parts s H) as [Hne [_ Hst]].
  destruct s as [|c r]; [congruence|]. unfold stripped in Hst.
  apply andb_true_iff in Hst. destruct Hst as [Hc _]. cbn [existsb]. now rewrite Hc.
Qed.

Lemma lines_value l o :
  lb_dom l = true -> lb_to_str l = Ok (Some o) -> valid_value o = true /\ trimmed o = true.
Proof.
  intros H. destruct l as [|x [|y r]].
  - discriminate.
  - unfold lb_dom in H. cbn [forallb] in H. rewrite andb_true_r in H.
    unfold lb_to_str. rewrite lb_item_id by exact H. cbn [bind]. intros [= <-].
    destruct (lb_item_ok_parts x H) as [_ [Hf Hst]].
    apply single_line_value; [exact Hf|now apply strip_stripped].
  - unfold lb_to_str. rewrite mapM_lb_item by exact H. cbn [bind]. intros E.
    replace o with (join [LF] ([] :: map (fun v => SP :: v) (x :: y :: r))) by congruence. clear E.
    apply multi_line_value; [reflexivity|reflexivity|].
    rewrite forallb_forall. intros c Hc. apply in_map_iff in Hc. destruct Hc as [v [<- Hv]].
    unfold lb_dom in H. rewrite forallb_forall in H. specialize (H v Hv).
    destruct (lb_item_ok_parts v H) as [_ [Hf _]].
    apply valid_cont_sp; [exact Hf|now apply lb_item_nonspace].
Qed.

(** * C. Setters *)

Lemma setter_some f x d s :
  to_str (rf_to f) x = Ok (Some s) -> valid_value s = true ->
  setter f x d = Ok (dset d (rf_name f) s).
Proof. intros Ht Hv. unfold setter. rewrite Ht. cbn [bind]. now apply dset_checked_ok. Qed.

Lemma setter_none f x d :
  to_str (rf_to f) x = Ok None -> rf_allow_none f = true ->
  setter f x d = if dcontains d (rf_name f) then ddel d (rf_name f) else Ok d.
Proof. intros Ht Ha. unfold setter. rewrite Ht. cbn [bind]. now rewrite Ha. Qed.

(** the Header properties against the spec's kinds *)
Definition to_codec_eqb (a b : to_codec) : bool :=
  match a, b with
  | ToNone, ToNone | ToSingleLine, ToSingleLine | ToLineBased, ToLineBased
  | ToSpaceSep, ToSpaceSep | ToLicense, ToLicense => true
  | _, _ => false
  end.
Lemma to_codec_eqb_eq a b : to_codec_eqb a b = true -> a = b.
Proof. destruct a, b; (reflexivity || discriminate). Qed.

Definition kind_codec (k : kind) : to_codec :=
  match k with
  | KFormat | KLine => ToSingleLine
  | KLines => ToLineBased
  | KText => ToNone
  | KLicense => ToLicense
  end.

Definition kind_matches (k : kind) (f : rfield) : bool :=
  to_codec_eqb (rf_to f) (kind_codec k) && valid_name (rf_name f)
  && negb (keq (rf_name f) FORMAT_SPEC)
  && match k with
     | KFormat => str_eqb (rf_name f) FORMAT && negb (rf_allow_none f)
     | _ => negb (keq (rf_name f) FORMAT) && rf_allow_none f
     end.

Lemma header_table n k :
  nth_error header_kinds n = Some k ->
  exists f, nth_error header_fields n = Some f /\ kind_matches k f = true.
Proof.
  do 10 (destruct n as [|n]; [cbn; intros [= <-]; eexists; split; reflexivity|]).
  destruct n; discriminate.
Qed.

Lemma kind_matches_parts k f :
  kind_matches k f = true ->
  rf_to f = kind_codec k /\ valid_name (rf_name f) = true /\ keq (rf_name f) FORMAT_SPEC = false
  /\ match k with
     | KFormat => rf_name f = FORMAT /\ rf_allow_none f = false
     | _ => keq (rf_name f) FORMAT = false /\ rf_allow_none f = true
     end.
Proof.
  unfold kind_matches. intros H. apply andb_true_iff in H. destruct H as [H H4].
  apply andb_true_iff in H. destruct H as [H H3]. apply andb_true_iff in H. destruct H as [H1 H2].
  apply to_codec_eqb_eq in H1. apply negb_true_iff in H3. repeat split; try assumption.
  destruct k; apply andb_true_iff in H4; destruct H4 as [Ha Hb];
    try (apply negb_true_iff in Ha; split; assumption).
  apply str_eqb_eq in Ha. apply negb_true_iff in Hb. now split.
Qed.

(** what a value of the domain becomes on its way into the mapping *)
Lemma kind_value k v f :
  rf_to f = kind_codec k -> value_ok_weak k v = true ->
  exists x, bval_eval (bval_of_sval v) = Ok x
    /\ ((to_str (rf_to f) x = Ok None /\ k <> KFormat)
        \/ exists s, to_str (rf_to f) x = Ok (Some s) /\ valid_value s = true /\ trimmed s = true
                     /\ (k = KFormat -> format_stable s = true)).
Proof.
  intros Hc Hv. rewrite Hc.
  destruct k, v; try discriminate; cbn [value_ok_weak value_ok] in Hv; cbn [bval_of_sval bval_eval kind_codec].
  - (* Format *)
    apply andb_true_iff in Hv. destruct Hv as [Hl Hs].
    unfold line_ok in Hl. apply andb_true_iff in Hl. destruct Hl as [Hn Hst].
    exists (VStr s). split; [reflexivity|]. right. exists s. cbn [to_str].
    unfold single_line. rewrite (no_linebreak_no_lf s Hn). cbn [bind].
    destruct (single_line_value s Hn (strip_stripped s Hst)) as [H1 H2]. repeat split; auto.
  - exists VNone. split; [reflexivity|]. left. split; [reflexivity|discriminate].
  - unfold line_ok in Hv. apply andb_true_iff in Hv. destruct Hv as [Hn Hst].
    exists (VStr s). split; [reflexivity|]. right. exists s. cbn [to_str].
    unfold single_line. rewrite (no_linebreak_no_lf s Hn). cbn [bind].
    destruct (single_line_value s Hn (strip_stripped s Hst)) as [H1 H2]. repeat split; auto. discriminate.
  - exists VNone. split; [reflexivity|]. left. split; [reflexivity|discriminate].
  - exists (VList l). split; [reflexivity|]. cbn [to_str].
    destruct (line_based_inverse l Hv) as [o [Ho _]]. rewrite Ho. destruct o as [o|].
    + right. exists o. destruct (lines_value l o Hv Ho) as [H1 H2]. repeat split; auto. discriminate.
    + left. split; [reflexivity|discriminate].
  - exists VNone. split; [reflexivity|]. left. split; [reflexivity|discriminate].
  - unfold freetext_ok in Hv. apply andb_true_iff in Hv. destruct Hv as [H1 H2].
    exists (VStr s). split; [reflexivity|]. right. exists s. repeat split; auto. discriminate.
  - exists VNone. split; [reflexivity|]. left. split; [reflexivity|discriminate].
  - pose proof Hv as Hv'. unfold license_ok_weak, lic_dom_weak in Hv'.
    apply andb_true_iff in Hv'. destruct Hv' as [Hv' _]. apply andb_true_iff in Hv'. destruct Hv' as [Hv' _].
    apply andb_true_iff in Hv'. destruct Hv' as [Hn _].
    exists (VLic (mkLic synopsis (otext text))). split.
    + unfold mk_license, single_line. rewrite (no_linebreak_no_lf _ Hn). cbn [bind].
      destruct text; reflexivity.
    + right. exists (lic_to_str (mkLic synopsis (otext text))).
      destruct (license_value synopsis text Hv) as [H1 H2]. repeat split; auto. discriminate.
Qed.

(** * D. The header *)
Definition hinv (d : para) : Prop :=
  good_para d = true /\ dcontains d FORMAT_SPEC = false
  /\ exists fmt, dget d FORMAT = Some fmt /\ format_stable fmt = true.

Lemma hinv_dset d k s :
  hinv d -> valid_name k = true -> valid_value s = true -> trimmed s = true ->
  keq k FORMAT_SPEC = false ->
  (keq k FORMAT = false \/ (k = FORMAT /\ format_stable s = true)) ->
  hinv (dset d k s).
Proof.
  intros (Hg & Hfs & fmt & Hfmt & Hst) Hk Hv Ht Hnfs Hf. repeat split.
  - now apply good_para_dset.
  - now rewrite dcontains_dset_other.
  - destruct Hf as [Hf|[-> Hs]].
    + exists fmt. now rewrite dget_dset_other.
    + exists s. now rewrite dget_dset_same.
Qed.

Lemma hinv_del d k :
  hinv d -> keq k FORMAT_SPEC = false -> keq k FORMAT = false ->
  exists d', (if dcontains d k then ddel d k else Ok d) = Ok d' /\ hinv d'.
Proof.
  intros Hi Hnfs Hnf. destruct (dcontains d k) eqn:E; [|now exists d].
  destruct Hi as (Hg & Hfs & fmt & Hfmt & Hst).
  destruct (ddel_split d k E) as (a & x & b & -> & Hd & Hget).
  exists (a ++ b). split; [exact Hd|]. repeat split.
  - now apply good_para_remove in Hg.
  - rewrite dcontains_dget in *. now rewrite Hget.
  - exists fmt. now rewrite Hget.
Qed.

Lemma reserved_split :
  header_reserved = header_restricted ++ [ascii_lower FORMAT_SPEC].
Proof. reflexivity. Qed.

Lemma not_reserved k :
  existsb (str_eqb (ascii_lower k)) header_reserved = false ->
  existsb (str_eqb (ascii_lower k)) header_restricted = false
  /\ keq k FORMAT_SPEC = false /\ keq k FORMAT = false.
Proof.
  rewrite reserved_split, existsb_app. intros H. apply orb_false_iff in H. destruct H as [H1 H2].
  cbn [existsb] in H2. rewrite orb_false_r in H2. repeat split; [exact H1|exact H2|].
  unfold header_restricted, restricted_of, header_fields in H1. cbn [map existsb] in H1.
  apply orb_false_iff in H1. destruct H1 as [H1 _]. exact H1.
Qed.

Lemma header_step_ok d o :
  hinv d -> hop_ok_weak o = true ->
  exists d', header_step d (hop_of_shop o) = Ok d' /\ hinv d'.
Proof.
  intros Hi Ho. destruct o as [i v|k v]; cbn [hop_ok_weak hop_ok hop_of_shop header_step] in *.
  - destruct (nth_error header_kinds (N.to_nat i)) as [kd|] eqn:Ek; [|discriminate].
    destruct (header_table _ _ Ek) as [f [Hf Hm]]. unfold hfield. rewrite Hf. cbn [bind].
    destruct (kind_matches_parts kd f Hm) as (Hc & Hn & Hnfs & Hk).
    destruct (kind_value kd v f Hc Ho) as [x [Hx Hcase]]. rewrite Hx. cbn [bind].
    destruct Hcase as [[Hnone Hkf]|[s (Hs & Hv & Ht & Hfmt)]].
    + destruct kd; try congruence; destruct Hk as [Hnf Ha];
        rewrite (setter_none f x d Hnone Ha); now apply hinv_del.
    + rewrite (setter_some f x d s Hs Hv). eexists. split; [reflexivity|].
      apply hinv_dset; auto.
      destruct kd; try (left; tauto). right. destruct Hk as [-> _]. split; [reflexivity|now apply Hfmt].
  - apply andb_true_iff in Ho. destruct Ho as [Ho Hv]. apply andb_true_iff in Ho. destruct Ho as [Hk Hr].
    apply negb_true_iff in Hr. destruct (not_reserved k Hr) as (Hr1 & Hnfs & Hnf).
    unfold freetext_ok in Hv. apply andb_true_iff in Hv. destruct Hv as [Hv Ht].
    unfold wrapper_setitem. rewrite Hr1. rewrite dset_checked_ok by exact Hv.
    eexists. split; [reflexivity|]. apply hinv_dset; auto.
Qed.

Lemma header_run_ok ops : forall d,
  hinv d -> forallb hop_ok_weak ops = true ->
  exists d', header_run d (map hop_of_shop ops) = Ok d' /\ hinv d'.
Proof.
  induction ops as [|o ops IH]; intros d Hi Ho; [now exists d|].
  cbn [forallb] in Ho. apply andb_true_iff in Ho. destruct Ho as [Ho Hops].
  destruct (header_step_ok d o Hi Ho) as [d1 [H1 Hi1]].
  destruct (IH d1 Hi1 Hops) as [d2 [H2 Hi2]].
  exists d2. split; [|exact Hi2]. cbn [map header_run]. rewrite H1. cbn [bind]. exact H2.
Qed.

Lemma header_init_none : header_init None = Ok [(FORMAT, CURRENT_FORMAT)].
Proof. vm_compute. reflexivity. Qed.

Lemma hinv_initial : hinv [(FORMAT, CURRENT_FORMAT)].
Proof.
  split; [vm_compute; reflexivity|]. split; [reflexivity|].
  exists CURRENT_FORMAT. split; [reflexivity|]. unfold format_stable. now rewrite str_eqb_refl.
Qed.

Lemma fix_format_repaired fmt : fix_format fmt = repaired fmt.
Proof. reflexivity. Qed.

(** Header(data) leaves such a paragraph alone *)
Lemma header_init_some d : hinv d -> header_init (Some d) = Ok d.
Proof.
  intros (Hg & Hfs & fmt & Hfmt & Hst). unfold header_init. cbn [bind]. rewrite Hfs. cbn [bind].
  rewrite Hfmt. destruct (str_eqb fmt CURRENT_FORMAT) eqn:E; [reflexivity|].
  unfold format_stable in Hst. rewrite E in Hst. cbn [orb] in Hst. apply negb_true_iff in Hst.
  unfold is_known. rewrite fix_format_repaired. now rewrite Hst.
Qed.

(** * E. Files and License paragraphs *)
Definition comment_part (cm : sval) : para :=
  match cm with SStr c => [(COMMENT, c)] | _ => [] end.

(** the paragraph FilesParagraph.create / LicenseParagraph.create (+ comment) produce *)
Definition built (p : spara) : cpara :=
  match p with
  | PFiles (SList fs) (SStr c) (SLic syn text) cm =>
      CFiles ([(FILES, join [SP] fs); (COPYRIGHT, c); (LICENSE, lic_to_str (mkLic syn (otext text)))]
              ++ comment_part cm)
  | PLicense (SLic syn text) cm =>
      CLicense ((LICENSE, lic_to_str (mkLic syn (otext text))) :: comment_part cm)
  | _ => CLicense []
  end.

Lemma ss_to_str_ok fs : fs <> [] -> ss_dom fs = true -> ss_to_str fs = Ok (Some (join [SP] fs)).
Proof.
  intros Hne H. unfold ss_to_str. rewrite mapM_ss_item by exact H.
  destruct fs; [congruence|reflexivity].
Qed.

Lemma ss_from_join fs : fs <> [] -> ss_dom fs = true -> ss_from_str (Some (join [SP] fs)) = fs.
Proof.
  intros Hne H. destruct (space_separated_inverse fs H) as [o [Ho Hb]].
  rewrite (ss_to_str_ok fs Hne H) in Ho. injection Ho as <-. exact Hb.
Qed.

Lemma mk_license_eval syn text :
  no_linebreak syn = true -> mk_license syn text = Ok (mkLic syn (otext text)).
Proof.
  intros H. unfold mk_license, single_line. rewrite (no_linebreak_no_lf _ H). destruct text; reflexivity.
Qed.

Lemma license_ok_syn syn text : license_ok_weak syn text = true -> no_linebreak syn = true.
Proof.
  unfold license_ok_weak, lic_dom_weak. intros H. apply andb_true_iff in H. destruct H as [H _].
  apply andb_true_iff in H. destruct H as [H _]. apply andb_true_iff in H. tauto.
Qed.

Lemma license_ok_dom syn text : license_ok syn text = true -> lic_dom syn (otext text) = true.
Proof. unfold license_ok. intros H. apply andb_true_iff in H. tauto. Qed.

Lemma comment_setter f d cm :
  rf_name f = COMMENT -> rf_to f = ToNone -> rf_allow_none f = true ->
  value_ok KText cm = true -> dcontains d COMMENT = false ->
  exists x, bval_eval (bval_of_sval cm) = Ok x /\ setter f x d = Ok (d ++ comment_part cm).
Proof.
  intros Hn Hc Ha Hv Hd. destruct cm; try discriminate; cbn [value_ok] in Hv.
  - exists VNone. split; [reflexivity|]. rewrite (setter_none f VNone d); [|now rewrite Hc|exact Ha].
    rewrite Hn, Hd. cbn [comment_part]. now rewrite app_nil_r.
  - unfold freetext_ok in Hv. apply andb_true_iff in Hv. destruct Hv as [Hv _].
    exists (VStr s). split; [reflexivity|].
    rewrite (setter_some f (VStr s) d s); [|now rewrite Hc|exact Hv]. rewrite Hn. f_equal.
    cbn [comment_part]. clear - Hd. induction d as [|[k v] d IH]; [reflexivity|].
    cbn [dcontains] in Hd. apply orb_false_iff in Hd. destruct Hd as [H1 H2].
    cbn [dset app]. rewrite H1. now rewrite IH.
Qed.

Lemma build_para_ok_weak p : para_ok_weak p = true -> build_para (pspec_of_spara p) = Ok (built p).
Proof.
  destruct p as [f c l cm|l cm]; cbn [para_ok_weak].
  - destruct f as [| |fs|]; try discriminate. destruct c as [|c| |]; try discriminate.
    destruct l as [| | |syn text]; try discriminate. intros H.
    apply andb_true_iff in H. destruct H as [H Hcm]. apply andb_true_iff in H. destruct H as [H Hl].
    apply andb_true_iff in H. destruct H as [H Hc]. apply andb_true_iff in H. destruct H as [Hne Hfs].
    assert (Hfs_ne : fs <> []) by (destruct fs; [discriminate|discriminate]).
    cbn [pspec_of_spara bval_of_sval build_para bval_eval].
    rewrite (mk_license_eval syn text (license_ok_syn _ _ Hl)). cbn [bind].
    destruct (files_value fs Hfs_ne Hfs) as [Hfv _].
    destruct (license_value syn text Hl) as [Hlv _].
    unfold freetext_ok in Hc. apply andb_true_iff in Hc. destruct Hc as [Hcv _].
    unfold files_create.
    rewrite (setter_some f_files (VList fs) [] (join [SP] fs)); [|now apply ss_to_str_ok|exact Hfv].
    cbn [bind].
    rewrite (setter_some f_copyright (VStr c) _ c); [|reflexivity|exact Hcv]. cbn [bind].
    rewrite (setter_some f_license (VLic (mkLic syn (otext text))) _ (lic_to_str (mkLic syn (otext text))));
      [|reflexivity|exact Hlv].
    cbn [bind].
    match goal with |- context [setter f_comment _ ?d] =>
      destruct (comment_setter f_comment d cm eq_refl eq_refl eq_refl Hcm eq_refl) as [x [Hx Hs]] end.
    rewrite Hx. cbn [bind]. rewrite Hs. reflexivity.
  - destruct l as [| | |syn text]; try discriminate. intros H.
    apply andb_true_iff in H. destruct H as [Hl Hcm].
    cbn [pspec_of_spara bval_of_sval build_para bval_eval].
    rewrite (mk_license_eval syn text (license_ok_syn _ _ Hl)). cbn [bind].
    destruct (license_value syn text Hl) as [Hlv _].
    unfold license_create.
    rewrite (setter_some l_license (VLic (mkLic syn (otext text))) [] (lic_to_str (mkLic syn (otext text))));
      [|reflexivity|exact Hlv].
    cbn [bind].
    match goal with |- context [setter l_comment _ ?d] =>
      destruct (comment_setter l_comment d cm eq_refl eq_refl eq_refl Hcm eq_refl) as [x [Hx Hs]] end.
    rewrite Hx. cbn [bind]. rewrite Hs. reflexivity.
Qed.

Lemma comment_part_good cm : value_ok KText cm = true -> forallb good_entry (comment_part cm) = true.
Proof.
  destruct cm; try reflexivity. cbn [value_ok comment_part forallb]. intros H.
  unfold freetext_ok in H. apply andb_true_iff in H. destruct H as [Hv Ht].
  unfold good_entry. cbn [fst snd]. rewrite Hv. unfold trimmed. rewrite Ht. reflexivity.
Qed.

Lemma built_good p : para_ok_weak p = true -> good_para (cp_data (built p)) = true /\ cp_data (built p) <> [].
Proof.
  destruct p as [f c l cm|l cm]; cbn [para_ok_weak].
  - destruct f as [| |fs|]; try discriminate. destruct c as [|c| |]; try discriminate.
    destruct l as [| | |syn text]; try discriminate. intros H.
    apply andb_true_iff in H. destruct H as [H Hcm]. apply andb_true_iff in H. destruct H as [H Hl].
    apply andb_true_iff in H. destruct H as [H Hc]. apply andb_true_iff in H. destruct H as [Hne Hfs].
    assert (Hfs_ne : fs <> []) by (destruct fs; [discriminate|discriminate]).
    destruct (files_value fs Hfs_ne Hfs) as [Hfv Hft].
    destruct (license_value syn text Hl) as [Hlv Hlt].
    unfold freetext_ok in Hc. apply andb_true_iff in Hc. destruct Hc as [Hcv Hct].
    cbn [built cp_data]. split; [|discriminate].
    unfold good_para. rewrite forallb_app. rewrite (comment_part_good cm Hcm), andb_true_r.
    apply andb_true_iff. split.
    + cbn [forallb]. unfold good_entry. cbn [fst snd]. rewrite Hfv, Hft, Hcv, Hlv, Hlt.
      unfold trimmed. rewrite Hct. reflexivity.
    + destruct cm; reflexivity.
  - destruct l as [| | |syn text]; try discriminate. intros H.
    apply andb_true_iff in H. destruct H as [Hl Hcm].
    destruct (license_value syn text Hl) as [Hlv Hlt].
    cbn [built cp_data]. split; [|discriminate].
    unfold good_para. cbn [forallb]. rewrite (comment_part_good cm Hcm), andb_true_r.
    apply andb_true_iff. split.
    + unfold good_entry. cbn [fst snd]. now rewrite Hlv, Hlt.
    + destruct cm; reflexivity.
Qed.

Lemma built_is_files p : para_ok_weak p = true -> is_files (built p) = is_pfiles p.
Proof.
  destruct p as [f c l cm|l cm]; cbn [para_ok_weak].
  - destruct f as [| |fs|]; try discriminate. destruct c as [|c| |]; try discriminate.
    destruct l as [| | |syn text]; try discriminate. reflexivity.
  - destruct l as [| | |syn text]; try discriminate. reflexivity.
Qed.

(** what the properties of such a paragraph read as *)
Lemma getter_plain f d : rf_from f = FromNone ->
  getter f d = Ok (match dget d (rf_name f) with Some v => VStr v | None => VNone end).
Proof. intros H. unfold getter. now rewrite H. Qed.

Lemma getter_license f d l : rf_from f = FromLicense ->
  dget d (rf_name f) = Some (lic_to_str l) ->
  lic_from_str (Some (lic_to_str l)) = Ok (Some l) ->
  getter f d = Ok (VLic l).
Proof. intros H Hd Hl. unfold getter. rewrite H, Hd, Hl. reflexivity. Qed.

Lemma getter_files d fs : fs <> [] -> ss_dom fs = true ->
  dget d FILES = Some (join [SP] fs) -> getter f_files d = Ok (VList fs).
Proof.
  intros Hne H Hd. unfold getter. cbn [rf_from f_files rf_name]. rewrite Hd. now rewrite ss_from_join.
Qed.

Lemma built_view p : para_ok p = true -> para_view (built p) = expected_view p.
Proof.
  destruct p as [f c l cm|l cm]; cbn [para_ok].
  - destruct f as [| |fs|]; try discriminate. destruct c as [|c| |]; try discriminate.
    destruct l as [| | |syn text]; try discriminate. intros H.
    apply andb_true_iff in H. destruct H as [H Hcm]. apply andb_true_iff in H. destruct H as [H Hl].
    apply andb_true_iff in H. destruct H as [H Hc]. apply andb_true_iff in H. destruct H as [Hne Hfs].
    assert (Hfs_ne : fs <> []) by (destruct fs; [discriminate|discriminate]).
    destruct (license_inverse syn (otext text) (license_ok_dom _ _ Hl)) as [_ Hli].
    unfold expected_view, expected_vals. cbn [built para_view norm_val fval_of_sval otext map].
    unfold view_of, files_fields. cbn [map]. f_equal.
    destruct cm; try discriminate; cbn [comment_part app fval_of_sval].
    + rewrite (getter_files _ fs Hfs_ne Hfs) by reflexivity.
      rewrite (getter_license f_license _ (mkLic syn (otext text)) eq_refl); [|reflexivity|exact Hli].
      rewrite !getter_plain by reflexivity. reflexivity.
    + rewrite (getter_files _ fs Hfs_ne Hfs) by reflexivity.
      rewrite (getter_license f_license _ (mkLic syn (otext text)) eq_refl); [|reflexivity|exact Hli].
      rewrite !getter_plain by reflexivity. reflexivity.
  - destruct l as [| | |syn text]; try discriminate. intros H.
    apply andb_true_iff in H. destruct H as [Hl Hcm].
    destruct (license_inverse syn (otext text) (license_ok_dom _ _ Hl)) as [_ Hli].
    unfold expected_view, expected_vals. cbn [built para_view norm_val fval_of_sval otext map].
    unfold view_of, license_fields. cbn [map]. f_equal.
    destruct cm; try discriminate; cbn [comment_part app fval_of_sval].
    + rewrite (getter_license l_license _ (mkLic syn (otext text)) eq_refl); [|reflexivity|exact Hli].
      rewrite !getter_plain by reflexivity. reflexivity.
    + rewrite (getter_license l_license _ (mkLic syn (otext text)) eq_refl); [|reflexivity|exact Hli].
      rewrite !getter_plain by reflexivity. reflexivity.
Qed.

(** Copyright.__init__ classifies them as what they are, in strict and in lax mode *)
Lemma classify_built strict qs :
  forallb para_ok_weak qs = true ->
  classify_all strict (map cp_data (map built qs)) = Ok (map built qs).
Proof.
  induction qs as [|p qs IH]; intros H; [reflexivity|].
  cbn [forallb] in H. apply andb_true_iff in H. destruct H as [Hp Hqs].
  specialize (IH Hqs). cbn [map classify_all].
  destruct p as [f c l cm|l cm]; cbn [para_ok_weak] in Hp.
  - destruct f as [| |fs|]; try discriminate. destruct c as [|c| |]; try discriminate.
    destruct l as [| | |syn text]; try discriminate.
    apply andb_true_iff in Hp. destruct Hp as [Hp Hcm]. apply andb_true_iff in Hp. destruct Hp as [Hp Hl].
    apply andb_true_iff in Hp. destruct Hp as [Hp Hc]. apply andb_true_iff in Hp. destruct Hp as [Hne Hfs].
    assert (Hfs_ne : fs <> []) by (destruct fs; [discriminate|discriminate]).
    cbn [built cp_data].
    assert (Hinit : forall d', files_para_init
              ((FILES, join [SP] fs) :: (COPYRIGHT, c) :: (LICENSE, lic_to_str (mkLic syn (otext text))) :: d')
              strict true = Ok tt).
    { intros d'. unfold files_para_init. destruct strict; [|reflexivity].
      change (dcontains _ FILES) with true. cbn [negb].
      change (dcontains ((FILES, join [SP] fs) :: (COPYRIGHT, c) :: _) COPYRIGHT) with true.
      change (dcontains ((FILES, join [SP] fs) :: (COPYRIGHT, c) :: (LICENSE, _) :: d') LICENSE) with true.
      cbn [negb bind]. cbn [dget]. change (key_eqb FILES FILES) with true. cbn iota.
      rewrite ss_from_join by assumption. destruct fs; [congruence|reflexivity]. }
    change (dcontains _ FILES) with true. cbn iota. cbn [app]. rewrite Hinit. cbn [bind].
    rewrite IH. reflexivity.
  - destruct l as [| | |syn text]; try discriminate.
    apply andb_true_iff in Hp. destruct Hp as [Hl Hcm].
    cbn [built cp_data].
    assert (Hnf : dcontains ((LICENSE, lic_to_str (mkLic syn (otext text))) :: comment_part cm) FILES = false)
      by (destruct cm; reflexivity).
    rewrite Hnf. change (dcontains _ LICENSE) with true. cbn iota.
    unfold license_para_init. rewrite Hnf. change (dcontains _ LICENSE) with true.
    destruct strict; cbn [negb bind]; rewrite IH; reflexivity.
Qed.

(** * F. The order of the paragraphs *)
Lemma add_files_sorted F : forall L p,
  forallb is_files F = true -> existsb is_files L = false ->
  add_files (F ++ L) p = F ++ p :: L.
Proof.
  induction F as [|x F IH]; intros L p HF HL.
  - cbn [app]. destruct L as [|y r]; [reflexivity|]. cbn [existsb] in HL.
    apply orb_false_iff in HL. destruct HL as [Hy Hr]. cbn [add_files]. now rewrite Hr, Hy.
  - cbn [forallb] in HF. apply andb_true_iff in HF. destruct HF as [Hx HF].
    cbn [app add_files]. destruct (existsb is_files (F ++ L)) eqn:E.
    + now rewrite IH.
    + rewrite Hx. rewrite existsb_app in E. apply orb_false_iff in E. destruct E as [EF _].
      destruct F as [|y F']; [reflexivity|]. cbn [forallb existsb] in *.
      apply andb_true_iff in HF. destruct HF as [Hy _]. now rewrite Hy in EF.
Qed.

Lemma fold_add_para qs : forall F L,
  forallb is_files F = true -> existsb is_files L = false ->
  fold_left add_para qs (F ++ L)
  = (F ++ filter is_files qs) ++ (L ++ filter (fun q => negb (is_files q)) qs).
Proof.
  induction qs as [|q qs IH]; intros F L HF HL.
  - cbn [fold_left filter]. now rewrite !app_nil_r.
  - cbn [fold_left filter]. destruct q as [d|d]; cbn [add_para is_files negb].
    + rewrite add_files_sorted by assumption.
      change (F ++ CFiles d :: L) with (F ++ [CFiles d] ++ L). rewrite app_assoc.
      rewrite IH; [|rewrite forallb_app, HF; reflexivity|exact HL].
      now rewrite <- !app_assoc.
    + rewrite <- app_assoc. rewrite IH; [|exact HF|rewrite existsb_app, HL; reflexivity].
      now rewrite <- !app_assoc.
Qed.

Lemma add_all_ok ps : forall acc,
  forallb para_ok_weak ps = true ->
  add_all acc (map pspec_of_spara ps) = Ok (fold_left add_para (map built ps) acc).
Proof.
  induction ps as [|p ps IH]; intros acc H; [reflexivity|].
  cbn [forallb] in H. apply andb_true_iff in H. destruct H as [Hp Hps].
  cbn [map add_all fold_left]. rewrite build_para_ok_weak by exact Hp. cbn [bind]. now apply IH.
Qed.

Lemma filter_map_built (ps : list spara) :
  forallb para_ok_weak ps = true ->
  filter is_files (map built ps) = map built (filter is_pfiles ps)
  /\ filter (fun q => negb (is_files q)) (map built ps) = map built (filter (fun p => negb (is_pfiles p)) ps).
Proof.
  induction ps as [|p ps IH]; intros H; [split; reflexivity|].
  cbn [forallb] in H. apply andb_true_iff in H. destruct H as [Hp Hps].
  destruct (IH Hps) as [I1 I2]. cbn [map filter]. rewrite (built_is_files p Hp).
  destruct (is_pfiles p); cbn [negb map]; rewrite I1, I2; split; reflexivity.
Qed.

Lemma expected_order_ok ps : forallb para_ok_weak ps = true -> forallb para_ok_weak (expected_order ps) = true.
Proof.
  intros H. unfold expected_order. rewrite forallb_app.
  apply andb_true_iff; split; rewrite forallb_forall in *; intros x Hx; apply filter_In in Hx; apply H; tauto.
Qed.

(** * G. The round trip *)

(** the text of dumped paragraphs separated by one empty line *)
Definition paras_text (ds : list para) : str :=
  match ds with
  | [] => []
  | d :: r => Model.dump d ++ concat (map (fun p => LF :: Model.dump p) r)
  end.

Lemma cdump_paras_text c : cdump c = paras_text (cd_header c :: map cp_data (cd_paras c)).
Proof. unfold cdump, paras_text. now rewrite map_map. Qed.

Definition nonempty_para (d : para) : bool := negb (is_nil d).

Section Roundtrip.
  (** C02's paragraph-level round trip, in the form this development needs it
      (discharged in Copyright/DocRoundtrip.v from the theorems of Props/C02.v) *)
  Variable reader_ok :
    forall (form : N) (ds : list para),
      ds <> [] -> forallb good_para ds = true -> forallb nonempty_para ds = true ->
      Model.iter_paragraphs Model.CDeb822 true (input_of_text form (paras_text ds)) = Ok ds.

  (** The core, on the wider domain: the document is built, and Copyright() reads its dump
      back as the very same header and paragraphs. *)
  Lemma roundtrip_core hops ps form strict :
    wf_copyright_weak hops ps = true ->
    exists h,
      build_doc (map hop_of_shop hops) (map pspec_of_spara ps)
      = Ok (mkDoc h (map built (expected_order ps)))
      /\ copyright_parse strict (input_of_text form (cdump (mkDoc h (map built (expected_order ps)))))
         = Ok (mkDoc h (map built (expected_order ps))).
  Proof.
    unfold wf_copyright_weak. intros H. apply andb_true_iff in H. destruct H as [Hh Hp].
    destruct (header_run_ok hops _ hinv_initial Hh) as [h [Hrun Hi]].
    pose proof (expected_order_ok ps Hp) as Hq.
    set (qs := expected_order ps) in *.
    exists h. split.
    - unfold build_doc. rewrite header_init_none. cbn [bind]. rewrite Hrun. cbn [bind].
      rewrite add_all_ok by exact Hp. cbn [bind]. f_equal. f_equal.
      change (@nil cpara) with (@nil cpara ++ @nil cpara) at 1.
      rewrite (fold_add_para (map built ps) [] []) by reflexivity. cbn [app].
      destruct (filter_map_built ps Hp) as [-> ->]. subst qs. unfold expected_order. now rewrite map_app.
    - unfold copyright_parse. rewrite cdump_paras_text. cbn [cd_header cd_paras].
      rewrite reader_ok.
      + cbn [bind]. pose proof (header_init_some h Hi) as Hhd. unfold Model.dict, para in *. rewrite Hhd. cbn [bind].
        rewrite classify_built by exact Hq. reflexivity.
      + discriminate.
      + cbn [forallb]. destruct Hi as (Hg & _). rewrite Hg. cbn [andb].
        rewrite forallb_forall. intros d Hd. apply in_map_iff in Hd. destruct Hd as [q [<- Hq']].
        apply in_map_iff in Hq'. destruct Hq' as [p [<- Hin]].
        rewrite forallb_forall in Hq. now destruct (built_good p (Hq p Hin)).
      + cbn [forallb]. destruct Hi as (_ & _ & fmt & Hfmt & _).
        assert (Hne : nonempty_para h = true) by (destruct h; [discriminate|reflexivity]).
        rewrite Hne. cbn [andb].
        rewrite forallb_forall. intros d Hd. apply in_map_iff in Hd. destruct Hd as [q [<- Hq']].
        apply in_map_iff in Hq'. destruct Hq' as [p [<- Hin]].
        rewrite forallb_forall in Hq. destruct (built_good p (Hq p Hin)) as [_ Hne'].
        unfold nonempty_para. destruct (cp_data (built p)); [congruence|reflexivity].
  Qed.

  (** SURVIVAL on the wider domain (license lines may be whitespace-only or a lone '.'):
      re-reading the dump gives the same document; the paragraphs are the Files paragraphs
      in the order they were added, then the License paragraphs. *)
  Theorem copyright_survives_from_reader hops ps form strict :
    wf_copyright_weak hops ps = true ->
    exists c1,
      build_doc (map hop_of_shop hops) (map pspec_of_spara ps) = Ok c1
      /\ copyright_parse strict (input_of_text form (cdump c1)) = Ok c1
      /\ map is_files (cd_paras c1) = map is_pfiles (expected_order ps).
  Proof.
    intros H. destruct (roundtrip_core hops ps form strict H) as (h & Hb & Hparse).
    eexists. split; [exact Hb|]. split; [exact Hparse|].
    cbn [cd_paras]. rewrite map_map. apply map_ext_in. intros p Hin. apply built_is_files.
    unfold wf_copyright_weak in H. apply andb_true_iff in H. destruct H as [_ Hp].
    pose proof (expected_order_ok ps Hp) as Hq. rewrite forallb_forall in Hq. now apply Hq.
  Qed.

  (** EXACT round trip on [wf_copyright] *)
  Theorem copyright_roundtrip_from_reader hops ps form strict :
    wf_copyright hops ps = true ->
    exists c1,
      build_doc (map hop_of_shop hops) (map pspec_of_spara ps) = Ok c1
      /\ copyright_parse strict (input_of_text form (cdump c1)) = Ok c1
      /\ map para_view (cd_paras c1) = map expected_view (expected_order ps).
  Proof.
    intros H.
    destruct (roundtrip_core hops ps form strict (wf_copyright_weaken _ _ H)) as (h & Hb & Hparse).
    eexists. split; [exact Hb|]. split; [exact Hparse|].
    cbn [cd_paras]. rewrite map_map. apply map_ext_in. intros p Hin. apply built_view.
    unfold wf_copyright in H. apply andb_true_iff in H. destruct H as [_ Hp].
    unfold expected_order in Hin. apply in_app_or in Hin.
    rewrite forallb_forall in Hp. apply Hp. destruct Hin as [Hin|Hin]; apply filter_In in Hin; tauto.
  Qed.

  (** the same in the terms the correspondence check computes ([run_doc]): the re-read
      document shows the same values, the second dump is identical, and the Files /
      License paragraphs read as what was put in *)
  Corollary run_doc_roundtrip hops ps form strict :
    wf_copyright hops ps = true ->
    exists t hv,
      run_doc (map hop_of_shop hops) (map pspec_of_spara ps) form strict
      = RDone t (hv :: map expected_view (expected_order ps))
                (hv :: map expected_view (expected_order ps)) t.
  Proof.
    intros H. destruct (copyright_roundtrip_from_reader hops ps form strict H) as (c1 & Hb & Hparse & Hv).
    exists (cdump c1), (view_of false header_fields (cd_header c1)).
    unfold run_doc. rewrite Hb, Hparse. unfold doc_view. now rewrite Hv.
  Qed.

  (** ... and on the wider domain: same values before and after, identical text *)
  Corollary run_doc_survives hops ps form strict :
    wf_copyright_weak hops ps = true ->
    exists t v,
      run_doc (map hop_of_shop hops) (map pspec_of_spara ps) form strict = RDone t v v t
      /\ map pv_files (tl v) = map is_pfiles (expected_order ps).
  Proof.
    intros H. destruct (copyright_survives_from_reader hops ps form strict H) as (c1 & Hb & Hparse & Hk).
    exists (cdump c1), (doc_view c1). split.
    - unfold run_doc. now rewrite Hb, Hparse.
    - unfold doc_view. cbn [tl]. rewrite map_map. rewrite <- Hk. apply map_ext.
      intros [d|d]; reflexivity.
  Qed.
End Roundtrip.
