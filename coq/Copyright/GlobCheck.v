(** Case format evaluated by the correspondence check of C16.
    [agree]: the model (Copyright/Glob.v) reproduces what the implementation did.
    [holds]: the property itself, judged on what the implementation did, against
             the glob matcher of Copyright/GlobSpec.v (never against the model). *)
From Coq Require Import String Ascii.
From Verif Require Import Lib.Base Lib.Dec Lib.PyStr Gen.PyChars
  Copyright.Fields Copyright.Glob Copyright.GlobSpec.

(** One initial paragraph of the document, as observed after construction:
    a Files paragraph with the raw text of its Files field ([None]: no such field),
    or a stand-alone License paragraph. *)
Inductive pinit :=
| IFiles (files : option string)
| ILic.

Inductive cop :=
| COAssign (i : nat) (seq : list string)
| CORaw (i : nat) (v : string)
| COMatch (i : nat) (name : string)
| COFind (name : string).

(** What was observed for one operation: the raw Files texts of all Files paragraphs
    just before it ([p['Files']], public), and its result. *)
Record cobs := mkObs { o_snap : list (option string); o_out : out }.

(** [files_pattern()] of a paragraph at the end of the history *)
Inductive patobs :=
| PatOk (text : string) (multiline dotall : bool)
| PatErr (e : err).

Inductive sweepobs :=
| SwErr (e : err)
| SwBits (hex : string).          (* matches(name) for every name of [names_upto len], 4 per hex digit *)

Inductive case :=
| CHist (init : list pinit) (ops : list cop) (obs : list cobs) (final : list patobs)
  (* copyright.globs_to_re(globs) called directly; Python's own fullmatch/match on the result *)
| CLeaf (globs : list string) (res : patobs) (names : list string) (full pre : list bool)
  (* a regex of the fragment written by the harness, compiled by Python with/without DOTALL *)
| CLeafAst (alts : list (list atom)) (dotall : bool) (text : string)
           (names : list string) (full pre : list bool)
  (* one Files paragraph (raw text [raw]) against every name up to length [len] over [sweep_alphabet] *)
| CSweep (len : nat) (raw : option string) (obs : sweepobs).

(** * Name enumeration for sweeps (the harness enumerates in the same order) *)
Definition sweep_alphabet : list N := [97; 98; 47; 46; 42; 63; 92; 10]%N.   (* a b / . * ? \ LF *)

Fixpoint names_exact (n : nat) : list str :=
  match n with
  | O => [[]]
  | S n' => flat_map (fun c => map (cons c) (names_exact n')) sweep_alphabet
  end.
Fixpoint names_upto (n : nat) : list str :=
  match n with
  | O => names_exact O
  | S n' => names_upto n' ++ names_exact n
  end.

Definition names_0 : list str := Eval vm_compute in names_upto 0.
Definition names_1 : list str := Eval vm_compute in names_upto 1.
Definition names_2 : list str := Eval vm_compute in names_upto 2.
Definition names_3 : list str := Eval vm_compute in names_upto 3.
Definition names_4 : list str := Eval vm_compute in names_upto 4.
Definition names_of_len (n : nat) : list str :=
  match n with
  | 0 => names_0 | 1 => names_1 | 2 => names_2 | 3 => names_3 | 4 => names_4
  | _ => names_upto n
  end.

Definition hex_bits (a : ascii) : list bool :=
  let n := hexval a in
  [N.testbit n 3; N.testbit n 2; N.testbit n 1; N.testbit n 0].
Fixpoint bits_of_hex (s : string) : list bool :=
  match s with
  | EmptyString => []
  | String a s' => hex_bits a ++ bits_of_hex s'
  end.

(** [bits] may carry up to three padding zeros at the end *)
Fixpoint bits_agree (expected : list bool) (bits : list bool) : bool :=
  match expected, bits with
  | [], rest => forallb negb rest && (List.length rest <? 4)%nat
  | e :: es, b :: bs => Bool.eqb e b && bits_agree es bs
  | _ :: _, [] => false
  end.

(** * Model side *)
Definition init_para (p : pinit) : cpara :=
  match p with
  | IFiles (Some t) => PFiles (fp_new [(FILES, dec t)])
  | IFiles None => PFiles (fp_new [])
  | ILic => PLicense []
  end.

Definition op_of (o : cop) : op :=
  match o with
  | COAssign i seq => OAssign i (map dec seq)
  | CORaw i v => ORaw i (dec v)
  | COMatch i n => OMatch i (dec n)
  | COFind n => OFind (dec n)
  end.

(** raw Files texts of the Files paragraphs of a model document *)
Fixpoint files_texts (ps : doc) : list (option str) :=
  match ps with
  | [] => []
  | PFiles fp :: r => dget (fp_data fp) FILES :: files_texts r
  | PLicense _ :: r => files_texts r
  end.

Fixpoint run_obs (ps : doc) (ops : list op) : doc * list (list (option str) * out) :=
  match ops with
  | [] => (ps, [])
  | o :: r =>
      let (ps1, x) := step ps o in
      let (ps2, xs) := run_obs ps1 r in
      (ps2, (files_texts ps, x) :: xs)
  end.

Definition snap_eqb (a : list (option str)) (b : list (option string)) : bool :=
  list_eqb (option_eqb str_eqb) a (map (option_map dec) b).

Definition obs_eqb (m : list (option str) * out) (o : cobs) : bool :=
  snap_eqb (fst m) (o_snap o) && out_eqb (snd m) (o_out o).

Fixpoint list_eqb2 {A B} (f : A -> B -> bool) (l1 : list A) (l2 : list B) : bool :=
  match l1, l2 with
  | [], [] => true
  | a :: l1, b :: l2 => f a b && list_eqb2 f l1 l2
  | _, _ => false
  end.

Definition pat_agree (r : result compiled) (o : patobs) : bool :=
  match r, o with
  | Ok re, PatOk text ml da =>
      str_eqb (regex_text (re_alts re)) (dec text)
      && Bool.eqb (re_multiline re) ml && Bool.eqb (re_dotall re) da
  | Err e, PatErr e' => err_eqb e e'
  | _, _ => false
  end.

Fixpoint final_pats (ps : doc) : list (result compiled) :=
  match ps with
  | [] => []
  | PFiles fp :: r => snd (files_pattern fp) :: final_pats r
  | PLicense _ :: r => final_pats r
  end.

Definition bools_eqb : list bool -> list bool -> bool := list_eqb Bool.eqb.

Definition model_sweep (raw : option string) (names : list str) : result (list bool) :=
  let fp := fp_new (match raw with Some t => [(FILES, dec t)] | None => [] end) in
  (* the same paragraph object answers all queries: thread the cache *)
  (fix go (fp : fpara) (ns : list str) : result (list bool) :=
     match ns with
     | [] => Ok []
     | n :: ns' =>
         let (fp', r) := fp_matches fp n in
         match r with
         | Err e => Err e
         | Ok b => match go fp' ns' with Ok bs => Ok (b :: bs) | Err e => Err e end
         end
     end) fp names.

Definition agree (c : case) : bool :=
  match c with
  | CHist init ops obs final =>
      let (psf, outs) := run_obs (map init_para init) (map op_of ops) in
      list_eqb2 obs_eqb outs obs && list_eqb2 pat_agree (final_pats psf) final
  | CLeaf globs res names full pre =>
      let r := globs_to_re (map dec globs) in
      pat_agree r res
      && match r with
         | Ok re => bools_eqb (map (fun n => re_fullmatch re (dec n)) names) full
                    && bools_eqb (map (fun n => re_match re (dec n)) names) pre
         | Err _ => true
         end
  | CLeafAst alts dotall text names full pre =>
      let re := mkRe alts true dotall in
      str_eqb (regex_text alts) (dec text)
      && bools_eqb (map (fun n => re_fullmatch re (dec n)) names) full
      && bools_eqb (map (fun n => re_match re (dec n)) names) pre
  | CSweep len raw obs =>
      match model_sweep raw (names_of_len len), obs with
      | Ok bs, SwBits hex => bits_agree bs (bits_of_hex hex)
      | Err e, SwErr e' => err_eqb e e'
      | _, _ => false
      end
  end.

(** * Property side (GlobSpec only) *)
Definition is_nil {A} (l : list A) : bool := match l with [] => true | _ => false end.

(** what [matches(name)] must answer for a paragraph whose Files text is [t];
    [None] = not specified (a paragraph without any pattern asked about the empty name:
    the property quantifies over non-empty pattern lists) *)
Definition spec_matches (t : str) (name : str) : option out :=
  let pats := patterns_of t in
  if forallb glob_valid pats then
    if is_nil pats && is_nil name then None
    else Some (RBool (files_match pats name))
  else Some (RErr FormatError).

Definition out_meets (spec : option out) (o : out) : bool :=
  match spec with Some s => out_eqb s o | None => true end.

Fixpoint all_some {A} (l : list (option A)) : option (list A) :=
  match l with
  | [] => Some []
  | Some a :: r => match all_some r with Some r' => Some (a :: r') | None => None end
  | None :: _ => None
  end.

Definition spec_find (snap : list (option str)) (name : str) : option out :=
  match all_some snap with
  | None => None                                     (* a Files paragraph without Files field *)
  | Some ts =>
      let pss := map patterns_of ts in
      if forallb (forallb glob_valid) pss then
        if is_nil name && existsb is_nil pss then None
        else Some (RIdx (last_match pss name))
      else None                                      (* some paragraph is ill-formed: not specified here *)
  end.

Definition holds_op (o : cop) (ob : cobs) : bool :=
  let snap := map (option_map dec) (o_snap ob) in
  match o with
  | COAssign _ _ | CORaw _ _ => true
  | COMatch i name =>
      match nth_error snap i with
      | Some (Some t) => out_meets (spec_matches t (dec name)) (o_out ob)
      | _ => true
      end
  | COFind name => out_meets (spec_find snap (dec name)) (o_out ob)
  end.

Definition spec_globs (globs : list str) (name : str) : bool := files_match globs name.

Definition holds (c : case) : bool :=
  match c with
  | CHist _ ops obs _ => list_eqb2 (fun o ob => holds_op o ob) ops obs
  | CLeaf globs res names full _ =>
      let gs := map dec globs in
      if forallb glob_valid gs then
        match res with
        | PatOk _ _ _ =>
            is_nil gs || bools_eqb (map (fun n => spec_globs gs (dec n)) names) full
        | PatErr _ => false
        end
      else match res with PatErr FormatError => true | _ => false end
  | CLeafAst _ _ _ _ _ _ => true
  | CSweep len raw obs =>
      match raw with
      | None => true
      | Some t =>
          let pats := patterns_of (dec t) in
          if forallb glob_valid pats then
            match obs with
            | SwBits hex =>
                let names := names_of_len len in
                let bits := bits_of_hex hex in
                if is_nil pats
                then bits_agree (map (fun n => files_match pats n) (tl names)) (tl bits)
                else bits_agree (map (fun n => files_match pats n) names) bits
            | SwErr _ => false
            end
          else match obs with SwErr FormatError => true | _ => false end
      end
  end.

Definition bad_agree (cs : list case) : list N := bad agree cs.
Definition bad_holds (cs : list case) : list N := bad holds cs.

(** * Spec-side validation: GlobSpec against the harness's own recursive matcher
      (nothing here depends on /repo) *)
Inductive speccase :=
| SC (pattern name : string) (valid matched : bool)
| SCSweep (len : nat) (pattern : string) (valid : bool) (hex : string).

Definition spec_agree (c : speccase) : bool :=
  match c with
  | SC p n v m =>
      Bool.eqb (glob_valid (dec p)) v
      && (negb v || Bool.eqb (glob_match (dec p) (dec n)) m)
  | SCSweep len p v hex =>
      Bool.eqb (glob_valid (dec p)) v
      && (negb v || bits_agree (map (glob_match (dec p)) (names_of_len len)) (bits_of_hex hex))
  end.
Definition spec_bad (cs : list speccase) : list N := bad spec_agree cs.
