(** MODEL for C16: lib/debian/copyright.py

      globs_to_re                       [glob_atoms], [globs_atoms], [add_endz], [globs_to_re], [regex_text]
      re.escape (one character)         [re_escape_char]  (table: Gen/ReEscape.v, from the running interpreter)
      Pattern.fullmatch / Pattern.match on the generated fragment   [re_fullmatch], [re_match]
      FilesParagraph.files_pattern (cache keyed by the Files text), .matches, .files setter
      Copyright.find_files_paragraph, Copyright.all_files_paragraphs

    The regular expression is kept as the syntax tree of the TEXT the code writes into
    its buffer: a top-level alternation of sequences over four atoms.  [regex_text]
    prints the tree back to that text; the check compares it with [pat.pattern] of the
    object the code really compiled and compares the tree's semantics with Python's
    [re] on that text (leaf check).  No proofs in this file. *)
From Verif Require Import Lib.Base Lib.PyStr Gen.PyChars Gen.ReEscape Copyright.Fields.

Definition STAR : N := 42.
Definition QMARK : N := 63.
Definition BSLASH : N := 92.
Definition BAR : N := 124.

(** * The regex fragment *)
Inductive atom :=
| Lit (c : N)        (* re.escape(c) *)
| AnyChar            (* .   *)
| AnyStar            (* .*  *)
| EndZ.              (* \Z  *)

Definition alt := list atom.
Definition regex := list alt.          (* alt_1 | alt_2 | ... ; [] never arises *)

Record compiled := mkRe {
  re_alts : regex;
  re_multiline : bool;                 (* re.MULTILINE: changes only ^ and $, neither occurs *)
  re_dotall : bool                     (* re.DOTALL: '.' also matches LF *)
}.

(** * globs_to_re *)

(** The inner [while i < n] loop over one glob.  Errors: a backslash at the end,
    a backslash followed by anything but one of the three characters of r'\?*'. *)
Fixpoint glob_atoms (g : str) : result alt :=
  match g with
  | [] => Ok []
  | c :: g' =>
      if (c =? STAR)%N then do r <- glob_atoms g'; Ok (AnyStar :: r)
      else if (c =? QMARK)%N then do r <- glob_atoms g'; Ok (AnyChar :: r)
      else if (c =? BSLASH)%N then
        match g' with
        | [] => Err FormatError                      (* single backslash not allowed at end *)
        | e :: g'' =>
            if in_chars [BSLASH; QMARK; STAR] e
            then do r <- glob_atoms g''; Ok (Lit e :: r)
            else Err FormatError                     (* invalid escape sequence *)
        end
      else do r <- glob_atoms g'; Ok (Lit c :: r)
  end.

(** The outer [for i, glob in enumerate(globs)] loop ('|' between alternatives). *)
Fixpoint globs_atoms (gs : list str) : result (list alt) :=
  match gs with
  | [] => Ok []
  | g :: gs' => do a <- glob_atoms g; do r <- globs_atoms gs'; Ok (a :: r)
  end.

(** [buf.write(r'\Z')] happens once, after the loop: the anchor lands at the end of
    the LAST alternative only (and is the whole pattern for an empty list). *)
Fixpoint add_endz (alts : list alt) : regex :=
  match alts with
  | [] => [[EndZ]]
  | [a] => [a ++ [EndZ]]
  | a :: r => a :: add_endz r
  end.

Definition globs_to_re (globs : list str) : result compiled :=
  do alts <- globs_atoms globs;
  Ok (mkRe (add_endz alts) true true).              (* re.MULTILINE | re.DOTALL *)

(** * The pattern text *)
Definition re_escape_char (c : N) : str :=
  if in_chars re_escape_specials c then [BSLASH; c] else [c].

Definition atom_text (a : atom) : str :=
  match a with
  | Lit c => re_escape_char c
  | AnyChar => [DOT]
  | AnyStar => [DOT; STAR]
  | EndZ => [BSLASH; 90%N]
  end.

Definition alt_text (a : alt) : str := concat (map atom_text a).
Definition regex_text (r : regex) : str := join [BAR] (map alt_text r).

(** * Semantics of the fragment (denotational: which strings are matched)

    [seq_full dotall r s]  : the sequence [r] matches exactly the whole of [s];
    [seq_prefix dotall r s]: [r] matches some prefix of [s].
    Python's engine backtracks over '.*' and over the alternatives, and for
    fullmatch keeps backtracking until the end of the string is reached, so for this
    capture-free fragment "there is a match" is exactly the denotation. *)
Definition dot_ok (dotall : bool) (x : N) : bool := dotall || negb (x =? LF)%N.

Fixpoint seq_full (dotall : bool) (r : alt) : str -> bool :=
  match r with
  | [] => fun s => match s with [] => true | _ => false end
  | a :: r' =>
      match a with
      | Lit c => fun s => match s with x :: s' => (x =? c)%N && seq_full dotall r' s' | [] => false end
      | AnyChar => fun s => match s with x :: s' => dot_ok dotall x && seq_full dotall r' s' | [] => false end
      | AnyStar =>
          fix star (s : str) : bool :=
            seq_full dotall r' s
            || match s with x :: s' => dot_ok dotall x && star s' | [] => false end
      | EndZ => fun s => match s with [] => seq_full dotall r' [] | _ => false end
      end
  end.

Fixpoint seq_prefix (dotall : bool) (r : alt) : str -> bool :=
  match r with
  | [] => fun _ => true
  | a :: r' =>
      match a with
      | Lit c => fun s => match s with x :: s' => (x =? c)%N && seq_prefix dotall r' s' | [] => false end
      | AnyChar => fun s => match s with x :: s' => dot_ok dotall x && seq_prefix dotall r' s' | [] => false end
      | AnyStar =>
          fix star (s : str) : bool :=
            seq_prefix dotall r' s
            || match s with x :: s' => dot_ok dotall x && star s' | [] => false end
      | EndZ => fun s => match s with [] => seq_prefix dotall r' [] | _ => false end
      end
  end.

(** [pat.fullmatch(s) is not None] / [pat.match(s) is not None] *)
Definition re_fullmatch (p : compiled) (s : str) : bool :=
  existsb (fun a => seq_full (re_dotall p) a s) (re_alts p).
Definition re_match (p : compiled) (s : str) : bool :=
  existsb (fun a => seq_prefix (re_dotall p) a s) (re_alts p).

(** * FilesParagraph *)
Definition FILES : str := [70; 105; 108; 101; 115]%N.          (* "Files" *)
Definition files_lc : str := [102; 105; 108; 101; 115]%N.      (* "files" *)

Definition files_field : rfield := mkField FILES FromSpaceSep ToSpaceSep false.

(** [_default_re = re.compile('')] : one empty alternative, no flags *)
Definition default_re : compiled := mkRe [[]] false false.

Record fpara := mkFP {
  fp_data : para;                       (* the wrapped Deb822 object *)
  fp_cache : str * compiled             (* __cached_files_pat *)
}.

(** [FilesParagraph.__init__] (validation apart) *)
Definition fp_new (d : para) : fpara := mkFP d ([], default_re).

(** [self.files] *)
Definition fp_files (fp : fpara) : list str := ss_from_str (dget (fp_data fp) FILES).

(** [files_pattern()].  The paragraph object is mutated only when the whole right-hand
    side has been evaluated, so an exception leaves the cache as it was. *)
Definition files_pattern (fp : fpara) : fpara * result compiled :=
  match dgetitem (fp_data fp) files_lc with
  | Err e => (fp, Err e)
  | Ok files_str =>
      if negb (str_eqb (fst (fp_cache fp)) files_str) then
        match globs_to_re (fp_files fp) with
        | Err e => (fp, Err e)
        | Ok re => (mkFP (fp_data fp) (files_str, re), Ok re)
        end
      else (fp, Ok (snd (fp_cache fp)))
  end.

(** [matches(filename)] ([pat is None] cannot happen) *)
Definition fp_matches (fp : fpara) (name : str) : fpara * result bool :=
  let (fp', r) := files_pattern fp in
  (fp', match r with Ok pat => Ok (re_fullmatch pat name) | Err e => Err e end).

(** [p.files = seq] : RestrictedWrapper setter; the cache is not touched *)
Definition fp_assign (fp : fpara) (seq : list str) : fpara * result unit :=
  match setter files_field (VList seq) (fp_data fp) with
  | Ok d => (mkFP d (fp_cache fp), Ok tt)
  | Err e => (fp, Err e)
  end.

(** [d['Files'] = v] on the wrapped Deb822 object itself (the constructor's caller may
    keep the reference, as the class documentation says) *)
Definition fp_setraw (fp : fpara) (v : str) : fpara * result unit :=
  match dset_checked (fp_data fp) FILES v with
  | Ok d => (mkFP d (fp_cache fp), Ok tt)
  | Err e => (fp, Err e)
  end.

(** * Copyright: the paragraph list and find_files_paragraph *)
Inductive cpara :=
| PFiles (fp : fpara)
| PLicense (d : para).

Definition doc := list cpara.

(** The loop of [find_files_paragraph]; [i] counts Files paragraphs, so the result is
    the position of the returned object in [list(c.all_files_paragraphs())].
    An exception from [matches] propagates; paragraphs visited before keep their
    refreshed cache. *)
Fixpoint find_loop (ps : doc) (name : str) (i : nat) (acc : option nat)
  : doc * result (option nat) :=
  match ps with
  | [] => ([], Ok acc)
  | PLicense d :: r =>
      let (r', o) := find_loop r name i acc in (PLicense d :: r', o)
  | PFiles fp :: r =>
      let (fp', m) := fp_matches fp name in
      match m with
      | Err e => (PFiles fp' :: r, Err e)
      | Ok b =>
          let (r', o) := find_loop r name (S i) (if b then Some i else acc) in
          (PFiles fp' :: r', o)
      end
  end.

Definition find_files_paragraph (ps : doc) (name : str) : doc * result (option nat) :=
  find_loop ps name 0 None.

(** [list(c.all_files_paragraphs())[i]] then an action on it; IndexError when out of range *)
Fixpoint on_files_para {A} (ps : doc) (i : nat) (f : fpara -> fpara * result A)
  : doc * result A :=
  match ps with
  | [] => ([], Err IndexError)
  | PLicense d :: r => let (r', o) := on_files_para r i f in (PLicense d :: r', o)
  | PFiles fp :: r =>
      match i with
      | O => let (fp', o) := f fp in (PFiles fp' :: r, o)
      | S i' => let (r', o) := on_files_para r i' f in (PFiles fp :: r', o)
      end
  end.

(** * Histories *)
Inductive op :=
| OAssign (i : nat) (seq : list str)      (* fps[i].files = seq *)
| ORaw (i : nat) (v : str)                (* underlying Deb822 of fps[i]: d['Files'] = v *)
| OMatch (i : nat) (name : str)           (* fps[i].matches(name) *)
| OFind (name : str).                     (* c.find_files_paragraph(name) *)

Inductive out :=
| RUnit
| RBool (b : bool)
| RIdx (i : option nat)
| RErr (e : err).

Definition out_of {A} (f : A -> out) (r : result A) : out :=
  match r with Ok a => f a | Err e => RErr e end.

Definition step (ps : doc) (o : op) : doc * out :=
  match o with
  | OAssign i seq =>
      let (ps', r) := on_files_para ps i (fun fp => fp_assign fp seq) in (ps', out_of (fun _ => RUnit) r)
  | ORaw i v =>
      let (ps', r) := on_files_para ps i (fun fp => fp_setraw fp v) in (ps', out_of (fun _ => RUnit) r)
  | OMatch i name =>
      let (ps', r) := on_files_para ps i (fun fp => fp_matches fp name) in (ps', out_of RBool r)
  | OFind name =>
      let (ps', r) := find_files_paragraph ps name in (ps', out_of RIdx r)
  end.

Fixpoint run (ps : doc) (ops : list op) : doc * list out :=
  match ops with
  | [] => (ps, [])
  | o :: ops' =>
      let (ps1, x) := step ps o in
      let (ps2, xs) := run ps1 ops' in
      (ps2, x :: xs)
  end.

(** Boolean equalities for the check *)
Definition out_eqb (a b : out) : bool :=
  match a, b with
  | RUnit, RUnit => true
  | RBool x, RBool y => Bool.eqb x y
  | RIdx x, RIdx y => option_eqb Nat.eqb x y
  | RErr x, RErr y => err_eqb x y
  | _, _ => false
  end.
