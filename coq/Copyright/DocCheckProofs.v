(** C17 — the bridge between the theorems of Copyright/FieldsProofs.v and
    Copyright/DocRoundtrip.v (about the model) and the two predicates the
    correspondence check evaluates (Copyright/DocCheck.v): when the
    implementation's observation agrees with the model ([agree]) the property's
    judgement of that observation ([holds]) is true.

    Route, constructor by constructor:
      KLines                multiline_codec_inverse
      KText                 multiline_text_inverse, multiline_none
      KLic                  license_inverse
      KSS / KLB             space_separated_inverse / line_based_inverse
      KSSFrom / KLBFrom     the same two, after showing (new here) that from_str
                            only ever produces lists of the domain:
                            [ss_from_str_dom], [lb_from_str_dom] — for EVERY text
      KDoc                  run_doc_identity on [wf_copyright], run_doc_same on
                            [wf_copyright_weak]
      KParse, KLicFrom, KParseDoc    [holds] is [true]

    No side condition: a document observation whose re-read half is written out in full
    ([ODone _ _ (Some _)]) instead of abbreviated ([None]) is judged by [holds] through
    [again_same], and [agree] forces [again_same] ([again_same_of_agree]). *)
From Coq Require Import String Lia.
From Verif Require Import Lib.Base Lib.Dec Lib.PyStr Gen.PyChars Deb822.Spec
  Copyright.Fields Copyright.Doc Copyright.DocSpec Copyright.DocBridge
  Copyright.FieldsProofs Copyright.DocProofs Copyright.DocRoundtrip Copyright.DocCheck.

(** * Reflection of the boolean equalities *)
Lemma option_eqb_true {A} (f : A -> A -> bool) :
  (forall a b, f a b = true <-> a = b) -> forall x y, option_eqb f x y = true <-> x = y.
Proof.
  intros Hf [a|] [b|]; simpl; split; intros H; try discriminate; try reflexivity.
  - apply Hf in H. now subst.
  - inversion H; subst. now apply Hf.
Qed.

Lemma ostr_eqb_true x y : ostr_eqb x y = true <-> x = y.
Proof. apply option_eqb_true. exact str_eqb_eq. Qed.

Lemma result_eqb_true {A} (f : A -> A -> bool) :
  (forall a b, f a b = true <-> a = b) -> forall x y, result_eqb f x y = true <-> x = y.
Proof.
  intros Hf [a|e] [b|e']; simpl; split; intros H; try discriminate.
  - apply Hf in H. now subst.
  - inversion H; subst. now apply Hf.
  - apply err_eqb_eq in H. now subst.
  - inversion H; subst. now apply err_eqb_eq.
Qed.

Lemma result_eqb_refl {A} (f : A -> A -> bool) :
  (forall a b, f a b = true <-> a = b) -> forall x, result_eqb f x x = true.
Proof. intros Hf x. now apply (result_eqb_true f Hf). Qed.

Lemma strs_eqb_refl l : strs_eqb l l = true.
Proof. now apply strs_eqb_eq. Qed.

(** * The range of the two list decoders lies in the domain of the encoders *)
Definition nows (s : str) : bool := forallb (fun c => negb (py_isspace c)) s.

Lemma split_ws_aux_nows s : forall cur,
  nows cur = true -> forallb nows (split_ws_aux py_isspace s cur) = true.
Proof.
  induction s as [|x s IH]; intros cur Hc.
  - cbn [split_ws_aux]. destruct cur as [|c cur']; [reflexivity|].
    cbn [forallb]. unfold nows at 1. rewrite forallb_rev. fold (nows (c :: cur')). now rewrite Hc.
  - cbn [split_ws_aux]. destruct (py_isspace x) eqn:Ex.
    + destruct cur as [|c cur'].
      * now apply IH.
      * cbn [forallb]. unfold nows at 1. rewrite forallb_rev. fold (nows (c :: cur')). rewrite Hc.
        cbn [andb]. now apply IH.
    + apply IH. unfold nows. cbn [forallb]. rewrite Ex. exact Hc.
Qed.

Theorem ss_from_str_dom s : ss_dom (ss_from_str s) = true.
Proof.
  unfold ss_from_str, split_ws.
  pose proof (split_ws_aux_nows (opt_or_empty s) [] eq_refl) as H.
  induction (split_ws_aux py_isspace (opt_or_empty s) []) as [|w l IH]; [reflexivity|].
  cbn [forallb] in H. apply andb_true_iff in H. destruct H as [Hw Hl].
  cbn [filter]. destruct w as [|c w']; cbn [nonempty]; [now apply IH|].
  unfold ss_dom. cbn [forallb]. fold (ss_dom (filter nonempty l)). rewrite (IH Hl), andb_true_r.
  unfold ss_item_ok. cbn [is_empty negb andb]. exact Hw.
Qed.

Lemma splitlines_aux_lb_free n : forall s cur,
  (List.length s <= n)%nat -> lb_free cur = true ->
  forallb lb_free (splitlines_aux py_islinebreak false s cur) = true.
Proof.
  induction n as [|n IH]; intros s cur Hn Hc.
  - destruct s as [|x s]; [|cbn [List.length] in Hn; lia].
    cbn [splitlines_aux]. destruct cur as [|c cur']; [reflexivity|].
    cbn [forallb]. unfold lb_free at 1. rewrite forallb_rev. fold (lb_free (c :: cur')). now rewrite Hc.
  - destruct s as [|x s].
    + cbn [splitlines_aux]. destruct cur as [|c cur']; [reflexivity|].
      cbn [forallb]. unfold lb_free at 1. rewrite forallb_rev. fold (lb_free (c :: cur')). now rewrite Hc.
    + cbn [List.length] in Hn. cbn [splitlines_aux]. destruct (py_islinebreak x) eqn:Ex.
      * assert (Hr : lb_free (rev cur ++ []) = true).
        { rewrite app_nil_r. unfold lb_free. rewrite forallb_rev. exact Hc. }
        destruct s as [|y s'].
        -- cbn [forallb]. now rewrite Hr.
        -- cbn [List.length] in Hn.
           destruct ((x =? 13)%N && (y =? 10)%N); cbn [forallb]; rewrite Hr; cbn [andb].
           ++ apply IH; [lia|reflexivity].
           ++ apply IH; [cbn [List.length]; lia|reflexivity].
      * apply IH; [lia|]. unfold lb_free. cbn [forallb]. rewrite Ex. exact Hc.
Qed.

Lemma py_splitlines_lb_free s : forallb lb_free (py_splitlines s) = true.
Proof. unfold py_splitlines, splitlines. now apply (splitlines_aux_lb_free (List.length s)). Qed.

Lemma forallb_dropwhile {A} (q p : A -> bool) l : forallb q l = true -> forallb q (dropwhile p l) = true.
Proof.
  induction l as [|x l IH]; [reflexivity|]. cbn [dropwhile]. destruct (p x); [|auto].
  cbn [forallb]. intros H. apply andb_true_iff in H. now apply IH.
Qed.

Lemma strip_lb_free s : lb_free s = true -> lb_free (py_strip s) = true.
Proof.
  intros H. unfold py_strip, strip_by, rstrip_by, lstrip_by, rdropwhile, lb_free.
  rewrite forallb_rev. apply forallb_dropwhile. rewrite forallb_rev. now apply forallb_dropwhile.
Qed.

Lemma dropwhile_snoc_keep {A} (p : A -> bool) a c :
  p c = false -> dropwhile p (a ++ [c]) = dropwhile p a ++ [c].
Proof.
  intros Hc. induction a as [|x a IH]; cbn [app dropwhile].
  - now rewrite Hc.
  - destruct (p x); [exact IH|reflexivity].
Qed.

Lemma strip_is_stripped s : stripped (py_strip s) = true.
Proof.
  unfold py_strip, strip_by, rstrip_by, lstrip_by.
  destruct (dropwhile py_isspace s) as [|c r] eqn:Ed; [reflexivity|].
  pose proof (dropwhile_head _ _ _ _ Ed) as Hc.
  unfold rdropwhile. cbn [rev]. rewrite (dropwhile_snoc_keep _ _ _ Hc).
  rewrite rev_app_distr. cbn [rev app].
  destruct (dropwhile py_isspace (rev r)) as [|y u] eqn:Eu.
  - cbn [rev stripped last_opt]. now rewrite Hc.
  - pose proof (dropwhile_head _ _ _ _ Eu) as Hy.
    cbn [rev]. cbn [stripped]. rewrite Hc. cbn [negb andb].
    change (c :: rev u ++ [y]) with ((c :: rev u) ++ [y]). rewrite last_opt_snoc. now rewrite Hy.
Qed.

Theorem lb_from_str_dom s : lb_dom (lb_from_str s) = true.
Proof.
  unfold lb_from_str.
  pose proof (py_splitlines_lb_free (py_strip (opt_or_empty s))) as H.
  induction (py_splitlines (py_strip (opt_or_empty s))) as [|w l IH]; [reflexivity|].
  cbn [forallb] in H. apply andb_true_iff in H. destruct H as [Hw Hl].
  cbn [map filter]. destruct (py_strip w) as [|c w'] eqn:Es; cbn [nonempty]; [now apply IH|].
  unfold lb_dom. cbn [forallb]. fold (lb_dom (filter nonempty (map py_strip l))). rewrite (IH Hl), andb_true_r.
  unfold lb_item_ok. cbn [is_empty negb andb]. rewrite <- Es.
  rewrite no_linebreak_lb_free, (strip_lb_free _ Hw), strip_is_stripped. reflexivity.
Qed.

(** * The list codecs: what [agree] forces, given an inverse pair on [l] *)
Lemma codec_case (to : list str -> result (option str)) (from : option str -> list str)
    (l : list str) (enc : result (option string)) (back : list str) :
  (exists o, to l = Ok o /\ from o = l) ->
  result_eqb ostr_eqb (to l) (dres dopt enc) = true ->
  strs_eqb (from (enc_or_none enc)) back = true ->
  is_ok enc && strs_eqb back l = true.
Proof.
  intros [o [Hto Hfrom]] He Hb. rewrite Hto in He.
  destruct enc as [e'|e]; [|discriminate He].
  cbn [dres result_eqb] in He. apply ostr_eqb_true in He.
  cbn [enc_or_none] in Hb. rewrite <- He, Hfrom in Hb. apply strs_eqb_eq in Hb. subst back.
  cbn [is_ok andb]. apply strs_eqb_refl.
Qed.

(** * Documents *)
Lemma map_hop_of hops : map hop_of hops = map hop_of_shop (map shop_of hops).
Proof. now rewrite map_map. Qed.
Lemma map_pspec_of specs : map pspec_of specs = map pspec_of_spara (map spara_of specs).
Proof. now rewrite map_map. Qed.

(** equality of two mapped lists, read as the heterogeneous comparison of the sources *)
Lemma eqb_maps_eqb2 {A B C} (f : C -> C -> bool) (g : A -> C) (h : B -> C)
    (k : B -> A -> bool) (P : A -> bool) :
  (forall a b, P a = true -> f (g a) (h b) = true -> k b a = true) ->
  forall l1 l2, forallb P l1 = true ->
    list_eqb f (map g l1) (map h l2) = true -> list_eqb2 k l2 l1 = true.
Proof.
  intros Hk. induction l1 as [|a l1 IH]; intros [|b l2] HP H; cbn [map list_eqb list_eqb2] in *;
    try discriminate; [reflexivity|].
  apply andb_true_iff in HP. destruct HP as [Pa Pl].
  apply andb_true_iff in H. destruct H as [Hab Hl].
  rewrite (Hk _ _ Pa Hab). cbn [andb]. now apply IH.
Qed.

Lemma list_eqb2_map_r {A B C} (k : A -> C -> bool) (h : B -> C) l l' :
  list_eqb2 k l (map h l') = list_eqb2 (fun a b => k a (h b)) l l'.
Proof.
  revert l'. induction l as [|a l IH]; intros [|b l']; cbn [map list_eqb2]; try reflexivity. now rewrite IH.
Qed.

(** a value as the expected-values table writes a License: always with a text *)
Definition normal (v : sval) : bool := match v with SLic _ None => false | _ => true end.

Lemma oval_is_of_eqb v o :
  normal v = true -> result_eqb fval_eqb (Ok (fval_of_sval v)) (fval_of o) = true -> oval_is o v = true.
Proof.
  intros Hn H. destruct v as [|s|l|syn [t|]], o as [|x|x|x y|e]; cbn in H; try discriminate H;
    try discriminate Hn; cbn [oval_is].
  - reflexivity.
  - apply str_eqb_eq in H. subst s. apply str_eqb_refl.
  - apply strs_eqb_eq in H. subst l. apply strs_eqb_refl.
  - unfold license_eqb in H. cbn [lic_synopsis lic_text] in H.
    apply andb_true_iff in H. destruct H as [H1 H2].
    apply str_eqb_eq in H1. apply str_eqb_eq in H2. subst syn t. now rewrite !str_eqb_refl.
Qed.

Lemma normal_norm_val v : normal (norm_val v) = true.
Proof. destruct v as [| | |s [t|]]; reflexivity. Qed.

Lemma value_ok_text_normal v : value_ok DocSpec.KText v = true -> normal v = true.
Proof. destruct v as [| | |s [t|]]; try reflexivity. discriminate. Qed.

Lemma para_ok_normal p : para_ok p = true -> forallb normal (snd (expected_vals p)) = true.
Proof.
  destruct p as [f c l cm|l cm]; cbn [para_ok expected_vals snd forallb].
  - destruct f as [| |fs|]; try discriminate. destruct c as [|c| |]; try discriminate.
    destruct l as [| | |syn text]; try discriminate.
    intros H. rewrite !andb_true_iff in H. destruct H as [_ Hcm].
    rewrite !normal_norm_val, (value_ok_text_normal _ Hcm). reflexivity.
  - destruct l as [| | |syn text]; try discriminate.
    intros H. rewrite !andb_true_iff in H. destruct H as [_ Hcm].
    rewrite !normal_norm_val, (value_ok_text_normal _ Hcm). reflexivity.
Qed.

Lemma oview_is_of_eqb p o :
  para_ok p = true -> pview_eqb (expected_view p) (pview_of o) = true -> oview_is o (expected_vals p) = true.
Proof.
  intros Hp H. pose proof (para_ok_normal p Hp) as Hn.
  unfold expected_view in H. destruct (expected_vals p) as [isf vals]. cbn [snd] in Hn. cbv beta iota in H.
  unfold pview_eqb, pview_of in H. cbn [pv_files pv_vals] in H.
  apply andb_true_iff in H. destruct H as [Hf Hv].
  unfold oview_is. cbn [fst snd]. apply andb_true_iff. split.
  - apply Bool.eqb_prop in Hf. subst isf. apply Bool.eqb_reflx.
  - revert Hn Hv. apply eqb_maps_eqb2. intros a b Ha Hab. now apply oval_is_of_eqb.
Qed.

Lemma forallb_filter {A} (P q : A -> bool) l : forallb P l = true -> forallb P (filter q l) = true.
Proof.
  induction l as [|a l IH]; [reflexivity|]. cbn [forallb filter]. intros H.
  apply andb_true_iff in H. destruct H as [Ha Hl]. destruct (q a); [cbn [forallb]; rewrite Ha|]; auto.
Qed.

Lemma expected_order_ok ps : forallb para_ok ps = true -> forallb para_ok (expected_order ps) = true.
Proof. intros H. unfold expected_order. rewrite forallb_app, !forallb_filter by exact H. reflexivity. Qed.

Lemma views_eqb_tl v ov :
  views_eqb v (map pview_of ov) = true -> views_eqb (tl v) (map pview_of (tl ov)) = true.
Proof.
  destruct v as [|a v], ov as [|b ov]; cbn [map views_eqb list_eqb tl]; try discriminate; [reflexivity|].
  unfold views_eqb. cbn [list_eqb]. intros H. apply andb_true_iff in H. now destruct H.
Qed.

Lemma views_eqb_files v ov :
  views_eqb v (map pview_of ov) = true -> map pv_files v = map ov_files ov.
Proof.
  revert ov. induction v as [|a v IH]; intros [|b ov]; unfold views_eqb; cbn [map list_eqb];
    try discriminate; [reflexivity|].
  intros H. apply andb_true_iff in H. destruct H as [Hab Hl].
  unfold pview_eqb in Hab. apply andb_true_iff in Hab. destruct Hab as [Hf _].
  apply Bool.eqb_prop in Hf. cbn [pview_of pv_files] in Hf. rewrite Hf. f_equal. now apply IH.
Qed.

(** * The re-read half: what [agree] forces it to be *)
Lemma list_eqb_same {A} (f : A -> A -> bool) : (forall a, f a a = true) -> forall l, list_eqb f l l = true.
Proof. intros Hf. induction l as [|a l IH]; [reflexivity|]. cbn [list_eqb]. now rewrite Hf, IH. Qed.

Lemma list_eqb_sound {A} (f : A -> A -> bool) : (forall a b, f a b = true -> a = b) ->
  forall l1 l2, list_eqb f l1 l2 = true -> l1 = l2.
Proof.
  intros Hf. induction l1 as [|a l1 IH]; intros [|b l2]; cbn [list_eqb]; try discriminate; [reflexivity|].
  intros H. apply andb_true_iff in H. destruct H as [Hab Hl]. f_equal; auto.
Qed.

Lemma fval_eqb_same x : fval_eqb x x = true.
Proof.
  destruct x as [|x|x|[x1 x2]]; cbn [fval_eqb]; [reflexivity|apply str_eqb_refl|apply strs_eqb_refl|].
  unfold license_eqb. cbn [lic_synopsis lic_text]. now rewrite !str_eqb_refl.
Qed.

Lemma fval_eqb_sound x y : fval_eqb x y = true -> x = y.
Proof.
  destruct x as [|x|x|[x1 x2]], y as [|y|y|[y1 y2]]; cbn [fval_eqb]; intros H; try discriminate H.
  - reflexivity.
  - apply str_eqb_eq in H. now subst.
  - apply strs_eqb_eq in H. now subst.
  - unfold license_eqb in H. cbn [lic_synopsis lic_text] in H. apply andb_true_iff in H.
    destruct H as [Ha Hb]. apply str_eqb_eq in Ha. apply str_eqb_eq in Hb. now subst.
Qed.

Lemma views_eqb_same v : views_eqb v v = true.
Proof.
  apply list_eqb_same. intros a. unfold pview_eqb. rewrite Bool.eqb_reflx. cbn [andb].
  apply list_eqb_same. intros [x|e]; cbn [result_eqb]; [apply fval_eqb_same|now apply err_eqb_eq].
Qed.

Lemma views_eqb_sound a b : views_eqb a b = true -> a = b.
Proof.
  apply list_eqb_sound. intros [f1 l1] [f2 l2] H. unfold pview_eqb in H. cbn [pv_files pv_vals] in H.
  apply andb_true_iff in H. destruct H as [Hf Hl]. apply Bool.eqb_prop in Hf. subst f2. f_equal.
  revert Hl. apply list_eqb_sound. intros [x|e] [y|e'] H; cbn [result_eqb] in H; try discriminate H.
  - apply fval_eqb_sound in H. now subst.
  - apply err_eqb_eq in H. now subst.
Qed.

(** the model's run on the (wider) domain is [RDone t v v t]; an observation that agrees with
    it has a second half equal to its first, however it is spelled *)
Lemma again_same_of_agree t v od1 ov1 again :
  docrun_agrees (RDone t v v t) (ODone od1 ov1 again) = true ->
  again_same od1 ov1 again = true /\ views_eqb v (map pview_of ov1) = true.
Proof.
  cbn [docrun_agrees]. intros H. apply andb_true_iff in H. destruct H as [H Ha].
  apply andb_true_iff in H. destruct H as [Hd Hv]. split; [|exact Hv].
  destruct again as [[ov2 od2]|]; [|reflexivity].
  apply andb_true_iff in Ha. destruct Ha as [Hv2 Hd2].
  apply views_eqb_sound in Hv. apply views_eqb_sound in Hv2.
  apply str_eqb_eq in Hd. apply str_eqb_eq in Hd2.
  cbn [again_same]. rewrite <- Hv, <- Hv2, <- Hd, <- Hd2. now rewrite views_eqb_same, str_eqb_refl.
Qed.

(** * The theorem *)
Lemma mk_license_otext syn t : mk_license syn t = mk_license syn (Some (otext t)).
Proof. destruct t; reflexivity. Qed.

Theorem agree_implies_holds c : agree c = true -> holds c = true.
Proof.
  destruct c as [ls enc back|s enc back|s r|syn text obs|s r|l enc back|s l enc l2
                |l enc back|s l enc l2|hops specs form strict obs|text form strict obs];
    intros Hag; cbn [holds agree] in *; cbv zeta; try reflexivity.
  - (* KLines *)
    destruct (ml_dom (dstrs ls)) eqn:Hd; [|reflexivity].
    apply andb_true_iff in Hag. destruct Hag as [He Hb].
    apply str_eqb_eq in He. rewrite <- He, (multiline_codec_inverse _ Hd) in Hb.
    apply (result_eqb_true strs_eqb strs_eqb_eq) in Hb. rewrite <- Hb.
    apply (result_eqb_refl strs_eqb strs_eqb_eq).
  - (* KText *)
    apply andb_true_iff in Hag. destruct Hag as [He Hb].
    apply ostr_eqb_true in He. rewrite <- He in Hb.
    destruct s as [t|].
    + destruct (text_dom (dec t)) eqn:Hd; [|reflexivity].
      cbn [dopt option_map] in Hb. rewrite (multiline_text_inverse _ Hd) in Hb.
      apply (result_eqb_true ostr_eqb ostr_eqb_true) in Hb. rewrite <- Hb.
      apply (result_eqb_refl ostr_eqb ostr_eqb_true).
    + cbn [dopt option_map] in Hb, He. rewrite multiline_none in Hb.
      apply (result_eqb_true ostr_eqb ostr_eqb_true) in Hb. rewrite <- Hb.
      destruct enc as [e|]; [discriminate He|]. reflexivity.
  - (* KLic *)
    destruct (lic_dom (dec syn) (otext (dopt text))) eqn:Hd; [|reflexivity].
    destruct (license_inverse _ _ Hd) as [Hmk Hinv].
    rewrite mk_license_otext, Hmk in Hag.
    destruct obs as [[enc back]|e]; [|discriminate Hag].
    apply andb_true_iff in Hag. destruct Hag as [He Hb].
    apply str_eqb_eq in He. rewrite <- He, Hinv in Hb.
    destruct back as [[[s t]|]|e]; cbn [rolic_eqb olic_eqb option_map dpair fst snd] in Hb;
      try discriminate Hb.
    cbn [lic_synopsis lic_text] in Hb. apply andb_true_iff in Hb. destruct Hb as [H1 H2].
    apply str_eqb_eq in H1. apply str_eqb_eq in H2. rewrite <- H1, <- H2. now rewrite !str_eqb_refl.
  - (* KSS *)
    destruct (ss_dom (dstrs l)) eqn:Hd; [|reflexivity].
    apply andb_true_iff in Hag. destruct Hag as [He Hb].
    exact (codec_case ss_to_str ss_from_str _ _ _ (space_separated_inverse _ Hd) He Hb).
  - (* KSSFrom *)
    apply andb_true_iff in Hag. destruct Hag as [Hag Hb]. apply andb_true_iff in Hag. destruct Hag as [Hl He].
    apply strs_eqb_eq in Hl.
    assert (Hd : ss_dom (dstrs l) = true) by (rewrite <- Hl; apply ss_from_str_dom).
    exact (codec_case ss_to_str ss_from_str _ _ _ (space_separated_inverse _ Hd) He Hb).
  - (* KLB *)
    destruct (lb_dom (dstrs l)) eqn:Hd; [|reflexivity].
    apply andb_true_iff in Hag. destruct Hag as [He Hb].
    exact (codec_case lb_to_str lb_from_str _ _ _ (line_based_inverse _ Hd) He Hb).
  - (* KLBFrom *)
    apply andb_true_iff in Hag. destruct Hag as [Hag Hb]. apply andb_true_iff in Hag. destruct Hag as [Hl He].
    apply strs_eqb_eq in Hl.
    assert (Hd : lb_dom (dstrs l) = true) by (rewrite <- Hl; apply lb_from_str_dom).
    exact (codec_case lb_to_str lb_from_str _ _ _ (line_based_inverse _ Hd) He Hb).
  - (* KDoc *)
    rewrite map_hop_of, map_pspec_of in Hag.
    set (hs := map shop_of hops) in *. set (sps := map spara_of specs) in *.
    destruct (wf_copyright hs sps) eqn:Hwf.
    + (* the exact domain *)
      destruct (run_doc_identity hs sps form strict Hwf) as [t [hv Hrun]]. rewrite Hrun in Hag.
      destruct obs as [e|d1 v1 e|d1 v1 again]; try discriminate Hag.
      destruct (again_same_of_agree _ _ _ _ _ Hag) as [Hsame Hv]. rewrite Hsame. cbn [andb].
      apply views_eqb_tl in Hv. cbn [tl] in Hv.
      unfold wf_copyright in Hwf. apply andb_true_iff in Hwf. destruct Hwf as [_ Hps].
      apply expected_order_ok in Hps.
      rewrite list_eqb2_map_r. revert Hps Hv. unfold views_eqb. apply eqb_maps_eqb2.
      intros a b Ha Hab. now apply oview_is_of_eqb.
    + destruct (wf_copyright_weak hs sps) eqn:Hweak; [|reflexivity].
      destruct (run_doc_same hs sps form strict Hweak) as [t [v [Hrun Hfiles]]]. rewrite Hrun in Hag.
      destruct obs as [e|d1 v1 e|d1 v1 again]; try discriminate Hag.
      destruct (again_same_of_agree _ _ _ _ _ Hag) as [Hsame Hv]. rewrite Hsame. cbn [andb].
      apply views_eqb_tl, views_eqb_files in Hv. rewrite <- Hv, Hfiles.
      apply list_eqb_eq; [exact Bool.eqb_true_iff|reflexivity].
Qed.

(** The judgement did not get weaker by accepting the unabbreviated spelling: a written-out
    second half is accepted only when it IS the first half (same values, same text), and then
    the case is judged exactly as its abbreviated spelling. *)
Theorem holds_spelling hops specs form strict d1 v1 v2 d2 :
  holds (KDoc hops specs form strict (ODone d1 v1 (Some (v2, d2))))
  = (if wf_copyright_weak (map shop_of hops) (map spara_of specs)
     then views_eqb (map pview_of v2) (map pview_of v1) && str_eqb (dec d2) (dec d1)
          && holds (KDoc hops specs form strict (ODone d1 v1 None))
     else true).
Proof.
  cbn [holds again_same]. cbv zeta.
  destruct (wf_copyright (map shop_of hops) (map spara_of specs)) eqn:Hwf.
  - now rewrite (wf_copyright_weaken _ _ Hwf).
  - destruct (wf_copyright_weak (map shop_of hops) (map spara_of specs)); reflexivity.
Qed.
