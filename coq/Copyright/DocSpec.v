(** SPEC side of C17: the domains on which the property promises a loss-free round
    trip, and what reading back must give.  Nothing here mentions the model
    (Copyright/Fields.v, Copyright/Doc.v, Deb822/Model.v); the deb822-level notions
    ([no_linebreak], [valid_name], [valid_value], [trim_value]) are those of C02's spec. *)
From Verif Require Import Lib.Base Lib.PyStr Gen.PyChars Gen.CopyrightConsts Deb822.Spec.

Definition is_empty {A} (l : list A) : bool := match l with [] => true | _ => false end.

(** * The multi-line codec *)
Definition FULLSTOP : N := 46.

(** a line the ' .' encoding cannot carry: whitespace-only (and not empty), or a lone '.' *)
Definition ws_only (l : str) : bool := negb (is_empty l) && forallb py_isspace l.
Definition lone_dot (l : str) : bool := str_eqb l [FULLSTOP].

(** a line that may follow the first one *)
Definition plain_line (l : str) : bool := no_linebreak l && negb (ws_only l) && negb (lone_dot l).

(** THE DOMAIN of the lines API: no Python line-boundary character inside a line;
    every line after the first is neither whitespace-only-nonempty nor a lone '.';
    and the list is not [""] (which encodes to the empty string, i.e. to no line at all). *)
Definition ml_dom (ls : list str) : bool :=
  match ls with
  | [] => true
  | l :: r => no_linebreak l && forallb plain_line r && negb (is_empty l && is_empty r)
  end.

(** the lines of a text that does not end in LF ("" has none) *)
Definition lines_of_text (t : str) : list str :=
  match t with [] => [] | _ => split_on LF t end.

(** the text API (format_multiline / parse_multiline) *)
Definition text_dom (t : str) : bool := negb (endswith [LF] t) && ml_dom (lines_of_text t).

(** License(synopsis, text): every text line follows the synopsis *)
Definition lic_dom (synopsis text : str) : bool :=
  no_linebreak synopsis && negb (endswith [LF] text) && forallb plain_line (lines_of_text text).

(** _SpaceSeparated: non-empty items without whitespace *)
Definition ss_item_ok (s : str) : bool := negb (is_empty s) && forallb (fun c => negb (py_isspace c)) s.
Definition ss_dom (l : list str) : bool := forallb ss_item_ok l.

(** _LineBased: non-empty one-line items without surrounding whitespace *)
Definition stripped (s : str) : bool :=
  match s with
  | [] => true
  | c :: _ => negb (py_isspace c) && match last_opt s with Some e => negb (py_isspace e) | None => false end
  end.
Definition lb_item_ok (s : str) : bool := negb (is_empty s) && no_linebreak s && stripped s.
Definition lb_dom (l : list str) : bool := forallb lb_item_ok l.

(** * Documents *)

(** Values as the caller supplies them *)
Inductive sval :=
| SNone
| SStr (s : str)
| SList (l : list str)
| SLic (synopsis : str) (text : option str).

Definition otext (t : option str) : str := match t with Some v => v | None => [] end.

(** a one-line field (Format, Upstream-Name) *)
Definition line_ok (s : str) : bool := no_linebreak s && stripped s.
(** a free-text field: the caller writes the deb822 continuation form himself *)
Definition freetext_ok (v : str) : bool := valid_value v && str_eqb (trim_value v) v.
(** a License *)
Definition license_ok (syn : str) (text : option str) : bool := lic_dom syn (otext text) && stripped syn.

(** Header() rewrites a Format that becomes a known URL by adding '/' and/or https *)
Definition s_http : str := [104; 116; 116; 112; 58]%N.
Definition s_https : str := [104; 116; 116; 112; 115; 58]%N.
Definition repaired (fmt : str) : str :=
  let a := if endswith [47%N] fmt then fmt else fmt ++ [47%N] in
  if startswith s_http a then s_https ++ skipn 5 a else a.
Definition format_stable (fmt : str) : bool :=
  str_eqb fmt CURRENT_FORMAT || negb (existsb (str_eqb (repaired fmt)) KNOWN_FORMATS).

(** kinds of the Header properties, in declaration order:
    format, upstream_name, upstream_contact, source, disclaimer, comment, license, copyright,
    files_excluded, files_included *)
Inductive kind := KFormat | KLine | KLines | KText | KLicense.
Definition header_kinds : list kind :=
  [KFormat; KLine; KLines; KText; KText; KText; KLicense; KText; KLines; KLines].

Definition value_ok (k : kind) (v : sval) : bool :=
  match k, v with
  | KFormat, SStr s => line_ok s && format_stable s
  | KFormat, _ => false
  | KLine, SNone => true
  | KLine, SStr s => line_ok s
  | KLines, SNone => true
  | KLines, SList l => lb_dom l
  | KText, SNone => true
  | KText, SStr s => freetext_ok s
  | KLicense, SNone => true
  | KLicense, SLic syn text => license_ok syn text
  | _, _ => false
  end.

(** names the wrapper refuses for header[key] = value, plus the deprecated field Header() renames *)
Definition header_reserved : list str :=
  [ [102;111;114;109;97;116];                                           (* format *)
    [117;112;115;116;114;101;97;109;45;110;97;109;101];                 (* upstream-name *)
    [117;112;115;116;114;101;97;109;45;99;111;110;116;97;99;116];       (* upstream-contact *)
    [115;111;117;114;99;101];                                           (* source *)
    [100;105;115;99;108;97;105;109;101;114];                            (* disclaimer *)
    [99;111;109;109;101;110;116];                                       (* comment *)
    [108;105;99;101;110;115;101];                                       (* license *)
    [99;111;112;121;114;105;103;104;116];                               (* copyright *)
    [102;105;108;101;115;45;101;120;99;108;117;100;101;100];            (* files-excluded *)
    [102;105;108;101;115;45;105;110;99;108;117;100;101;100];            (* files-included *)
    [102;111;114;109;97;116;45;115;112;101;99;105;102;105;99;97;116;105;111;110] (* format-specification *)
  ]%N.

Inductive shop :=
| SHSet (field : N) (v : sval)
| SHItem (k v : str).

Definition hop_ok (o : shop) : bool :=
  match o with
  | SHSet i v => match nth_error header_kinds (N.to_nat i) with Some k => value_ok k v | None => false end
  | SHItem k v => valid_name k && negb (existsb (str_eqb (ascii_lower k)) header_reserved) && freetext_ok v
  end.

Inductive spara :=
| PFiles (files copyright license comment : sval)
| PLicense (license comment : sval).

Definition para_ok (p : spara) : bool :=
  match p with
  | PFiles (SList fs) (SStr c) (SLic syn text) cm =>
      negb (is_empty fs) && ss_dom fs && freetext_ok c && license_ok syn text && value_ok KText cm
  | PLicense (SLic syn text) cm => license_ok syn text && value_ok KText cm
  | _ => false
  end.

(** THE DOMAIN of the document round trip *)
Definition wf_copyright (hops : list shop) (ps : list spara) : bool :=
  forallb hop_ok hops && forallb para_ok ps.

Definition is_pfiles (p : spara) : bool := match p with PFiles _ _ _ _ => true | _ => false end.

(** the paragraph sequence of the document: Files paragraphs in the order they were
    added, then the stand-alone License paragraphs in the order they were added *)
Definition expected_order (ps : list spara) : list spara :=
  filter is_pfiles ps ++ filter (fun p => negb (is_pfiles p)) ps.

(** what the properties of a paragraph must read back as: a License always carries a text *)
Definition norm_val (v : sval) : sval :=
  match v with SLic syn t => SLic syn (Some (otext t)) | _ => v end.

Definition expected_vals (p : spara) : bool * list sval :=
  match p with
  | PFiles f c l cm => (true, [norm_val f; c; norm_val l; cm])
  | PLicense l cm => (false, [norm_val l; cm])
  end.

Definition sval_eqb (a b : sval) : bool :=
  match a, b with
  | SNone, SNone => true
  | SStr x, SStr y => str_eqb x y
  | SList x, SList y => strs_eqb x y
  | SLic s t, SLic s' t' => str_eqb s s' && option_eqb str_eqb t t'
  | _, _ => false
  end.

(** * The wider domain on which documents still SURVIVE (same paragraphs on re-reading,
      identical second dump) although a license text is not carried exactly: its lines may
      be whitespace-only or a lone '.', which read back as empty lines.  Everything else
      as in [wf_copyright]. *)
Definition lic_dom_weak (synopsis text : str) : bool :=
  no_linebreak synopsis && negb (endswith [LF] text) && forallb no_linebreak (lines_of_text text).
Definition license_ok_weak (syn : str) (text : option str) : bool :=
  lic_dom_weak syn (otext text) && stripped syn.

Definition value_ok_weak (k : kind) (v : sval) : bool :=
  match k, v with
  | KLicense, SLic syn text => license_ok_weak syn text
  | _, _ => value_ok k v
  end.

Definition hop_ok_weak (o : shop) : bool :=
  match o with
  | SHSet i v => match nth_error header_kinds (N.to_nat i) with Some k => value_ok_weak k v | None => false end
  | SHItem _ _ => hop_ok o
  end.

Definition para_ok_weak (p : spara) : bool :=
  match p with
  | PFiles (SList fs) (SStr c) (SLic syn text) cm =>
      negb (is_empty fs) && ss_dom fs && freetext_ok c && license_ok_weak syn text && value_ok KText cm
  | PLicense (SLic syn text) cm => license_ok_weak syn text && value_ok KText cm
  | _ => false
  end.

Definition wf_copyright_weak (hops : list shop) (ps : list spara) : bool :=
  forallb hop_ok_weak hops && forallb para_ok_weak ps.
