(** C16: the bridge between the correspondence and the property.

    [agree c = true -> holds c = true] for EVERY case of Copyright/GlobCheck.v, with
    no side condition: every observation [holds] consults ([o_snap], [o_out], [res],
    [full], the sweep bits) is one [agree] compares with the model.

    Route.  [agree] forces the observations to be the model's outputs (the boolean
    equalities are decidable equalities).  Then

      - [CLeaf]: [globs_to_re_ok_iff] / [globs_to_re_rejects] decide which kind of
        result the model gives, [globs_to_re_fullmatch] turns the model's
        [re_fullmatch] into the Spec's [files_match];
      - [CSweep]: the paragraph object threads its cache through all queries;
        [fp_matches_nocache] (cache invariant [cache_ok], established by
        [cache_ok_new]) makes every answer the cacheless one, which is the Spec's by
        [globs_to_re_fullmatch]; the empty name heads the enumeration and occurs
        nowhere else ([names_shape]), which is what the no-pattern edge of [holds]
        relies on;
      - [CHist]: induction over the history with the invariant
        [forallb para_cache_ok] ([step_nocache]); a [matches] answer is the cacheless
        one of the paragraph the snapshot shows ([non_files_match]); a
        [find_files_paragraph] answer is [last_match] by [find_last_match_doc];
      - [CLeafAst]: [holds] is [true]. *)
From Coq Require Import String Ascii.
From Verif Require Import Lib.Base Lib.Dec Lib.PyStr Gen.PyChars
  Copyright.Fields Copyright.Glob Copyright.GlobSpec Copyright.GlobProofs Copyright.GlobCheck.

(** * The boolean equalities of [agree] are equalities *)

Lemma option_eqb_eq {A} (eqb : A -> A -> bool) (H : forall a b, eqb a b = true <-> a = b)
  (x y : option A) : option_eqb eqb x y = true <-> x = y.
Proof.
  destruct x as [a|], y as [b|]; cbn [option_eqb]; split; intro E;
    try reflexivity; try discriminate.
  - apply H in E. now subst.
  - injection E as ->. now apply H.
Qed.

Lemma out_eqb_eq a b : out_eqb a b = true -> a = b.
Proof.
  destruct a as [|x|x|x], b as [|y|y|y]; cbn [out_eqb]; intro E; try discriminate.
  - reflexivity.
  - apply Bool.eqb_prop in E. now subst.
  - apply (option_eqb_eq _ Nat.eqb_eq) in E. now subst.
  - apply err_eqb_eq in E. now subst.
Qed.

Lemma out_eqb_refl a : out_eqb a a = true.
Proof.
  destruct a as [|x|x|x]; cbn [out_eqb].
  - reflexivity.
  - apply Bool.eqb_reflx.
  - now apply (option_eqb_eq _ Nat.eqb_eq).
  - now apply err_eqb_eq.
Qed.

Lemma bools_eqb_eq a b : bools_eqb a b = true <-> a = b.
Proof. apply list_eqb_eq. intros x y. apply Bool.eqb_true_iff. Qed.

Lemma snap_eqb_eq a b : snap_eqb a b = true -> a = map (option_map dec) b.
Proof.
  unfold snap_eqb. intro E.
  now apply (list_eqb_eq _ (option_eqb_eq _ str_eqb_eq)) in E.
Qed.

(** * What a paragraph with Files text [t] answers, by the Spec *)

Definition para_answer (t name : str) : result bool :=
  let pats := patterns_of t in
  if forallb glob_valid pats
  then Ok (if is_nil pats then is_nil name else files_match pats name)
  else Err FormatError.

Lemma matches_nocache_full d t name :
  dget d FILES = Some t -> matches_nocache d name = para_answer t name.
Proof.
  intro Ht. unfold matches_nocache, para_answer. rewrite Ht.
  destruct (forallb glob_valid (patterns_of t)) eqn:Ev.
  - rewrite <- globs_to_re_ok_iff in Ev.
    destruct (globs_to_re (patterns_of t)) as [re|] eqn:Eg; [|discriminate]. cbn [bind].
    f_equal. rewrite (globs_to_re_fullmatch _ _ Eg).
    destruct (patterns_of t); reflexivity.
  - apply globs_to_re_rejects in Ev. now rewrite Ev.
Qed.

Lemma answer_meets t name :
  out_meets (spec_matches t name) (out_of RBool (para_answer t name)) = true.
Proof.
  unfold spec_matches, para_answer.
  destruct (forallb glob_valid (patterns_of t)); [|reflexivity].
  destruct (patterns_of t) as [|p ps]; cbn [is_nil andb out_of].
  - destruct name; cbn [is_nil out_meets]; [reflexivity|]. apply out_eqb_refl.
  - apply out_eqb_refl.
Qed.

(** * CLeaf *)

Lemma agree_leaf_holds globs res names full pre :
  agree (CLeaf globs res names full pre) = true -> holds (CLeaf globs res names full pre) = true.
Proof.
  cbn [agree holds]. remember (map dec globs) as gs eqn:Egs. clear Egs. intro H.
  apply andb_true_iff in H. destruct H as [Hp Hm].
  destruct (forallb glob_valid gs) eqn:Ev.
  - rewrite <- globs_to_re_ok_iff in Ev.
    destruct (globs_to_re gs) as [re|] eqn:Eg; [|discriminate].
    destruct res as [text ml da|e]; [|discriminate].
    apply andb_true_iff in Hm. destruct Hm as [Hf _]. apply bools_eqb_eq in Hf. subst full.
    destruct gs as [|g gs']; [reflexivity|]. cbn [is_nil orb].
    apply bools_eqb_eq. apply map_ext. intro n.
    now rewrite (globs_to_re_fullmatch _ _ Eg).
  - apply globs_to_re_rejects in Ev. rewrite Ev in Hp.
    destruct res as [text ml da|e]; [discriminate|]. cbn [pat_agree] in Hp.
    apply err_eqb_eq in Hp. now subst e.
Qed.

(** * CSweep *)

Fixpoint sweep_go (fp : fpara) (ns : list str) : result (list bool) :=
  match ns with
  | [] => Ok []
  | n :: ns' =>
      let (fp', r) := fp_matches fp n in
      match r with
      | Err e => Err e
      | Ok b => match sweep_go fp' ns' with Ok bs => Ok (b :: bs) | Err e => Err e end
      end
  end.

Lemma model_sweep_go raw names :
  model_sweep raw names
  = sweep_go (fp_new (match raw with Some t => [(FILES, dec t)] | None => [] end)) names.
Proof. reflexivity. Qed.

Lemma sweep_go_spec t : forall ns fp,
  cache_ok fp = true -> dget (fp_data fp) FILES = Some t ->
  sweep_go fp ns
  = if forallb glob_valid (patterns_of t)
    then Ok (map (fun n => if is_nil (patterns_of t) then is_nil n
                           else files_match (patterns_of t) n) ns)
    else match ns with [] => Ok [] | _ => Err FormatError end.
Proof.
  induction ns as [|n ns IH]; intros fp Hc Ht.
  - cbn [sweep_go map]. destruct (forallb glob_valid (patterns_of t)); reflexivity.
  - cbn [sweep_go map]. pose proof (fp_matches_nocache fp n Hc) as H.
    destruct (fp_matches fp n) as [fp' r]. destruct H as (Hd & Hc' & ->).
    rewrite (matches_nocache_full _ _ _ Ht). rewrite <- Hd in Ht.
    rewrite (IH fp' Hc' Ht). unfold para_answer.
    destruct (forallb glob_valid (patterns_of t)); reflexivity.
Qed.

Lemma names_of_len_upto n : names_of_len n = names_upto n.
Proof.
  destruct n as [|[|[|[|[|n]]]]]; [vm_compute; reflexivity ..|reflexivity].
Qed.

Lemma names_exact_nonempty n : forallb (fun s => negb (is_nil s)) (names_exact (S n)) = true.
Proof.
  apply forallb_forall. intros s Hs. cbn [names_exact] in Hs.
  apply in_flat_map in Hs. destruct Hs as (c & _ & Hs).
  apply in_map_iff in Hs. destruct Hs as (s' & <- & _). reflexivity.
Qed.

(** the empty name comes first and only there *)
Lemma names_shape n :
  exists r, names_upto n = [] :: r /\ forallb (fun s => negb (is_nil s)) r = true.
Proof.
  induction n as [|n (r & E & Hr)].
  - exists []. split; reflexivity.
  - exists (r ++ names_exact (S n)). split.
    + change (names_upto (S n)) with (names_upto n ++ names_exact (S n)). now rewrite E.
    + rewrite forallb_app, Hr. apply names_exact_nonempty.
Qed.

Lemma map_nonempty_no_pattern r :
  forallb (fun s => negb (is_nil s)) r = true ->
  map (fun n : str => is_nil n) r = map (fun n => files_match [] n) r.
Proof.
  induction r as [|s r IH]; [reflexivity|]. cbn [forallb map]. intro H.
  apply andb_true_iff in H. destruct H as [Hs Hr]. rewrite (IH Hr).
  destruct s; [discriminate|reflexivity].
Qed.

Lemma agree_sweep_holds len raw obs :
  agree (CSweep len raw obs) = true -> holds (CSweep len raw obs) = true.
Proof.
  destruct raw as [t|]; [|reflexivity]. cbn [agree holds].
  rewrite model_sweep_go, (sweep_go_spec (dec t)) by reflexivity.
  rewrite names_of_len_upto. destruct (names_shape len) as (r & -> & Hr).
  destruct (forallb glob_valid (patterns_of (dec t))).
  - destruct obs as [e|hex]; [discriminate|].
    destruct (patterns_of (dec t)) as [|p ps]; cbn [is_nil map tl]; [|exact (fun H => H)].
    destruct (bits_of_hex hex) as [|b bits]; [discriminate|]. cbn [bits_agree tl].
    intro H. apply andb_true_iff in H. destruct H as [_ H].
    now rewrite <- (map_nonempty_no_pattern r Hr).
  - destruct obs as [e|hex]; [|discriminate]. intro H. apply err_eqb_eq in H. now subst e.
Qed.

(** * CHist *)

Fixpoint nfiles_texts (ps : list npara) : list (option str) :=
  match ps with
  | [] => []
  | NFiles d :: r => dget d FILES :: nfiles_texts r
  | NLicense _ :: r => nfiles_texts r
  end.

Lemma files_texts_erase ps : files_texts ps = nfiles_texts (erase ps).
Proof.
  induction ps as [|[fp|d] ps IH]; [reflexivity| |]; cbn [files_texts erase map erase_para nfiles_texts];
    now rewrite IH.
Qed.

Lemma all_some_doc_patterns : forall nps ts,
  all_some (nfiles_texts nps) = Some ts -> doc_patterns nps = Some (map patterns_of ts).
Proof.
  induction nps as [|[d|d] nps IH]; intros ts H; cbn [nfiles_texts all_some doc_patterns] in *.
  - injection H as <-. reflexivity.
  - destruct (dget d FILES) as [t|]; [|discriminate].
    destruct (all_some (nfiles_texts nps)) as [ts'|]; [|discriminate]. injection H as <-.
    now rewrite (IH _ eq_refl).
  - now apply IH.
Qed.

Lemma non_files_match name t : forall nps i,
  nth_error (nfiles_texts nps) i = Some (Some t) ->
  snd (non_files nps i (fun d => (d, matches_nocache d name))) = para_answer t name.
Proof.
  induction nps as [|[d|d] nps IH]; intros i Hn; cbn [nfiles_texts non_files] in *.
  - destruct i; discriminate.
  - destruct i as [|i]; cbn [nth_error] in Hn.
    + injection Hn as Hd. cbn [snd]. now apply matches_nocache_full.
    + specialize (IH i Hn).
      destruct (non_files nps i (fun d => (d, matches_nocache d name))). exact IH.
  - specialize (IH i Hn).
    destruct (non_files nps i (fun d => (d, matches_nocache d name))). exact IH.
Qed.

(** One operation: from a document whose caches are in a reachable state, if the
    observation is the model's (snapshot and result), the property holds on it. *)
Lemma step_holds ps o ob :
  forallb para_cache_ok ps = true ->
  obs_eqb (files_texts ps, snd (step ps (op_of o))) ob = true ->
  holds_op o ob = true.
Proof.
  intros Hc H. unfold obs_eqb in H. cbn [fst snd] in H.
  apply andb_true_iff in H. destruct H as [Hsnap Hout].
  apply snap_eqb_eq in Hsnap. apply out_eqb_eq in Hout.
  destruct o as [i seq|i v|i name|name]; cbn [holds_op op_of] in *; try reflexivity.
  - (* matches *)
    rewrite <- Hsnap, <- Hout.
    destruct (nth_error (files_texts ps) i) as [[t|]|] eqn:En; try reflexivity.
    pose proof (step_nocache ps (OMatch i (dec name)) Hc) as Hs.
    destruct (step ps (OMatch i (dec name))) as [ps' x]. destruct Hs as [_ Heq].
    cbn [nstep] in Heq. rewrite files_texts_erase in En.
    pose proof (non_files_match (dec name) t _ _ En) as Hr.
    destruct (non_files (erase ps) i (fun d => (d, matches_nocache d (dec name)))) as [ps'' r].
    cbn [snd] in *. injection Heq as _ ->. subst r. apply answer_meets.
  - (* find_files_paragraph *)
    rewrite <- Hsnap, <- Hout. unfold spec_find.
    destruct (all_some (files_texts ps)) as [ts|] eqn:Ea; [|reflexivity].
    destruct (forallb (forallb glob_valid) (map patterns_of ts)) eqn:Ev; [|reflexivity].
    destruct (is_nil (dec name) && existsb is_nil (map patterns_of ts)) eqn:Ee; [reflexivity|].
    cbn [out_meets step].
    rewrite files_texts_erase in Ea. apply all_some_doc_patterns in Ea.
    assert (He : no_empty_edge (map patterns_of ts) (dec name) = true).
    { unfold no_empty_edge. apply negb_true_iff. exact Ee. }
    pose proof (find_last_match_doc ps _ (dec name) Hc Ea Ev He) as Hf.
    destruct (find_files_paragraph ps (dec name)) as [ps' r]. cbn [snd] in *. subst r.
    apply out_eqb_refl.
Qed.

Lemma hist_holds : forall ops ps obs,
  forallb para_cache_ok ps = true ->
  list_eqb2 obs_eqb (snd (run_obs ps (map op_of ops))) obs = true ->
  list_eqb2 (fun o ob => holds_op o ob) ops obs = true.
Proof.
  induction ops as [|o ops IH]; intros ps obs Hc H.
  - destruct obs; [reflexivity|discriminate].
  - cbn [map run_obs] in H.
    pose proof (step_nocache ps (op_of o) Hc) as Hs.
    pose proof (step_holds ps o) as Hh.
    destruct (step ps (op_of o)) as [ps1 x]. destruct Hs as [Hc1 _].
    specialize (IH ps1).
    destruct (run_obs ps1 (map op_of ops)) as [ps2 xs]. cbn [snd] in *.
    destruct obs as [|ob obs]; [discriminate|]. cbn [list_eqb2] in *.
    apply andb_true_iff in H. destruct H as [H1 H2].
    now rewrite (Hh ob Hc H1), (IH obs Hc1 H2).
Qed.

Lemma init_cache_ok init : forallb para_cache_ok (map init_para init) = true.
Proof.
  induction init as [|p init IH]; [reflexivity|]. cbn [map forallb]. rewrite IH.
  destruct p as [[t|]|]; reflexivity.
Qed.

Lemma agree_hist_holds init ops obs final :
  agree (CHist init ops obs final) = true -> holds (CHist init ops obs final) = true.
Proof.
  cbn [agree holds]. intro H.
  apply (hist_holds ops (map init_para init) obs (init_cache_ok init)).
  destruct (run_obs (map init_para init) (map op_of ops)) as [psf outs]. cbn [snd].
  apply andb_true_iff in H. tauto.
Qed.

(** * Every case *)

Theorem agree_implies_holds c : agree c = true -> holds c = true.
Proof.
  destruct c as [init ops obs final|globs res names full pre|alts dotall text names full pre
                |len raw obs].
  - apply agree_hist_holds.
  - apply agree_leaf_holds.
  - reflexivity.
  - apply agree_sweep_holds.
Qed.
