(** PROOFS for C17, part 1: the codecs of Copyright/Fields.v are inverted by their
    decoders on the domains of Copyright/DocSpec.v.

      multiline_codec_inverse   parse_multiline_as_lines (format_multiline_lines ls) = Ok ls
      multiline_text_inverse    parse_multiline (format_multiline (Some t)) = Ok (Some t)
      license_inverse           License.from_str (l.to_str ()) = l
      space_separated_inverse   _SpaceSeparated.from_str (to_str l) = l
      line_based_inverse        _LineBased.from_str (to_str l) = l                         *)
From Verif Require Import Lib.Base Lib.PyStr Gen.PyChars Deb822.Spec Copyright.Fields Copyright.DocSpec.

(** * Facts about the generated character tables (re-checked whenever they are regenerated) *)
Lemma linebreak_is_space c : py_islinebreak c = true -> py_isspace c = true.
Proof.
  assert (H : forallb py_isspace py_linebreaks = true) by (vm_compute; reflexivity).
  unfold py_islinebreak. intros E. apply existsb_exists in E. destruct E as [x [Hin Hx]].
  apply N.eqb_eq in Hx. subst x. rewrite forallb_forall in H. now apply H.
Qed.
Lemma lf_linebreak : py_islinebreak LF = true. Proof. reflexivity. Qed.
Lemma lf_space : py_isspace LF = true. Proof. reflexivity. Qed.
Lemma sp_space : py_isspace SP = true. Proof. reflexivity. Qed.
Lemma sp_not_linebreak : py_islinebreak SP = false. Proof. reflexivity. Qed.
Lemma dot_not_linebreak : py_islinebreak DOT = false. Proof. reflexivity. Qed.
Lemma dot_not_space : py_isspace DOT = false. Proof. reflexivity. Qed.

(** * Generic list / strip lemmas *)
Lemma forallb_app_iff {A} (p : A -> bool) a b :
  forallb p (a ++ b) = true <-> forallb p a = true /\ forallb p b = true.
Proof. rewrite forallb_app. apply andb_true_iff. Qed.

Lemma dropwhile_nil_all {A} (p : A -> bool) l : dropwhile p l = [] -> forallb p l = true.
Proof.
  induction l as [|c l IH]; simpl; [reflexivity|]. destruct (p c); [exact IH|discriminate].
Qed.

Lemma dropwhile_head {A} (p : A -> bool) l c r : dropwhile p l = c :: r -> p c = false.
Proof.
  induction l as [|x l IH]; simpl; [discriminate|].
  destruct (p x) eqn:E; [exact IH|]. intros [= <- _]. exact E.
Qed.

Lemma forallb_rev {A} (p : A -> bool) l : forallb p (rev l) = forallb p l.
Proof.
  induction l as [|x l IH]; simpl; [reflexivity|].
  rewrite forallb_app, IH. simpl. rewrite andb_true_r. apply andb_comm.
Qed.

(** [s.strip()] is empty only for an all-whitespace string *)
Lemma strip_nil_all p s : strip_by p s = [] -> forallb p s = true.
Proof.
  unfold strip_by, rstrip_by, lstrip_by, rdropwhile. intros H.
  assert (H1 : dropwhile p (rev (dropwhile p s)) = []).
  { destruct (dropwhile p (rev (dropwhile p s))) as [|x r] eqn:E; [reflexivity|].
    simpl in H. destruct (rev r); discriminate. }
  apply dropwhile_nil_all in H1. rewrite forallb_rev in H1.
  destruct (dropwhile p s) as [|c r] eqn:E.
  - now apply dropwhile_nil_all.
  - pose proof (dropwhile_head p s c r E) as Hc. simpl in H1. rewrite Hc in H1. discriminate.
Qed.

Lemma strip_all_nil p s : forallb p s = true -> strip_by p s = [].
Proof.
  intros H. unfold strip_by, lstrip_by, rstrip_by.
  replace (dropwhile p s) with (@nil N); [reflexivity|].
  symmetry. rewrite <- (app_nil_r s). rewrite dropwhile_app_all by exact H. reflexivity.
Qed.

Lemma last_opt_app {A} (s : list A) e : last_opt s = Some e -> exists a, s = a ++ [e].
Proof.
  induction s as [|x s IH]; [discriminate|].
  destruct s as [|y s'].
  - simpl. intros [= ->]. now exists [].
  - intros H. change (last_opt (y :: s') = Some e) in H. destruct (IH H) as [a Ha].
    exists (x :: a). now rewrite Ha.
Qed.

Lemma last_opt_snoc {A} (a : list A) e : last_opt (a ++ [e]) = Some e.
Proof.
  induction a as [|x a IH]; [reflexivity|].
  simpl. destruct (a ++ [e]) eqn:E; [destruct a; discriminate|exact IH].
Qed.

(** a string without surrounding whitespace is its own strip *)
Lemma strip_stripped s : stripped s = true -> strip_by py_isspace s = s.
Proof.
  destruct s as [|c r]; [reflexivity|]. unfold stripped.
  intros H. apply andb_true_iff in H. destruct H as [Hc Hl].
  apply negb_true_iff in Hc.
  destruct (last_opt (c :: r)) as [e|] eqn:E; [|discriminate]. apply negb_true_iff in Hl.
  unfold strip_by, lstrip_by, rstrip_by. rewrite dropwhile_head_false by exact Hc.
  destruct (last_opt_app _ _ E) as [a Ha]. rewrite Ha. now apply rdropwhile_app_keep.
Qed.

Lemma nows_stripped s : forallb (fun c => negb (py_isspace c)) s = true -> stripped s = true.
Proof.
  destruct s as [|c r]; [reflexivity|]. intros H. unfold stripped.
  destruct (last_opt (c :: r)) as [e|] eqn:E.
  - destruct (last_opt_app _ _ E) as [a Ha]. rewrite forallb_forall in H.
    rewrite (H c (or_introl eq_refl)). apply H. rewrite Ha. apply in_or_app. right. now left.
  - destruct r; simpl in E; [discriminate|]. exfalso. revert E. clear.
    revert n. induction r as [|y r IH]; intros n; simpl; [discriminate|]. apply IH.
Qed.

(** * splitlines of LF-joined lines *)
Definition lb_free (l : str) : bool := forallb (fun c => negb (py_islinebreak c)) l.

Lemma no_linebreak_lb_free l : no_linebreak l = lb_free l.
Proof. reflexivity. Qed.

Lemma sl_line l : forall cur rest, lb_free l = true ->
  splitlines_aux py_islinebreak false (l ++ LF :: rest) cur
  = (rev cur ++ l) :: splitlines_aux py_islinebreak false rest [].
Proof.
  induction l as [|x l IH]; intros cur rest H.
  - cbn [app splitlines_aux]. rewrite lf_linebreak.
    destruct rest as [|y s'']; [now rewrite !app_nil_r|].
    change ((LF =? 13)%N) with false. cbn [andb]. now rewrite !app_nil_r.
  - cbn [forallb lb_free] in H. apply andb_true_iff in H. destruct H as [Hx Hl].
    apply negb_true_iff in Hx. cbn [app splitlines_aux]. rewrite Hx.
    rewrite IH by exact Hl. cbn [rev]. now rewrite <- app_assoc.
Qed.

Lemma sl_last l : forall cur, lb_free l = true ->
  splitlines_aux py_islinebreak false l cur
  = match rev cur ++ l with [] => [] | m => [m] end.
Proof.
  induction l as [|x l IH]; intros cur H.
  - cbn [splitlines_aux]. rewrite app_nil_r.
    destruct cur as [|c cur']; [reflexivity|].
    destruct (rev (c :: cur')) eqn:E; [|reflexivity].
    apply (f_equal (@length N)) in E. rewrite rev_length in E. discriminate.
  - cbn [forallb lb_free] in H. apply andb_true_iff in H. destruct H as [Hx Hl].
    apply negb_true_iff in Hx. cbn [splitlines_aux]. rewrite Hx.
    rewrite IH by exact Hl. cbn [rev]. now rewrite <- app_assoc.
Qed.

Definition last_nonempty (ms : list str) : bool :=
  match last_opt ms with Some (_ :: _) => true | _ => false end.

(** [(LF.join(ms)).splitlines() == ms] for boundary-free lines, the last one not empty *)
Lemma splitlines_join ms :
  forallb lb_free ms = true -> last_nonempty ms = true ->
  py_splitlines (join [LF] ms) = ms.
Proof.
  unfold py_splitlines, splitlines.
  induction ms as [|m ms IH]; intros Hall Hlast; [discriminate|].
  cbn [forallb] in Hall. apply andb_true_iff in Hall. destruct Hall as [Hm Hms].
  destruct ms as [|m2 ms'].
  - cbn [join intersperse_concat]. rewrite sl_last by exact Hm. cbn [rev app].
    unfold last_nonempty in Hlast. cbn in Hlast. destruct m; [discriminate|reflexivity].
  - rewrite join_cons by discriminate. cbn [app]. rewrite sl_line by exact Hm.
    cbn [rev app]. f_equal. apply IH; [exact Hms|exact Hlast].
Qed.

Lemma splitlines_nil : py_splitlines [] = [].
Proof. reflexivity. Qed.

(** * 1. The multi-line codec *)

Lemma enc_cont_lb_free l : lb_free l = true -> lb_free (enc_cont l) = true.
Proof.
  intros H. unfold enc_cont. cbn [lb_free forallb]. rewrite sp_not_linebreak. cbn [negb andb].
  destruct (nonempty (py_strip l)); [exact H|reflexivity].
Qed.

Lemma dec_enc_cont l : plain_line l = true -> dec_cont (enc_cont l) = Ok l.
Proof.
  unfold plain_line. intros H. apply andb_true_iff in H. destruct H as [H Hdot].
  apply andb_true_iff in H. destruct H as [_ Hws].
  apply negb_true_iff in Hdot. apply negb_true_iff in Hws.
  unfold enc_cont, dec_cont. rewrite N.eqb_refl.
  destruct (nonempty (py_strip l)) eqn:E.
  - unfold lone_dot, FULLSTOP in Hdot. unfold DOT. now rewrite Hdot.
  - change (str_eqb [DOT] [DOT]) with true. cbn iota.
    destruct l as [|c r]; [reflexivity|].
    assert (Hs : py_strip (c :: r) = []) by (destruct (py_strip (c :: r)); [reflexivity|discriminate]).
    apply strip_nil_all in Hs. unfold ws_only in Hws. cbn [is_empty negb andb] in Hws. congruence.
Qed.

Lemma mapM_dec_enc r : forallb plain_line r = true -> mapM dec_cont (map enc_cont r) = Ok r.
Proof.
  induction r as [|l r IH]; intros H; [reflexivity|].
  cbn [forallb] in H. apply andb_true_iff in H. destruct H as [Hl Hr].
  cbn [map mapM]. rewrite dec_enc_cont by exact Hl. cbn [bind]. rewrite IH by exact Hr. reflexivity.
Qed.

Lemma plain_line_lb_free l : plain_line l = true -> lb_free l = true.
Proof.
  unfold plain_line. intros H. apply andb_true_iff in H. destruct H as [H _].
  apply andb_true_iff in H. now destruct H.
Qed.

Lemma enc_conts_lb_free r : forallb plain_line r = true -> forallb lb_free (map enc_cont r) = true.
Proof.
  induction r as [|l r IH]; intros H; [reflexivity|].
  cbn [forallb] in H. apply andb_true_iff in H. destruct H as [Hl Hr].
  cbn [map forallb]. rewrite enc_cont_lb_free by now apply plain_line_lb_free. now apply IH.
Qed.

Lemma last_nonempty_cons m ms : ms <> [] -> last_nonempty (m :: ms) = last_nonempty ms.
Proof. destruct ms; [congruence|reflexivity]. Qed.

Lemma last_nonempty_enc r : r <> [] -> last_nonempty (map enc_cont r) = true.
Proof.
  induction r as [|l r IH]; [congruence|]. intros _.
  destruct r as [|l2 r'].
  - reflexivity.
  - cbn [map]. rewrite last_nonempty_cons by discriminate. apply IH. discriminate.
Qed.

(** parse_multiline_as_lines (format_multiline_lines ls) = Ok ls on [ml_dom] *)
Theorem multiline_codec_inverse ls :
  ml_dom ls = true -> parse_multiline_as_lines (format_multiline_lines ls) = Ok ls.
Proof.
  destruct ls as [|l r]; [reflexivity|].
  unfold ml_dom. intros H. apply andb_true_iff in H. destruct H as [H Hne].
  apply andb_true_iff in H. destruct H as [Hl Hr].
  unfold parse_multiline_as_lines, format_multiline_lines.
  rewrite splitlines_join.
  - rewrite mapM_dec_enc by exact Hr. reflexivity.
  - cbn [forallb]. rewrite <- no_linebreak_lb_free, Hl. now apply enc_conts_lb_free.
  - destruct r as [|l2 r'].
    + cbn [map]. unfold last_nonempty. cbn. destruct l; [discriminate|reflexivity].
    + rewrite last_nonempty_cons by discriminate. apply last_nonempty_enc. discriminate.
Qed.

(** The one edge of the lines API, stated: [""] encodes to the empty string, which has no line *)
Lemma multiline_codec_edge : parse_multiline_as_lines (format_multiline_lines [[]]) = Ok [].
Proof. reflexivity. Qed.

(** outside the domain the codec really is lossy: a whitespace-only line and a lone '.' *)
Lemma multiline_codec_lossy_ws : parse_multiline_as_lines (format_multiline_lines [[97%N]; [SP]]) = Ok [[97%N]; []].
Proof. reflexivity. Qed.
Lemma multiline_codec_lossy_dot : parse_multiline_as_lines (format_multiline_lines [[97%N]; [DOT]]) = Ok [[97%N]; []].
Proof. reflexivity. Qed.

(** * Texts: split_on LF versus splitlines *)

Lemma endswith_cons2 c x y s : endswith [c] (x :: y :: s) = endswith [c] (y :: s).
Proof.
  unfold endswith. cbn [rev].
  destruct (rev s ++ [y]) as [|a t] eqn:E; [destruct (rev s); discriminate|].
  cbn [app startswith]. reflexivity.
Qed.

Lemma endswith_single c x : endswith [c] [x] = (c =? x)%N.
Proof. unfold endswith. cbn. now rewrite andb_true_r. Qed.

Lemma last_nonempty_split_on c s :
  last_nonempty (split_on c s) = negb (is_empty s) && negb (endswith [c] s).
Proof.
  induction s as [|x s IH]; [reflexivity|].
  cbn [split_on is_empty negb andb].
  destruct s as [|y s'].
  - cbn [split_on]. rewrite endswith_single, (N.eqb_sym c x). destruct (x =? c)%N; reflexivity.
  - rewrite endswith_cons2. cbn [is_empty negb andb] in IH.
    destruct (x =? c)%N.
    + rewrite last_nonempty_cons by apply split_on_nonempty. exact IH.
    + pose proof (split_on_nonempty c (y :: s')) as Hn.
      destruct (split_on c (y :: s')) as [|p ps] eqn:E; [congruence|].
      destruct ps as [|p2 ps'].
      * (* single piece: it cannot be empty *)
        assert (Hp : p <> []).
        { intros ->. pose proof (join_split_on c (y :: s')) as J. rewrite E in J. discriminate. }
        rewrite <- IH. destruct p; [congruence|reflexivity].
      * rewrite last_nonempty_cons by discriminate.
        rewrite last_nonempty_cons in IH by discriminate. exact IH.
Qed.

(** a text of the domain is split by splitlines exactly at its LFs *)
Lemma splitlines_text t :
  endswith [LF] t = false -> forallb lb_free (lines_of_text t) = true ->
  py_splitlines t = lines_of_text t.
Proof.
  destruct t as [|x t']; [reflexivity|]. intros He Hl.
  cbn [lines_of_text] in *.
  rewrite <- (join_split_on LF (x :: t')) at 1.
  apply splitlines_join; [exact Hl|].
  rewrite last_nonempty_split_on, He. reflexivity.
Qed.

Lemma join_lines_of_text t : join [LF] (lines_of_text t) = t.
Proof. destruct t; [reflexivity|]. apply join_split_on. Qed.

Lemma lines_of_text_not_single_empty t : lines_of_text t <> [[]].
Proof.
  destruct t as [|x t]; [discriminate|]. cbn [lines_of_text]. intros H.
  pose proof (join_split_on LF (x :: t)) as J. rewrite H in J. discriminate.
Qed.

Lemma ml_dom_lb_free ls : ml_dom ls = true -> forallb lb_free ls = true.
Proof.
  destruct ls as [|l r]; [reflexivity|]. unfold ml_dom. intros H.
  apply andb_true_iff in H. destruct H as [H _]. apply andb_true_iff in H. destruct H as [Hl Hr].
  cbn [forallb]. rewrite <- no_linebreak_lb_free, Hl. cbn [andb].
  rewrite forallb_forall in *. intros x Hx. apply plain_line_lb_free. now apply Hr.
Qed.

(** parse_multiline (format_multiline t) = t on [text_dom] *)
Theorem multiline_text_inverse t :
  text_dom t = true -> parse_multiline (format_multiline (Some t)) = Ok (Some t).
Proof.
  unfold text_dom. intros H. apply andb_true_iff in H. destruct H as [He Hd].
  apply negb_true_iff in He.
  unfold format_multiline, parse_multiline.
  rewrite splitlines_text by (try exact He; now apply ml_dom_lb_free).
  rewrite multiline_codec_inverse by exact Hd. cbn [bind]. now rewrite join_lines_of_text.
Qed.

Lemma multiline_none : parse_multiline (format_multiline None) = Ok None.
Proof. reflexivity. Qed.

(** * 2. License *)

Lemma no_linebreak_no_lf s : no_linebreak s = true -> mem_char LF s = false.
Proof.
  unfold no_linebreak, mem_char. intros H.
  destruct (existsb (N.eqb LF) s) eqn:E; [|reflexivity].
  apply existsb_exists in E. destruct E as [x [Hin Hx]]. apply N.eqb_eq in Hx. subst x.
  rewrite forallb_forall in H. specialize (H _ Hin). rewrite lf_linebreak in H. discriminate.
Qed.

Lemma mk_license_ok syn text :
  no_linebreak syn = true -> mk_license syn (Some text) = Ok (mkLic syn text).
Proof. intros H. unfold mk_license, single_line. now rewrite no_linebreak_no_lf. Qed.

Lemma forallb_plain_lb_free r : forallb plain_line r = true -> forallb lb_free r = true.
Proof.
  intros H. rewrite forallb_forall in *. intros x Hx. apply plain_line_lb_free. now apply H.
Qed.

(** License.from_str (License (syn, text).to_str ()) = License (syn, text) on [lic_dom] *)
Theorem license_inverse syn text :
  lic_dom syn text = true ->
  mk_license syn (Some text) = Ok (mkLic syn text)
  /\ lic_from_str (Some (lic_to_str (mkLic syn text))) = Ok (Some (mkLic syn text)).
Proof.
  unfold lic_dom. intros H. apply andb_true_iff in H. destruct H as [H Hl].
  apply andb_true_iff in H. destruct H as [Hs He]. apply negb_true_iff in He.
  split; [now apply mk_license_ok|].
  unfold lic_to_str, lic_from_str. cbn [lic_synopsis lic_text].
  rewrite splitlines_text by (try exact He; now apply forallb_plain_lb_free).
  destruct (is_empty syn && is_empty (lines_of_text text)) eqn:Eedge.
  - (* synopsis and text both empty *)
    apply andb_true_iff in Eedge. destruct Eedge as [E1 E2].
    destruct syn; [|discriminate]. destruct text as [|x t]; [|].
    + reflexivity.
    + exfalso. cbn [lines_of_text] in E2. pose proof (split_on_nonempty LF (x :: t)).
      destruct (split_on LF (x :: t)); [congruence|discriminate].
  - rewrite multiline_codec_inverse.
    + cbn [bind]. rewrite mk_license_ok by exact Hs. now rewrite join_lines_of_text.
    + unfold ml_dom. now rewrite Hs, Hl, Eedge.
Qed.

(** * 3. _SpaceSeparated *)

Lemma split_ws_word p w : forall rest cur,
  forallb (fun c => negb (p c)) w = true ->
  split_ws_aux p (w ++ rest) cur = split_ws_aux p rest (rev w ++ cur).
Proof.
  induction w as [|x w IH]; intros rest cur H; [reflexivity|].
  cbn [forallb] in H. apply andb_true_iff in H. destruct H as [Hx Hw]. apply negb_true_iff in Hx.
  cbn [app split_ws_aux]. rewrite Hx. rewrite IH by exact Hw. cbn [rev]. now rewrite <- app_assoc.
Qed.

Lemma rev_cons_not_nil {A} (x : A) l : rev (x :: l) <> [].
Proof. intros E. apply (f_equal (@length A)) in E. rewrite rev_length in E. discriminate. Qed.

Lemma split_ws_join p ws :
  p SP = true ->
  forallb (fun w => negb (is_empty w) && forallb (fun c => negb (p c)) w) ws = true ->
  split_ws p (join [SP] ws) = ws.
Proof.
  intros Hsp. unfold split_ws.
  induction ws as [|w ws IH]; intros H; [reflexivity|].
  cbn [forallb] in H. apply andb_true_iff in H. destruct H as [Hw Hws].
  apply andb_true_iff in Hw. destruct Hw as [Hne Hw].
  destruct ws as [|w2 ws'].
  - cbn [join intersperse_concat]. rewrite <- (app_nil_r w) at 1.
    rewrite split_ws_word by exact Hw. cbn [split_ws_aux]. rewrite app_nil_r.
    destruct w as [|c w']; [discriminate|].
    destruct (rev (c :: w')) eqn:E; [now apply rev_cons_not_nil in E|].
    rewrite <- E. now rewrite rev_involutive.
  - rewrite join_cons by discriminate. cbn [app]. rewrite split_ws_word by exact Hw.
    cbn [split_ws_aux]. rewrite Hsp. rewrite app_nil_r.
    destruct w as [|c w']; [discriminate|].
    destruct (rev (c :: w')) eqn:E; [now apply rev_cons_not_nil in E|].
    rewrite <- E, rev_involutive. f_equal. now apply IH.
Qed.

Lemma ss_item_id s : ss_item_ok s = true -> ss_item s = Ok s.
Proof.
  unfold ss_item_ok. intros H. apply andb_true_iff in H. destruct H as [Hne Hw].
  unfold ss_item.
  assert (E : existsb py_isspace s = false).
  { destruct (existsb py_isspace s) eqn:E; [|reflexivity].
    apply existsb_exists in E. destruct E as [x [Hin Hx]].
    rewrite forallb_forall in Hw. specialize (Hw _ Hin). rewrite Hx in Hw. discriminate. }
  rewrite E. unfold py_strip. rewrite strip_stripped by now apply nows_stripped.
  destruct s; [discriminate|reflexivity].
Qed.

Lemma mapM_ss_item l : ss_dom l = true -> mapM ss_item l = Ok l.
Proof.
  induction l as [|s l IH]; intros H; [reflexivity|].
  unfold ss_dom in H. cbn [forallb] in H. apply andb_true_iff in H. destruct H as [Hs Hl].
  cbn [mapM]. rewrite ss_item_id by exact Hs. cbn [bind]. rewrite IH by exact Hl. reflexivity.
Qed.

Lemma filter_nonempty_id l : forallb (fun s => negb (is_empty s)) l = true -> filter nonempty l = l.
Proof.
  induction l as [|s l IH]; intros H; [reflexivity|].
  cbn [forallb] in H. apply andb_true_iff in H. destruct H as [Hs Hl].
  cbn [filter]. destruct s; [discriminate|]. cbn [nonempty]. now rewrite IH.
Qed.

(** _SpaceSeparated.from_str (_SpaceSeparated.to_str l) = l on [ss_dom] *)
Theorem space_separated_inverse l :
  ss_dom l = true ->
  exists o, ss_to_str l = Ok o /\ ss_from_str o = l.
Proof.
  intros H. destruct l as [|s l'] eqn:El.
  - exists None. split; reflexivity.
  - rewrite <- El in *. exists (Some (join [SP] l)). split.
    + unfold ss_to_str. rewrite mapM_ss_item by exact H. subst l. reflexivity.
    + unfold ss_from_str. cbn [opt_or_empty]. rewrite split_ws_join; [| exact sp_space | exact H].
      apply filter_nonempty_id. unfold ss_dom, ss_item_ok in H.
      rewrite forallb_forall in *. intros x Hx. specialize (H _ Hx).
      apply andb_true_iff in H. now destruct H.
Qed.

(** * 4. _LineBased *)

Lemma lb_item_id s : lb_item_ok s = true -> lb_item s = Ok s.
Proof.
  unfold lb_item_ok. intros H. apply andb_true_iff in H. destruct H as [H Hst].
  apply andb_true_iff in H. destruct H as [Hne Hnl].
  unfold lb_item, py_strip. rewrite strip_stripped by exact Hst.
  destruct s; [discriminate|]. cbn [nonempty negb]. now rewrite no_linebreak_no_lf.
Qed.

Lemma mapM_lb_item l : lb_dom l = true -> mapM lb_item l = Ok l.
Proof.
  induction l as [|s l IH]; intros H; [reflexivity|].
  unfold lb_dom in H. cbn [forallb] in H. apply andb_true_iff in H. destruct H as [Hs Hl].
  cbn [mapM]. rewrite lb_item_id by exact Hs. cbn [bind]. rewrite IH by exact Hl. reflexivity.
Qed.

Lemma lb_item_ok_parts s :
  lb_item_ok s = true -> s <> [] /\ lb_free s = true /\ stripped s = true.
Proof.
  unfold lb_item_ok. intros H. apply andb_true_iff in H. destruct H as [H Hst].
  apply andb_true_iff in H. destruct H as [Hne Hnl]. repeat split; try assumption.
  destruct s; [discriminate|discriminate].
Qed.

Lemma strip_sp_item s : stripped s = true -> s <> [] -> py_strip (SP :: s) = s.
Proof.
  intros Hst Hne. unfold py_strip, strip_by, lstrip_by. cbn [dropwhile]. rewrite sp_space.
  exact (strip_stripped s Hst).
Qed.

Lemma map_strip_sp l : lb_dom l = true -> map py_strip (map (fun v => SP :: v) l) = l.
Proof.
  induction l as [|s l IH]; intros H; [reflexivity|].
  unfold lb_dom in H. cbn [forallb] in H. apply andb_true_iff in H. destruct H as [Hs Hl].
  destruct (lb_item_ok_parts s Hs) as [Hne [_ Hst]].
  cbn [map]. rewrite strip_sp_item by assumption. f_equal. now apply IH.
Qed.

Lemma lb_dom_nonempty l : lb_dom l = true -> forallb (fun s => negb (is_empty s)) l = true.
Proof.
  unfold lb_dom, lb_item_ok. intros H. rewrite forallb_forall in *. intros x Hx.
  specialize (H _ Hx). apply andb_true_iff in H. destruct H as [H _].
  apply andb_true_iff in H. now destruct H.
Qed.

(** texts that end in a non-whitespace character *)
Definition ends_ns (m : str) : Prop := exists a e, m = a ++ [e] /\ py_isspace e = false.

Lemma stripped_ends_ns s : s <> [] -> stripped s = true -> ends_ns s.
Proof.
  destruct s as [|c r]; [congruence|]. intros _. unfold stripped. intros H.
  apply andb_true_iff in H. destruct H as [_ Hl].
  destruct (last_opt (c :: r)) as [e|] eqn:E; [|discriminate]. apply negb_true_iff in Hl.
  destruct (last_opt_app _ _ E) as [a Ha]. now exists a, e.
Qed.

Lemma ends_ns_cons c s : ends_ns s -> ends_ns (c :: s).
Proof. intros [a [e [-> He]]]. now exists (c :: a), e. Qed.

Lemma ends_ns_app a s : ends_ns s -> ends_ns (a ++ s).
Proof. intros [b [e [-> He]]]. exists (a ++ b), e. now rewrite app_assoc. Qed.

Lemma join_ends_ns ms : ms <> [] -> (forall m, In m ms -> ends_ns m) -> ends_ns (join [LF] ms).
Proof.
  induction ms as [|m ms IH]; [congruence|]. intros _ H.
  destruct ms as [|m2 ms'].
  - cbn [join intersperse_concat]. apply H. now left.
  - rewrite join_cons by discriminate. apply ends_ns_app. cbn [app]. apply ends_ns_cons.
    apply IH; [discriminate|]. intros m' Hm'. apply H. now right.
Qed.

Lemma rstrip_ends_ns s : ends_ns s -> rstrip_by py_isspace s = s.
Proof. intros [a [e [-> He]]]. unfold rstrip_by. now apply rdropwhile_app_keep. Qed.

(** _LineBased.from_str (_LineBased.to_str l) = l on [lb_dom] *)
Theorem line_based_inverse l :
  lb_dom l = true ->
  exists o, lb_to_str l = Ok o /\ lb_from_str o = l.
Proof.
  intros H. destruct l as [|x [|y r]].
  - exists None. split; reflexivity.
  - (* one item: on a single line *)
    unfold lb_dom in H. cbn [forallb] in H. rewrite andb_true_r in H.
    destruct (lb_item_ok_parts x H) as [Hne [Hfree Hst]].
    exists (Some x). split.
    + unfold lb_to_str. rewrite lb_item_id by exact H. reflexivity.
    + unfold lb_from_str. cbn [opt_or_empty]. unfold py_strip at 2. rewrite strip_stripped by exact Hst.
      rewrite <- (splitlines_join [x]).
      * cbn [join intersperse_concat].
        replace (py_splitlines x) with [x].
        2:{ symmetry. apply (splitlines_join [x]); cbn; [now rewrite Hfree|].
            unfold last_nonempty. cbn. destruct x; [congruence|reflexivity]. }
        cbn [map filter]. unfold py_strip. rewrite strip_stripped by exact Hst.
        destruct x; [congruence|reflexivity].
      * cbn. now rewrite Hfree.
      * unfold last_nonempty. cbn. destruct x; [congruence|reflexivity].
  - (* several items: a blank first line, one item per continuation line *)
    set (l := x :: y :: r) in *.
    exists (Some (join [LF] ([] :: map (fun v => SP :: v) l))). split.
    + unfold lb_to_str. subst l. rewrite mapM_lb_item by exact H. reflexivity.
    + unfold lb_from_str. cbn [opt_or_empty].
      pose proof (lb_dom_nonempty l H) as Hne.
      assert (Hx : lb_item_ok x = true) by (unfold lb_dom in H; subst l; cbn [forallb] in H;
                                            apply andb_true_iff in H; tauto).
      destruct (lb_item_ok_parts x Hx) as [Hxne [Hxfree Hxst]].
      (* strip of the whole value *)
      assert (Hstrip : py_strip (join [LF] ([] :: map (fun v => SP :: v) l))
                       = join [LF] (x :: map (fun v => SP :: v) (y :: r))).
      { subst l. rewrite join_cons by discriminate. cbn [app map].
        rewrite (join_cons [LF] (SP :: x)) by discriminate.
        rewrite (join_cons [LF] x) by discriminate.
        unfold py_strip, strip_by, lstrip_by. cbn [app dropwhile]. rewrite lf_space, sp_space.
        destruct x as [|c x']; [congruence|].
        unfold stripped in Hxst. apply andb_true_iff in Hxst. destruct Hxst as [Hc Hcl].
        cbn [app]. rewrite dropwhile_head_false by now apply negb_true_iff.
        (* nothing to strip at the end *)
        apply rstrip_ends_ns.
        apply (ends_ns_app (c :: x')). apply ends_ns_cons.
        change ((SP :: y) :: map (fun v : list N => SP :: v) r)
          with (map (fun v : list N => SP :: v) (y :: r)).
        apply join_ends_ns; [discriminate|].
        intros m Hm.
        apply in_map_iff in Hm. destruct Hm as [v [<- Hv]]. apply ends_ns_cons.
        assert (Hvok : lb_item_ok v = true).
        { unfold lb_dom in H. rewrite forallb_forall in H. apply H. now right. }
        destruct (lb_item_ok_parts v Hvok) as [Hvne [_ Hvst]]. now apply stripped_ends_ns. }
      rewrite Hstrip.
      rewrite splitlines_join.
      * change (map py_strip (x :: map (fun v => SP :: v) (y :: r)))
          with (py_strip x :: map py_strip (map (fun v => SP :: v) (y :: r))).
        unfold py_strip at 1. rewrite strip_stripped by exact Hxst.
        rewrite map_strip_sp.
        -- apply (filter_nonempty_id (x :: y :: r)). exact Hne.
        -- unfold lb_dom in *. subst l. cbn [forallb] in H. apply andb_true_iff in H. tauto.
      * cbn [forallb]. rewrite Hxfree. cbn [andb].
        assert (G : forall m, lb_dom m = true -> forallb lb_free (map (fun v => SP :: v) m) = true).
        { clear. induction m as [|s m IH]; intros H; [reflexivity|].
          unfold lb_dom in H. cbn [forallb] in H. apply andb_true_iff in H. destruct H as [Hs Hm].
          destruct (lb_item_ok_parts s Hs) as [_ [Hf _]].
          cbn [map forallb lb_free]. rewrite sp_not_linebreak. cbn [negb andb].
          unfold lb_free in Hf. rewrite Hf. now apply IH. }
        apply G. unfold lb_dom in *. subst l. cbn [forallb] in H. apply andb_true_iff in H. tauto.
      * rewrite last_nonempty_cons by discriminate.
        clear. revert y. induction r as [|z r IH]; intros y; [reflexivity|].
        cbn [map]. rewrite last_nonempty_cons by discriminate. exact (IH z).
Qed.
