(** Proofs for C16: the regex the code builds means what the glob says; the cache
    is transparent; find_files_paragraph returns the last match. *)
From Verif Require Import Lib.Base Lib.PyStr Gen.PyChars Gen.ReEscape
  Copyright.Fields Copyright.Glob Copyright.GlobSpec.

Local Open Scope N_scope.

(** * Unfolding lemmas *)

Lemma seq_full_star d r s :
  seq_full d (AnyStar :: r) s
  = seq_full d r s
    || match s with x :: s' => dot_ok d x && seq_full d (AnyStar :: r) s' | [] => false end.
Proof. destruct s; reflexivity. Qed.

Lemma gm_star g n :
  glob_match (STAR :: g) n
  = glob_match g n || match n with _ :: n' => glob_match (STAR :: g) n' | [] => false end.
Proof. destruct n; reflexivity. Qed.

Lemma gm_qmark g n :
  glob_match (QMARK :: g) n = match n with _ :: n' => glob_match g n' | [] => false end.
Proof. reflexivity. Qed.

Lemma gm_esc e g n :
  escapable e = true ->
  glob_match (BSLASH :: e :: g) n
  = match n with x :: n' => (x =? e) && glob_match g n' | [] => false end.
Proof. intros H. cbn. rewrite H. reflexivity. Qed.

Lemma gm_lit c g n :
  (c =? STAR) = false -> (c =? QMARK) = false -> (c =? BSLASH) = false ->
  glob_match (c :: g) n
  = match n with x :: n' => (x =? c) && glob_match g n' | [] => false end.
Proof.
  intros H1 H2 H3. cbn [glob_match].
  unfold g_star, g_qmark, g_bslash, STAR, QMARK, BSLASH in *.
  rewrite H1, H2, H3. reflexivity.
Qed.

Lemma in_chars_escapable e : in_chars [BSLASH; QMARK; STAR] e = escapable e.
Proof.
  unfold in_chars, escapable, g_star, g_qmark, g_bslash, BSLASH, QMARK, STAR. cbn [existsb].
  destruct (e =? 92), (e =? 63), (e =? 42); reflexivity.
Qed.

(** * One glob: the atoms mean the glob *)

Lemma glob_atoms_sound_len : forall k g a,
  (List.length g <= k)%nat -> glob_atoms g = Ok a ->
  forall n, seq_full true a n = glob_match g n.
Proof.
  induction k as [|k IH]; intros g a Hlen Hga.
  - destruct g; [|simpl in Hlen; lia]. cbn in Hga. injection Hga as <-. reflexivity.
  - destruct g as [|c g']; [cbn in Hga; injection Hga as <-; reflexivity|].
    simpl in Hlen. cbn [glob_atoms] in Hga.
    destruct (c =? STAR) eqn:Es.
    { apply N.eqb_eq in Es. subst c.
      destruct (glob_atoms g') as [r|] eqn:Er; [|discriminate]. cbn in Hga. injection Hga as <-.
      assert (Hr : forall n, seq_full true r n = glob_match g' n) by (apply IH; [lia|exact Er]).
      induction n as [|x n IHn].
      - rewrite seq_full_star, gm_star. now rewrite Hr.
      - rewrite seq_full_star, gm_star. rewrite Hr, IHn. reflexivity. }
    destruct (c =? QMARK) eqn:Eq.
    { apply N.eqb_eq in Eq. subst c.
      destruct (glob_atoms g') as [r|] eqn:Er; [|discriminate]. cbn in Hga. injection Hga as <-.
      intros n. rewrite gm_qmark. destruct n as [|x n]; [reflexivity|].
      cbn [seq_full]. cbn [dot_ok orb andb]. apply IH; [lia|exact Er]. }
    destruct (c =? BSLASH) eqn:Eb.
    { apply N.eqb_eq in Eb. subst c.
      destruct g' as [|e g'']; [discriminate|].
      rewrite in_chars_escapable in Hga.
      destruct (escapable e) eqn:Ee; [|discriminate].
      destruct (glob_atoms g'') as [r|] eqn:Er; [|discriminate]. cbn in Hga. injection Hga as <-.
      intros n. rewrite gm_esc by exact Ee. destruct n as [|x n]; [reflexivity|].
      cbn [seq_full]. f_equal. apply IH; [simpl in Hlen; lia|exact Er]. }
    destruct (glob_atoms g') as [r|] eqn:Er; [|discriminate]. cbn in Hga. injection Hga as <-.
    intros n. rewrite gm_lit by assumption. destruct n as [|x n]; [reflexivity|].
    cbn [seq_full]. f_equal. apply IH; [lia|exact Er].
Qed.

Lemma glob_atoms_sound g a :
  glob_atoms g = Ok a -> forall n, seq_full true a n = glob_match g n.
Proof. apply (glob_atoms_sound_len (List.length g)). lia. Qed.

(** conversion succeeds exactly on well-formed globs, and fails only one way *)
Lemma glob_atoms_valid_len : forall k g,
  (List.length g <= k)%nat ->
  match glob_atoms g with
  | Ok _ => glob_valid g = true
  | Err e => e = FormatError /\ glob_valid g = false
  end.
Proof.
  induction k as [|k IH]; intros g Hlen.
  - destruct g; [|simpl in Hlen; lia]. reflexivity.
  - destruct g as [|c g']; [reflexivity|]. simpl in Hlen.
    cbn [glob_atoms glob_valid]. unfold g_bslash.
    assert (IHg' := IH g' ltac:(lia)).
    destruct (c =? STAR) eqn:Es.
    { apply N.eqb_eq in Es. subst c. cbn.
      destruct (glob_atoms g'); cbn; exact IHg'. }
    destruct (c =? QMARK) eqn:Eq.
    { apply N.eqb_eq in Eq. subst c. cbn.
      destruct (glob_atoms g'); cbn; exact IHg'. }
    unfold BSLASH.
    destruct (c =? 92) eqn:Eb.
    { destruct g' as [|e g'']; [split; reflexivity|].
      rewrite in_chars_escapable.
      destruct (escapable e) eqn:Ee; [|split; reflexivity].
      assert (IHg'' := IH g'' ltac:(simpl in Hlen; lia)).
      cbn [andb]. destruct (glob_atoms g''); cbn; exact IHg''. }
    destruct (glob_atoms g'); cbn; exact IHg'.
Qed.

Lemma glob_atoms_ok_iff g : is_ok (glob_atoms g) = glob_valid g.
Proof.
  pose proof (glob_atoms_valid_len (List.length g) g ltac:(lia)) as H.
  destruct (glob_atoms g); cbn; [now rewrite H|]. destruct H as [_ H]. now rewrite H.
Qed.

Lemma glob_atoms_err g e : glob_atoms g = Err e -> e = FormatError.
Proof.
  intros H. pose proof (glob_atoms_valid_len (List.length g) g ltac:(lia)) as G.
  rewrite H in G. tauto.
Qed.

(** * The anchor after the last alternative does not change fullmatch *)
Lemma seq_full_endz d a : forall s, seq_full d (a ++ [EndZ]) s = seq_full d a s.
Proof.
  induction a as [|x a IH]; intros s.
  - destruct s; reflexivity.
  - destruct x; cbn [app].
    + destruct s; cbn [seq_full]; [reflexivity|]. now rewrite IH.
    + destruct s; cbn [seq_full]; [reflexivity|]. now rewrite IH.
    + induction s as [|y s IHs].
      * rewrite !seq_full_star. now rewrite IH.
      * rewrite (seq_full_star d (a ++ [EndZ])), (seq_full_star d a). now rewrite IH, IHs.
    + destruct s; cbn [seq_full]; [|reflexivity]. apply IH.
Qed.

Lemma existsb_add_endz d alts s :
  alts <> [] ->
  existsb (fun a => seq_full d a s) (add_endz alts) = existsb (fun a => seq_full d a s) alts.
Proof.
  induction alts as [|a r IH]; [congruence|]. intros _.
  destruct r as [|b r].
  - cbn. now rewrite seq_full_endz.
  - change (add_endz (a :: b :: r)) with (a :: add_endz (b :: r)).
    cbn [existsb]. f_equal. apply IH. discriminate.
Qed.

(** * The list of globs *)
Lemma globs_atoms_sound : forall gs alts,
  globs_atoms gs = Ok alts ->
  List.length alts = List.length gs /\
  forall n, existsb (fun a => seq_full true a n) alts = existsb (fun g => glob_match g n) gs.
Proof.
  induction gs as [|g gs IH]; intros alts H.
  - cbn in H. injection H as <-. split; reflexivity.
  - cbn [globs_atoms] in H.
    destruct (glob_atoms g) as [a|] eqn:Ea; [|discriminate]. cbn in H.
    destruct (globs_atoms gs) as [r|] eqn:Er; [|discriminate]. cbn in H. injection H as <-.
    destruct (IH r eq_refl) as [Hl Hm]. split; [simpl; now rewrite Hl|].
    intros n. cbn [existsb]. rewrite Hm. f_equal. now apply glob_atoms_sound.
Qed.

Lemma globs_atoms_ok_iff gs : is_ok (globs_atoms gs) = forallb glob_valid gs.
Proof.
  induction gs as [|g gs IH]; [reflexivity|].
  cbn [globs_atoms forallb]. rewrite <- glob_atoms_ok_iff, <- IH.
  destruct (glob_atoms g); cbn; [|reflexivity]. destruct (globs_atoms gs); reflexivity.
Qed.

Lemma globs_atoms_err gs e : globs_atoms gs = Err e -> e = FormatError.
Proof.
  revert e. induction gs as [|g gs IH]; intros e H; [discriminate|].
  cbn [globs_atoms] in H.
  destruct (glob_atoms g) as [a|e1] eqn:Ea; cbn in H.
  - destruct (globs_atoms gs) as [r|e2] eqn:Er; cbn in H; [discriminate|].
    injection H as <-. now apply IH.
  - injection H as <-. eapply glob_atoms_err; eassumption.
Qed.

(** ** matches_iff_some_glob, at the level of globs_to_re *)
Theorem globs_to_re_fullmatch gs re :
  globs_to_re gs = Ok re ->
  forall n, re_fullmatch re n
            = match gs with
              | [] => match n with [] => true | _ => false end   (* no pattern at all: only '' *)
              | _ => existsb (fun g => glob_match g n) gs
              end.
Proof.
  unfold globs_to_re. intros H.
  destruct (globs_atoms gs) as [alts|] eqn:Ea; [|discriminate]. cbn in H. injection H as <-.
  intros n. unfold re_fullmatch. cbn [re_alts re_dotall].
  destruct (globs_atoms_sound gs alts Ea) as [Hl Hm].
  destruct gs as [|g gs].
  - destruct alts; [|discriminate]. cbn. destruct n; reflexivity.
  - rewrite existsb_add_endz by (destruct alts; [discriminate|discriminate]).
    apply Hm.
Qed.

Theorem globs_to_re_ok_iff gs : is_ok (globs_to_re gs) = forallb glob_valid gs.
Proof.
  unfold globs_to_re. rewrite <- globs_atoms_ok_iff. destruct (globs_atoms gs); reflexivity.
Qed.

Theorem globs_to_re_err gs e : globs_to_re gs = Err e -> e = FormatError.
Proof.
  unfold globs_to_re. destruct (globs_atoms gs) eqn:E; cbn; [discriminate|].
  intros [= <-]. eapply globs_atoms_err; eassumption.
Qed.

Theorem globs_to_re_rejects gs :
  forallb glob_valid gs = false <-> globs_to_re gs = Err FormatError.
Proof.
  rewrite <- globs_to_re_ok_iff. split.
  - destruct (globs_to_re gs) eqn:E; cbn; [discriminate|]. intros _.
    f_equal. eapply globs_to_re_err; eassumption.
  - intros ->. reflexivity.
Qed.

(** what "ill-formed" means, spelled out *)
Lemma glob_valid_app p q : glob_valid p = true -> glob_valid (p ++ q) = glob_valid q.
Proof.
  assert (G : forall k p, (List.length p <= k)%nat -> glob_valid p = true ->
                          glob_valid (p ++ q) = glob_valid q).
  { induction k as [|k IH]; intros p0 Hlen Hp.
    - destruct p0; [reflexivity|simpl in Hlen; lia].
    - destruct p0 as [|c p']; [reflexivity|]. simpl in Hlen.
      cbn [app glob_valid] in *. destruct (c =? g_bslash).
      + destruct p' as [|e p'']; [discriminate|]. cbn [app].
        apply andb_true_iff in Hp. destruct Hp as [-> Hp]. cbn [andb].
        apply IH; [simpl in Hlen; lia|exact Hp].
      + apply IH; [lia|exact Hp]. }
  apply (G (List.length p)). lia.
Qed.

Theorem trailing_backslash_invalid p :
  glob_valid p = true -> glob_valid (p ++ [BSLASH]) = false.
Proof. intros H. rewrite glob_valid_app by exact H. reflexivity. Qed.

Theorem other_escape_invalid p c rest :
  glob_valid p = true -> escapable c = false ->
  glob_valid (p ++ BSLASH :: c :: rest) = false.
Proof.
  intros H Hc. rewrite glob_valid_app by exact H.
  cbn. now rewrite Hc.
Qed.

(** * str.split() never returns an empty word: the filter in from_str is the identity *)
Lemma split_ws_aux_nonempty p s : forall cur,
  forallb nonempty (split_ws_aux p s cur) = true.
Proof.
  induction s as [|x s IH]; intros cur; cbn [split_ws_aux].
  - destruct cur as [|c cur]; [reflexivity|]. cbn.
    destruct (rev cur ++ [c]) eqn:E; [|reflexivity].
    apply app_eq_nil in E. destruct E; discriminate.
  - destruct (p x).
    + destruct cur as [|c cur]; [apply IH|]. cbn [forallb]. rewrite IH.
      cbn. destruct (rev cur ++ [c]) eqn:E; [|reflexivity].
      apply app_eq_nil in E. destruct E; discriminate.
    + apply IH.
Qed.

Lemma filter_all_true {A} (f : A -> bool) l : forallb f l = true -> filter f l = l.
Proof.
  induction l as [|a l IH]; [reflexivity|]. cbn. intros H.
  apply andb_true_iff in H. destruct H as [-> H]. now rewrite IH.
Qed.

Lemma ss_from_str_some t : ss_from_str (Some t) = patterns_of t.
Proof.
  unfold ss_from_str, patterns_of, opt_or_empty, split_ws.
  apply filter_all_true, split_ws_aux_nonempty.
Qed.

(** * Keys: 'files' and 'Files' are the same key *)
Lemma dget_files_lc d : dget d files_lc = dget d FILES.
Proof.
  induction d as [|[k v] d IH]; [reflexivity|].
  cbn [dget]. rewrite IH. reflexivity.
Qed.

(** * The cache *)
Definition atom_eqb (a b : atom) : bool :=
  match a, b with
  | Lit x, Lit y => (x =? y)
  | AnyChar, AnyChar | AnyStar, AnyStar | EndZ, EndZ => true
  | _, _ => false
  end.
Lemma atom_eqb_eq a b : atom_eqb a b = true <-> a = b.
Proof.
  destruct a, b; cbn; split; intro H; try reflexivity; try discriminate.
  - apply N.eqb_eq in H. now subst.
  - injection H as ->. apply N.eqb_refl.
Qed.

Definition compiled_eqb (a b : compiled) : bool :=
  list_eqb (list_eqb atom_eqb) (re_alts a) (re_alts b)
  && Bool.eqb (re_multiline a) (re_multiline b) && Bool.eqb (re_dotall a) (re_dotall b).
Lemma compiled_eqb_eq a b : compiled_eqb a b = true <-> a = b.
Proof.
  unfold compiled_eqb. destruct a as [a1 a2 a3], b as [b1 b2 b3]. cbn [re_alts re_multiline re_dotall].
  rewrite !andb_true_iff, !Bool.eqb_true_iff.
  rewrite (list_eqb_eq _ (list_eqb_eq _ atom_eqb_eq)).
  split; [intros [[-> ->] ->]; reflexivity|intros [= -> -> ->]; auto].
Qed.

(** The cache of a paragraph is the initial one, or holds a text together with the
    regex of exactly that text. *)
Definition is_nil_str (s : str) : bool := match s with [] => true | _ => false end.
Definition cache_ok (fp : fpara) : bool :=
  let (s, re) := fp_cache fp in
  (is_nil_str s && compiled_eqb re default_re)
  || result_eqb compiled_eqb (globs_to_re (patterns_of s)) (Ok re).

Definition para_cache_ok (p : cpara) : bool :=
  match p with PFiles fp => cache_ok fp | PLicense _ => true end.

Lemma cache_ok_new d : cache_ok (fp_new d) = true.
Proof. reflexivity. Qed.

(** The cacheless reading of [matches]: convert the current text, match. *)
Definition matches_nocache (d : para) (name : str) : result bool :=
  match dget d FILES with
  | None => Err KeyError
  | Some t => do re <- globs_to_re (patterns_of t); Ok (re_fullmatch re name)
  end.

Lemma default_re_fullmatch n re :
  globs_to_re [] = Ok re -> re_fullmatch default_re n = re_fullmatch re n.
Proof. cbn. intros [= <-]. destruct n; reflexivity. Qed.

Lemma fp_matches_nocache fp name :
  cache_ok fp = true ->
  let (fp', r) := fp_matches fp name in
  fp_data fp' = fp_data fp /\ cache_ok fp' = true /\ r = matches_nocache (fp_data fp) name.
Proof.
  intros Hc. unfold fp_matches, files_pattern, dgetitem, matches_nocache.
  rewrite dget_files_lc.
  destruct (dget (fp_data fp) FILES) as [t|] eqn:Et; [|now repeat split].
  destruct (str_eqb (fst (fp_cache fp)) t) eqn:Eh; cbn [negb].
  - (* hit *)
    apply str_eqb_eq in Eh. repeat split; [exact Hc|].
    unfold cache_ok in Hc. destruct (fp_cache fp) as [s re]. cbn [fst snd] in *. subst s.
    apply orb_true_iff in Hc. destruct Hc as [Hc|Hc].
    + apply andb_true_iff in Hc. destruct Hc as [Ht Hre].
      destruct t; [|discriminate]. apply compiled_eqb_eq in Hre. subst re.
      change (patterns_of []) with (@nil str). cbn. destruct name; reflexivity.
    + destruct (globs_to_re (patterns_of t)) as [re'|]; [|discriminate].
      cbn in Hc. apply compiled_eqb_eq in Hc. now subst.
  - (* miss *)
    unfold fp_files. rewrite Et, ss_from_str_some.
    destruct (globs_to_re (patterns_of t)) as [re|e] eqn:Eg.
    + repeat split. unfold cache_ok. cbn [fp_cache]. rewrite Eg. cbn.
      apply orb_true_iff. right. now apply compiled_eqb_eq.
    + repeat split; exact Hc.
Qed.

(** ** matches_iff_some_glob at the level of the paragraph *)
Theorem fp_matches_spec fp t name :
  cache_ok fp = true ->
  dget (fp_data fp) FILES = Some t ->
  snd (fp_matches fp name)
  = if forallb glob_valid (patterns_of t)
    then Ok (match patterns_of t with
             | [] => match name with [] => true | _ => false end
             | pats => files_match pats name
             end)
    else Err FormatError.
Proof.
  intros Hc Ht. pose proof (fp_matches_nocache fp name Hc) as H.
  destruct (fp_matches fp name) as [fp' r]. destruct H as (_ & _ & ->). cbn [snd].
  unfold matches_nocache. rewrite Ht.
  destruct (forallb glob_valid (patterns_of t)) eqn:Ev.
  - rewrite <- globs_to_re_ok_iff in Ev.
    destruct (globs_to_re (patterns_of t)) as [re|] eqn:Eg; [|discriminate]. cbn.
    f_equal. rewrite (globs_to_re_fullmatch _ _ Eg). destruct (patterns_of t); reflexivity.
  - apply globs_to_re_rejects in Ev. now rewrite Ev.
Qed.

(** * Cache transparency over histories *)

(** The same document without caches. *)
Inductive npara :=
| NFiles (d : para)
| NLicense (d : para).

Definition erase_para (p : cpara) : npara :=
  match p with PFiles fp => NFiles (fp_data fp) | PLicense d => NLicense d end.
Definition erase (ps : doc) : list npara := map erase_para ps.

Fixpoint nfind_loop (ps : list npara) (name : str) (i : nat) (acc : option nat) : result (option nat) :=
  match ps with
  | [] => Ok acc
  | NLicense _ :: r => nfind_loop r name i acc
  | NFiles d :: r =>
      match matches_nocache d name with
      | Err e => Err e
      | Ok b => nfind_loop r name (S i) (if b then Some i else acc)
      end
  end.

Fixpoint non_files {A} (ps : list npara) (i : nat) (f : para -> para * result A)
  : list npara * result A :=
  match ps with
  | [] => ([], Err IndexError)
  | NLicense d :: r => let (r', o) := non_files r i f in (NLicense d :: r', o)
  | NFiles d :: r =>
      match i with
      | O => let (d', o) := f d in (NFiles d' :: r, o)
      | S i' => let (r', o) := non_files r i' f in (NFiles d :: r', o)
      end
  end.

Definition nassign (seq : list str) (d : para) : para * result unit :=
  match setter files_field (VList seq) d with Ok d' => (d', Ok tt) | Err e => (d, Err e) end.
Definition nsetraw (v : str) (d : para) : para * result unit :=
  match dset_checked d FILES v with Ok d' => (d', Ok tt) | Err e => (d, Err e) end.

Definition nstep (ps : list npara) (o : op) : list npara * out :=
  match o with
  | OAssign i seq => let (ps', r) := non_files ps i (nassign seq) in (ps', out_of (fun _ => RUnit) r)
  | ORaw i v => let (ps', r) := non_files ps i (nsetraw v) in (ps', out_of (fun _ => RUnit) r)
  | OMatch i name =>
      let (ps', r) := non_files ps i (fun d => (d, matches_nocache d name)) in (ps', out_of RBool r)
  | OFind name => (ps, out_of RIdx (nfind_loop ps name 0 None))
  end.

Fixpoint nrun (ps : list npara) (ops : list op) : list npara * list out :=
  match ops with
  | [] => (ps, [])
  | o :: ops' =>
      let (ps1, x) := nstep ps o in
      let (ps2, xs) := nrun ps1 ops' in
      (ps2, x :: xs)
  end.

Lemma find_loop_nocache : forall ps name i acc,
  forallb para_cache_ok ps = true ->
  let (ps', r) := find_loop ps name i acc in
  erase ps' = erase ps /\ forallb para_cache_ok ps' = true
  /\ r = nfind_loop (erase ps) name i acc.
Proof.
  unfold erase.
  induction ps as [|p ps IH]; intros name i acc Hc; [now repeat split|].
  cbn [forallb] in Hc. apply andb_true_iff in Hc. destruct Hc as [Hp Hps].
  destruct p as [fp|d]; cbn [find_loop map erase_para nfind_loop].
  - pose proof (fp_matches_nocache fp name Hp) as H.
    destruct (fp_matches fp name) as [fp' m]. destruct H as (Hd & Hc' & ->).
    destruct (matches_nocache (fp_data fp) name) as [b|e].
    + specialize (IH name (S i) (if b then Some i else acc) Hps).
      destruct (find_loop ps name (S i) (if b then Some i else acc)) as [r' o].
      destruct IH as (He & Hc2 & ->). cbn [map erase_para forallb para_cache_ok].
      rewrite Hd, Hc', He. now repeat split.
    + cbn [map erase_para forallb para_cache_ok]. rewrite Hd, Hc', Hps. now repeat split.
  - specialize (IH name i acc Hps).
    destruct (find_loop ps name i acc) as [r' o]. destruct IH as (He & Hc2 & ->).
    cbn [map erase_para forallb para_cache_ok]. rewrite He. now repeat split.
Qed.

Lemma on_files_para_nocache {A} : forall ps i (f : fpara -> fpara * result A) (g : para -> para * result A),
  (forall fp, cache_ok fp = true ->
     let (fp', r) := f fp in
     cache_ok fp' = true /\ (fp_data fp', r) = g (fp_data fp)) ->
  forallb para_cache_ok ps = true ->
  let (ps', r) := on_files_para ps i f in
  forallb para_cache_ok ps' = true /\ (erase ps', r) = non_files (erase ps) i g.
Proof.
  unfold erase.
  induction ps as [|p ps IH]; intros i f g Hfg Hc; [now split|].
  cbn [forallb] in Hc. apply andb_true_iff in Hc. destruct Hc as [Hp Hps].
  destruct p as [fp|d]; cbn [on_files_para map erase_para non_files].
  - destruct i as [|i].
    + specialize (Hfg fp Hp). destruct (f fp) as [fp' r]. destruct Hfg as [Hc' Heq].
      rewrite <- Heq. cbn [forallb para_cache_ok map erase_para]. rewrite Hc', Hps. now split.
    + specialize (IH i f g Hfg Hps). destruct (on_files_para ps i f) as [r' o].
      destruct IH as [Hc' Heq]. rewrite <- Heq.
      cbn [forallb para_cache_ok map erase_para]. rewrite Hc'. cbn in Hp. rewrite Hp. now split.
  - specialize (IH i f g Hfg Hps). destruct (on_files_para ps i f) as [r' o].
    destruct IH as [Hc' Heq]. rewrite <- Heq.
    cbn [forallb para_cache_ok map erase_para]. rewrite Hc'. now split.
Qed.

Lemma step_nocache ps o :
  forallb para_cache_ok ps = true ->
  let (ps', x) := step ps o in
  forallb para_cache_ok ps' = true /\ (erase ps', x) = nstep (erase ps) o.
Proof.
  intros Hc. destruct o as [i seq|i v|i name|name]; cbn [step nstep].
  - pose proof (on_files_para_nocache ps i (fun fp => fp_assign fp seq) (nassign seq)) as H.
    destruct (on_files_para ps i (fun fp => fp_assign fp seq)) as [ps' r].
    destruct H as [Hc' Heq]; [|exact Hc|].
    { intros fp Hfp. unfold fp_assign, nassign.
      destruct (setter files_field (VList seq) (fp_data fp)); split; try reflexivity; exact Hfp. }
    rewrite <- Heq. now split.
  - pose proof (on_files_para_nocache ps i (fun fp => fp_setraw fp v) (nsetraw v)) as H.
    destruct (on_files_para ps i (fun fp => fp_setraw fp v)) as [ps' r].
    destruct H as [Hc' Heq]; [|exact Hc|].
    { intros fp Hfp. unfold fp_setraw, nsetraw.
      destruct (dset_checked (fp_data fp) FILES v); split; try reflexivity; exact Hfp. }
    rewrite <- Heq. now split.
  - pose proof (on_files_para_nocache ps i (fun fp => fp_matches fp name)
                  (fun d => (d, matches_nocache d name))) as H.
    destruct (on_files_para ps i (fun fp => fp_matches fp name)) as [ps' r].
    destruct H as [Hc' Heq]; [|exact Hc|].
    { intros fp Hfp. pose proof (fp_matches_nocache fp name Hfp) as G.
      destruct (fp_matches fp name) as [fp' m]. destruct G as (Hd & Hc2 & ->).
      split; [exact Hc2|]. now rewrite Hd. }
    rewrite <- Heq. now split.
  - unfold find_files_paragraph.
    pose proof (find_loop_nocache ps name 0%nat None Hc) as H.
    destruct (find_loop ps name 0 None) as [ps' r]. destruct H as (He & Hc' & ->).
    rewrite He. now split.
Qed.

(** ** cache_transparent *)
Theorem run_nocache : forall ops ps,
  forallb para_cache_ok ps = true ->
  erase (fst (run ps ops)) = fst (nrun (erase ps) ops)
  /\ snd (run ps ops) = snd (nrun (erase ps) ops).
Proof.
  induction ops as [|o ops IH]; intros ps Hc; [now split|].
  cbn [run nrun].
  pose proof (step_nocache ps o Hc) as H.
  destruct (step ps o) as [ps1 x]. destruct H as [Hc1 Heq]. rewrite <- Heq.
  specialize (IH ps1 Hc1).
  destruct (run ps1 ops) as [ps2 xs]. destruct (nrun (erase ps1) ops) as [ns2 ys].
  cbn [fst snd] in *. destruct IH as [-> ->]. now split.
Qed.

(** * find_files_paragraph returns the last match *)

(** Files texts of the Files paragraphs; [None] when some Files paragraph lacks the field *)
Fixpoint doc_patterns (ps : list npara) : option (list (list str)) :=
  match ps with
  | [] => Some []
  | NLicense _ :: r => doc_patterns r
  | NFiles d :: r =>
      match dget d FILES, doc_patterns r with
      | Some t, Some pss => Some (patterns_of t :: pss)
      | _, _ => None
      end
  end.

Definition no_empty_edge (pss : list (list str)) (name : str) : bool :=
  negb (match name with [] => true | _ => false end
        && existsb (fun ps => match ps with [] => true | _ => false end) pss).

Lemma matches_nocache_spec d t name :
  dget d FILES = Some t -> forallb glob_valid (patterns_of t) = true ->
  (patterns_of t <> [] \/ name <> []) ->
  matches_nocache d name = Ok (files_match (patterns_of t) name).
Proof.
  intros Ht Hv Hne. unfold matches_nocache. rewrite Ht.
  rewrite <- globs_to_re_ok_iff in Hv.
  destruct (globs_to_re (patterns_of t)) as [re|] eqn:Eg; [|discriminate]. cbn.
  f_equal. rewrite (globs_to_re_fullmatch _ _ Eg).
  destruct (patterns_of t) as [|p ps]; [|reflexivity].
  destruct name; [destruct Hne; congruence|reflexivity].
Qed.

(** the accumulating loop against the right-to-left definition of the spec *)
Lemma nfind_loop_last : forall ps pss name i acc,
  doc_patterns ps = Some pss ->
  forallb (forallb glob_valid) pss = true ->
  no_empty_edge pss name = true ->
  nfind_loop ps name i acc
  = Ok (match last_match pss name with Some k => Some (i + k)%nat | None => acc end).
Proof.
  induction ps as [|p ps IH]; intros pss name i acc Hd Hv He.
  - cbn in Hd. injection Hd as <-. reflexivity.
  - destruct p as [d|d]; cbn [doc_patterns nfind_loop] in *.
    + destruct (dget d FILES) as [t|] eqn:Et; [|discriminate].
      destruct (doc_patterns ps) as [pss'|] eqn:Ep; [|discriminate]. injection Hd as <-.
      cbn [forallb] in Hv. apply andb_true_iff in Hv. destruct Hv as [Hv1 Hv2].
      assert (He' : no_empty_edge pss' name = true).
      { unfold no_empty_edge in *. destruct name; [|reflexivity]. cbn [andb existsb] in *.
        apply negb_true_iff in He. apply orb_false_iff in He. destruct He as [_ He].
        now rewrite He. }
      rewrite (matches_nocache_spec d t name Et Hv1).
      2:{ unfold no_empty_edge in He. destruct name; [|right; discriminate].
          cbn [andb existsb] in He. destruct (patterns_of t); [discriminate|left; discriminate]. }
      rewrite (IH pss' name (S i) _ eq_refl Hv2 He').
      cbn [last_match]. destruct (last_match pss' name) as [k|].
      * do 2 f_equal. lia.
      * destruct (files_match (patterns_of t) name); [do 2 f_equal; lia|reflexivity].
    + now apply IH.
Qed.

Theorem find_last_match_doc ps pss name :
  forallb para_cache_ok ps = true ->
  doc_patterns (erase ps) = Some pss ->
  forallb (forallb glob_valid) pss = true ->
  no_empty_edge pss name = true ->
  snd (find_files_paragraph ps name) = Ok (last_match pss name).
Proof.
  intros Hc Hd Hv He. unfold find_files_paragraph.
  pose proof (find_loop_nocache ps name 0%nat None Hc) as H.
  destruct (find_loop ps name 0 None) as [ps' r]. destruct H as (_ & _ & ->). cbn [snd].
  rewrite (nfind_loop_last _ _ _ _ _ Hd Hv He).
  destruct (last_match pss name); reflexivity.
Qed.

(** [last_match] is what its name says *)
Theorem last_match_some pss name i :
  last_match pss name = Some i <->
  (exists ps, nth_error pss i = Some ps /\ files_match ps name = true)
  /\ (forall j ps, (i < j)%nat -> nth_error pss j = Some ps -> files_match ps name = false).
Proof.
  revert i. induction pss as [|p pss IH]; intros i.
  - cbn. split; [discriminate|]. intros [[ps [H _]] _]. destruct i; discriminate.
  - cbn [last_match]. destruct (last_match pss name) as [k|] eqn:Ek.
    + split.
      * intros [= <-]. destruct (proj1 (IH k) eq_refl) as [[ps [Hn Hm]] Hl]. split.
        -- exists ps. now split.
        -- intros j ps' Hj Hn'. destruct j; [lia|]. cbn in Hn'. eapply Hl; [|eassumption]. lia.
      * intros [[ps [Hn Hm]] Hl]. f_equal.
        destruct (proj1 (IH k) eq_refl) as [[ps' [Hn' Hm']] Hl'].
        destruct i as [|i].
        -- specialize (Hl (S k) ps' ltac:(lia) Hn'). congruence.
        -- cbn in Hn. f_equal.
           destruct (Nat.lt_trichotomy i k) as [Hlt|[Heq|Hgt]]; [|now subst|].
           ++ specialize (Hl (S k) ps' ltac:(lia) Hn'). congruence.
           ++ specialize (Hl' i ps Hgt Hn). congruence.
    + assert (Hnone : forall j ps, nth_error pss j = Some ps -> files_match ps name = false).
      { clear IH. revert Ek. clear. induction pss as [|q pss IH]; intros Ek j ps Hn.
        - destruct j; discriminate.
        - cbn [last_match] in Ek. destruct (last_match pss name); [discriminate|].
          destruct (files_match q name) eqn:Eq; [discriminate|].
          destruct j; cbn in Hn; [now injection Hn as <-|]. eapply IH; eauto. }
      destruct (files_match p name) eqn:Ep.
      * split.
        -- intros [= <-]. split; [exists p; now split|].
           intros j ps Hj Hn. destruct j; [lia|]. cbn in Hn. eapply Hnone; eassumption.
        -- intros [[ps [Hn Hm]] _]. destruct i; [reflexivity|].
           cbn in Hn. rewrite (Hnone _ _ Hn) in Hm. discriminate.
      * split; [discriminate|].
        intros [[ps [Hn Hm]] _]. destruct i; cbn in Hn.
        -- injection Hn as <-. congruence.
        -- rewrite (Hnone _ _ Hn) in Hm. discriminate.
Qed.

Theorem last_match_none pss name :
  last_match pss name = None <->
  (forall j ps, nth_error pss j = Some ps -> files_match ps name = false).
Proof.
  induction pss as [|p pss IH].
  - split; [intros _ j ps H; destruct j; discriminate|reflexivity].
  - cbn [last_match]. destruct (last_match pss name) as [k|] eqn:Ek.
    + split; [discriminate|]. intros H.
      assert (G : forall j ps, nth_error pss j = Some ps -> files_match ps name = false)
        by (intros j ps Hn; apply (H (S j) ps Hn)).
      apply IH in G. discriminate.
    + destruct (files_match p name) eqn:Ep.
      * split; [discriminate|]. intros H. specialize (H 0%nat p eq_refl). congruence.
      * split; [|reflexivity]. intros _ j ps Hn. destruct j; cbn in Hn.
        -- now injection Hn as <-.
        -- eapply (proj1 IH eq_refl); eassumption.
Qed.
