(** Primitives called by the REGENERATED [globs_to_re] (coq/Gen/TrGlobsToRe.v, written by
    harness/py2coq.py from lib/debian/copyright.py on every run).  Each one is the existing model
    leaf of Copyright/Glob.v, not a second copy.  No proofs here.

      re.escape(c)                          [trp_re_escape_char]  = Glob.re_escape_char
                                            (table Gen/ReEscape.v, regenerated from the running interpreter)
      re.MULTILINE | re.DOTALL              [trp_flags_multiline_dotall]: the translator accepts exactly this
                                            source text for the second argument of re.compile (anything else
                                            fails the translation closed) and renders it by this term
      re.compile(text, flags)               [trp_re_compile]: what the correspondence observes of the compiled
                                            object — [.pattern] (the text, unchanged) and the two flag bits
                                            ([.flags & re.MULTILINE], [.flags & re.DOTALL]); the MEANING of the
                                            text is the fragment semantics of Glob.v (seq_full/seq_prefix),
                                            compared with Python's re by the leaf cases of GlobCheck.v. *)
From Verif Require Import Lib.Base Lib.PyStr Copyright.Glob.

Definition trp_re_escape_char (c : N) : str := re_escape_char c.

(** (MULTILINE, DOTALL) *)
Definition trp_flags_multiline_dotall : bool * bool := (true, true).

Definition trp_re_compile (text : str) (flags : bool * bool) : str * (bool * bool) := (text, flags).
