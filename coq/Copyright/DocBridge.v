(** The caller's values as the spec writes them (DocSpec.sval ...) turned into the
    arguments the model's API functions take (Doc.bval ...).  Used by the Check module
    (to run the model on a case) and by the theorems (to state them over the spec's
    domain [wf_copyright]).  No proofs. *)
From Verif Require Import Lib.Base Copyright.Fields Copyright.Doc Copyright.DocSpec.

Definition bval_of_sval (v : sval) : bval :=
  match v with
  | SNone => BNone
  | SStr s => BStr s
  | SList l => BList l
  | SLic s t => BLic s t
  end.

Definition hop_of_shop (o : shop) : hop :=
  match o with
  | SHSet i v => HSet i (bval_of_sval v)
  | SHItem k v => HItem k v
  end.

Definition pspec_of_spara (p : spara) : pspec :=
  match p with
  | PFiles f c l cm => SFiles (bval_of_sval f) (bval_of_sval c) (bval_of_sval l) (bval_of_sval cm)
  | PLicense l cm => SLicense (bval_of_sval l) (bval_of_sval cm)
  end.

(** what the properties of a paragraph must read as, in the model's value type *)
Definition fval_of_sval (v : sval) : fval :=
  match v with
  | SNone => VNone
  | SStr s => VStr s
  | SList l => VList l
  | SLic s t => VLic (mkLic s (otext t))
  end.

Definition expected_view (p : spara) : pview :=
  let (isf, vals) := expected_vals p in
  mkView isf (map (fun v => Ok (fval_of_sval v)) vals).
