(** Primitives that the regenerated control flow of the copyright field codecs (Gen/TrCopyrightFields.v,
    produced by harness/py2coq.py from lib/debian/copyright.py on every run) calls: the [str] methods,
    the [_has_space] regex leaf, [itertools.islice] and the namedtuple [License] — each DEFINED through the
    very functions of Lib/PyStr.v / Gen/PyChars.v, instantiated exactly as the hand-written model
    (Copyright/Fields.v) instantiates them, so that the tie (Copyright/FieldsTie.v) is about control flow only.
    The pattern text of [_SpaceSeparated._has_space] is asserted by the translator spec (harness/props/c17.py):
    a changed pattern fails the translation closed.  No proofs in this file. *)
From Verif Require Import Lib.Base Lib.PyStr Gen.PyChars Copyright.Fields.

(** [s.strip()] (no argument: Unicode whitespace) — the model's [py_strip] *)
Definition trp_strip (s : str) : str := py_strip s.
(** [s.splitlines()] (keepends=False) — the model's [py_splitlines] *)
Definition trp_splitlines (s : str) : list str := py_splitlines s.
(** [s.split()] (no argument: runs of Unicode whitespace) *)
Definition trp_split (s : str) : list str := split_ws py_isspace s.
(** [s.startswith(pre)] *)
Definition trp_startswith (s pre : str) : bool := startswith pre s.
(** [sep.join(l)] for a list (or any finite iterable) of str *)
Definition trp_join (sep : str) (l : list str) : str := join sep l.
(** [_SpaceSeparated._has_space.search(s)]: pattern \s on a str — some character is Unicode whitespace *)
Definition trp_has_space (s : str) : bool := existsb py_isspace s.

(** [itertools.islice(l, start, stop)] (step 1) over a list, as the list of what it yields; negative
    bounds are a ValueError.  Its only consumer ([str.join]) exhausts it at once. *)
Definition trp_islice {A} (l : list A) (start : Z) (stop : option Z) : result (list A) :=
  if (start <? 0)%Z then Err ValueError
  else match stop with
       | None => Ok (skipn (Z.to_nat start) l)
       | Some e => if (e <? 0)%Z then Err ValueError
                   else Ok (firstn (Z.to_nat e - Z.to_nat start) (skipn (Z.to_nat start) l))
       end.

(** [License] is [collections.namedtuple('License', 'synopsis text')]: rendered as the model's Record
    [license]; [super(License, cls).__new__(cls, synopsis=a, text=b)] builds the tuple (the class argument
    carries no data: [unit]), [self.synopsis]/[self.text] are the projections. *)
Definition trp_license_tuple_new (_ : unit) (synopsis text : str) : license := mkLic synopsis text.
Definition trp_license_synopsis (l : license) : str := lic_synopsis l.
Definition trp_license_text (l : license) : str := lic_text l.
