(** MODEL (shared by C16 and C17): the field-level machinery of
    lib/debian/copyright.py and the part of lib/debian/deb822.py it rests on.

      Deb822Dict            ordered, case-insensitive, case-preserving mapping   [para]
      Deb822.validate_input / Deb822.__setitem__                                  [validate_input], [dset_checked]
      _single_line, _SpaceSeparated, _LineBased                                   [single_line], [ss_*], [lb_*]
      format_multiline(_lines), parse_multiline(_as_lines)                        [format_multiline*], [parse_multiline*]
      License.__new__/from_str/to_str                                             [mk_license], [lic_from_str], [lic_to_str]
      RestrictedField / RestrictedWrapper getter, setter, None handling            [rfield], [getter], [setter]

    No proofs in this file. *)
From Verif Require Import Lib.Base Lib.PyStr Gen.PyChars.

(** * Deb822Dict

    Keys are compared through [_strI] (str.lower()); the model uses ASCII lower-casing,
    which is [str.lower()] on ASCII keys — the faithful domain of this model is ASCII keys
    (all field names the copyright classes use are ASCII constants). *)
Definition para := list (str * str).

Definition key_eqb (a b : str) : bool := str_eqb (ascii_lower a) (ascii_lower b).

(** [key in d] *)
Fixpoint dcontains (d : para) (k : str) : bool :=
  match d with
  | [] => false
  | (k', _) :: d' => key_eqb k' k || dcontains d' k
  end.

(** [d.get(key)] ([None] when absent); [d[key]] is this with [None] = KeyError *)
Fixpoint dget (d : para) (k : str) : option str :=
  match d with
  | [] => None
  | (k', v) :: d' => if key_eqb k' k then Some v else dget d' k
  end.

Definition dgetitem (d : para) (k : str) : result str :=
  match dget d k with Some v => Ok v | None => Err KeyError end.

(** [Deb822Dict.__setitem__]: an existing key keeps its position and its spelling
    (OrderedSet.add does nothing for a member; the dict keeps the old key object). *)
Fixpoint dset (d : para) (k v : str) : para :=
  match d with
  | [] => [(k, v)]
  | (k', v') :: d' => if key_eqb k' k then (k', v) :: d' else (k', v') :: dset d' k v
  end.

(** [Deb822Dict.__delitem__]: KeyError (from OrderedSet.remove) when absent *)
Fixpoint ddel (d : para) (k : str) : result para :=
  match d with
  | [] => Err KeyError
  | (k', v') :: d' =>
      if key_eqb k' k then Ok d'
      else match ddel d' k with Ok r => Ok ((k', v') :: r) | Err e => Err e end
  end.

(** * Deb822.validate_input / Deb822.__setitem__ *)
Definition py_splitlines (s : str) : list str := splitlines py_islinebreak false s.
Definition py_strip (s : str) : str := strip_by py_isspace s.

Fixpoint validate_cont_lines (ls : list str) : result unit :=
  match ls with
  | [] => Ok tt
  | [] :: _ => Err ValueError                      (* "value must not have blank lines" *)
  | (c :: _) :: r =>
      if py_isspace c then validate_cont_lines r
      else Err ValueError                          (* "each line must start with whitespace" *)
  end.

Definition validate_input (v : str) : result unit :=
  if endswith [LF] v then Err ValueError           (* "value must not end in '\n'" *)
  else validate_cont_lines (tl (py_splitlines v)).

Definition dset_checked (d : para) (k v : str) : result para :=
  do _ <- validate_input v; Ok (dset d k v).

(** * _single_line *)
Definition single_line (s : str) : result str :=
  if mem_char LF s then Err FormatError else Ok s.

(** * Monadic map, first error wins (the loops below are sequential) *)
Fixpoint mapM {A B} (f : A -> result B) (l : list A) : result (list B) :=
  match l with
  | [] => Ok []
  | a :: l' => do b <- f a; do bs <- mapM f l'; Ok (b :: bs)
  end.

Definition nonempty (s : str) : bool := match s with [] => false | _ => true end.
Definition opt_or_empty (s : option str) : str := match s with Some v => v | None => [] end.

(** * _SpaceSeparated *)
Definition ss_from_str (s : option str) : list str :=
  filter nonempty (split_ws py_isspace (opt_or_empty s)).

Definition ss_item (s : str) : result str :=
  if existsb py_isspace s then Err FormatError            (* _has_space.search(s): \s on a str pattern *)
  else let s' := py_strip s in
       if nonempty s' then Ok s' else Err FormatError.

Definition ss_to_str (l : list str) : result (option str) :=
  match l with
  | [] => Ok None
  | _ => do tmp <- mapM ss_item l; Ok (Some (join [SP] tmp))
  end.

(** * _LineBased *)
Definition lb_from_str (s : option str) : list str :=
  filter nonempty (map py_strip (py_splitlines (py_strip (opt_or_empty s)))).

Definition lb_item (s : str) : result str :=
  let s' := py_strip s in
  if negb (nonempty s') then Err FormatError
  else if mem_char LF s' then Err FormatError
  else Ok s'.

Definition lb_to_str (l : list str) : result (option str) :=
  match l with
  | [] => Ok None
  | [x] => do v <- lb_item x; Ok (Some v)
  | _ => do vs <- mapM lb_item l; Ok (Some (join [LF] ([] :: map (fun v => SP :: v) vs)))
  end.

(** * format_multiline / parse_multiline *)
Definition DOT : N := 46.

Definition enc_cont (line : str) : str :=
  SP :: (if nonempty (py_strip line) then line else [DOT]).

Definition format_multiline_lines (lines : list str) : str :=
  join [LF] (match lines with [] => [] | l :: r => l :: map enc_cont r end).

Definition format_multiline (s : option str) : option str :=
  match s with None => None | Some v => Some (format_multiline_lines (py_splitlines v)) end.

Definition dec_cont (line : str) : result str :=
  match line with
  | c :: r => if (c =? SP)%N then Ok (if str_eqb r [DOT] then [] else r)
              else Err FormatError                  (* continued line must begin with " " *)
  | [] => Err FormatError
  end.

Definition parse_multiline_as_lines (s : str) : result (list str) :=
  match py_splitlines s with
  | [] => Ok []
  | l :: r => do r' <- mapM dec_cont r; Ok (l :: r')
  end.

Definition parse_multiline (s : option str) : result (option str) :=
  match s with
  | None => Ok None
  | Some v => do ls <- parse_multiline_as_lines v; Ok (Some (join [LF] ls))
  end.

(** * License (namedtuple synopsis text) *)
Record license := mkLic { lic_synopsis : str; lic_text : str }.

(** [License(synopsis, text)]; [text or ''] maps None to '' *)
Definition mk_license (synopsis : str) (text : option str) : result license :=
  do s <- single_line synopsis; Ok (mkLic s (opt_or_empty text)).

Definition lic_from_str (s : option str) : result (option license) :=
  match s with
  | None => Ok None
  | Some v =>
      do lines <- parse_multiline_as_lines v;
      match lines with
      | [] => do l <- mk_license [] (Some []); Ok (Some l)
      | l0 :: r => do l <- mk_license l0 (Some (join [LF] r)); Ok (Some l)
      end
  end.

Definition lic_to_str (l : license) : str :=
  format_multiline_lines (lic_synopsis l :: py_splitlines (lic_text l)).

(** * RestrictedField / RestrictedWrapper

    A field declaration names the getter conversion ([from_str]) and the setter
    conversion ([to_str]) separately, exactly as the keyword arguments do. *)
Inductive from_codec := FromNone | FromLineBased | FromSpaceSep | FromLicense.
Inductive to_codec := ToNone | ToSingleLine | ToLineBased | ToSpaceSep | ToLicense.

Record rfield := mkField {
  rf_name : str;
  rf_from : from_codec;
  rf_to : to_codec;
  rf_allow_none : bool
}.

(** Python values that travel through the properties *)
Inductive fval :=
| VNone
| VStr (s : str)
| VList (l : list str)        (* tuple / list of str *)
| VLic (l : license).

Definition getter (f : rfield) (d : para) : result fval :=
  let val := dget d (rf_name f) in
  match rf_from f with
  | FromNone => Ok (match val with Some v => VStr v | None => VNone end)
  | FromLineBased => Ok (VList (lb_from_str val))
  | FromSpaceSep => Ok (VList (ss_from_str val))
  | FromLicense =>
      do l <- lic_from_str val;
      Ok (match l with Some l => VLic l | None => VNone end)
  end.

(** The conversion step of the setter.  Ill-typed combinations (a list assigned to a
    License field, ...) end in AttributeError/TypeError or, worse, in silently accepted
    garbage in Python; they are outside the faithful domain and yield [OtherError]. *)
Definition to_str (c : to_codec) (v : fval) : result (option str) :=
  match v, c with
  | VNone, _ => Ok None
  | VStr s, ToNone => Ok (Some s)
  | VStr s, ToSingleLine => do s' <- single_line s; Ok (Some s')
  | VList l, ToLineBased => lb_to_str l
  | VList l, ToSpaceSep => ss_to_str l
  | VLic l, ToLicense => Ok (Some (lic_to_str l))
  | _, _ => Err OtherError
  end.

Definition well_typed (c : to_codec) (v : fval) : bool :=
  match v, c with
  | VNone, _ | VStr _, ToNone | VStr _, ToSingleLine
  | VList _, ToLineBased | VList _, ToSpaceSep | VLic _, ToLicense => true
  | _, _ => false
  end.

Definition setter (f : rfield) (v : fval) (d : para) : result para :=
  do val <- to_str (rf_to f) v;
  match val with
  | None =>
      if rf_allow_none f then
        (if dcontains d (rf_name f) then ddel d (rf_name f) else Ok d)
      else Err TypeError                            (* "value must not be None" *)
  | Some s => dset_checked d (rf_name f) s
  end.

(** RestrictedWrapper.__setitem__ / __delitem__ : restricted names are refused
    (RestrictedFieldError, an [Error] that is no ValueError: kind OtherError) *)
Definition wrapper_setitem (restricted : list str) (d : para) (k v : str) : result para :=
  if existsb (str_eqb (ascii_lower k)) restricted then Err OtherError
  else dset_checked d k v.

(** Boolean equalities used by the check files *)
Definition para_eqb : para -> para -> bool := list_eqb (pair_eqb str_eqb str_eqb).
Definition license_eqb (a b : license) : bool :=
  str_eqb (lic_synopsis a) (lic_synopsis b) && str_eqb (lic_text a) (lic_text b).
Definition fval_eqb (a b : fval) : bool :=
  match a, b with
  | VNone, VNone => true
  | VStr x, VStr y => str_eqb x y
  | VList x, VList y => strs_eqb x y
  | VLic x, VLic y => license_eqb x y
  | _, _ => false
  end.
