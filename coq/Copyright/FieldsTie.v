(** TIE BY REGENERATION (DESIGN §3.1b) for the field codecs of lib/debian/copyright.py.

    Gen/TrCopyrightFields.v is regenerated from the source on every run by harness/py2coq.py: the bodies of
    [_single_line], [_LineBased.from_str/to_str] (with its nested [process_and_validate]),
    [_SpaceSeparated.from_str/to_str], [format_multiline(_lines)], [parse_multiline(_as_lines)],
    [License.__new__/from_str/to_str] as the working tree has them now (for-loops as structural Fixpoints,
    [lines[i] = line] as [tr_set_index] with its IndexError, [l[0]] as [tr_index], [raise] as [Err]).
    This file proves each of them equal, on ALL inputs and including the exception kind, to the hand-written
    model function of Copyright/Fields.v that the theorems of Props/C17.v are about and that [agree] runs. *)
From Verif Require Import Lib.Base Lib.PyStr Lib.PySlice Lib.Tr Gen.PyChars.
From Verif Require Import Copyright.Fields Copyright.FieldsTrPrims Gen.TrCopyrightFields.
Local Open Scope Z_scope.

(** * small facts about the runtime *)
Lemma truthy_nonempty (v : str) : negb (tr_is_nil v) = nonempty v.
Proof. destruct v; reflexivity. Qed.

Lemma tr_opt_or_empty (s : option str) : tr_opt_or s [] = opt_or_empty s.
Proof. destruct s as [[|c v]|]; reflexivity. Qed.

Lemma filter_truthy (l : list str) :
  tr_filter (fun v => negb (tr_is_nil v)) l = filter nonempty l.
Proof. unfold tr_filter. apply filter_ext. intros v. apply truthy_nonempty. Qed.

Lemma tr_len_two {A} (a b : A) r : (tr_len (a :: b :: r) =? 1) = false.
Proof. unfold tr_len. apply Z.eqb_neq. cbn [length]. lia. Qed.

(** [line[1:]] of a non-empty string is its tail *)
Lemma tr_slice_tail {A} (c : A) r : tr_slice (c :: r) (Some 1) None = r.
Proof.
  unfold tr_slice, slice.
  rewrite !clamp_index_in_range by (cbn [length]; lia).
  rewrite Nat2Z.id. change (Z.to_nat 1) with 1%nat.
  cbn [length skipn]. rewrite Nat.sub_succ, Nat.sub_0_r. apply firstn_all.
Qed.

(** [l[i] = v] at a valid index *)
Lemma tr_set_nth_app {A} (done : list A) x rest v :
  tr_set_nth (done ++ x :: rest) (length done) v = Some (done ++ v :: rest).
Proof.
  induction done as [|d done IH]; cbn [app length tr_set_nth]; [reflexivity|].
  rewrite IH. reflexivity.
Qed.

Lemma tr_set_index_app {A} (done : list A) x rest v :
  tr_set_index (done ++ x :: rest) (Z.of_nat (length done)) v = Ok (done ++ v :: rest).
Proof.
  unfold tr_set_index. cbv zeta.
  assert (E : (Z.of_nat (length done) <? 0) = false) by (apply Z.ltb_ge; lia).
  rewrite E, E, Nat2Z.id, tr_set_nth_app. reflexivity.
Qed.

(** * _single_line *)
Lemma tr_single_line_eq s : tr_single_line s = single_line s.
Proof. reflexivity. Qed.

(** * _LineBased *)
Lemma tr_lb_from_str_eq s : tr_lb_from_str s = Ok (lb_from_str s).
Proof.
  unfold tr_lb_from_str, lb_from_str, trp_strip, trp_splitlines.
  rewrite map_id, filter_truthy, tr_opt_or_empty. reflexivity.
Qed.

Lemma tr_lb_item_eq s : tr_lb_item s = lb_item s.
Proof.
  unfold tr_lb_item, lb_item, trp_strip. cbv zeta.
  rewrite truthy_nonempty. reflexivity.
Qed.

Lemma tr_lb_to_str_loop_eq seq l : forall it tmp,
  tr_lb_to_str_loop1 it seq l tmp =
  (do vs <- mapM lb_item it; Ok (Some (join [LF] (tmp ++ map (fun v => SP :: v) vs)))).
Proof.
  induction it as [|a it IH]; intros tmp; cbn [tr_lb_to_str_loop1 mapM bind map].
  - rewrite app_nil_r. reflexivity.
  - cbv zeta. rewrite tr_lb_item_eq. destruct (lb_item a) as [v|e]; cbn [bind]; [|reflexivity].
    rewrite IH. destruct (mapM lb_item it) as [vs|e]; cbn [bind map]; [|reflexivity].
    rewrite <- app_assoc. reflexivity.
Qed.

Lemma tr_lb_to_str_eq seq : tr_lb_to_str seq = lb_to_str seq.
Proof.
  unfold tr_lb_to_str, lb_to_str. cbv zeta.
  destruct seq as [|a [|b r]].
  - reflexivity.
  - cbn [tr_is_nil negb]. change (tr_len [a] =? 1) with true. cbv iota.
    change (tr_index [a] 0) with (Ok a). cbn [bind]. rewrite tr_lb_item_eq. reflexivity.
  - cbn [tr_is_nil negb]. rewrite tr_len_two. apply tr_lb_to_str_loop_eq.
Qed.

(** * _SpaceSeparated *)
Lemma tr_ss_from_str_eq s : tr_ss_from_str s = Ok (ss_from_str s).
Proof.
  unfold tr_ss_from_str, ss_from_str, trp_split.
  rewrite map_id, filter_truthy, tr_opt_or_empty. reflexivity.
Qed.

Lemma tr_ss_to_str_loop_eq seq l : forall it tmp,
  tr_ss_to_str_loop1 it seq l tmp =
  (do vs <- mapM ss_item it; Ok (Some (join [SP] (tmp ++ vs)))).
Proof.
  induction it as [|a it IH]; intros tmp; cbn [tr_ss_to_str_loop1 mapM bind].
  - rewrite app_nil_r. reflexivity.
  - cbv zeta. unfold ss_item at 1, trp_has_space, trp_strip.
    destruct (existsb py_isspace a); cbn [bind]; [reflexivity|]. cbv zeta.
    rewrite truthy_nonempty.
    destruct (nonempty (py_strip a)); cbn [negb bind]; [|reflexivity].
    rewrite IH. destruct (mapM ss_item it) as [vs|e]; cbn [bind]; [|reflexivity].
    rewrite <- app_assoc. reflexivity.
Qed.

Lemma tr_ss_to_str_eq seq : tr_ss_to_str seq = ss_to_str seq.
Proof.
  unfold tr_ss_to_str, ss_to_str. cbv zeta.
  destruct seq as [|a r]; [reflexivity|].
  cbn [tr_is_nil negb]. rewrite tr_ss_to_str_loop_eq. reflexivity.
Qed.

(** * format_multiline_lines / format_multiline *)
Lemma tr_format_multiline_lines_loop_eq lines : forall it i out,
  0 < i ->
  tr_format_multiline_lines_loop1 (tr_enumerate_from i it) lines out =
  Ok (join [LF] (out ++ map enc_cont it)).
Proof.
  induction it as [|line it IH]; intros i out Hi;
    cbn [tr_enumerate_from tr_format_multiline_lines_loop1 map].
  - rewrite app_nil_r. reflexivity.
  - cbv zeta.
    assert (E : (i =? 0) = false) by (apply Z.eqb_neq; lia).
    rewrite E. cbn [negb]. unfold trp_strip. rewrite truthy_nonempty.
    unfold enc_cont.
    destruct (nonempty (py_strip line)); cbn [negb];
      rewrite IH by lia; rewrite <- app_assoc; reflexivity.
Qed.

Lemma tr_format_multiline_lines_eq lines :
  tr_format_multiline_lines lines = Ok (format_multiline_lines lines).
Proof.
  unfold tr_format_multiline_lines, format_multiline_lines, tr_enumerate. cbv zeta.
  destruct lines as [|l r]; [reflexivity|].
  cbn [tr_enumerate_from tr_format_multiline_lines_loop1]. cbv zeta.
  change (0 =? 0) with true. cbn [negb].
  rewrite tr_format_multiline_lines_loop_eq by lia. reflexivity.
Qed.

Lemma tr_format_multiline_eq s : tr_format_multiline s = Ok (format_multiline s).
Proof.
  unfold tr_format_multiline, format_multiline, trp_splitlines.
  destruct s as [v|]; [|reflexivity].
  rewrite tr_format_multiline_lines_eq. reflexivity.
Qed.

(** * parse_multiline_as_lines / parse_multiline *)
Lemma startswith_sp line :
  trp_startswith line [SP] = match line with c :: _ => (c =? SP)%N | [] => false end.
Proof.
  unfold trp_startswith. destruct line as [|c r]; cbn [startswith]; [reflexivity|].
  rewrite andb_true_r. apply N.eqb_sym.
Qed.

Lemma tr_parse_multiline_as_lines_loop_eq s : forall rest done i,
  i = Z.of_nat (length done) -> 0 < i ->
  tr_parse_multiline_as_lines_loop1 (tr_enumerate_from i rest) s (done ++ rest) =
  (do r' <- mapM dec_cont rest; Ok (done ++ r')).
Proof.
  induction rest as [|line rest IH]; intros done i Hi Hpos;
    cbn [tr_enumerate_from tr_parse_multiline_as_lines_loop1 mapM bind].
  - reflexivity.
  - cbv zeta.
    assert (E : (i =? 0) = false) by (apply Z.eqb_neq; lia).
    rewrite E. change [32%N] with [SP]. rewrite startswith_sp.
    destruct line as [|c r]; [reflexivity|]. cbn [dec_cont].
    destruct (c =? SP)%N; [|reflexivity]. cbn [bind].
    rewrite tr_slice_tail. change [46%N] with [DOT].
    assert (S : forall v : str,
      (do t <- tr_set_index (done ++ (c :: r) :: rest) i v;
       (let lines := t in tr_parse_multiline_as_lines_loop1 (tr_enumerate_from (i + 1) rest) s lines))
      = (do r' <- (do bs <- mapM dec_cont rest; Ok (v :: bs)); Ok (done ++ r'))).
    { intros v. subst i. rewrite tr_set_index_app. cbn [bind]. cbv zeta.
      replace (done ++ v :: rest) with ((done ++ [v]) ++ rest) by (rewrite <- app_assoc; reflexivity).
      rewrite IH by (rewrite ?app_length; cbn [length]; lia).
      destruct (mapM dec_cont rest) as [bs|e]; cbn [bind]; [|reflexivity].
      rewrite <- app_assoc. reflexivity. }
    destruct (str_eqb r [DOT]); apply S.
Qed.

Lemma tr_parse_multiline_as_lines_eq s :
  tr_parse_multiline_as_lines s = parse_multiline_as_lines s.
Proof.
  unfold tr_parse_multiline_as_lines, parse_multiline_as_lines, trp_splitlines, tr_enumerate. cbv zeta.
  destruct (py_splitlines s) as [|l r]; [reflexivity|].
  cbn [tr_enumerate_from tr_parse_multiline_as_lines_loop1]. cbv zeta.
  change (0 =? 0) with true. cbv iota.
  change (l :: r) with ([l] ++ r) at 1.
  rewrite (tr_parse_multiline_as_lines_loop_eq s r [l] (0 + 1)) by (cbn [length]; lia).
  reflexivity.
Qed.

Lemma tr_parse_multiline_eq s : tr_parse_multiline s = parse_multiline s.
Proof.
  unfold tr_parse_multiline, parse_multiline, trp_join.
  destruct s as [v|]; [|reflexivity].
  rewrite tr_parse_multiline_as_lines_eq. reflexivity.
Qed.

(** * License *)
Lemma tr_license_new_eq synopsis text : tr_license_new synopsis text = mk_license synopsis text.
Proof.
  unfold tr_license_new, mk_license, trp_license_tuple_new.
  rewrite tr_single_line_eq, tr_opt_or_empty. reflexivity.
Qed.

(** [License(synopsis)]: the default of [text] is taken from the source *)
Lemma tr_license_new1_eq synopsis : tr_license_new1 synopsis = mk_license synopsis (Some []).
Proof.
  unfold tr_license_new1, mk_license, trp_license_tuple_new. cbv zeta.
  rewrite tr_single_line_eq, tr_opt_or_empty. reflexivity.
Qed.

Lemma tr_license_from_str_eq s : tr_license_from_str s = lic_from_str s.
Proof.
  unfold tr_license_from_str, lic_from_str, trp_join.
  destruct s as [v|]; [|reflexivity].
  rewrite tr_parse_multiline_as_lines_eq.
  destruct (parse_multiline_as_lines v) as [[|l0 r]|e]; cbn [bind]; cbv zeta; [| |reflexivity].
  - cbn [tr_is_nil negb]. rewrite tr_license_new1_eq. reflexivity.
  - cbn [tr_is_nil negb]. change (tr_index (l0 :: r) 0) with (Ok l0). cbn [bind].
    change (trp_islice (l0 :: r) 1 None) with (Ok r). cbn [bind].
    rewrite tr_license_new_eq. reflexivity.
Qed.

Lemma tr_license_to_str_eq l : tr_license_to_str l = Ok (lic_to_str l).
Proof.
  unfold tr_license_to_str, lic_to_str, trp_license_synopsis, trp_license_text, trp_splitlines.
  cbn [app]. rewrite tr_format_multiline_lines_eq. reflexivity.
Qed.
