(** MODEL (C17): the document level of lib/debian/copyright.py, on top of the field
    machinery of Copyright/Fields.v and the deb822 reader/writer of Deb822/Model.v.

      Header.__init__ (Format-Specification rewrite, format URL repair)      [header_init]
      Header / FilesParagraph / LicenseParagraph RestrictedField tables      [hfield] [f_*] [l_*]
      FilesParagraph.__init__ / .create, LicenseParagraph.__init__ / .create [files_para_init] [files_create] ...
      Copyright.__init__ (paragraph classification, strict / non strict)     [copyright_parse]
      Copyright.add_files_paragraph / add_license_paragraph                  [add_files] [add_para]
      Copyright.dump                                                         [cdump]
      reading every property of every paragraph                              [doc_view]

    A paragraph is its wrapped Deb822 mapping ([Fields.para] = association list, the
    same representation as [Deb822.Model.dict]).  No proofs in this file. *)
From Coq Require Import String.
From Verif Require Import Lib.Base Lib.PyStr Lib.Dec Gen.PyChars Gen.CopyrightConsts Copyright.Fields.
From Verif Require Deb822.Model.

Local Open Scope string_scope.
Definition FORMAT : str := Eval vm_compute in dec "Format".
Definition FORMAT_SPEC : str := Eval vm_compute in dec "Format-Specification".
Definition UPSTREAM_NAME : str := Eval vm_compute in dec "Upstream-Name".
Definition UPSTREAM_CONTACT : str := Eval vm_compute in dec "Upstream-Contact".
Definition SOURCE : str := Eval vm_compute in dec "Source".
Definition DISCLAIMER : str := Eval vm_compute in dec "Disclaimer".
Definition COMMENT : str := Eval vm_compute in dec "Comment".
Definition LICENSE : str := Eval vm_compute in dec "License".
Definition COPYRIGHT : str := Eval vm_compute in dec "Copyright".
Definition FILES_EXCLUDED : str := Eval vm_compute in dec "Files-Excluded".
Definition FILES_INCLUDED : str := Eval vm_compute in dec "Files-Included".
Definition FILES : str := Eval vm_compute in dec "Files".
Definition s_http : str := Eval vm_compute in dec "http:".
Definition s_https : str := Eval vm_compute in dec "https:".
Definition SLASH : N := 47.
Local Close Scope string_scope.

(** * RestrictedField tables *)

(** Header *)
Definition h_format := mkField FORMAT FromNone ToSingleLine false.
Definition h_upstream_name := mkField UPSTREAM_NAME FromNone ToSingleLine true.
Definition h_upstream_contact := mkField UPSTREAM_CONTACT FromLineBased ToLineBased true.
Definition h_source := mkField SOURCE FromNone ToNone true.
Definition h_disclaimer := mkField DISCLAIMER FromNone ToNone true.
Definition h_comment := mkField COMMENT FromNone ToNone true.
Definition h_license := mkField LICENSE FromLicense ToLicense true.
Definition h_copyright := mkField COPYRIGHT FromNone ToNone true.
Definition h_files_excluded := mkField FILES_EXCLUDED FromLineBased ToLineBased true.
Definition h_files_included := mkField FILES_INCLUDED FromLineBased ToLineBased true.

Definition header_fields : list rfield :=
  [h_format; h_upstream_name; h_upstream_contact; h_source; h_disclaimer; h_comment;
   h_license; h_copyright; h_files_excluded; h_files_included].

(** the i-th property of Header, in the order above (the harness uses the same order) *)
Definition hfield (i : N) : result rfield :=
  match nth_error header_fields (N.to_nat i) with Some f => Ok f | None => Err OtherError end.

(** FilesParagraph *)
Definition f_files := mkField FILES FromSpaceSep ToSpaceSep false.
Definition f_copyright := mkField COPYRIGHT FromNone ToNone false.
Definition f_license := mkField LICENSE FromLicense ToLicense false.
Definition f_comment := mkField COMMENT FromNone ToNone true.
Definition files_fields : list rfield := [f_files; f_copyright; f_license; f_comment].

(** LicenseParagraph ('Files' is declared only to hide it) *)
Definition l_license := mkField LICENSE FromLicense ToLicense false.
Definition l_comment := mkField COMMENT FromNone ToNone true.
Definition l_files := mkField FILES FromNone ToNone true.
Definition license_fields : list rfield := [l_license; l_comment].

(** [cls.__restricted_fields]: lower-cased names *)
Definition restricted_of (fs : list rfield) : list str := map (fun f => ascii_lower (rf_name f)) fs.
Definition header_restricted : list str := restricted_of header_fields.
Definition files_restricted : list str := restricted_of files_fields.
Definition license_restricted : list str := restricted_of (license_fields ++ [l_files]).

(** * Header.__init__ *)

(** the URL repair: terminal slash, http -> https *)
Definition fix_format (fmt : str) : str :=
  let f1 := if endswith [SLASH] fmt then fmt else fmt ++ [SLASH] in
  if startswith s_http f1 then s_https ++ skipn 5 f1 else f1.

Definition is_known (fmt : str) : bool := existsb (str_eqb fmt) KNOWN_FORMATS.

(** [Header(data)]; [None] = no argument.  NotMachineReadableError has kind FormatError. *)
Definition header_init (data : option para) : result para :=
  do d0 <- match data with
           | None => dset_checked [] FORMAT CURRENT_FORMAT
           | Some d => Ok d
           end;
  do d1 <- (if dcontains d0 FORMAT_SPEC then
              do v <- dgetitem d0 FORMAT_SPEC;
              do d' <- dset_checked d0 FORMAT v;
              ddel d' FORMAT_SPEC
            else Ok d0);
  match dget d1 FORMAT with
  | None => Err FormatError
  | Some fmt =>
      if str_eqb fmt CURRENT_FORMAT then Ok d1
      else
        let fmt' := fix_format fmt in
        if is_known fmt' then setter h_format (VStr fmt') d1 else Ok d1
  end.

(** * Paragraph constructors *)

(** [_complain(msg, strict)] *)
Definition complain (strict : bool) : result unit :=
  if strict then Err FormatError else Ok tt.

Definition is_nil {A} (l : list A) : bool := match l with [] => true | _ => false end.

(** [FilesParagraph(data, _internal_validate, strict)] (validation only; the data is kept as is) *)
Definition files_para_init (d : para) (validate strict : bool) : result unit :=
  if validate then
    if negb (dcontains d FILES) then Err FormatError
    else
      do _ <- (if negb (dcontains d COPYRIGHT) then complain strict else Ok tt);
      do _ <- (if negb (dcontains d LICENSE) then complain strict else Ok tt);
      if is_nil (ss_from_str (dget d FILES)) then complain strict else Ok tt
  else Ok tt.

(** [LicenseParagraph(data, _internal_validate)] *)
Definition license_para_init (d : para) (validate : bool) : result unit :=
  if validate then
    if negb (dcontains d LICENSE) then Err FormatError
    else if dcontains d FILES then Err FormatError
    else Ok tt
  else Ok tt.

(** Values as the caller writes them: a License is built by its constructor, which can raise *)
Inductive bval :=
| BNone
| BStr (s : str)
| BList (l : list str)
| BLic (synopsis : str) (text : option str).

Definition bval_eval (v : bval) : result fval :=
  match v with
  | BNone => Ok VNone
  | BStr s => Ok (VStr s)
  | BList l => Ok (VList l)
  | BLic s t => do l <- mk_license s t; Ok (VLic l)
  end.

(** [FilesParagraph.create(files, copyright, license)] on already evaluated arguments *)
Definition files_create (files copyright license : fval) : result para :=
  do d1 <- setter f_files files [];
  do d2 <- setter f_copyright copyright d1;
  setter f_license license d2.

(** [LicenseParagraph.create(license)]: isinstance check first *)
Definition license_create (license : fval) : result para :=
  match license with
  | VLic _ => setter l_license license []
  | _ => Err TypeError
  end.

(** * Copyright *)
Inductive cpara :=
| CFiles (d : para)
| CLicense (d : para).

Definition cp_data (p : cpara) : para := match p with CFiles d | CLicense d => d end.
Definition is_files (p : cpara) : bool := match p with CFiles _ => true | CLicense _ => false end.

Record cdoc := mkDoc { cd_header : para; cd_paras : list cpara }.

(** [add_files_paragraph]: directly after the last FilesParagraph (at the front when there is none) *)
Fixpoint add_files (ps : list cpara) (p : cpara) : list cpara :=
  match ps with
  | [] => [p]
  | x :: r =>
      if existsb is_files r then x :: add_files r p
      else if is_files x then x :: p :: r
      else p :: x :: r
  end.

Definition add_para (ps : list cpara) (p : cpara) : list cpara :=
  match p with
  | CFiles _ => add_files ps p
  | CLicense _ => ps ++ [p]
  end.

(** the loop of [Copyright.__init__] over paragraphs[1:]; note the call
    [FilesParagraph(p, strict)]: the second positional parameter is _internal_validate,
    the paragraph's own [strict] keeps its default True *)
Fixpoint classify_all (strict : bool) (ps : list para) : result (list cpara) :=
  match ps with
  | [] => Ok []
  | p :: r =>
      if dcontains p FILES then
        do _ <- files_para_init p strict true;
        do r' <- classify_all strict r; Ok (CFiles p :: r')
      else if dcontains p LICENSE then
        do _ <- license_para_init p strict;
        do r' <- classify_all strict r; Ok (CLicense p :: r')
      else
        do _ <- complain strict;
        classify_all strict r
  end.

(** [Copyright(sequence, strict=strict)] *)
Definition copyright_parse (strict : bool) (i : Model.input) : result cdoc :=
  do ps <- Model.iter_paragraphs Model.CDeb822 true i;
  match ps with
  | [] => Err FormatError                                  (* NotMachineReadableError *)
  | h :: rest =>
      do hd <- header_init (Some h);
      do ps' <- classify_all strict rest;
      Ok (mkDoc hd ps')
  end.

(** [Copyright.dump()] *)
Definition cdump (c : cdoc) : str :=
  Model.dump (cd_header c) ++ concat (map (fun p => LF :: Model.dump (cp_data p)) (cd_paras c)).

(** * Building a document through the public API *)
Inductive hop :=
| HSet (field : N) (v : bval)        (* c.header.<property> = v *)
| HItem (k v : str).                 (* c.header[k] = v *)

Definition header_step (d : para) (o : hop) : result para :=
  match o with
  | HSet i v => do f <- hfield i; do x <- bval_eval v; setter f x d
  | HItem k v => wrapper_setitem header_restricted d k v
  end.

Fixpoint header_run (d : para) (ops : list hop) : result para :=
  match ops with
  | [] => Ok d
  | o :: r => do d' <- header_step d o; header_run d' r
  end.

Inductive pspec :=
| SFiles (files copyright license comment : bval)
| SLicense (license comment : bval).

(** arguments are evaluated (the License constructed) before the call *)
Definition build_para (s : pspec) : result cpara :=
  match s with
  | SFiles f c l cm =>
      do lv <- bval_eval l; do fv <- bval_eval f; do cv <- bval_eval c;
      do d <- files_create fv cv lv;
      do cmv <- bval_eval cm;
      do d' <- setter f_comment cmv d;
      Ok (CFiles d')
  | SLicense l cm =>
      do lv <- bval_eval l;
      do d <- license_create lv;
      do cmv <- bval_eval cm;
      do d' <- setter l_comment cmv d;
      Ok (CLicense d')
  end.

Fixpoint add_all (ps : list cpara) (specs : list pspec) : result (list cpara) :=
  match specs with
  | [] => Ok ps
  | s :: r => do p <- build_para s; add_all (add_para ps p) r
  end.

(** c = Copyright(); header operations; then every paragraph is created and added *)
Definition build_doc (hops : list hop) (specs : list pspec) : result cdoc :=
  do h0 <- header_init None;
  do h <- header_run h0 hops;
  do ps <- add_all [] specs;
  Ok (mkDoc h ps).

(** * Reading a document back: every property of every paragraph
      (the raw fields are observed through the dump) *)
Record pview := mkView {
  pv_files : bool;                      (* FilesParagraph / LicenseParagraph (header: false) *)
  pv_vals : list (result fval)          (* the properties, in table order *)
}.

Definition view_of (isf : bool) (fs : list rfield) (d : para) : pview :=
  mkView isf (map (fun f => getter f d) fs).

Definition para_view (p : cpara) : pview :=
  match p with
  | CFiles d => view_of true files_fields d
  | CLicense d => view_of false license_fields d
  end.

Definition doc_view (c : cdoc) : list pview :=
  view_of false header_fields (cd_header c) :: map para_view (cd_paras c).

(** * The input forms handed to Copyright() when re-reading a dumped text *)
Definition input_of_text (form : N) (t : str) : Model.input :=
  match form with
  | 0%N => Model.InStr t                               (* the str itself *)
  | 2%N => Model.InLines (Model.file_lines t)          (* list of lines with line ends *)
  | 3%N => Model.InLines (split_on LF t)               (* text.split('\n') *)
  | _ => Model.InFile t                                (* io.StringIO(text) *)
  end.

(** What a document case computes *)
Inductive docrun :=
| RBuildErr (e : err)
| RParseErr (dump1 : str) (v1 : list pview) (e : err)
| RDone (dump1 : str) (v1 : list pview) (v2 : list pview) (dump2 : str).

Definition run_doc (hops : list hop) (specs : list pspec) (form : N) (strict : bool) : docrun :=
  match build_doc hops specs with
  | Err e => RBuildErr e
  | Ok c1 =>
      let t1 := cdump c1 in
      match copyright_parse strict (input_of_text form t1) with
      | Err e => RParseErr t1 (doc_view c1) e
      | Ok c2 => RDone t1 (doc_view c1) (doc_view c2) (cdump c2)
      end
  end.

(** Copyright(text) on an arbitrary text, all properties read, dumped *)
Definition run_parse (form : N) (strict : bool) (t : str) : result (list pview * str) :=
  do c <- copyright_parse strict (input_of_text form t);
  Ok (doc_view c, cdump c).
