(** Case format evaluated by the correspondence check of C17.
    [agree]: the model (Copyright/Fields.v, Copyright/Doc.v over Deb822/Model.v) reproduces
             what the implementation did.
    [holds]: the property itself, judged on what the implementation did, against
             Copyright/DocSpec.v (domains and expected values; never against the model). *)
From Coq Require Import String.
From Verif Require Import Lib.Base Lib.Dec Lib.PyStr Gen.PyChars
  Copyright.Fields Copyright.Doc Copyright.DocSpec Copyright.DocBridge.

(** * Case syntax (strings are the escaped literals of Lib/Dec.v) *)
Definition spair := (string * string)%type.

Inductive ival :=
| INone
| IStr (s : string)
| IList (l : list string)
| ILic (synopsis : string) (text : option string).

Inductive ihop :=
| IHSet (field : N) (v : ival)
| IHItem (k v : string).

Inductive ipspec :=
| IFiles (files copyright license comment : ival)
| ILicense (license comment : ival).

(** an observed property value *)
Inductive oval :=
| ONone
| OStr (s : string)
| OList (l : list string)
| OLic (synopsis text : string)
| OErr (e : err).

Record oview := mkOV { ov_files : bool; ov_vals : list oval }.

(** [ODone dump1 v1 None]: the re-read document showed exactly the same values and the
    second dump was identical (the harness compares them and does not repeat the text);
    [ODone dump1 v1 (Some (v2, dump2))] with [v2], [dump2] equal to [v1], [dump1] says the same *)
Inductive docobs :=
| OBuildErr (e : err)
| OParseErr (dump1 : string) (v1 : list oview) (e : err)
| ODone (dump1 : string) (v1 : list oview) (again : option (list oview * string)).

Inductive case :=
  (* format_multiline_lines(ls) = enc ; parse_multiline_as_lines(enc) = back *)
| KLines (ls : list string) (enc : string) (back : result (list string))
  (* format_multiline(s) = enc ; parse_multiline(enc) = back *)
| KText (s : option string) (enc : option string) (back : result (option string))
  (* parse_multiline_as_lines(s) on an arbitrary text *)
| KParse (s : string) (r : result (list string))
  (* l = License(syn, text) ; l.to_str() ; License.from_str(l.to_str()) *)
| KLic (syn : string) (text : option string) (obs : result (string * result (option spair)))
  (* License.from_str(s) on an arbitrary text *)
| KLicFrom (s : option string) (r : result (option spair))
  (* _SpaceSeparated.to_str(l) = enc ; from_str(enc, or None after an error) = back *)
| KSS (l : list string) (enc : result (option string)) (back : list string)
  (* _SpaceSeparated.from_str(s) = l ; to_str(l) = enc ; from_str(enc) = l2 *)
| KSSFrom (s : option string) (l : list string) (enc : result (option string)) (l2 : list string)
| KLB (l : list string) (enc : result (option string)) (back : list string)
| KLBFrom (s : option string) (l : list string) (enc : result (option string)) (l2 : list string)
  (* a document built through the API, dumped, re-read in input form [form], read back, dumped *)
| KDoc (hops : list ihop) (specs : list ipspec) (form : N) (strict : bool) (obs : docobs)
  (* Copyright(<text in form [form]>, strict) on an arbitrary text *)
| KParseDoc (text : string) (form : N) (strict : bool) (obs : result (list oview * string)).

(** * Decoding *)
Definition dopt (o : option string) : option str := option_map dec o.
Definition dstrs (l : list string) : list str := map dec l.
Definition dpair (p : spair) : str * str := (dec (fst p), dec (snd p)).
Definition dres {A B} (f : A -> B) (r : result A) : result B :=
  match r with Ok a => Ok (f a) | Err e => Err e end.

Definition sval_of (v : ival) : sval :=
  match v with
  | INone => SNone
  | IStr s => SStr (dec s)
  | IList l => SList (dstrs l)
  | ILic s t => SLic (dec s) (dopt t)
  end.
Definition shop_of (o : ihop) : shop :=
  match o with IHSet i v => SHSet i (sval_of v) | IHItem k v => SHItem (dec k) (dec v) end.
Definition spara_of (p : ipspec) : spara :=
  match p with
  | IFiles f c l cm => PFiles (sval_of f) (sval_of c) (sval_of l) (sval_of cm)
  | ILicense l cm => PLicense (sval_of l) (sval_of cm)
  end.

(** the model is run on the same values, through Copyright/DocBridge.v *)
Definition hop_of (o : ihop) : hop := hop_of_shop (shop_of o).
Definition pspec_of (p : ipspec) : pspec := pspec_of_spara (spara_of p).

Definition fval_of (o : oval) : result fval :=
  match o with
  | ONone => Ok VNone
  | OStr s => Ok (VStr (dec s))
  | OList l => Ok (VList (dstrs l))
  | OLic s t => Ok (VLic (mkLic (dec s) (dec t)))
  | OErr e => Err e
  end.
Definition pview_of (o : oview) : pview :=
  mkView (ov_files o) (map fval_of (ov_vals o)).

(** * Equalities *)
Definition pview_eqb (a b : pview) : bool :=
  Bool.eqb (pv_files a) (pv_files b)
  && list_eqb (result_eqb fval_eqb) (pv_vals a) (pv_vals b).
Definition views_eqb : list pview -> list pview -> bool := list_eqb pview_eqb.

Definition ostr_eqb : option str -> option str -> bool := option_eqb str_eqb.
Definition olic_eqb (a : option license) (b : option (str * str)) : bool :=
  match a, b with
  | Some l, Some (s, t) => str_eqb (lic_synopsis l) s && str_eqb (lic_text l) t
  | None, None => true
  | _, _ => false
  end.
Definition rolic_eqb (a : result (option license)) (b : result (option spair)) : bool :=
  match a, b with
  | Ok x, Ok y => olic_eqb x (option_map dpair y)
  | Err e, Err f => err_eqb e f
  | _, _ => false
  end.

Definition docrun_agrees (m : docrun) (o : docobs) : bool :=
  match m, o with
  | RBuildErr e, OBuildErr f => err_eqb e f
  | RParseErr d1 v1 e, OParseErr od1 ov1 f =>
      str_eqb d1 (dec od1) && views_eqb v1 (map pview_of ov1) && err_eqb e f
  | RDone d1 v1 v2 d2, ODone od1 ov1 again =>
      str_eqb d1 (dec od1) && views_eqb v1 (map pview_of ov1)
      && match again with
         | None => views_eqb v2 v1 && str_eqb d2 d1
         | Some (ov2, od2) => views_eqb v2 (map pview_of ov2) && str_eqb d2 (dec od2)
         end
  | _, _ => false
  end.

Definition enc_or_none (r : result (option string)) : option str :=
  match r with Ok o => dopt o | Err _ => None end.

(** * The correspondence *)
Definition agree (c : case) : bool :=
  match c with
  | KLines ls enc back =>
      str_eqb (format_multiline_lines (dstrs ls)) (dec enc)
      && result_eqb strs_eqb (parse_multiline_as_lines (dec enc)) (dres dstrs back)
  | KText s enc back =>
      ostr_eqb (format_multiline (dopt s)) (dopt enc)
      && result_eqb ostr_eqb (parse_multiline (dopt enc)) (dres dopt back)
  | KParse s r =>
      result_eqb strs_eqb (parse_multiline_as_lines (dec s)) (dres dstrs r)
  | KLic syn text obs =>
      match mk_license (dec syn) (dopt text), obs with
      | Err e, Err f => err_eqb e f
      | Ok l, Ok (enc, back) =>
          str_eqb (lic_to_str l) (dec enc) && rolic_eqb (lic_from_str (Some (dec enc))) back
      | _, _ => false
      end
  | KLicFrom s r => rolic_eqb (lic_from_str (dopt s)) r
  | KSS l enc back =>
      result_eqb ostr_eqb (ss_to_str (dstrs l)) (dres dopt enc)
      && strs_eqb (ss_from_str (enc_or_none enc)) (dstrs back)
  | KSSFrom s l enc l2 =>
      strs_eqb (ss_from_str (dopt s)) (dstrs l)
      && result_eqb ostr_eqb (ss_to_str (dstrs l)) (dres dopt enc)
      && strs_eqb (ss_from_str (enc_or_none enc)) (dstrs l2)
  | KLB l enc back =>
      result_eqb ostr_eqb (lb_to_str (dstrs l)) (dres dopt enc)
      && strs_eqb (lb_from_str (enc_or_none enc)) (dstrs back)
  | KLBFrom s l enc l2 =>
      strs_eqb (lb_from_str (dopt s)) (dstrs l)
      && result_eqb ostr_eqb (lb_to_str (dstrs l)) (dres dopt enc)
      && strs_eqb (lb_from_str (enc_or_none enc)) (dstrs l2)
  | KDoc hops specs form strict obs =>
      docrun_agrees (run_doc (map hop_of hops) (map pspec_of specs) form strict) obs
  | KParseDoc text form strict obs =>
      match run_parse form strict (dec text), obs with
      | Ok (v, d), Ok (ov, od) => views_eqb v (map pview_of ov) && str_eqb d (dec od)
      | Err e, Err f => err_eqb e f
      | _, _ => false
      end
  end.

(** * The property *)

(** an observed value is the expected one *)
Definition oval_is (o : oval) (s : sval) : bool :=
  match o, s with
  | ONone, SNone => true
  | OStr x, SStr y => str_eqb (dec x) y
  | OList x, SList y => strs_eqb (dstrs x) y
  | OLic syn t, SLic syn' (Some t') => str_eqb (dec syn) syn' && str_eqb (dec t) t'
  | _, _ => false
  end.

Fixpoint list_eqb2 {A B} (f : A -> B -> bool) (l1 : list A) (l2 : list B) : bool :=
  match l1, l2 with
  | [], [] => true
  | a :: l1, b :: l2 => f a b && list_eqb2 f l1 l2
  | _, _ => false
  end.

Definition oview_is (o : oview) (e : bool * list sval) : bool :=
  Bool.eqb (ov_files o) (fst e) && list_eqb2 oval_is (ov_vals o) (snd e).

(** the re-read half of a document observation is the first half: either abbreviated by the
    harness ([None]) or written out in full and equal to it (same values, same text) — the
    spelling of a redundant value does not matter to the judgement *)
Definition again_same (d1 : string) (v1 : list oview) (again : option (list oview * string)) : bool :=
  match again with
  | None => true
  | Some (v2, d2) => views_eqb (map pview_of v2) (map pview_of v1) && str_eqb (dec d2) (dec d1)
  end.

Definition holds (c : case) : bool :=
  match c with
  | KLines ls _ back =>
      let l := dstrs ls in
      if ml_dom l then result_eqb strs_eqb (dres dstrs back) (Ok l) else true
  | KText s enc back =>
      match s with
      | None => is_empty (match enc with None => [] | Some _ => [tt] end)
                && result_eqb ostr_eqb (dres dopt back) (Ok None)
      | Some t => if text_dom (dec t) then result_eqb ostr_eqb (dres dopt back) (Ok (Some (dec t))) else true
      end
  | KParse _ _ => true
  | KLic syn text obs =>
      if lic_dom (dec syn) (otext (dopt text)) then
        match obs with
        | Ok (_, Ok (Some (s, t))) => str_eqb (dec s) (dec syn) && str_eqb (dec t) (otext (dopt text))
        | _ => false
        end
      else true
  | KLicFrom _ _ => true
  | KSS l enc back =>
      if ss_dom (dstrs l) then is_ok enc && strs_eqb (dstrs back) (dstrs l) else true
  | KSSFrom _ l enc l2 => is_ok enc && strs_eqb (dstrs l2) (dstrs l)
  | KLB l enc back =>
      if lb_dom (dstrs l) then is_ok enc && strs_eqb (dstrs back) (dstrs l) else true
  | KLBFrom _ l enc l2 => is_ok enc && strs_eqb (dstrs l2) (dstrs l)
  | KDoc hops specs form strict obs =>
      let sps := map spara_of specs in
      if wf_copyright (map shop_of hops) sps then
        match obs with
        | ODone d1 v1 again =>
            again_same d1 v1 again              (* same paragraphs, same values, identical second dump *)
            && list_eqb2 oview_is (tl v1) (map expected_vals (expected_order sps))
                                                (* ... and they are what was put in *)
        | _ => false
        end
      else if wf_copyright_weak (map shop_of hops) sps then
        (* license lines that are whitespace-only or a lone '.' read back as empty lines, but the
           document survives: same values before and after, identical second dump, and the
           paragraph kinds in the expected order *)
        match obs with
        | ODone d1 v1 again =>
            again_same d1 v1 again
            && list_eqb Bool.eqb (map ov_files (tl v1)) (map is_pfiles (expected_order sps))
        | _ => false
        end
      else true
  | KParseDoc _ _ _ _ => true
  end.

Definition bad_agree (cs : list case) : list N := bad agree cs.
Definition bad_holds (cs : list case) : list N := bad holds cs.

(** Is the case inside the domain on which [holds] judges anything?  (statistics only) *)
Definition in_domain (c : case) : bool :=
  match c with
  | KLines ls _ _ => ml_dom (dstrs ls)
  | KText s _ _ => match s with None => true | Some t => text_dom (dec t) end
  | KLic syn text _ => lic_dom (dec syn) (otext (dopt text))
  | KSS l _ _ => ss_dom (dstrs l)
  | KLB l _ _ => lb_dom (dstrs l)
  | KSSFrom _ _ _ _ | KLBFrom _ _ _ _ => true
  | KDoc hops specs _ _ _ => wf_copyright_weak (map shop_of hops) (map spara_of specs)
  | KParse _ _ | KLicFrom _ _ | KParseDoc _ _ _ _ => false
  end.
Definition count_in_domain (cs : list case) : N := N.of_nat (List.length (filter in_domain cs)).
