(** SPEC for C16: the textbook recursive glob matcher of the machine-readable
    copyright format (copyright-format/1.0, "Files" field):

      *   matches any run of characters, '/' included
      ?   matches exactly one character
      \*  \?  \\   match a literal star, question mark, backslash
      any other backslash sequence (and a backslash at the very end) is an error

    Written directly on the pattern text; knows nothing about regular expressions.
    The harness validates this file against a matcher written independently in
    Python (spec_selftest), not against /repo. *)
From Verif Require Import Lib.Base Lib.PyStr Gen.PyChars.

Definition g_star : N := 42.
Definition g_qmark : N := 63.
Definition g_bslash : N := 92.

Definition escapable (c : N) : bool :=
  (c =? g_star)%N || (c =? g_qmark)%N || (c =? g_bslash)%N.

(** Is the pattern well formed? *)
Fixpoint glob_valid (g : str) : bool :=
  match g with
  | [] => true
  | c :: g' =>
      if (c =? g_bslash)%N then
        match g' with
        | [] => false
        | e :: g'' => escapable e && glob_valid g''
        end
      else glob_valid g'
  end.

(** Does the (well-formed) pattern match the whole name?  Ill-formed patterns match nothing. *)
Fixpoint glob_match (g : str) : str -> bool :=
  match g with
  | [] => fun n => match n with [] => true | _ => false end
  | c :: g' =>
      if (c =? g_star)%N then
        fix star (n : str) : bool :=
          glob_match g' n || match n with _ :: n' => star n' | [] => false end
      else if (c =? g_qmark)%N then
        fun n => match n with _ :: n' => glob_match g' n' | [] => false end
      else if (c =? g_bslash)%N then
        match g' with
        | [] => fun _ => false
        | e :: g'' =>
            if escapable e
            then fun n => match n with x :: n' => (x =? e)%N && glob_match g'' n' | [] => false end
            else fun _ => false
        end
      else
        fun n => match n with x :: n' => (x =? c)%N && glob_match g' n' | [] => false end
  end.

(** The patterns of a Files field are its whitespace-separated words. *)
Definition patterns_of (files_text : str) : list str := split_ws py_isspace files_text.

(** A Files paragraph matches a name when at least one of its patterns does. *)
Definition files_match (pats : list str) (name : str) : bool :=
  existsb (fun g => glob_match g name) pats.

(** The last position whose pattern list matches, if any: look in the rest of the
    document first, fall back on the current paragraph. *)
Fixpoint last_match (pss : list (list str)) (name : str) : option nat :=
  match pss with
  | [] => None
  | ps :: r =>
      match last_match r name with
      | Some i => Some (S i)
      | None => if files_match ps name then Some 0 else None
      end
  end.
