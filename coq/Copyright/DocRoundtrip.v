(** PROOFS for C17, part 3: the reader hypothesis of Copyright/DocProofs.v is discharged
    from C02's theorems (Deb822/Proofs.v: [dump_parse_doc], [roundtrip_any_form_nocomment]),
    which gives the unconditional [copyright_roundtrip]. *)
From Verif Require Import Lib.Base Lib.PyStr Gen.PyChars Deb822.Spec
  Copyright.Fields Copyright.Doc Copyright.DocSpec Copyright.DocBridge
  Copyright.FieldsProofs Copyright.DocProofs.
From Verif Require Deb822.Model Deb822.ProofsStr Deb822.Proofs.

(** the paragraphs as a C02 document: unsigned blocks, one empty line between them,
    nothing after the last ([blocks_of]) or an empty line after the last too ([blocks_all]) *)
Fixpoint blocks_of (ds : list para) : list block :=
  match ds with
  | [] => []
  | [d] => [mkBlock d None []]
  | d :: r => mkBlock d None [[]] :: blocks_of r
  end.
Definition blocks_all (ds : list para) : list block := map (fun d => mkBlock d None [[]]) ds.

Lemma paras_text_cons d d2 r :
  paras_text (d :: d2 :: r) = Model.dump d ++ LF :: paras_text (d2 :: r).
Proof. reflexivity. Qed.

Lemma paras_text_doc ds : ds <> [] -> paras_text ds = Proofs.doc_text [] (blocks_of ds).
Proof.
  unfold Proofs.doc_text. cbn [unlines map concat app].
  induction ds as [|d r IH]; [congruence|]. intros _.
  destruct r as [|d2 r'].
  - unfold paras_text, Proofs.block_text. cbn [blocks_of map concat b_armor b_para b_seps unlines].
    now rewrite !app_nil_r.
  - rewrite paras_text_cons. rewrite IH by discriminate.
    change (blocks_of (d :: d2 :: r')) with (mkBlock d None [[]] :: blocks_of (d2 :: r')).
    cbn [map concat]. unfold Proofs.block_text at 2. cbn [b_armor b_para b_seps unlines map concat app].
    now rewrite <- app_assoc.
Qed.

Lemma good_block_valid d last seps :
  good_para d = true -> nonempty_para d = true ->
  (seps = [[]] \/ (last = true /\ seps = [])) ->
  valid_block true last (mkBlock d None seps) = true.
Proof.
  intros Hg Hn Hs. unfold valid_block. cbn [b_para b_armor b_seps].
  rewrite (good_para_valid d Hg). destruct d; [discriminate|]. cbn [is_nil' negb andb].
  destruct Hs as [->|[-> ->]]; reflexivity.
Qed.

Lemma blocks_of_valid ds :
  forallb good_para ds = true -> forallb nonempty_para ds = true -> valid_blocks true (blocks_of ds) = true.
Proof.
  induction ds as [|d r IH]; intros Hg Hn; [reflexivity|].
  cbn [forallb] in *. apply andb_true_iff in Hg. destruct Hg as [Hd Hg].
  apply andb_true_iff in Hn. destruct Hn as [Hdn Hn].
  destruct r as [|d2 r'].
  - cbn [blocks_of valid_blocks is_nil']. rewrite andb_true_r. apply good_block_valid; auto.
  - change (blocks_of (d :: d2 :: r')) with (mkBlock d None [[]] :: blocks_of (d2 :: r')).
    cbn [valid_blocks]. rewrite good_block_valid by auto. now apply IH.
Qed.

Lemma blocks_all_valid ds :
  forallb good_para ds = true -> forallb nonempty_para ds = true -> valid_blocks true (blocks_all ds) = true.
Proof.
  induction ds as [|d r IH]; intros Hg Hn; [reflexivity|].
  cbn [forallb] in *. apply andb_true_iff in Hg. destruct Hg as [Hd Hg].
  apply andb_true_iff in Hn. destruct Hn as [Hdn Hn].
  cbn [blocks_all map valid_blocks]. rewrite good_block_valid by auto. now apply IH.
Qed.

Lemma expected_blocks_of ds :
  forallb good_para ds = true -> map (fun b => expected_para (b_para b)) (blocks_of ds) = ds.
Proof.
  induction ds as [|d r IH]; intros Hg; [reflexivity|].
  cbn [forallb] in Hg. apply andb_true_iff in Hg. destruct Hg as [Hd Hg].
  destruct r as [|d2 r'].
  - cbn. now rewrite good_para_expected.
  - change (blocks_of (d :: d2 :: r')) with (mkBlock d None [[]] :: blocks_of (d2 :: r')).
    cbn [map b_para]. rewrite good_para_expected by exact Hd. f_equal. now apply IH.
Qed.

Lemma expected_blocks_all ds :
  forallb good_para ds = true -> map (fun b => expected_para (b_para b)) (blocks_all ds) = ds.
Proof.
  induction ds as [|d r IH]; intros Hg; [reflexivity|].
  cbn [forallb] in Hg. apply andb_true_iff in Hg. destruct Hg as [Hd Hg].
  cbn [blocks_all map b_para]. rewrite good_para_expected by exact Hd. f_equal. now apply IH.
Qed.

Lemma doc_lines_all ds : ds <> [] -> doc_lines [] (blocks_all ds) = doc_lines [] (blocks_of ds) ++ [[]].
Proof.
  unfold doc_lines. cbn [app]. induction ds as [|d r IH]; [congruence|]. intros _.
  destruct r as [|d2 r'].
  - cbn [blocks_all blocks_of map concat]. unfold block_lines. cbn [b_seps]. now rewrite !app_nil_r.
  - change (blocks_of (d :: d2 :: r')) with (mkBlock d None [[]] :: blocks_of (d2 :: r')).
    change (blocks_all (d :: d2 :: r')) with (mkBlock d None [[]] :: blocks_all (d2 :: r')).
    cbn [map concat]. rewrite IH by discriminate.
    now rewrite <- app_assoc.
Qed.

Lemma split_on_line c l rest :
  mem_char c l = false -> split_on c (l ++ c :: rest) = l :: split_on c rest.
Proof.
  induction l as [|x l IH]; cbn [mem_char existsb app split_on].
  - intros _. now rewrite N.eqb_refl.
  - intros H. apply orb_false_iff in H. destruct H as [Hx Hl]. rewrite N.eqb_sym, Hx.
    unfold mem_char in IH. now rewrite IH.
Qed.

Lemma split_on_unlines ls :
  forallb no_linebreak ls = true -> split_on LF (unlines ls) = ls ++ [[]].
Proof.
  induction ls as [|l ls IH]; intros H; [reflexivity|].
  cbn [forallb] in H. apply andb_true_iff in H. destruct H as [Hl Hls].
  rewrite ProofsStr.unlines_cons. rewrite split_on_line by now apply no_linebreak_no_lf.
  cbn [app]. now rewrite IH.
Qed.

(** the deb822 reader gives back good paragraphs unchanged, in every input form *)
Theorem reader_ok (form : N) (ds : list para) :
  ds <> [] -> forallb good_para ds = true -> forallb nonempty_para ds = true ->
  Model.iter_paragraphs Model.CDeb822 true (input_of_text form (paras_text ds)) = Ok ds.
Proof.
  intros Hne Hg Hn.
  pose proof (blocks_of_valid ds Hg Hn) as Hv.
  rewrite (paras_text_doc ds Hne).
  assert (Hfile : Model.iter_paragraphs Model.CDeb822 true (Model.InFile (Proofs.doc_text [] (blocks_of ds))) = Ok ds).
  { rewrite <- (expected_blocks_of ds Hg) at 2.
    apply (Proofs.roundtrip_any_form_nocomment Model.CDeb822 true false [] (blocks_of ds));
      [reflexivity|exact Hv|].
    rewrite (Proofs.doc_text_lines true [] _ Hv). unfold Proofs.forms_of. right. right. left. reflexivity. }
  assert (Hstr : Model.iter_paragraphs Model.CDeb822 true (Model.InStr (Proofs.doc_text [] (blocks_of ds))) = Ok ds).
  { rewrite <- (expected_blocks_of ds Hg) at 2. now apply Proofs.dump_parse_doc. }
  assert (Hsplit : Model.iter_paragraphs Model.CDeb822 true
                     (Model.InLines (split_on LF (Proofs.doc_text [] (blocks_of ds)))) = Ok ds).
  { rewrite (Proofs.doc_text_lines true [] _ Hv).
    rewrite split_on_unlines by now apply (Proofs.doc_lines_no_linebreak true).
    rewrite <- (doc_lines_all ds Hne).
    rewrite <- (expected_blocks_all ds Hg) at 2.
    apply (Proofs.roundtrip_any_form_nocomment Model.CDeb822 true false [] (blocks_all ds));
      [reflexivity|now apply blocks_all_valid|].
    unfold Proofs.forms_of. right. right. right. left. reflexivity. }
  unfold input_of_text.
  destruct form as [|p]; [exact Hstr|].
  destruct p as [p|p|].
  - destruct p as [p|p|]; [exact Hfile|exact Hfile|exact Hsplit].
  - destruct p as [p|p|]; [exact Hfile|exact Hfile|exact Hfile].
  - exact Hfile.
Qed.

(** * copyright_roundtrip *)
Theorem copyright_roundtrip hops ps form strict :
  wf_copyright hops ps = true ->
  exists c1,
    build_doc (map hop_of_shop hops) (map pspec_of_spara ps) = Ok c1
    /\ copyright_parse strict (input_of_text form (cdump c1)) = Ok c1
    /\ map para_view (cd_paras c1) = map expected_view (expected_order ps).
Proof. exact (copyright_roundtrip_from_reader reader_ok hops ps form strict). Qed.

(** survival on the wider domain [wf_copyright_weak] *)
Theorem copyright_survives hops ps form strict :
  wf_copyright_weak hops ps = true ->
  exists c1,
    build_doc (map hop_of_shop hops) (map pspec_of_spara ps) = Ok c1
    /\ copyright_parse strict (input_of_text form (cdump c1)) = Ok c1
    /\ map is_files (cd_paras c1) = map is_pfiles (expected_order ps).
Proof. exact (copyright_survives_from_reader reader_ok hops ps form strict). Qed.

Theorem run_doc_same hops ps form strict :
  wf_copyright_weak hops ps = true ->
  exists t v,
    run_doc (map hop_of_shop hops) (map pspec_of_spara ps) form strict = RDone t v v t
    /\ map pv_files (tl v) = map is_pfiles (expected_order ps).
Proof. exact (run_doc_survives reader_ok hops ps form strict). Qed.

Theorem run_doc_identity hops ps form strict :
  wf_copyright hops ps = true ->
  exists t hv,
    run_doc (map hop_of_shop hops) (map pspec_of_spara ps) form strict
    = RDone t (hv :: map expected_view (expected_order ps))
              (hv :: map expected_view (expected_order ps)) t.
Proof. exact (run_doc_roundtrip reader_ok hops ps form strict). Qed.
