(** SPEC: the ar(5) archive layout as a writer, independent of the reader
    model.  [build ms] is the archive holding the members [ms]; the harness's
    own Python writer (harness/props/_ar.py) is compared with it on every
    well-formed case ([Check.agree]). *)
From Verif Require Import Lib.Base Lib.Dec Lib.PyStr.

Record wmem := mkW {
  w_name : str;        (* bytes of the member name *)
  w_slash : bool;      (* GNU style: name terminated by '/' *)
  w_mtime : N;
  w_owner : N;
  w_group : N;
  w_mode : str;        (* the mode field, not interpreted *)
  w_data : str;
}.

Definition pad (w : nat) (s : str) : str := s ++ repeat 32%N (w - length s).

Definition w_size (m : wmem) : N := N.of_nat (length (w_data m)).

Definition name_field (m : wmem) : str :=
  w_name m ++ (if w_slash m then [47%N] else []).

Definition header (m : wmem) : str :=
  pad 16 (name_field m)
  ++ pad 12 (print_dec (w_mtime m))
  ++ pad 6 (print_dec (w_owner m))
  ++ pad 6 (print_dec (w_group m))
  ++ pad 8 (w_mode m)
  ++ pad 10 (print_dec (w_size m))
  ++ [96; 10]%N.

Definition padding (m : wmem) : str :=
  if Nat.odd (length (w_data m)) then [10%N] else [].

Definition build_member (m : wmem) : str := header m ++ w_data m ++ padding m.

Definition ar_magic : str := [33; 60; 97; 114; 99; 104; 62; 10]%N.    (* "!<arch>\n" *)

Definition build (ms : list wmem) : str := ar_magic ++ flat_map build_member ms.

(** "Short member names": the name (with its terminator) fits the 16-byte
    field, contains no '/', and has no blank at either edge; the decimal
    fields fit their columns. *)
Definition edge_ok (s : str) : bool :=
  match s with
  | [] => true
  | c :: _ => negb (bytes_isspace c) &&
              match last_opt s with Some e => negb (bytes_isspace e) | None => true end
  end.

Definition wf_wmem (m : wmem) : bool :=
  (length (name_field m) <=? 16)%nat
  && negb (mem_char 47 (w_name m))
  && edge_ok (w_name m)
  && (length (print_dec (w_mtime m)) <=? 12)%nat
  && (length (print_dec (w_owner m)) <=? 6)%nat
  && (length (print_dec (w_group m)) <=? 6)%nat
  && (length (w_mode m) <=? 8)%nat
  && (length (print_dec (w_size m)) <=? 10)%nat.

(** Index of the last member called [name]. *)
Fixpoint last_index_from (name : str) (ms : list wmem) (i : nat) (acc : option nat) : option nat :=
  match ms with
  | [] => acc
  | m :: r => last_index_from name r (S i) (if str_eqb (w_name m) name then Some i else acc)
  end.
Definition last_index (name : str) (ms : list wmem) : option nat := last_index_from name ms O None.

(** * The property's judgement of a listing and of a lookup

    [listed_ok w name size owner group mtime]: one entry of getnames()/getmembers()
    is the member that was written.  [lookup_ok ws n r]: [getmember(n)] returned
    the index of the last member called [n], or KeyError when there is none. *)
Local Open Scope Z_scope.
Definition listed_ok (w : wmem) (name : str) (size owner group mtime : Z) : bool :=
  str_eqb (w_name w) name
  && (Z.of_N (w_size w) =? size) && (Z.of_N (w_owner w) =? owner)
  && (Z.of_N (w_group w) =? group) && (Z.of_N (w_mtime w) =? mtime).

Definition lookup_ok (ws : list wmem) (n : str) (r : result nat) : bool :=
  match last_index n ws, r with
  | Some i, Ok j => Nat.eqb i j
  | None, Err KeyError => true
  | _, _ => false
  end.
