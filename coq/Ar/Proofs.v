(** Proofs for C06 (ar members are exact, isolated, file-like views).

    Part A  list / position lemmas
    Part B  one call on one member simulates the in-memory file (any file-handle position)
    Part C  whole interleaved runs ([ar_run]) pass the property's judgement [steps_ok]
    Part D  header parsing: [collect_members (build ws)] lists exactly [ws]; [getmember]
    Part E  no byte outside the member is returned (any archive bytes at all) *)
From Verif Require Import Lib.Base Lib.Dec Lib.PySlice Lib.PyStr Gen.ArConsts
  Ar.Ops Ar.BytesIO Ar.ArSpec Ar.Model.

Local Open Scope Z_scope.

(** * Part A: lists and positions *)

Lemma lenz_nonneg d : 0 <= lenz d.
Proof. unfold lenz. lia. Qed.

Lemma lenz_app a b : lenz (a ++ b) = lenz a + lenz b.
Proof. unfold lenz. rewrite app_length. lia. Qed.

Lemma skipz_eq p d : skipz p d = skipn (Z.to_nat p) d.
Proof.
  unfold skipz, lenz. destruct (Z.le_gt_cases p (Z.of_nat (length d))) as [H|H].
  - now rewrite Z.min_l by lia.
  - rewrite Z.min_r by lia. rewrite Nat2Z.id.
    rewrite !skipn_all2; [reflexivity|lia|lia].
Qed.

Lemma takez_eq n d : takez n d = firstn (Z.to_nat n) d.
Proof.
  unfold takez, lenz. destruct (Z.le_gt_cases n (Z.of_nat (length d))) as [H|H].
  - now rewrite Z.min_l by lia.
  - rewrite Z.min_r by lia. rewrite Nat2Z.id.
    rewrite !firstn_all2; [reflexivity|lia|lia].
Qed.

Lemma skipn_app_exact {A} (a b : list A) n : n = length a -> skipn n (a ++ b) = b.
Proof. intros ->. apply skipn_length_app. Qed.

Lemma skipn_app_le {A} (a b : list A) n :
  (n <= length a)%nat -> skipn n (a ++ b) = skipn n a ++ b.
Proof.
  intros H. rewrite skipn_app. replace (n - length a)%nat with O by lia. reflexivity.
Qed.

Lemma firstn_app_le {A} (a b : list A) n :
  (n <= length a)%nat -> firstn n (a ++ b) = firstn n a.
Proof.
  intros H. rewrite firstn_app. replace (n - length a)%nat with O by lia.
  simpl. apply app_nil_r.
Qed.

Lemma firstn_add_skipn {A} (s : list A) a b :
  firstn (a + b) s = firstn a s ++ firstn b (skipn a s).
Proof.
  revert s. induction a as [|a IH]; intros s; [reflexivity|].
  destruct s as [|x s]; simpl.
  - now rewrite firstn_nil.
  - now rewrite IH.
Qed.

Lemma skipn_add {A} (l : list A) a b : skipn (a + b) l = skipn b (skipn a l).
Proof.
  revert l. induction a as [|a IH]; intros l; [reflexivity|].
  destruct l as [|x l]; simpl; [now rewrite skipn_nil|apply IH].
Qed.

(** The part of the archive seen from position [|pre| + pos] inside [data]. *)
Lemma skipz_placed pre data post pos :
  0 <= pos <= lenz data ->
  skipz (lenz pre + pos) (pre ++ data ++ post) = skipn (Z.to_nat pos) data ++ post.
Proof.
  intros H. rewrite skipz_eq. unfold lenz in *.
  replace (Z.to_nat (Z.of_nat (length pre) + pos)) with (length pre + Z.to_nat pos)%nat by lia.
  rewrite skipn_add, skipn_length_app. apply skipn_app_le. lia.
Qed.

Lemma chunk_placed pre data post pos n :
  0 <= pos -> 0 <= n -> pos + n <= lenz data ->
  takez n (skipz (lenz pre + pos) (pre ++ data ++ post))
  = firstn (Z.to_nat n) (skipn (Z.to_nat pos) data).
Proof.
  intros Hp Hn Hle. rewrite skipz_placed by lia. rewrite takez_eq.
  apply firstn_app_le. rewrite skipn_length. unfold lenz in *. lia.
Qed.

Lemma take_line_upto_lf s : take_line s = upto_lf s.
Proof.
  induction s as [|c s IH]; [reflexivity|]. simpl. destruct (c =? 10)%N; [reflexivity|].
  now rewrite IH.
Qed.

Lemma upto_lf_prefix s : upto_lf s = firstn (length (upto_lf s)) s.
Proof.
  induction s as [|c s IH]; [reflexivity|]. simpl. destruct (c =? 10)%N; simpl; [reflexivity|].
  now rewrite <- IH.
Qed.

Lemma upto_lf_length s : (length (upto_lf s) <= length s)%nat.
Proof.
  induction s as [|c s IH]; [simpl; lia|]. simpl. destruct (c =? 10)%N; simpl; lia.
Qed.

Lemma lines_lf_cons c r :
  lines_lf (c :: r) = if (c =? 10)%N then [c] :: lines_lf r
                      else match lines_lf r with [] => [[c]] | l :: ls => (c :: l) :: ls end.
Proof. reflexivity. Qed.

Lemma upto_lf_cons c r :
  upto_lf (c :: r) = c :: (if (c =? 10)%N then [] else upto_lf r).
Proof. reflexivity. Qed.

Lemma lines_lf_unfold c r :
  lines_lf (c :: r)
  = upto_lf (c :: r) :: lines_lf (skipn (length (upto_lf (c :: r))) (c :: r)).
Proof.
  revert c. induction r as [|c' r IH]; intros c.
  - simpl. destruct (c =? 10)%N; reflexivity.
  - rewrite lines_lf_cons, (upto_lf_cons c). destruct (c =? 10)%N eqn:E.
    + reflexivity.
    + rewrite IH. cbn [length skipn]. reflexivity.
Qed.

(** * Part B: one call on one member simulates the in-memory file *)

(** The simulation relation between a member's state, for a member whose data
    sits in the archive between [pre] and [post], and the reference file. *)
Definition rel (pre data : str) (st : mstate) (b : bio) : bool :=
  (st_off st =? lenz pre) && (st_end st =? lenz pre + lenz data)
  && str_eqb (b_data b) data && (0 <=? b_pos b) && (st_cur st =? lenz pre + b_pos b).

Record Rel (pre data : str) (st : mstate) (b : bio) : Prop := mkRel {
  r_off : st_off st = lenz pre;
  r_end : st_end st = lenz pre + lenz data;
  r_data : b_data b = data;
  r_pos : 0 <= b_pos b;
  r_cur : st_cur st = lenz pre + b_pos b }.

Lemma rel_iff pre data st b : rel pre data st b = true <-> Rel pre data st b.
Proof.
  unfold rel. rewrite !andb_true_iff, !Z.eqb_eq, Z.leb_le, str_eqb_eq.
  split; [intros [[[[? ?] ?] ?] ?]; now constructor|intros []; auto].
Qed.

Ltac rel_solve := constructor; simpl; unfold lenz in *; first [reflexivity | lia].

Lemma limit_nil size : limit size [] = [].
Proof. destruct size as [n|]; simpl; [|reflexivity]. destruct (n <? 0); [reflexivity|apply firstn_nil]. Qed.

Lemma bio_rest_length data pos :
  0 <= pos -> lenz (bio_rest (mkBio data pos)) = Z.max 0 (lenz data - pos).
Proof. intros H. unfold bio_rest, lenz. simpl. rewrite skipn_length. lia. Qed.

Lemma seek_abs_ok k p : 0 <= p -> f_seek_abs k p = Ok p.
Proof. intros H. unfold f_seek_abs. destruct (Z.ltb_spec p 0); [lia|reflexivity]. Qed.

Lemma read_sim k pre data post fh st b size :
  Rel pre data st b -> size <> Some 0 ->
  let got := limit size (bio_rest b) in
  exists st' fh',
    m_read k (pre ++ data ++ post) fh st (match size with Some s => s | None => 0 end)
    = (st', fh', OBytes got)
    /\ Rel pre data st' (advance b got).
Proof.
  destruct st as [off en cur], b as [bd pos]. intros [Ho He Hd Hp Hc] Hsz got.
  simpl in *. subst off en bd cur.
  pose proof (lenz_nonneg pre) as Hpre. pose proof (lenz_nonneg data) as Hdat.
  unfold m_read. cbn [st_cur st_end st_off]. rewrite seek_abs_ok by lia.
  set (sz := match size with Some s => s | None => 0 end).
  assert (Hrest : bio_rest (mkBio data pos) = skipn (Z.to_nat pos) data) by reflexivity.
  destruct ((0 <? sz) && (sz <=? lenz pre + lenz data - (lenz pre + pos))) eqn:E1.
  - (* there's room *)
    apply andb_true_iff in E1. destruct E1 as [E1 E2]. apply Z.ltb_lt in E1. apply Z.leb_le in E2.
    unfold f_read. rewrite chunk_placed by lia.
    assert (got = firstn (Z.to_nat sz) (skipn (Z.to_nat pos) data)) as <-.
    { subst got sz. destruct size as [s|]; [|lia]. simpl. destruct (Z.ltb_spec s 0); [lia|].
      now rewrite Hrest. }
    eexists _, _. split; [reflexivity|]. rel_solve.
  - destruct ((lenz pre + pos >=? lenz pre + lenz data) || (lenz pre + pos <? lenz pre)) eqn:E2.
    + (* at or beyond the end *)
      apply orb_true_iff in E2. rewrite Z.geb_le, Z.ltb_lt in E2.
      assert (got = []) as ->.
      { subst got. rewrite Hrest, skipn_all2 by (unfold lenz in *; lia). apply limit_nil. }
      eexists _, _. split; [reflexivity|]. rel_solve.
    + apply orb_false_iff in E2. destruct E2 as [E2 E3].
      rewrite Z.geb_leb in E2. apply Z.leb_gt in E2. apply Z.ltb_ge in E3.
      unfold f_read. rewrite chunk_placed by lia.
      assert (got = firstn (Z.to_nat (lenz pre + lenz data - (lenz pre + pos)))
                           (skipn (Z.to_nat pos) data)) as <-.
      { rewrite firstn_all2 by (rewrite skipn_length; unfold lenz; lia).
        subst got. rewrite Hrest. destruct size as [s|]; [|reflexivity]. simpl in *.
        destruct (Z.ltb_spec s 0); [reflexivity|].
        assert (s <> 0) by congruence.
        apply andb_false_iff in E1. rewrite Z.ltb_ge, Z.leb_gt in E1.
        rewrite firstn_all2; [reflexivity|]. rewrite skipn_length. unfold lenz in *. lia. }
      eexists _, _. split; [reflexivity|]. rel_solve.
Qed.

Lemma readline_sim k pre data post fh st b size :
  Rel pre data st b ->
  let got := upto_lf (limit size (bio_rest b)) in
  exists st' fh',
    m_readline k (pre ++ data ++ post) fh st size = (st', fh', OBytes got)
    /\ Rel pre data st' (advance b got).
Proof.
  destruct st as [off en cur], b as [bd pos]. intros [Ho He Hd Hp Hc] got.
  simpl in *. subst off en bd cur.
  pose proof (lenz_nonneg pre) as Hpre. pose proof (lenz_nonneg data) as Hdat.
  unfold m_readline. cbn [st_cur st_end st_off]. rewrite seek_abs_ok by lia.
  assert (Hrest : bio_rest (mkBio data pos) = skipn (Z.to_nat pos) data) by reflexivity.
  destruct ((lenz pre + pos >=? lenz pre + lenz data) || (lenz pre + pos <? lenz pre)) eqn:E2.
  - apply orb_true_iff in E2. rewrite Z.geb_le, Z.ltb_lt in E2.
    assert (got = []) as ->.
    { subst got. rewrite Hrest, skipn_all2 by (unfold lenz in *; lia). now rewrite limit_nil. }
    eexists _, _. split; [reflexivity|]. rel_solve.
  - apply orb_false_iff in E2. destruct E2 as [E2 E3].
    rewrite Z.geb_leb in E2. apply Z.leb_gt in E2. apply Z.ltb_ge in E3.
    set (remaining := lenz pre + lenz data - (lenz pre + pos)).
    set (size' := match size with
                  | None => remaining
                  | Some s => if (s <? 0) || (s >? remaining) then remaining else s
                  end).
    assert (Hs' : 0 <= size' <= remaining).
    { subst size'. destruct size as [s|]; [|subst remaining; lia].
      destruct ((s <? 0) || (s >? remaining)) eqn:E; [subst remaining; lia|].
      apply orb_false_iff in E. rewrite Z.ltb_ge, Z.gtb_ltb, Z.ltb_ge in E. lia. }
    unfold f_readline. destruct (Z.ltb_spec size' 0) as [?|_]; [lia|].
    rewrite chunk_placed by (subst remaining; lia). rewrite take_line_upto_lf.
    assert (got = upto_lf (firstn (Z.to_nat size') (skipn (Z.to_nat pos) data))) as <-.
    { subst got. f_equal. rewrite Hrest.
      assert (Hlen : Z.of_nat (length (skipn (Z.to_nat pos) data)) = remaining).
      { rewrite skipn_length. subst remaining. unfold lenz in *. lia. }
      subst size'. destruct size as [s|]; simpl.
      - destruct (Z.ltb_spec s 0); simpl.
        + symmetry. apply firstn_all2. lia.
        + destruct (Z.gtb_spec s remaining); [|reflexivity].
          rewrite !firstn_all2 by lia. reflexivity.
      - symmetry. apply firstn_all2. lia. }
    eexists _, _. split; [reflexivity|]. rel_solve.
Qed.

Lemma bio_rest_advance b got :
  0 <= b_pos b ->
  bio_rest (advance b got) = skipn (length got) (bio_rest b).
Proof.
  intros H. unfold bio_rest, advance. simpl.
  replace (Z.to_nat (b_pos b + Z.of_nat (length got)))
    with (Z.to_nat (b_pos b) + length got)%nat by lia.
  apply skipn_add.
Qed.

Lemma readlines_sim k pre data post :
  forall fuel fh st b,
    Rel pre data st b ->
    Z.max 0 (lenz data - b_pos b) < Z.of_nat fuel ->
    exists st' fh',
      m_readlines fuel k (pre ++ data ++ post) fh st = (st', fh', Ok (lines_lf (bio_rest b)))
      /\ Rel pre data st' (advance b (bio_rest b)).
Proof.
  induction fuel as [|fuel IH]; intros fh st b HR Hfuel; [lia|].
  destruct (readline_sim k pre data post fh st b None HR) as (st1 & fh1 & E1 & HR1).
  cbn [m_readlines]. rewrite E1. cbn [limit] in *.
  assert (Hlen : lenz (bio_rest b) = Z.max 0 (lenz data - b_pos b)).
  { destruct b as [bd pos]. destruct HR as [_ _ Hd Hp _]. simpl in Hd, Hp. subst bd.
    now apply bio_rest_length. }
  destruct (bio_rest b) as [|c r] eqn:Er.
  - simpl. eexists _, _. split; [reflexivity|exact HR1].
  - pose proof (upto_lf_length (c :: r)) as Hgl.
    pose proof (lines_lf_unfold c r) as Hun.
    destruct (upto_lf (c :: r)) as [|g0 gr] eqn:Hgot; [discriminate|].
    set (got := g0 :: gr) in *.
    assert (Hg1 : (1 <= length got)%nat) by (subst got; simpl; lia).
    clearbody got.
    destruct (IH fh1 st1 (advance b got) HR1) as (st2 & fh2 & E2 & HR2).
    { unfold lenz in *. cbn [advance b_pos length] in *. lia. }
    assert (exists g0 gr, got = g0 :: gr) as (g0' & gr' & Hcons).
    { destruct got; [simpl in Hg1; lia|eauto]. }
    rewrite Hcons. rewrite <- Hcons.
    rewrite E2. eexists _, _. split.
    + simpl. do 2 f_equal. rewrite bio_rest_advance by apply HR. rewrite Er.
      symmetry. exact Hun.
    + rewrite bio_rest_advance, Er in HR2 by apply HR.
      destruct HR2 as [Ho He Hd Hp Hc]. cbn [advance b_pos b_data] in *.
      rewrite skipn_length in Hp, Hc.
      constructor; cbn [advance b_pos b_data]; try assumption; lia.
Qed.

Lemma seek_sim pre data st b o w :
  Rel pre data st b -> op_in_dom b (Seek o w) = true ->
  exists st' b' p,
    m_seek st o w = (st', ONone) /\ bio_op b (Seek o w) = (b', OInt p)
    /\ Rel pre data st' b'.
Proof.
  destruct st as [off en cur], b as [bd pos]. intros [Ho He Hd Hp Hc] Hdom.
  simpl in Ho, He, Hd, Hp, Hc. subst off en bd cur.
  pose proof (lenz_nonneg pre) as Hpre. pose proof (lenz_nonneg data) as Hdat.
  unfold op_in_dom, bio_len in Hdom. cbn [b_pos b_data] in Hdom. fold (lenz data) in Hdom.
  rewrite !orb_true_iff, !andb_true_iff, !Z.eqb_eq, !Z.leb_le in Hdom.
  unfold m_seek, bio_op, bio_len. cbn [st_cur st_off st_end set_cur b_pos b_data].
  fold (lenz data).
  destruct (Z.ltb_spec (lenz pre + pos) (lenz pre)) as [?|_]; [lia|].
  cbn [st_cur st_off st_end set_cur].
  destruct Hdom as [[[-> H]|[-> H]]|[-> H]].
  - (* SEEK_SET *)
    change (0 <? 2) with true. change (0 =? 1) with false. change (0 =? 0) with true.
    cbn [andb].
    destruct (Z.ltb_spec o 0) as [?|_]; [lia|].
    destruct (Z.ltb_spec (o + (lenz pre + pos)) (lenz pre)) as [?|_]; [lia|].
    eexists _, _, _. split; [reflexivity|]. split; [reflexivity|]. rel_solve.
  - change (1 <? 2) with true. change (1 =? 1) with true. change (1 =? 0) with false.
    cbn [andb].
    destruct (Z.ltb_spec (o + (lenz pre + pos)) (lenz pre)) as [?|_]; [lia|].
    eexists _, _, _. split; [reflexivity|]. split; [reflexivity|]. rel_solve.
  - change (2 <? 2) with false. change (2 =? 1) with false. change (2 =? 0) with false.
    change (2 =? 2) with true. cbn [andb].
    eexists _, _, _. split; [reflexivity|]. split; [reflexivity|]. rel_solve.
Qed.

Lemma tell_rel pre data st b : Rel pre data st b -> m_tell st = b_pos b.
Proof.
  intros [Ho He Hd Hp Hc]. unfold m_tell. rewrite Ho, Hc.
  destruct (Z.ltb_spec (lenz pre + b_pos b) (lenz pre)); lia.
Qed.

(** The step simulation: whatever the position [fh] of the file handle the
    member finds (another member may have moved it — every call re-seeks). *)
Lemma member_op_sim k pre data post fh st b o :
  Rel pre data st b -> op_in_dom b o = true ->
  exists st' fh',
    member_op k (pre ++ data ++ post) fh st o
    = (st', fh', as_member_out o (snd (bio_op b o)))
    /\ Rel pre data st' (fst (bio_op b o))
    /\ m_tell st' = b_pos (fst (bio_op b o)).
Proof.
  intros HR Hdom.
  assert (G : exists st' fh',
    member_op k (pre ++ data ++ post) fh st o
    = (st', fh', as_member_out o (snd (bio_op b o)))
    /\ Rel pre data st' (fst (bio_op b o))).
  { destruct o as [size|size| |o w|].
    - assert (Hsz : size <> Some 0).
      { intros ->. simpl in Hdom. discriminate. }
      destruct (read_sim k pre data post fh st b size HR Hsz) as (st' & fh' & E & HR').
      exists st', fh'. cbn [member_op bio_op fst snd as_member_out]. now split.
    - destruct (readline_sim k pre data post fh st b size HR) as (st' & fh' & E & HR').
      exists st', fh'. cbn [member_op bio_op fst snd as_member_out]. now split.
    - destruct (readlines_sim k pre data post (S (length (pre ++ data ++ post))) fh st b HR)
        as (st' & fh' & E & HR').
      { destruct HR. rewrite !app_length. unfold lenz. lia. }
      exists st', fh'. cbn [member_op bio_op fst snd as_member_out]. rewrite E. now split.
    - destruct (seek_sim pre data st b o w HR Hdom) as (st' & b' & p & E1 & E2 & HR').
      exists st', fh. cbn [member_op]. rewrite E1, E2. now split.
    - exists st, fh. cbn [member_op bio_op fst snd as_member_out].
      rewrite (tell_rel _ _ _ _ HR). now split. }
  destruct G as (st' & fh' & E & HR'). exists st', fh'. split; [assumption|]. split; [assumption|].
  eapply tell_rel; eassumption.
Qed.

(** * Part C: whole interleaved runs *)

Lemma out_eqb_refl r : out_eqb r r = true.
Proof.
  destruct r; simpl.
  - apply str_eqb_refl.
  - now apply strs_eqb_eq.
  - reflexivity.
  - apply Z.eqb_refl.
  - now apply err_eqb_eq.
Qed.

(** What [steps_ok] is given: result and tell() of every step (the position of
    the caller's file object, third component, is not part of the property). *)
Definition obs2 (s : step_obs) : out * Z := (fst (fst s), snd (fst s)).

Definition slot_ok (d : str) (w : wmem) (sm : mstate * option Z) (f : option bio) : Prop :=
  match f with
  | None => True
  | Some b => exists pre post, d = pre ++ w_data w ++ post /\ Rel pre (w_data w) (fst sm) b
  end.

Inductive slots (d : str) : list wmem -> list (mstate * option Z) -> list (option bio) -> Prop :=
| slots_nil : slots d [] [] []
| slots_cons w sm f ws sms fs :
    slot_ok d w sm f -> slots d ws sms fs -> slots d (w :: ws) (sm :: sms) (f :: fs).

Lemma slots_nth d ws sms fs i w :
  slots d ws sms fs -> nth_error ws i = Some w ->
  exists sm f, nth_error sms i = Some sm /\ nth_error fs i = Some f /\ slot_ok d w sm f.
Proof.
  intros H. revert i. induction H as [|w0 sm f ws sms fs Hs H IH]; intros i Hi.
  - destruct i; discriminate.
  - destruct i as [|i]; simpl in *.
    + injection Hi as <-. eauto.
    + now apply IH.
Qed.

Lemma slots_set d ws sms fs i w sm' f' :
  slots d ws sms fs -> nth_error ws i = Some w -> slot_ok d w sm' f' ->
  slots d ws (list_set sms i sm') (list_set fs i f').
Proof.
  intros H. revert i. induction H as [|w0 sm f ws sms fs Hs H IH]; intros i Hi Hok.
  - destruct i; discriminate.
  - destruct i as [|i]; simpl in *.
    + injection Hi as <-. now constructor.
    + constructor; [assumption|now apply IH].
Qed.

Lemma list_set_same {A} (l : list A) i x : nth_error l i = Some x -> list_set l i x = l.
Proof.
  revert i. induction l as [|y l IH]; intros [|i] H; simpl in *; try discriminate.
  - now injection H as ->.
  - now rewrite IH.
Qed.

Definition idx_ok (n : nat) (io : nat * op) : bool := (fst io <? n)%nat.

Lemma run_sim : forall ops a fs ws,
  slots (a_data a) ws (a_members a) fs ->
  forallb (idx_ok (length ws)) ops = true ->
  steps_ok fs ops (map obs2 (ar_run a ops)) = true.
Proof.
  induction ops as [|[i o] ops IH]; intros a fs ws Hs Hidx; [reflexivity|].
  cbn [forallb] in Hidx. apply andb_true_iff in Hidx. destruct Hidx as [Hi Hidx].
  unfold idx_ok in Hi. cbn [fst] in Hi. apply Nat.ltb_lt in Hi.
  destruct (nth_error ws i) as [w|] eqn:Ew; [|apply nth_error_None in Ew; lia].
  destruct (slots_nth _ _ _ _ _ _ Hs Ew) as ([st own] & f & Esm & Ef & Hok).
  cbn [ar_run]. destruct (ar_step a (i, o)) as [a' r] eqn:E.
  cbn [map steps_ok]. unfold ar_step in E. rewrite Esm in E.
  set (fh := if a_byname a then own else Some (a_shared a)) in E.
  destruct (member_op (a_kind a) (a_data a) fh st o) as [[st' fh'] r0] eqn:Em.
  assert (Ha' : a_data a' = a_data a /\ exists x, a_members a' = list_set (a_members a) i (st', x)).
  { destruct (a_byname a); injection E as <- <-; simpl; eauto. }
  assert (Hr : obs2 r = (r0, m_tell st')).
  { destruct (a_byname a); injection E as <- <-; reflexivity. }
  destruct Ha' as [Hd' [x Hm']]. rewrite Hr, Ef.
  destruct f as [b|].
  - destruct (op_in_dom b o) eqn:Edom.
    + destruct Hok as (pre & post & Hd & HR). cbn [fst] in HR.
      rewrite Hd in Em.
      destruct (member_op_sim (a_kind a) pre (w_data w) post fh st b o HR Edom)
        as (st2 & fh2 & Em2 & HR2 & Ht2).
      rewrite Em2 in Em. injection Em as -> -> <-.
      destruct (bio_op b o) as [b' sr]. cbn [fst snd] in *.
      rewrite out_eqb_refl, Ht2, Z.eqb_refl. cbn [andb].
      apply IH with (ws := ws); [|assumption].
      rewrite Hd', Hm'. eapply slots_set; try eassumption.
      exists pre, post. split; assumption.
    + apply IH with (ws := ws); [|assumption].
      rewrite Hd', Hm'. eapply slots_set; try eassumption; exact I.
  - apply IH with (ws := ws); [|assumption].
    rewrite Hd', Hm'. rewrite <- (list_set_same fs i None Ef) at 1.
    eapply slots_set; try eassumption; exact I.
Qed.

(** * Part D: the header walk over [build ws] *)

Lemma pad_length w s : (length s <= w)%nat -> length (pad w s) = w.
Proof. intros H. unfold pad. rewrite app_length, repeat_length. lia. Qed.

Lemma slice_at {A} (a b c : list A) i j :
  i = Z.of_nat (length a) -> j = Z.of_nat (length a + length b) ->
  slice (a ++ b ++ c) i j = b.
Proof.
  intros -> ->. unfold slice.
  rewrite !clamp_index_in_range by (rewrite !app_length; lia).
  rewrite !Nat2Z.id, skipn_length_app.
  replace (length a + length b - length a)%nat with (length b) by lia.
  apply firstn_length_app.
Qed.

Lemma slice_at_end {A} (a b : list A) i j :
  i = Z.of_nat (length a) -> j = Z.of_nat (length a + length b) ->
  slice (a ++ b) i j = b.
Proof. intros Hi Hj. rewrite <- (app_nil_r b) at 1. now apply slice_at. Qed.

Lemma fields7 (f1 f2 f3 f4 f5 f6 f7 : str) :
  length f1 = 16%nat -> length f2 = 12%nat -> length f3 = 6%nat -> length f4 = 6%nat ->
  length f5 = 8%nat -> length f6 = 10%nat -> length f7 = 2%nat ->
  let buf := f1 ++ f2 ++ f3 ++ f4 ++ f5 ++ f6 ++ f7 in
  sl buf sl_name = f1 /\ sl buf sl_mtime = f2 /\ sl buf sl_owner = f3 /\ sl buf sl_group = f4
  /\ sl buf sl_fmode = f5 /\ sl buf sl_size = f6 /\ sl buf sl_magic = f7.
Proof.
  intros H1 H2 H3 H4 H5 H6 H7 buf. unfold sl. cbn [fst snd sl_name sl_mtime sl_owner sl_group sl_fmode sl_size sl_magic].
  repeat split.
  - apply (slice_at [] f1); rewrite ?H1; reflexivity.
  - apply (slice_at f1 f2); rewrite ?H1, ?H2; reflexivity.
  - replace buf with ((f1 ++ f2) ++ f3 ++ (f4 ++ f5 ++ f6 ++ f7))
      by (subst buf; now rewrite <- !app_assoc).
    apply slice_at; rewrite ?app_length, ?H1, ?H2, ?H3; reflexivity.
  - replace buf with ((f1 ++ f2 ++ f3) ++ f4 ++ (f5 ++ f6 ++ f7))
      by (subst buf; now rewrite <- !app_assoc).
    apply slice_at; rewrite ?app_length, ?H1, ?H2, ?H3, ?H4; reflexivity.
  - replace buf with ((f1 ++ f2 ++ f3 ++ f4) ++ f5 ++ (f6 ++ f7))
      by (subst buf; now rewrite <- !app_assoc).
    apply slice_at; rewrite ?app_length, ?H1, ?H2, ?H3, ?H4, ?H5; reflexivity.
  - replace buf with ((f1 ++ f2 ++ f3 ++ f4 ++ f5) ++ f6 ++ f7)
      by (subst buf; now rewrite <- !app_assoc).
    apply slice_at; rewrite ?app_length, ?H1, ?H2, ?H3, ?H4, ?H5, ?H6; reflexivity.
  - replace buf with ((f1 ++ f2 ++ f3 ++ f4 ++ f5 ++ f6) ++ f7)
      by (subst buf; now rewrite <- !app_assoc).
    apply slice_at_end; rewrite ?app_length, ?H1, ?H2, ?H3, ?H4, ?H5, ?H6, ?H7; reflexivity.
Qed.

(** ** strip() of a blank-padded field *)
Lemma dropwhile_all {A} (p : A -> bool) l : forallb p l = true -> dropwhile p l = [].
Proof.
  intros H. rewrite <- (app_nil_r l). now rewrite dropwhile_app_all.
Qed.

Lemma forallb_repeat {A} (p : A -> bool) x n : p x = true -> forallb p (repeat x n) = true.
Proof. intros H. induction n; simpl; [reflexivity|now rewrite H]. Qed.

Lemma last_opt_snoc {A} (s : list A) :
  s <> [] -> exists a e, s = a ++ [e] /\ last_opt s = Some e.
Proof.
  induction s as [|x s IH]; [congruence|]. intros _.
  destruct s as [|y s].
  - exists [], x. now split.
  - destruct IH as (a & e & Ha & He); [discriminate|].
    exists (x :: a), e. split; [simpl; now rewrite <- Ha|exact He].
Qed.

Definition edges_kept (p : N -> bool) (s : str) : Prop :=
  s = [] \/ ((exists c r, s = c :: r /\ p c = false) /\ (exists a e, s = a ++ [e] /\ p e = false)).

Lemma strip_pad_gen p sp s k :
  p sp = true -> edges_kept p s -> strip_by p (s ++ repeat sp k) = s.
Proof.
  intros Hsp [->|[(c & r & -> & Hc) (a & e & Ha & He)]];
    unfold strip_by, lstrip_by, rstrip_by.
  - simpl. rewrite dropwhile_all by now apply forallb_repeat. reflexivity.
  - simpl. rewrite Hc. change (c :: r ++ repeat sp k) with ((c :: r) ++ repeat sp k).
    rewrite rdropwhile_app_drop by now apply forallb_repeat.
    rewrite Ha. now apply rdropwhile_app_keep.
Qed.

Lemma edge_ok_kept s : edge_ok s = true -> edges_kept bytes_isspace s.
Proof.
  destruct s as [|c r]; [now left|]. intros H. right.
  cbn [edge_ok] in H. apply andb_true_iff in H. destruct H as [Hc He].
  apply negb_true_iff in Hc.
  destruct (last_opt_snoc (c :: r)) as (a & e & Ha & Hl); [discriminate|].
  rewrite Hl in He. apply negb_true_iff in He. split; eauto.
Qed.

Lemma digit_not_space c : is_ascii_digit c = true -> bytes_isspace c = false.
Proof.
  unfold is_ascii_digit, bytes_isspace. intros H. apply andb_true_iff in H.
  rewrite !N.leb_le in H.
  destruct (N.eqb_spec c 32); [lia|]. simpl.
  destruct (N.leb_spec 9 c); destruct (N.leb_spec c 13); simpl; try reflexivity; lia.
Qed.

Lemma digits_kept ds :
  forallb is_ascii_digit ds = true -> edges_kept bytes_isspace ds.
Proof.
  intros H. destruct ds as [|c r]; [now left|]. right.
  rewrite forallb_forall in H. split.
  - exists c, r. split; [reflexivity|]. apply digit_not_space, H. now left.
  - destruct (last_opt_snoc (c :: r)) as (a & e & Ha & _); [discriminate|].
    exists a, e. split; [assumption|]. apply digit_not_space, H. rewrite Ha.
    apply in_or_app. right. now left.
Qed.

(** ** int() of a blank-padded decimal field *)
Lemma digits_us_all ds :
  forallb is_ascii_digit ds = true -> digits_us ds true = Some ds.
Proof.
  induction ds as [|c r IH]; [reflexivity|]. simpl. intros H.
  apply andb_true_iff in H. destruct H as [Hc Hr]. rewrite Hc, IH by assumption. reflexivity.
Qed.

Lemma py_int_pad w n : py_int (pad w (print_dec n)) = Ok (Z.of_N n).
Proof.
  unfold py_int, pad.
  pose proof (is_digit_print_dec n) as Hd. pose proof (print_dec_nonempty n) as Hne.
  rewrite (strip_pad_gen bytes_isspace 32%N) by (reflexivity || now apply digits_kept).
  pose proof (parse_print_dec n) as Hp.
  destruct (print_dec n) as [|c r]; [congruence|].
  cbn [forallb] in Hd. apply andb_true_iff in Hd. destruct Hd as [Hc Hr].
  assert (Hc' := Hc). unfold is_ascii_digit in Hc'. apply andb_true_iff in Hc'.
  rewrite !N.leb_le in Hc'.
  destruct (N.eqb_spec c 43); [lia|]. destruct (N.eqb_spec c 45); [lia|].
  cbn [digits_us]. rewrite Hc, digits_us_all by assumption. cbn [option_map].
  now rewrite Hp.
Qed.

(** ** the name field *)
Lemma split_on_free c l : mem_char c l = false -> split_on c l = [l].
Proof.
  induction l as [|x l IH]; intros H; simpl; [reflexivity|].
  simpl in H. apply orb_false_iff in H. destruct H as [H1 H2].
  rewrite N.eqb_sym in H1. rewrite H1, IH by assumption. reflexivity.
Qed.

Lemma split_on_head c l rest :
  mem_char c l = false -> exists ps, split_on c (l ++ c :: rest) = l :: ps.
Proof.
  induction l as [|x l IH]; intros H; simpl.
  - rewrite N.eqb_refl. eauto.
  - simpl in H. apply orb_false_iff in H. destruct H as [H1 H2].
    rewrite N.eqb_sym in H1. rewrite H1. destruct (IH H2) as [ps ->]. eauto.
Qed.

Lemma mem_char_app c a b : mem_char c (a ++ b) = mem_char c a || mem_char c b.
Proof. unfold mem_char. apply existsb_app. Qed.

Lemma mem_char_repeat c x n : c <> x -> mem_char c (repeat x n) = false.
Proof.
  intros H. induction n; simpl; [reflexivity|].
  destruct (N.eqb_spec c x); [congruence|assumption].
Qed.

Lemma name_field_parsed (w : wmem) :
  mem_char 47 (w_name w) = false -> edge_ok (w_name w) = true ->
  match split_on NAME_SEP (pad 16 (name_field w)) with
  | p :: _ => Ok (strip_by bytes_isspace p)
  | [] => Err IndexError
  end = Ok (w_name w).
Proof.
  intros Hfree Hedge. unfold pad, name_field, NAME_SEP.
  set (k := (16 - length (w_name w ++ (if w_slash w then [47%N] else [])))%nat). clearbody k.
  destruct (w_slash w).
  - rewrite <- app_assoc. cbn [app].
    destruct (split_on_head 47 (w_name w) (repeat 32%N k) Hfree) as [ps ->].
    f_equal. rewrite <- (app_nil_r (w_name w)) at 1.
    apply (strip_pad_gen bytes_isspace 32%N (w_name w) 0); [reflexivity|now apply edge_ok_kept].
  - rewrite app_nil_r. rewrite split_on_free.
    + f_equal. apply strip_pad_gen; [reflexivity|now apply edge_ok_kept].
    + rewrite mem_char_app, Hfree. simpl. apply mem_char_repeat. discriminate.
Qed.

(** ** from_file on a header written by [ArSpec.header] *)
Record Wf (w : wmem) : Prop := mkWf {
  wf_nf : (length (name_field w) <= 16)%nat;
  wf_free : mem_char 47 (w_name w) = false;
  wf_edge : edge_ok (w_name w) = true;
  wf_mt : (length (print_dec (w_mtime w)) <= 12)%nat;
  wf_ow : (length (print_dec (w_owner w)) <= 6)%nat;
  wf_gr : (length (print_dec (w_group w)) <= 6)%nat;
  wf_mo : (length (w_mode w) <= 8)%nat;
  wf_sz : (length (print_dec (w_size w)) <= 10)%nat }.

Lemma wf_wmem_Wf w : wf_wmem w = true -> Wf w.
Proof.
  unfold wf_wmem. rewrite !andb_true_iff, !Nat.leb_le, negb_true_iff.
  intros [[[[[[[? ?] ?] ?] ?] ?] ?] ?]. now constructor.
Qed.

Lemma header_length w : Wf w -> length (header w) = 60%nat.
Proof.
  intros []. unfold header. rewrite !app_length, !pad_length by assumption. reflexivity.
Qed.

(** The member the reader is expected to produce for [w] when its data starts at [off]. *)
Definition member_of (w : wmem) (off : Z) : member :=
  mkMember (w_name w) (Z.of_N (w_mtime w)) (Z.of_N (w_owner w)) (Z.of_N (w_group w))
           (pad 8 (w_mode w)) (Z.of_N (w_size w)) off.

Lemma from_file_header pre w rest :
  Wf w ->
  from_file (pre ++ header w ++ rest) (lenz pre)
  = Ok (Some (member_of w (lenz pre + 60), lenz pre + 60)).
Proof.
  intros HW. pose proof (header_length w HW) as Hlen.
  unfold from_file, f_read, FILE_HEADER_LENGTH.
  replace (skipz (lenz pre) (pre ++ header w ++ rest))
    with (skipz (lenz pre + 0) (pre ++ header w ++ rest)) by (f_equal; lia).
  rewrite chunk_placed by (unfold lenz; lia).
  change (skipn (Z.to_nat 0) (header w)) with (header w).
  rewrite firstn_all2 by lia.
  assert (Hl : lenz (header w) = 60) by (unfold lenz; lia).
  rewrite Hl.
  destruct (header w) as [|c0 h0] eqn:Hh; [discriminate|]. rewrite <- Hh.
  change (60 <? 60) with false. cbv iota.
  destruct HW.
  destruct (fields7 (pad 16 (name_field w)) (pad 12 (print_dec (w_mtime w)))
              (pad 6 (print_dec (w_owner w))) (pad 6 (print_dec (w_group w)))
              (pad 8 (w_mode w)) (pad 10 (print_dec (w_size w))) [96; 10]%N)
    as (F1 & F2 & F3 & F4 & F5 & F6 & F7);
    try (apply pad_length; assumption); [reflexivity|].
  fold (header w) in F1, F2, F3, F4, F5, F6, F7.
  rewrite F1, F2, F3, F4, F5, F6, F7.
  change (negb (str_eqb [96; 10]%N FILE_MAGIC)) with false. cbv iota.
  rewrite name_field_parsed by assumption. rewrite !py_int_pad.
  reflexivity.
Qed.

Lemma odd_padding_skip (w : wmem) :
  (if (Z.of_N (w_size w) mod 2 =? 0) then Z.of_N (w_size w) else Z.of_N (w_size w) + 1)
  = lenz (w_data w ++ padding w).
Proof.
  rewrite lenz_app. unfold lenz, padding, w_size.
  replace (Z.of_N (N.of_nat (length (w_data w)))) with (Z.of_nat (length (w_data w))) by lia.
  set (n := length (w_data w)).
  destruct (Nat.odd n) eqn:E.
  - apply Nat.odd_spec in E. destruct E as [m ->].
    replace (Z.of_nat (2 * m + 1)) with (1 + Z.of_nat m * 2) by lia.
    rewrite Z_mod_plus_full. change (1 mod 2 =? 0) with false. simpl. lia.
  - assert (Ev : Nat.even n = true).
    { rewrite <- Nat.negb_odd, E. reflexivity. }
    apply Nat.even_spec in Ev. destruct Ev as [m ->].
    replace (Z.of_nat (2 * m)) with (0 + Z.of_nat m * 2) by lia.
    rewrite Z_mod_plus_full. change (0 mod 2 =? 0) with true. simpl. lia.
Qed.

Fixpoint listed (pos : Z) (ws : list wmem) : list member :=
  match ws with
  | [] => []
  | w :: r => member_of w (pos + 60) :: listed (pos + lenz (build_member w)) r
  end.

Lemma build_member_length w : Wf w ->
  lenz (build_member w) = 60 + lenz (w_data w ++ padding w).
Proof.
  intros HW. unfold build_member. rewrite lenz_app. unfold lenz at 1.
  rewrite header_length by assumption. reflexivity.
Qed.

Lemma collect_build k : forall ws fuel pre,
  forallb wf_wmem ws = true -> (length ws < fuel)%nat ->
  collect fuel k (pre ++ flat_map build_member ws) (lenz pre)
  = Ok (listed (lenz pre) ws, lenz (pre ++ flat_map build_member ws)).
Proof.
  induction ws as [|w ws IH]; intros fuel pre Hwf Hfuel;
    (destruct fuel as [|fuel]; [simpl in Hfuel; lia|]).
  - cbn [collect flat_map listed]. unfold from_file, f_read.
    rewrite skipz_eq, app_nil_r. unfold lenz at 1. rewrite Nat2Z.id, skipn_all.
    rewrite takez_eq, firstn_nil. reflexivity.
  - cbn [forallb] in Hwf. apply andb_true_iff in Hwf. destruct Hwf as [Hw Hws].
    apply wf_wmem_Wf in Hw.
    cbn [collect flat_map listed].
    replace (pre ++ build_member w ++ flat_map build_member ws)
      with (pre ++ header w ++ ((w_data w ++ padding w) ++ flat_map build_member ws))
      by (unfold build_member; now rewrite <- !app_assoc).
    rewrite from_file_header by assumption. cbn [bind m_size member_of].
    rewrite odd_padding_skip.
    unfold f_seek_rel.
    pose proof (lenz_nonneg pre). pose proof (lenz_nonneg (w_data w ++ padding w)).
    destruct (Z.ltb_spec (lenz pre + 60 + lenz (w_data w ++ padding w)) 0) as [?|_]; [lia|].
    cbn [bind].
    replace (pre ++ header w ++ ((w_data w ++ padding w) ++ flat_map build_member ws))
      with ((pre ++ build_member w) ++ flat_map build_member ws)
      by (unfold build_member; now rewrite <- !app_assoc).
    replace (lenz pre + 60 + lenz (w_data w ++ padding w)) with (lenz (pre ++ build_member w))
      by (rewrite lenz_app, build_member_length by assumption; lia).
    rewrite IH by (assumption || (simpl in Hfuel; lia)). cbn [bind fst snd].
    rewrite lenz_app. reflexivity.
Qed.

Lemma flat_map_build_length ws :
  forallb wf_wmem ws = true -> (length ws <= length (flat_map build_member ws))%nat.
Proof.
  induction ws as [|w ws IH]; intros H; [simpl; lia|].
  cbn [forallb] in H. apply andb_true_iff in H. destruct H as [Hw Hws].
  apply wf_wmem_Wf in Hw. pose proof (build_member_length w Hw) as Hl.
  pose proof (lenz_nonneg (w_data w ++ padding w)).
  cbn [flat_map length]. rewrite app_length. specialize (IH Hws). unfold lenz in *. lia.
Qed.

(** The header walk over an archive written by [build]: exactly the members
    written, in order, each with its recorded fields and its data offset. *)
Lemma collect_members_build k ws :
  forallb wf_wmem ws = true ->
  collect_members k (build ws) = Ok (listed 8 ws, lenz (build ws)).
Proof.
  intros Hwf. unfold collect_members, build, f_read.
  rewrite skipz_eq, takez_eq.
  change (Z.to_nat 0) with O. change (Z.to_nat GLOBAL_HEADER_LENGTH) with 8%nat.
  cbn [skipn]. change 8%nat with (length ar_magic) at 1. rewrite firstn_length_app.
  change (str_eqb ar_magic GLOBAL_HEADER) with true. cbv iota.
  change (0 + lenz ar_magic) with (lenz ar_magic).
  rewrite collect_build; [reflexivity|assumption|].
  rewrite app_length. pose proof (flat_map_build_length ws Hwf). lia.
Qed.

(** ** the listing and the lookup pass the property's judgement *)
Definition member_listed_ok (w : wmem) (m : member) : bool :=
  listed_ok w (m_name m) (m_size m) (m_owner m) (m_group m) (m_mtime m).

Lemma listed_all_ok ws : forall pos, list_forall2b member_listed_ok ws (listed pos ws) = true.
Proof.
  induction ws as [|w ws IH]; intros pos; [reflexivity|].
  cbn [listed list_forall2b]. rewrite IH, andb_true_r.
  unfold member_listed_ok, listed_ok, member_of. simpl.
  now rewrite str_eqb_refl, !Z.eqb_refl.
Qed.

Lemma str_eqb_sym a b : str_eqb a b = str_eqb b a.
Proof.
  destruct (str_eqb a b) eqn:E1, (str_eqb b a) eqn:E2; try reflexivity.
  - apply str_eqb_eq in E1. subst. now rewrite str_eqb_refl in E2.
  - apply str_eqb_eq in E2. subst. now rewrite str_eqb_refl in E1.
Qed.

Lemma dict_get_set {V} (dct : list (str * V)) k v n :
  dict_get (dict_set dct k v) n = if str_eqb k n then Ok v else dict_get dct n.
Proof.
  induction dct as [|[k' v'] dct IH]; simpl.
  - reflexivity.
  - destruct (str_eqb k' k) eqn:E; simpl.
    + apply str_eqb_eq in E. subst k'. destruct (str_eqb k n); reflexivity.
    + rewrite IH. destruct (str_eqb k' n) eqn:E2; [|reflexivity].
      apply str_eqb_eq in E2. subst k'. rewrite str_eqb_sym in E. now rewrite E.
Qed.

Definition look (r : option nat) : result nat :=
  match r with Some j => Ok j | None => Err KeyError end.

Lemma members_dict_last n : forall ws pos dct i acc,
  dict_get dct n = look acc ->
  dict_get (fst (fold_left (fun '(dct, i) m => (dict_set dct (m_name m) i, S i))
                           (listed pos ws) (dct, i))) n
  = look (last_index_from n ws i acc).
Proof.
  induction ws as [|w ws IH]; intros pos dct i acc H; [exact H|].
  cbn [listed fold_left last_index_from]. apply IH.
  rewrite dict_get_set. cbn [member_of m_name].
  destruct (str_eqb (w_name w) n); [reflexivity|exact H].
Qed.

Lemma getmember_last ws pos n :
  getmember (listed pos ws) n = look (last_index n ws).
Proof. unfold getmember, members_dict, last_index. now apply members_dict_last. Qed.

Lemma getmember_lookup_ok ws pos n : lookup_ok ws n (getmember (listed pos ws) n) = true.
Proof.
  rewrite getmember_last. unfold lookup_ok. destruct (last_index n ws); simpl; [apply Nat.eqb_refl|reflexivity].
Qed.

(** ** opening an archive written by [build] *)
Definition opened (mode : N) (ws : list wmem) : arstate :=
  mkAr (kind_of_mode mode) (byname_of_mode mode) (build ws) (lenz (build ws))
       (map (fun m => (init_state m, None)) (listed 8 ws)).

Lemma open_archive_build mode ws :
  forallb wf_wmem ws = true ->
  open_archive mode (build ws) = Ok (listed 8 ws, opened mode ws).
Proof.
  intros H. unfold open_archive. rewrite collect_members_build by assumption. reflexivity.
Qed.

Definition ref_files (ws : list wmem) : list (option bio) :=
  map (fun w => Some (bio_open (w_data w))) ws.

Lemma slots_init : forall ws pre,
  forallb wf_wmem ws = true ->
  slots (pre ++ flat_map build_member ws) ws
        (map (fun m => (init_state m, @None Z)) (listed (lenz pre) ws)) (ref_files ws).
Proof.
  induction ws as [|w ws IH]; intros pre H; [constructor|].
  cbn [forallb] in H. apply andb_true_iff in H. destruct H as [Hw Hws].
  apply wf_wmem_Wf in Hw.
  cbn [listed map ref_files flat_map]. constructor.
  - exists (pre ++ header w), (padding w ++ flat_map build_member ws). split.
    + unfold build_member. now rewrite <- !app_assoc.
    + pose proof (header_length w Hw) as Hl.
      constructor; cbn; rewrite ?lenz_app; unfold lenz, w_size; first [reflexivity|lia].
  - rewrite <- lenz_app, app_assoc. now apply IH.
Qed.

(** member_refines_bytesio, run level: every interleaved call sequence on the
    members of a well-formed archive, in every open mode, passes the
    property's judgement against one in-memory file per member. *)
Theorem run_refines_bytesio mode ws ops :
  forallb wf_wmem ws = true ->
  forallb (idx_ok (length ws)) ops = true ->
  exists ms a,
    open_archive mode (build ws) = Ok (ms, a)
    /\ steps_ok (ref_files ws) ops (map obs2 (ar_run a ops)) = true.
Proof.
  intros Hwf Hidx. exists (listed 8 ws), (opened mode ws).
  split; [now apply open_archive_build|].
  apply run_sim with (ws := ws); [|assumption].
  cbn [opened a_data a_members]. unfold build.
  change 8 with (lenz ar_magic). now apply slots_init.
Qed.

(** members_listed *)
Theorem members_listed_build mode ws :
  forallb wf_wmem ws = true ->
  exists ms a,
    open_archive mode (build ws) = Ok (ms, a)
    /\ list_forall2b member_listed_ok ws ms = true
    /\ (forall n, lookup_ok ws n (getmember ms n) = true).
Proof.
  intros Hwf. exists (listed 8 ws), (opened mode ws).
  split; [now apply open_archive_build|]. split.
  - apply listed_all_ok.
  - intros n. apply getmember_lookup_ok.
Qed.

(** * Part E: no byte outside the member is ever returned

    This part assumes nothing about the archive bytes [d]: it holds for every
    archive the reader opens, well-formed or not. *)

Definition out_bytes (r : out) : str :=
  match r with OBytes b => b | OLines l => concat l | _ => [] end.

(** [b] is the piece of [d] that starts at [p], and unless it is empty it lies
    inside [lo, hi). *)
Definition within (d : str) (lo hi p : Z) (b : str) : bool :=
  str_eqb b (takez (lenz b) (skipz p d))
  && match b with [] => true | _ => (lo <=? p) && (p + lenz b <=? hi) end.

Definition Within (d : str) (lo hi p : Z) (b : str) : Prop :=
  b = takez (lenz b) (skipz p d) /\ (b = [] \/ (lo <= p /\ p + lenz b <= hi)).

Lemma within_iff d lo hi p b : within d lo hi p b = true <-> Within d lo hi p b.
Proof.
  unfold within, Within. rewrite andb_true_iff, str_eqb_eq.
  destruct b as [|c b].
  - split; intros [H _]; split; auto.
  - rewrite andb_true_iff, !Z.leb_le. split; intros [H1 H2]; split; auto.
    destruct H2 as [?|?]; [discriminate|assumption].
Qed.

Lemma Within_nil d lo hi p : Within d lo hi p [].
Proof. split; [|now left]. rewrite takez_eq. reflexivity. Qed.

Lemma takez_length n s : 0 <= n -> lenz (takez n s) <= n.
Proof. intros H. rewrite takez_eq. unfold lenz. rewrite firstn_length. lia. Qed.

Lemma takez_self n s : takez (lenz (takez n s)) s = takez n s.
Proof.
  rewrite !takez_eq. unfold lenz. rewrite Nat2Z.id, firstn_length.
  destruct (Nat.min_spec (Z.to_nat n) (length s)) as [[H ->]|[H ->]]; [reflexivity|].
  rewrite firstn_all. symmetry. apply firstn_all2. lia.
Qed.

Lemma Within_chunk d lo hi p n :
  lo <= p -> 0 <= n -> p + n <= hi -> Within d lo hi p (takez n (skipz p d)).
Proof.
  intros H1 H2 H3. split; [now rewrite takez_self|]. right.
  pose proof (takez_length n (skipz p d) H2). lia.
Qed.

Lemma take_line_prefix x : take_line x = firstn (length (take_line x)) x.
Proof. rewrite take_line_upto_lf. apply upto_lf_prefix. Qed.

Lemma Within_line d lo hi p n :
  lo <= p -> 0 <= n -> p + n <= hi -> Within d lo hi p (take_line (takez n (skipz p d))).
Proof.
  intros H1 H2 H3. set (s := skipz p d). set (b := take_line (takez n s)).
  assert (Hb : b = firstn (length b) (takez n s)) by apply take_line_prefix.
  assert (Hl : (length b <= length (takez n s))%nat).
  { subst b. rewrite take_line_upto_lf. apply upto_lf_length. }
  pose proof (takez_length n s H2) as Hn. unfold lenz in Hn.
  split.
  - rewrite Hb at 1. rewrite !takez_eq. rewrite takez_eq in Hl. rewrite firstn_firstn.
    unfold lenz. rewrite Nat2Z.id. f_equal. rewrite firstn_length in Hl. lia.
  - right. unfold lenz. lia.
Qed.

Lemma Within_app d lo hi p b1 b2 :
  0 <= p -> Within d lo hi p b1 -> Within d lo hi (p + lenz b1) b2 ->
  Within d lo hi p (b1 ++ b2).
Proof.
  intros Hp [E1 R1] [E2 R2]. split.
  - rewrite takez_eq, skipz_eq in *. rewrite lenz_app. unfold lenz in *.
    rewrite Nat2Z.id in E1, E2.
    replace (Z.to_nat (Z.of_nat (length b1) + Z.of_nat (length b2)))
      with (length b1 + length b2)%nat by lia.
    rewrite firstn_add_skipn, <- E1.
    replace (Z.to_nat (p + Z.of_nat (length b1))) with (Z.to_nat p + length b1)%nat in E2 by lia.
    rewrite skipn_add in E2. now rewrite <- E2.
  - destruct R1 as [->|R1]; [simpl in *; rewrite Z.add_0_r in R2; exact R2|].
    destruct R2 as [->|R2]; [rewrite app_nil_r; now right|].
    right. rewrite lenz_app. lia.
Qed.

Record Kept (st st' : mstate) (n : Z) : Prop := mkKept {
  k_off : st_off st' = st_off st;
  k_end : st_end st' = st_end st;
  k_cur : st_cur st' = st_cur st + n }.

Lemma read_within k d fh st size :
  0 <= st_off st <= st_cur st ->
  exists st' fh' b,
    m_read k d fh st size = (st', fh', OBytes b)
    /\ Kept st st' (lenz b) /\ Within d (st_off st) (st_end st) (st_cur st) b.
Proof.
  destruct st as [off en cur]. cbn [st_off st_cur st_end]. intros H.
  unfold m_read. cbn [st_off st_cur st_end]. rewrite seek_abs_ok by lia.
  destruct ((0 <? size) && (size <=? en - cur)) eqn:E1.
  - apply andb_true_iff in E1. rewrite Z.ltb_lt, Z.leb_le in E1.
    unfold f_read. eexists _, _, _. split; [reflexivity|]. split.
    + constructor; reflexivity.
    + apply Within_chunk; lia.
  - destruct ((cur >=? en) || (cur <? off)) eqn:E2.
    + eexists _, _, _. split; [reflexivity|]. split.
      * constructor; cbn; lia.
      * apply Within_nil.
    + apply orb_false_iff in E2. destruct E2 as [E2 _].
      rewrite Z.geb_leb in E2. apply Z.leb_gt in E2.
      unfold f_read. eexists _, _, _. split; [reflexivity|]. split.
      * constructor; reflexivity.
      * apply Within_chunk; lia.
Qed.

Lemma readline_within k d fh st size :
  0 <= st_off st <= st_cur st ->
  exists st' fh' b,
    m_readline k d fh st size = (st', fh', OBytes b)
    /\ Kept st st' (lenz b) /\ Within d (st_off st) (st_end st) (st_cur st) b.
Proof.
  destruct st as [off en cur]. cbn [st_off st_cur st_end]. intros H.
  unfold m_readline. cbn [st_off st_cur st_end]. rewrite seek_abs_ok by lia.
  destruct ((cur >=? en) || (cur <? off)) eqn:E2.
  - eexists _, _, _. split; [reflexivity|]. split.
    + constructor; cbn; lia.
    + apply Within_nil.
  - apply orb_false_iff in E2. destruct E2 as [E2 _].
    rewrite Z.geb_leb in E2. apply Z.leb_gt in E2.
    set (remaining := en - cur).
    set (size' := match size with
                  | None => remaining
                  | Some s => if (s <? 0) || (s >? remaining) then remaining else s
                  end).
    assert (Hs' : 0 <= size' <= remaining).
    { subst size'. destruct size as [s|]; [|subst remaining; lia].
      destruct ((s <? 0) || (s >? remaining)) eqn:E; [subst remaining; lia|].
      apply orb_false_iff in E. rewrite Z.ltb_ge, Z.gtb_ltb, Z.ltb_ge in E. lia. }
    unfold f_readline. destruct (Z.ltb_spec size' 0) as [?|_]; [lia|].
    eexists _, _, _. split; [reflexivity|]. split.
    + constructor; reflexivity.
    + apply Within_line; subst remaining; lia.
Qed.

Lemma readlines_within k d : forall fuel fh st,
  0 <= st_off st <= st_cur st ->
  exists st' fh' res,
    m_readlines fuel k d fh st = (st', fh', res)
    /\ st_off st' = st_off st /\ st_end st' = st_end st /\ st_cur st <= st_cur st'
    /\ forall ls, res = Ok ls ->
         st_cur st' = st_cur st + lenz (concat ls)
         /\ Within d (st_off st) (st_end st) (st_cur st) (concat ls).
Proof.
  induction fuel as [|fuel IH]; intros fh st H.
  - cbn [m_readlines]. eexists _, _, _. split; [reflexivity|].
    split; [lia|]. split; [lia|]. split; [lia|]. discriminate.
  - cbn [m_readlines].
    destruct (readline_within k d fh st None H) as (st1 & fh1 & b & E1 & [Ko Ke Kc] & W1).
    rewrite E1. pose proof (lenz_nonneg b) as Hb.
    destruct b as [|c b'].
    + eexists _, _, _. split; [reflexivity|]. cbn in Kc.
      split; [lia|]. split; [lia|]. split; [lia|].
      intros ls [= <-]. cbn. split; [lia|apply Within_nil].
    + set (b := c :: b') in *.
      destruct (IH fh1 st1) as (st2 & fh2 & res & E2 & Ho2 & He2 & Hc2 & Hres); [lia|].
      rewrite E2. eexists _, _, _. split; [reflexivity|].
      split; [lia|]. split; [lia|]. split; [lia|].
      intros ls Hls. destruct res as [ls'|e]; [|discriminate].
      injection Hls as <-. destruct (Hres ls' eq_refl) as [Hc W2].
      cbn [concat]. rewrite lenz_app. split; [lia|].
      apply Within_app; [lia|assumption|].
      rewrite Ko, Ke, Kc in W2. exact W2.
Qed.

(** The model-side domain of the property: the target of a seek is not before
    the start of the member. *)
Definition op_dom_m (st : mstate) (o : op) : bool :=
  match o with
  | Seek o w =>
      ((w =? 0) && (0 <=? o)) || ((w =? 1) && (st_off st <=? st_cur st + o))
      || ((w =? 2) && (st_off st <=? st_end st + o))
  | _ => true
  end.

Lemma member_op_safe k d fh st o :
  0 <= st_off st <= st_cur st ->
  exists st' fh' r,
    member_op k d fh st o = (st', fh', r)
    /\ st_off st' = st_off st /\ st_end st' = st_end st
    /\ Within d (st_off st) (st_end st) (st_cur st) (out_bytes r)
    /\ (op_dom_m st o = true -> st_off st <= st_cur st').
Proof.
  intros H. destruct o as [size|size| |o w|]; cbn [member_op].
  - destruct (read_within k d fh st (match size with Some s => s | None => 0 end) H)
      as (st' & fh' & b & E & [Ko Ke Kc] & W).
    pose proof (lenz_nonneg b). exists st', fh', (OBytes b).
    split; [assumption|]. split; [assumption|]. split; [assumption|]. split; [exact W|].
    intros _. lia.
  - destruct (readline_within k d fh st size H) as (st' & fh' & b & E & [Ko Ke Kc] & W).
    pose proof (lenz_nonneg b). exists st', fh', (OBytes b).
    split; [assumption|]. split; [assumption|]. split; [assumption|]. split; [exact W|].
    intros _. lia.
  - destruct (readlines_within k d (S (length d)) fh st H)
      as (st' & fh' & res & E & Ho & He & Hc & Hres).
    rewrite E. destruct res as [ls|e].
    + exists st', fh', (OLines ls).
      split; [reflexivity|]. split; [assumption|]. split; [assumption|].
      split; [exact (proj2 (Hres ls eq_refl))|]. intros _. lia.
    + exists st', fh', (OErr e).
      split; [reflexivity|]. split; [assumption|]. split; [assumption|].
      split; [apply Within_nil|]. intros _. lia.
  - destruct st as [off en cur]. cbn [st_off st_cur st_end] in H.
    assert (Hdom : op_dom_m (mkSt off en cur) (Seek o w) = true ->
                   (w = 0 /\ 0 <= o) \/ (w = 1 /\ off <= cur + o) \/ (w = 2 /\ off <= en + o)).
    { unfold op_dom_m. cbn [st_off st_cur st_end].
      rewrite !orb_true_iff, !andb_true_iff, !Z.leb_le, !Z.eqb_eq. tauto. }
    revert Hdom. generalize (op_dom_m (mkSt off en cur) (Seek o w)). intros dom Hdom.
    unfold m_seek. cbn [st_off st_cur st_end set_cur].
    destruct (Z.ltb_spec cur off) as [?|_]; [lia|]. cbn [st_off st_cur st_end set_cur].
    destruct ((w <? 2) && (o + cur <? off)) eqn:E1.
    + eexists _, _, _. split; [reflexivity|]. cbn.
      split; [reflexivity|]. split; [reflexivity|]. split; [apply Within_nil|]. lia.
    + destruct (Z.eqb_spec w 1) as [->|Hw1].
      * eexists _, _, _. split; [reflexivity|]. cbn.
        split; [reflexivity|]. split; [reflexivity|]. split; [apply Within_nil|].
        intros Hd. apply Hdom in Hd. lia.
      * destruct (Z.eqb_spec w 0) as [->|Hw0].
        -- eexists _, _, _. split; [reflexivity|]. cbn.
           split; [reflexivity|]. split; [reflexivity|]. split; [apply Within_nil|].
           intros Hd. apply Hdom in Hd. lia.
        -- destruct (Z.eqb_spec w 2) as [->|Hw2].
           ++ eexists _, _, _. split; [reflexivity|]. cbn.
              split; [reflexivity|]. split; [reflexivity|]. split; [apply Within_nil|].
              intros Hd. apply Hdom in Hd. lia.
           ++ eexists _, _, _. split; [reflexivity|]. cbn.
              split; [reflexivity|]. split; [reflexivity|]. split; [apply Within_nil|]. lia.
  - exists st, fh, (OInt (m_tell st)).
    split; [reflexivity|]. split; [reflexivity|]. split; [reflexivity|].
    split; [apply Within_nil|]. lia.
Qed.

(** ** offsets recorded by the header walk are non-negative (any archive) *)
Lemma from_file_offset d pos m p1 :
  0 <= pos -> from_file d pos = Ok (Some (m, p1)) -> m_offset m = p1 /\ 0 <= p1.
Proof.
  intros Hpos. unfold from_file, f_read.
  set (buf := takez FILE_HEADER_LENGTH (skipz pos d)).
  pose proof (lenz_nonneg buf) as Hb.
  destruct buf as [|c0 b0] eqn:Eb; [discriminate|]. rewrite <- Eb in *. clear Eb.
  destruct (lenz buf <? FILE_HEADER_LENGTH); [discriminate|].
  destruct (negb (str_eqb (sl buf sl_magic) FILE_MAGIC)); [discriminate|].
  destruct (match split_on NAME_SEP (sl buf sl_name) with
            | [] => Err IndexError | p :: _ => Ok (strip_by bytes_isspace p) end);
    cbn [bind]; [|discriminate].
  destruct (py_int (sl buf sl_mtime)); cbn [bind]; [|discriminate].
  destruct (py_int (sl buf sl_owner)); cbn [bind]; [|discriminate].
  destruct (py_int (sl buf sl_group)); cbn [bind]; [|discriminate].
  destruct (py_int (sl buf sl_size)); cbn [bind]; [|discriminate].
  intros [= <- <-]. cbn. split; [reflexivity|lia].
Qed.

Lemma seek_rel_nonneg k pos delta p : f_seek_rel k pos delta = Ok p -> 0 <= p.
Proof.
  unfold f_seek_rel. destruct (Z.ltb_spec (pos + delta) 0).
  - destruct k; [intros [= <-]; lia|discriminate].
  - intros [= <-]. lia.
Qed.

Lemma collect_offsets k d : forall fuel pos ms pos',
  0 <= pos -> collect fuel k d pos = Ok (ms, pos') ->
  Forall (fun m => 0 <= m_offset m) ms.
Proof.
  induction fuel as [|fuel IH]; intros pos ms pos' Hpos; [discriminate|].
  cbn [collect]. destruct (from_file d pos) as [[[m p1]|]|e] eqn:Ef; cbn [bind].
  - destruct (from_file_offset d pos m p1 Hpos Ef) as [Ho Hp1].
    destruct (f_seek_rel k p1 _) as [p2|e] eqn:Es; cbn [bind]; [|discriminate].
    apply seek_rel_nonneg in Es.
    destruct (collect fuel k d p2) as [[ms2 pos2]|e] eqn:Ec; cbn [bind]; [|discriminate].
    intros [= <- <-]. constructor; [lia|]. eapply IH; eassumption.
  - intros [= <- <-]. constructor.
  - discriminate.
Qed.

Lemma collect_members_offsets k d ms pos :
  collect_members k d = Ok (ms, pos) -> Forall (fun m => 0 <= m_offset m) ms.
Proof.
  unfold collect_members, f_read.
  destruct (str_eqb _ GLOBAL_HEADER); [|discriminate].
  apply collect_offsets. pose proof (lenz_nonneg (takez GLOBAL_HEADER_LENGTH (skipz 0 d))). lia.
Qed.

(** ** the run-level statement *)
Fixpoint run_state (a : arstate) (ops : list (nat * op)) : arstate :=
  match ops with
  | [] => a
  | io :: r => run_state (fst (ar_step a io)) r
  end.

Definition step_dom (a : arstate) (io : nat * op) : bool :=
  match nth_error (a_members a) (fst io) with
  | Some (st, _) => op_dom_m st (snd io)
  | None => true
  end.

(** Every call so far had a non-negative target (the property's quantifier). *)
Fixpoint run_dom (a : arstate) (ops : list (nat * op)) : bool :=
  match ops with
  | [] => true
  | io :: r => step_dom a io && run_dom (fst (ar_step a io)) r
  end.

Definition cur_of (a : arstate) (i : nat) : Z :=
  match nth_error (a_members a) i with Some (st, _) => st_cur st | None => 0 end.

Definition minv (m : member) (sm : mstate * option Z) : Prop :=
  st_off (fst sm) = m_offset m /\ st_end (fst sm) = m_offset m + m_size m
  /\ 0 <= m_offset m <= st_cur (fst sm).

Definition ainv (d : str) (ms : list member) (a : arstate) : Prop :=
  a_data a = d /\ Forall2 minv ms (a_members a).

Lemma Forall2_nth_r {A B} (P : A -> B -> Prop) l1 l2 i y :
  Forall2 P l1 l2 -> nth_error l2 i = Some y -> exists x, nth_error l1 i = Some x /\ P x y.
Proof.
  intros H. revert i. induction H as [|x0 y0 l1 l2 Hxy H IH]; intros [|i] Hi; simpl in *;
    try discriminate.
  - injection Hi as <-. eauto.
  - now apply IH.
Qed.

Lemma Forall2_nth_l {A B} (P : A -> B -> Prop) l1 l2 i x :
  Forall2 P l1 l2 -> nth_error l1 i = Some x -> exists y, nth_error l2 i = Some y /\ P x y.
Proof.
  intros H. revert i. induction H as [|x0 y0 l1 l2 Hxy H IH]; intros [|i] Hi; simpl in *;
    try discriminate.
  - injection Hi as <-. eauto.
  - now apply IH.
Qed.

Lemma Forall2_set_r {A B} (P : A -> B -> Prop) l1 l2 i x y' :
  Forall2 P l1 l2 -> nth_error l1 i = Some x -> P x y' -> Forall2 P l1 (list_set l2 i y').
Proof.
  intros H. revert i. induction H as [|x0 y0 l1 l2 Hxy H IH]; intros [|i] Hi Hp; simpl in *;
    try discriminate.
  - injection Hi as <-. now constructor.
  - constructor; [assumption|now apply IH].
Qed.

Lemma ar_step_inv d ms a io :
  ainv d ms a -> step_dom a io = true -> ainv d ms (fst (ar_step a io)).
Proof.
  intros [Hd HF] Hdom. destruct io as [i o]. unfold step_dom in Hdom. cbn [fst snd] in Hdom.
  unfold ar_step. destruct (nth_error (a_members a) i) as [[st own]|] eqn:En; [|now split].
  destruct (Forall2_nth_r _ _ _ _ _ HF En) as (m & Em & Ho & He & Hc). cbn [fst] in *.
  set (fh := if a_byname a then own else Some (a_shared a)).
  destruct (member_op_safe (a_kind a) (a_data a) fh st o) as (st' & fh' & r & E & Ho' & He' & _ & Hc');
    [lia|].
  rewrite E. specialize (Hc' Hdom).
  assert (Hm : forall x, minv m (st', x)).
  { intros x. unfold minv. cbn [fst]. lia. }
  destruct (a_byname a); cbn [fst]; (split; [exact Hd|]); cbn [a_members];
    eapply Forall2_set_r; eauto.
Qed.

Lemma run_inv d ms : forall ops a,
  ainv d ms a -> run_dom a ops = true -> ainv d ms (run_state a ops).
Proof.
  induction ops as [|io ops IH]; intros a Ha Hdom; [exact Ha|].
  cbn [run_dom] in Hdom. apply andb_true_iff in Hdom. destruct Hdom as [H1 H2].
  cbn [run_state]. apply IH; [|assumption]. now apply ar_step_inv.
Qed.

Lemma open_archive_inv mode d ms a : open_archive mode d = Ok (ms, a) -> ainv d ms a.
Proof.
  unfold open_archive.
  destruct (collect_members (kind_of_mode mode) d) as [[ms0 pos]|e] eqn:E; cbn [bind]; [|discriminate].
  intros [= <- <-]. split; [reflexivity|]. cbn [a_members].
  apply collect_members_offsets in E.
  induction E as [|m ms0 Hm E IH]; cbn [map]; constructor; [|exact IH].
  unfold minv. cbn. lia.
Qed.

(** no_foreign_byte: in any archive the reader opens, after any history of calls
    with non-negative targets, interleaved in any way, the bytes any further call
    returns on member [i] are the bytes of the archive at that member's current
    position and lie inside [offset_i, offset_i + size_i). *)
Theorem no_foreign_byte_run mode d ms a0 ops i o m :
  open_archive mode d = Ok (ms, a0) ->
  run_dom a0 ops = true ->
  nth_error ms i = Some m ->
  let a := run_state a0 ops in
  within d (m_offset m) (m_offset m + m_size m) (cur_of a i)
         (out_bytes (fst (fst (snd (ar_step a (i, o)))))) = true.
Proof.
  intros Hopen Hdom Hm a. apply within_iff.
  assert (Ha : ainv d ms a) by (apply run_inv; [eapply open_archive_inv; eassumption|assumption]).
  destruct Ha as [Hd HF].
  destruct (Forall2_nth_l _ _ _ _ _ HF Hm) as ([st own] & En & Ho & He & Hc). cbn [fst] in *.
  unfold cur_of, ar_step. rewrite En.
  set (fh := if a_byname a then own else Some (a_shared a)).
  destruct (member_op_safe (a_kind a) (a_data a) fh st o) as (st' & fh' & r & E & _ & _ & W & _);
    [lia|].
  rewrite E. rewrite Hd, Ho, He in W.
  destruct (a_byname a); exact W.
Qed.

(** The same fact for one call, with the position of the file handle the member
    finds universally quantified. *)
Theorem no_foreign_byte_step k d fh st o :
  (0 <=? st_off st) && (st_off st <=? st_cur st) = true ->
  within d (st_off st) (st_end st) (st_cur st) (out_bytes (snd (member_op k d fh st o))) = true.
Proof.
  intros H. apply andb_true_iff in H. rewrite !Z.leb_le in H. apply within_iff.
  destruct (member_op_safe k d fh st o) as (st' & fh' & r & E & _ & _ & W & _); [lia|].
  now rewrite E.
Qed.

(** [run_state] is the state [ar_run] has reached: the observation of one more
    call after [ops] is the one [ar_step] makes in [run_state a ops]. *)
Lemma ar_run_snoc : forall ops a io,
  ar_run a (ops ++ [io]) = ar_run a ops ++ [snd (ar_step (run_state a ops) io)].
Proof.
  induction ops as [|io0 ops IH]; intros a io.
  - cbn [app ar_run run_state]. destruct (ar_step a io). reflexivity.
  - cbn [app ar_run run_state]. destruct (ar_step a io0) as [a' r]. cbn [fst].
    now rewrite IH.
Qed.

(** member_refines_bytesio, step level, with boolean hypotheses. *)
Theorem member_step_refines k pre data post fh st b o :
  rel pre data st b = true -> op_in_dom b o = true ->
  let res := member_op k (pre ++ data ++ post) fh st o in
  snd res = as_member_out o (snd (bio_op b o))
  /\ rel pre data (fst (fst res)) (fst (bio_op b o)) = true
  /\ m_tell (fst (fst res)) = b_pos (fst (bio_op b o)).
Proof.
  intros HR Hdom. apply rel_iff in HR.
  destruct (member_op_sim k pre data post fh st b o HR Hdom) as (st' & fh' & E & HR' & Ht).
  cbv zeta. rewrite E. cbn [fst snd]. split; [reflexivity|]. split; [now apply rel_iff|assumption].
Qed.
