(** Model of debian.arfile (ArFile.__collect_members, ArMember.from_file and the
    ArMember file interface), on top of a model of the underlying binary file.
    No proofs here: the model must still run when a proof breaks.

    Positions are [Z] (Python ints; [__cur] can become negative through
    [seek]).  Bytes are [N < 256].  Constants and header slice bounds come from
    the generated [Gen/ArConsts.v]. *)
From Verif Require Import Lib.Base Lib.Dec Lib.PySlice Lib.PyStr Gen.ArConsts Ar.Ops.

Local Open Scope Z_scope.

(** * The underlying binary file object

    Two kinds are distinguished because they differ on negative seek targets:
    [io.BytesIO] (ValueError on a negative absolute target, clamps a negative
    relative target to 0) and a real file opened "rb" (OSError in both cases). *)
Inductive fkind := KBytesIO | KRealFile.

Definition lenz (d : str) : Z := Z.of_nat (length d).
(** [d[p:]] and [d[:n]] for non-negative [p], [n].  The count is clamped to the
    length of the list before it is turned into a [nat] (same result; a size
    field such as 9999999999 must not become a unary number). *)
Definition skipz (p : Z) (d : str) : str := skipn (Z.to_nat (Z.min p (lenz d))) d.
Definition takez (n : Z) (d : str) : str := firstn (Z.to_nat (Z.min n (lenz d))) d.

(** [fp.read(n)] for [n >= 0] at position [pos >= 0]: the bytes and the new
    position.  At or beyond the end of the file the result is empty and the
    position does not move. *)
Definition f_read (d : str) (pos n : Z) : str * Z :=
  let b := takez n (skipz pos d) in (b, pos + lenz b).

(** The prefix of [s] up to and including its first LF (all of [s] if none). *)
Fixpoint take_line (s : str) : str :=
  match s with
  | [] => []
  | c :: s' => if (c =? 10)%N then [c] else c :: take_line s'
  end.

(** [fp.readline(n)]: a negative [n] means no limit. *)
Definition f_readline (d : str) (pos n : Z) : str * Z :=
  let rest := skipz pos d in
  let b := take_line (if n <? 0 then rest else takez n rest) in
  (b, pos + lenz b).

(** [fp.seek(p)] *)
Definition f_seek_abs (k : fkind) (p : Z) : result Z :=
  if p <? 0 then Err (match k with KBytesIO => ValueError | KRealFile => IOError end)
  else Ok p.

(** [fp.seek(delta, 1)] *)
Definition f_seek_rel (k : fkind) (pos delta : Z) : result Z :=
  let t := pos + delta in
  if t <? 0 then match k with KBytesIO => Ok 0 | KRealFile => Err IOError end
  else Ok t.

(** * [int(b)] for a bytes argument, base 10

    Leading/trailing ASCII whitespace is ignored, one optional sign, then
    decimal digits in which single underscores may separate digits. *)
Fixpoint digits_us (s : str) (prev_digit : bool) : option str :=
  match s with
  | [] => if prev_digit then Some [] else None
  | c :: s' =>
      if is_ascii_digit c then option_map (cons c) (digits_us s' true)
      else if (c =? 95)%N && prev_digit then
        match s' with
        | d :: _ => if is_ascii_digit d then digits_us s' false else None
        | [] => None
        end
      else None
  end.

Definition py_int (s : str) : result Z :=
  let t := strip_by bytes_isspace s in
  let '(neg, u) := match t with
                   | c :: r => if (c =? 43)%N then (false, r)          (* '+' *)
                               else if (c =? 45)%N then (true, r)      (* '-' *)
                               else (false, t)
                   | [] => (false, t)
                   end in
  match digits_us u false with
  | Some ds => let v := Z.of_N (parse_dec ds) in Ok (if neg then - v else v)
  | None => Err ValueError
  end.

(** * ArMember.from_file *)
Record member := mkMember {
  m_name : str;          (* bytes of the name; the code then decodes them
                            (filesystem encoding, surrogateescape): not modelled *)
  m_mtime : Z;
  m_owner : Z;
  m_group : Z;
  m_fmode : str;
  m_size : Z;
  m_offset : Z;          (* start-of-data offset *)
}.

Definition sl (b : str) (r : Z * Z) : str := slice b (fst r) (snd r).

(** Returns [None] at the end of the archive, else the member and the file
    position after the header. *)
Definition from_file (d : str) (pos : Z) : result (option (member * Z)) :=
  let (buf, pos1) := f_read d pos FILE_HEADER_LENGTH in
  match buf with
  | [] => Ok None                                          (* if not buf *)
  | _ =>
    if lenz buf <? FILE_HEADER_LENGTH then Err IOError     (* Incorrect header length *)
    else if negb (str_eqb (sl buf sl_magic) FILE_MAGIC) then Err IOError
    else
      do name <- match split_on NAME_SEP (sl buf sl_name) with
                 | p :: _ => Ok (strip_by bytes_isspace p)
                 | [] => Err IndexError                    (* split(...)[0] *)
                 end;
      do mtime <- py_int (sl buf sl_mtime);
      do owner <- py_int (sl buf sl_owner);
      do group <- py_int (sl buf sl_group);
      let fmode := sl buf sl_fmode in
      do size <- py_int (sl buf sl_size);
      Ok (Some (mkMember name mtime owner group fmode size pos1, pos1))
  end.

(** * ArFile.__collect_members

    The [while True] loop gets explicit fuel (one unit per member); an
    archive written by ArSpec.build needs one iteration per member plus one, and
    every member takes at least 60 bytes (Proofs.collect_build,
    Proofs.collect_members_build: the fuel [S (length d)] suffices). *)
Fixpoint collect (fuel : nat) (k : fkind) (d : str) (pos : Z) : result (list member * Z) :=
  match fuel with
  | O => Err OutOfFuel
  | S fuel' =>
      do r <- from_file d pos;
      match r with
      | None => Ok ([], pos)     (* read at EOF returned b'': position unchanged *)
      | Some (m, pos1) =>
          let skip := if (m_size m mod 2 =? 0) then m_size m else m_size m + 1 in
          do pos2 <- f_seek_rel k pos1 skip;
          do rest <- collect fuel' k d pos2;
          Ok (m :: fst rest, snd rest)
      end
  end.

(** The file object is read from position 0.  ArError is reported under the
    kind [DebError] (harness/core.py ERR_KINDS). *)
Definition collect_members (k : fkind) (d : str) : result (list member * Z) :=
  let (h, pos) := f_read d 0 GLOBAL_HEADER_LENGTH in
  if str_eqb h GLOBAL_HEADER then collect (S (length d)) k d pos
  else Err DebError.

(** [__members_dict[name] = member] for each member in turn; [getmember]. *)
Fixpoint dict_set {V} (dct : list (str * V)) (k : str) (v : V) : list (str * V) :=
  match dct with
  | [] => [(k, v)]
  | (k', v') :: r => if str_eqb k' k then (k', v) :: r else (k', v') :: dict_set r k v
  end.

Fixpoint dict_get {V} (dct : list (str * V)) (k : str) : result V :=
  match dct with
  | [] => Err KeyError
  | (k', v) :: r => if str_eqb k' k then Ok v else dict_get r k
  end.

(** The dictionary maps a name to the index of the member in [getmembers()]. *)
Definition members_dict (ms : list member) : list (str * nat) :=
  fst (fold_left (fun '(dct, i) m => (dict_set dct (m_name m) i, S i)) ms ([], O)).

Definition getmember (ms : list member) (name : str) : result nat :=
  dict_get (members_dict ms) name.

(** * The ArMember file interface *)
Record mstate := mkSt { st_off : Z; st_end : Z; st_cur : Z }.

Definition init_state (m : member) : mstate :=
  mkSt (m_offset m) (m_offset m + m_size m) (m_offset m).

Definition set_cur (st : mstate) (c : Z) : mstate := mkSt (st_off st) (st_end st) c.

(** The member's file handle: [None] = not opened yet (only when the archive
    was opened by file name; [open(fname, "rb")] then starts at position 0). *)
Definition fh_pos (fh : option Z) : Z := match fh with Some p => p | None => 0 end.

Definition m_read (k : fkind) (d : str) (fh : option Z) (st : mstate) (size : Z)
  : mstate * option Z * out :=
  let p0 := fh_pos fh in
  match f_seek_abs k (st_cur st) with
  | Err e => (st, Some p0, OErr e)
  | Ok p1 =>
      if (0 <? size) && (size <=? st_end st - st_cur st) then        (* there's room *)
        let (b, p2) := f_read d p1 size in (set_cur st p2, Some p2, OBytes b)
      else if (st_cur st >=? st_end st) || (st_cur st <? st_off st) then
        (st, Some p1, OBytes [])
      else
        let (b, p2) := f_read d p1 (st_end st - st_cur st) in
        (set_cur st p2, Some p2, OBytes b)
  end.

Definition m_readline (k : fkind) (d : str) (fh : option Z) (st : mstate) (size : option Z)
  : mstate * option Z * out :=
  let p0 := fh_pos fh in
  match f_seek_abs k (st_cur st) with
  | Err e => (st, Some p0, OErr e)
  | Ok p1 =>
      if (st_cur st >=? st_end st) || (st_cur st <? st_off st) then
        (st, Some p1, OBytes [])
      else
        let remaining := st_end st - st_cur st in
        let size' := match size with
                     | None => remaining
                     | Some s => if (s <? 0) || (s >? remaining) then remaining else s
                     end in
        let (b, p2) := f_readline d p1 size' in
        (set_cur st p2, Some p2, OBytes b)
  end.

(** [readlines]: [readline()] until it returns b''.  An exception inside the
    loop propagates (the lines read so far are lost). *)
Fixpoint m_readlines (fuel : nat) (k : fkind) (d : str) (fh : option Z) (st : mstate)
  : mstate * option Z * result (list str) :=
  match fuel with
  | O => (st, fh, Err OutOfFuel)
  | S fuel' =>
      match m_readline k d fh st None with
      | (st1, fh1, OBytes []) => (st1, fh1, Ok [])
      | (st1, fh1, OBytes b) =>
          match m_readlines fuel' k d fh1 st1 with
          | (st2, fh2, r) => (st2, fh2, do ls <- r; Ok (b :: ls))
          end
      | (st1, fh1, OErr e) => (st1, fh1, Err e)
      | (st1, fh1, _) => (st1, fh1, Err OtherError)       (* readline returns bytes *)
      end
  end.

Definition m_seek (st : mstate) (o w : Z) : mstate * out :=
  let st1 := if st_cur st <? st_off st then set_cur st (st_off st) else st in
  if (w <? 2) && (o + st_cur st1 <? st_off st1) then (st1, OErr IOError)
  else if w =? 1 then (set_cur st1 (st_cur st1 + o), ONone)
  else if w =? 0 then (set_cur st1 (st_off st1 + o), ONone)
  else if w =? 2 then (set_cur st1 (st_end st1 + o), ONone)
  else (st1, ONone).

Definition m_tell (st : mstate) : Z :=
  if st_cur st <? st_off st then 0 else st_cur st - st_off st.

Definition member_op (k : fkind) (d : str) (fh : option Z) (st : mstate) (o : op)
  : mstate * option Z * out :=
  match o with
  | Read size => m_read k d fh st (match size with Some s => s | None => 0 end)
  | Readline size => m_readline k d fh st size
  | Readlines =>
      match m_readlines (S (length d)) k d fh st with
      | (st', fh', Ok ls) => (st', fh', OLines ls)
      | (st', fh', Err e) => (st', fh', OErr e)
      end
  | Seek o w => let (st', r) := m_seek st o w in (st', fh, r)
  | Tell => (st, fh, OInt (m_tell st))
  end.

(** * An opened archive and interleaved operations on its members

    [a_byname = false]: ArFile(fileobj=fp) — every member shares [fp], whose
    position is [a_shared].  [a_byname = true]: ArFile(filename=...) — every
    member opens the file itself on first use and keeps its own position. *)
Record arstate := mkAr {
  a_kind : fkind;
  a_byname : bool;
  a_data : str;
  a_shared : Z;
  a_members : list (mstate * option Z);
}.

(** mode 0: fileobj = io.BytesIO; 1: filename; 2: fileobj = open(path, "rb") *)
Definition kind_of_mode (mode : N) : fkind :=
  match mode with 0%N => KBytesIO | _ => KRealFile end.
Definition byname_of_mode (mode : N) : bool := (mode =? 1)%N.

Definition open_archive (mode : N) (d : str) : result (list member * arstate) :=
  do r <- collect_members (kind_of_mode mode) d;
  let (ms, pos) := r in
  Ok (ms, mkAr (kind_of_mode mode) (byname_of_mode mode) d pos
              (map (fun m => (init_state m, None)) ms)).

(** What is observed after each call: its result, the member's [tell()], and
    (shared-file modes) the position of the caller's file object. *)
Definition step_obs := (out * Z * option Z)%type.

Definition ar_step (a : arstate) (io : nat * op) : arstate * step_obs :=
  let (i, o) := io in
  match nth_error (a_members a) i with
  | None => (a, (OErr IndexError, 0, None))
  | Some (st, own) =>
      let fh := if a_byname a then own else Some (a_shared a) in
      match member_op (a_kind a) (a_data a) fh st o with
      | (st', fh', r) =>
          if a_byname a then
            (mkAr (a_kind a) true (a_data a) (a_shared a) (list_set (a_members a) i (st', fh')),
             (r, m_tell st', None))
          else
            (mkAr (a_kind a) false (a_data a) (fh_pos fh') (list_set (a_members a) i (st', own)),
             (r, m_tell st', Some (fh_pos fh')))
      end
  end.

Fixpoint ar_run (a : arstate) (ops : list (nat * op)) : list step_obs :=
  match ops with
  | [] => []
  | io :: ops' => let (a', r) := ar_step a io in r :: ar_run a' ops'
  end.
