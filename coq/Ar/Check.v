(** Case format evaluated by the correspondence check of C06.
    [agree]: the model reproduces what the implementation did (listing, lookups,
             every call result, the member's tell() and the shared file position
             after every call); on well-formed cases also: the archive the harness
             wrote is [ArSpec.build] of the members it meant to write.
    [holds]: the property itself, judged on what the implementation did, against
             ArSpec (listing, lookup) and BytesIO (one in-memory file per member). *)
From Coq Require Import String.
From Verif Require Import Lib.Base Lib.Dec Lib.PyStr Ar.Ops Ar.BytesIO Ar.ArSpec Ar.Model.

Local Open Scope Z_scope.

(** Literals as the harness writes them *)
Record wlit := mkWL {
  wl_name : string; wl_slash : bool; wl_mtime : N; wl_owner : N; wl_group : N;
  wl_mode : string; wl_data : string }.

Definition w_of (w : wlit) : wmem :=
  mkW (dec (wl_name w)) (wl_slash w) (wl_mtime w) (wl_owner w) (wl_group w)
      (dec (wl_mode w)) (dec (wl_data w)).

(** One entry of the observed listing: getnames()[i] and the attributes of getmembers()[i] *)
Record llit := mkLL {
  ll_name : string; ll_size : Z; ll_owner : Z; ll_group : Z; ll_mtime : Z; ll_fmode : string }.

Inductive lout :=
| LBytes (s : string)
| LLines (l : list string)
| LNone
| LInt (n : Z)
| LErr (e : err).

Definition out_of (l : lout) : out :=
  match l with
  | LBytes s => OBytes (dec s)
  | LLines l => OLines (map dec l)
  | LNone => ONone
  | LInt n => OInt n
  | LErr e => OErr e
  end.

Definition steplit := (lout * Z * option Z)%type.

Inductive case :=
| ArCase (mode : N) (wellformed : bool) (written : list wlit) (archive : string)
         (lookups : list string) (ops : list (nat * op))
         (obs : result (list llit * list (result nat) * list steplit))
| SpecCase (data : string) (ops : list op) (obs : list (lout * Z)).   (* the real io.BytesIO *)

(** ** agree *)
Definition llit_agrees (m : member) (l : llit) : bool :=
  str_eqb (m_name m) (dec (ll_name l))
  && (m_size m =? ll_size l) && (m_owner m =? ll_owner l) && (m_group m =? ll_group l)
  && (m_mtime m =? ll_mtime l) && str_eqb (m_fmode m) (dec (ll_fmode l)).

Definition nat_result_eqb (a b : result nat) : bool := result_eqb Nat.eqb a b.

Definition step_agrees (m : step_obs) (l : steplit) : bool :=
  match m, l with
  | (r, t, sh), (r', t', sh') =>
      out_eqb r (out_of r') && (t =? t') && option_eqb Z.eqb sh sh'
  end.

Definition agree (c : case) : bool :=
  match c with
  | ArCase mode wfd written archive lookups ops obs =>
      let d := dec archive in
      (if wfd then str_eqb (build (map w_of written)) d else true)
      &&
      match open_archive mode d, obs with
      | Err e, Err e' => err_eqb e e'
      | Ok (ms, a), Ok (listing, looked, steps) =>
          list_forall2b llit_agrees ms listing
          && list_forall2b nat_result_eqb (map (fun n => getmember ms (dec n)) lookups) looked
          && list_forall2b step_agrees (ar_run a ops) steps
      | _, _ => false
      end
  | SpecCase _ _ _ => true
  end.

(** ** holds *)
Definition listed_ok_l (w : wmem) (l : llit) : bool :=
  listed_ok w (dec (ll_name l)) (ll_size l) (ll_owner l) (ll_group l) (ll_mtime l).

Definition lookup_ok_l (ws : list wmem) (n : string) (r : result nat) : bool :=
  lookup_ok ws (dec n) r.

Definition obs2_of (s : steplit) : out * Z :=
  match s with (r, t, _) => (out_of r, t) end.

Definition spec_step_eqb (a : out * Z) (b : lout * Z) : bool :=
  out_eqb (fst a) (out_of (fst b)) && (snd a =? snd b).

Definition holds (c : case) : bool :=
  match c with
  | ArCase mode wfd written archive lookups ops obs =>
      if wfd then
        let ws := map w_of written in
        match obs with
        | Err _ => false                       (* a valid archive must open *)
        | Ok (listing, looked, steps) =>
            list_forall2b listed_ok_l ws listing
            && list_forall2b (lookup_ok_l ws) lookups looked
            && steps_ok (map (fun w => Some (bio_open (w_data w))) ws) ops (map obs2_of steps)
        end
      else true
  | SpecCase data ops obs =>
      list_forall2b spec_step_eqb (bio_run (bio_open (dec data)) ops) obs
  end.

Definition bad_agree (cs : list case) : list N := bad agree cs.
Definition bad_holds (cs : list case) : list N := bad holds cs.
