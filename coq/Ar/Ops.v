(** The call alphabet shared by the ArMember model (Ar/Model.v) and the
    in-memory reference file (Ar/BytesIO.v), and the shape of call results. *)
From Verif Require Import Lib.Base.

Inductive op :=
| Read (size : option Z)        (* [None]: called without argument *)
| Readline (size : option Z)    (* [None]: called without argument / with None *)
| Readlines                     (* called without argument *)
| Seek (offset whence : Z)
| Tell.

Inductive out :=
| OBytes (b : str)
| OLines (l : list str)
| ONone
| OInt (n : Z)
| OErr (e : err).

Definition out_eqb (a b : out) : bool :=
  match a, b with
  | OBytes x, OBytes y => str_eqb x y
  | OLines x, OLines y => strs_eqb x y
  | ONone, ONone => true
  | OInt x, OInt y => (x =? y)%Z
  | OErr x, OErr y => err_eqb x y
  | _, _ => false
  end.
