(** The call alphabet shared by the ArMember model (Ar/Model.v) and the
    in-memory reference file (Ar/BytesIO.v), and the shape of call results. *)
From Verif Require Import Lib.Base.

Inductive op :=
| Read (size : option Z)        (* [None]: called without argument *)
| Readline (size : option Z)    (* [None]: called without argument / with None *)
| Readlines                     (* called without argument *)
| Seek (offset whence : Z)
| Tell.

Inductive out :=
| OBytes (b : str)
| OLines (l : list str)
| ONone
| OInt (n : Z)
| OErr (e : err).

Definition out_eqb (a b : out) : bool :=
  match a, b with
  | OBytes x, OBytes y => str_eqb x y
  | OLines x, OLines y => strs_eqb x y
  | ONone, ONone => true
  | OInt x, OInt y => (x =? y)%Z
  | OErr x, OErr y => err_eqb x y
  | _, _ => false
  end.

(** [l[i] = a] (no effect when [i] is out of range) *)
Fixpoint list_set {A} (l : list A) (i : nat) (a : A) : list A :=
  match l, i with
  | [], _ => []
  | _ :: r, O => a :: r
  | x :: r, S i' => x :: list_set r i' a
  end.

Fixpoint list_forall2b {A B} (f : A -> B -> bool) (l1 : list A) (l2 : list B) : bool :=
  match l1, l2 with
  | [], [] => true
  | a :: l1, b :: l2 => f a b && list_forall2b f l1 l2
  | _, _ => false
  end.
