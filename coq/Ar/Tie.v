(** C06 — tie by regeneration: the regenerated methods of ArMember (Gen/TrArMember.v, rewritten from
    lib/debian/arfile.py on every run) against the model's [member_op] (Ar/Model.v), for ALL states.

    The translated methods thread the five private attributes ([__fp], [__fname], [__offset], [__end],
    [__cur]) and return [mres ret state]; the model works on [mstate] (offset/end/cur) and the handle
    position [fh : option Z] and returns [mstate * option Z * out].  [mview] reads a translated result as
    a model result (plus the unchanged/changed [__fname]); it loses nothing ([mview_inj]).

    The model has no [__fname]: its [fh = None] means "the file is opened by name on first use, at
    position 0".  The code raises ValueError when both [__fp] and [__fname] are None; the model has no
    such branch, hence the guard [has_source] on read/readline/readlines.  ArMember.from_file establishes
    it (it stores [fp] itself whenever [fname] is None or empty) and every method keeps it
    ([has_source_step]; close(), not regenerated, drops [__fp] only when [__fname] is not None). *)
From Coq Require Import Lia ZifyBool.
From Verif Require Import Lib.Base Lib.PyStr Lib.Tr Ar.Ops Ar.Model Ar.TrPrims Gen.TrArMember.

Local Open Scope Z_scope.

Definition stT : Type := (option fileh * option str * Z * Z * Z)%type.

Definition mview {A} (inj : A -> out) (r : mres A stT) : mstate * option Z * out * option str :=
  match r with
  | MOk a (fp, fname, off, en, cur) => (mkSt off en cur, fp, inj a, fname)
  | MErr e (fp, fname, off, en, cur) => (mkSt off en cur, fp, OErr e, fname)
  end.

Definition has_source (fp : option fileh) (fname : option str) : bool :=
  tr_is_some fp || tr_is_some fname.

Lemma tr_read_eq k d fp fname off en cur size :
  has_source fp fname = true ->
  mview OBytes (tr_read k d fp fname off en cur size)
  = (member_op k d fp (mkSt off en cur) (Read (Some size)), fname).
Proof.
  intros G. cbn [member_op]. unfold tr_read, m_read, trp_fseek, trp_fread, trp_ftell, trp_open, set_cur.
  cbn [st_cur st_end st_off].
  destruct fp as [p|]; [|destruct fname as [nm|]; [|discriminate G]];
    cbn [tr_is_none tr_unwrap fh_pos];
    (destruct (f_seek_abs k cur) as [p1|e] eqn:Es; [|reflexivity]);
    (destruct ((0 <? size) && (size <=? en - cur)); cbn [tr_unwrap];
     [destruct (f_read d p1 size); reflexivity|]);
    (destruct ((cur >=? en) || (cur <? off)); [reflexivity|]);
    destruct (f_read d p1 (en - cur)); reflexivity.
Qed.

(** [read()] without argument: the default value of [size] as the source has it *)
Lemma tr_read_noarg_eq k d fp fname off en cur :
  has_source fp fname = true ->
  mview OBytes (tr_read_noarg k d fp fname off en cur)
  = (member_op k d fp (mkSt off en cur) (Read None), fname).
Proof. intros G. exact (tr_read_eq k d fp fname off en cur 0 G). Qed.

Lemma tr_readline_eq k d fp fname off en cur size :
  has_source fp fname = true ->
  mview OBytes (tr_readline k d fp fname off en cur size)
  = (member_op k d fp (mkSt off en cur) (Readline size), fname).
Proof.
  intros G. cbn [member_op].
  unfold tr_readline, m_readline, trp_fseek, trp_freadline, trp_ftell, trp_open, set_cur.
  cbn [st_cur st_end st_off].
  destruct fp as [p|]; [|destruct fname as [nm|]; [|discriminate G]];
    cbn [tr_is_none tr_unwrap fh_pos];
    (destruct (f_seek_abs k cur) as [p1|e] eqn:Es; [|reflexivity]);
    (destruct ((cur >=? en) || (cur <? off)); [reflexivity|]);
    (destruct size as [s|]; [destruct ((s <? 0) || (s >? en - cur))|]);
    cbn [tr_unwrap];
    match goal with |- context [f_readline d p1 ?n] => destruct (f_readline d p1 n) end; reflexivity.
Qed.

(** after read/readline the member always holds an open handle *)
Lemma m_readline_fh k d fh st size : tr_is_some (snd (fst (m_readline k d fh st size))) = true.
Proof.
  unfold m_readline. destruct (f_seek_abs k (st_cur st)) as [p1|e]; [|reflexivity].
  destruct ((st_cur st >=? st_end st) || (st_cur st <? st_off st)); [reflexivity|].
  match goal with |- context [f_readline d p1 ?n] => destruct (f_readline d p1 n) end; reflexivity.
Qed.

(** the [while True] loop of readlines, in lockstep with [m_readlines] (same fuel) *)
Lemma tr_readlines_loop_eq k d sizehint : forall fuel fp fname off en cur buf lines,
  has_source fp fname = true ->
  mview OLines (tr_readlines_loop1 fuel k d sizehint fp fname off en cur buf lines)
  = match m_readlines fuel k d fp (mkSt off en cur) with
    | (st', fh', Ok ls) => (st', fh', OLines (lines ++ ls), fname)
    | (st', fh', Err e) => (st', fh', OErr e, fname)
    end.
Proof.
  induction fuel as [|fuel IH]; intros fp fname off en cur buf lines G; [reflexivity|].
  cbn [tr_readlines_loop1 m_readlines].
  pose proof (tr_readline_eq k d fp fname off en cur None G) as E. cbn [member_op] in E.
  pose proof (m_readline_fh k d fp (mkSt off en cur) None) as F.
  destruct (tr_readline k d fp fname off en cur None) as [b [[[[fp' fname'] off'] en'] cur']|e [[[[fp' fname'] off'] en'] cur']];
    cbn [mview] in E; injection E as E <-; rewrite <- E in F |- *; cbn [fst snd] in F.
  - destruct b as [|c b]; cbn [tr_is_nil negb].
    + cbn [mview]. rewrite app_nil_r. reflexivity.
    + rewrite IH by (destruct fp'; [reflexivity|discriminate F]).
      destruct (m_readlines fuel k d fp' (mkSt off' en' cur')) as [[st2 fh2] [ls|e]]; cbn [bind].
      * rewrite <- app_assoc. reflexivity.
      * reflexivity.
  - reflexivity.
Qed.

Lemma tr_readlines_eq k d fp fname off en cur sizehint :
  has_source fp fname = true ->
  mview OLines (tr_readlines k d fp fname off en cur sizehint)
  = (member_op k d fp (mkSt off en cur) Readlines, fname).
Proof.
  intros G. unfold tr_readlines. rewrite tr_readlines_loop_eq by exact G. cbn [member_op].
  destruct (m_readlines (S (length d)) k d fp (mkSt off en cur)) as [[st' fh'] [ls|e]]; reflexivity.
Qed.

(** ... and the fuel [S (length d)] that both use is never exhausted: every iteration but the last
    returns at least one byte of [d] beyond [cur], for EVERY state (no hypothesis on offset/end/cur). *)
Lemma take_line_length s : (length (take_line s) <= length s)%nat.
Proof.
  induction s as [|c s IH]; cbn [take_line]; [lia|].
  destruct (c =? 10)%N; cbn [length]; lia.
Qed.

Lemma f_readline_bound d p n :
  0 <= p -> lenz (fst (f_readline d p n)) <= Z.max 0 (lenz d - p).
Proof.
  intros Hp. unfold f_readline. cbn [fst].
  set (rest := skipz p d).
  assert (Hr : lenz rest <= Z.max 0 (lenz d - p)).
  { subst rest. unfold skipz, lenz. rewrite skipn_length. lia. }
  assert (Ht : forall s, lenz (take_line s) <= lenz s)
    by (intros s; unfold lenz; pose proof (take_line_length s); lia).
  destruct (n <? 0); [specialize (Ht rest); lia|].
  specialize (Ht (takez n rest)).
  assert (lenz (takez n rest) <= lenz rest)
    by (unfold takez, lenz; rewrite firstn_length; lia).
  lia.
Qed.

Lemma m_readlines_fuel k d : forall fuel fh st,
  (0 < fuel)%nat -> (0 <= st_cur st -> lenz d - st_cur st < Z.of_nat fuel) ->
  snd (m_readlines fuel k d fh st) <> Err OutOfFuel.
Proof.
  induction fuel as [|fuel IH]; intros fh [off en cur] Hf Hm; [lia|].
  cbn [st_cur] in Hm. cbn [m_readlines]. unfold m_readline. cbn [st_cur st_end st_off].
  unfold f_seek_abs. destruct (Z.ltb_spec cur 0) as [Hneg|Hpos].
  - destruct k; cbn; discriminate.
  - destruct ((cur >=? en) || (cur <? off)); [cbn; discriminate|].
    pose proof (f_readline_bound d cur (en - cur) Hpos) as Hb.
    destruct (f_readline d cur (en - cur)) as [b p2] eqn:Er.
    assert (Hp2 : p2 = cur + lenz b) by (unfold f_readline in Er; injection Er as <- <-; reflexivity).
    cbn [fst] in Hb. destruct b as [|c b]; [cbn; discriminate|].
    assert (Hl : 1 <= lenz (c :: b)) by (unfold lenz; cbn [length]; lia).
    specialize (IH (Some p2) (set_cur (mkSt off en cur) p2)).
    unfold set_cur in IH |- *. cbn [st_cur st_end st_off] in IH |- *.
    destruct (m_readlines fuel k d (Some p2) (mkSt off en p2)) as [[st2 fh2] r] eqn:Em.
    cbn [snd] in IH |- *.
    assert (Hr : r <> Err OutOfFuel) by (apply IH; lia).
    destruct r as [ls|e]; cbn [bind]; [discriminate|exact Hr].
Qed.

Lemma member_readlines_fuel k d fh st :
  snd (member_op k d fh st Readlines) <> OErr OutOfFuel.
Proof.
  cbn [member_op].
  pose proof (m_readlines_fuel k d (S (length d)) fh st ltac:(lia)) as H.
  destruct (m_readlines (S (length d)) k d fh st) as [[st' fh'] [ls|e]]; cbn [snd] in *; [discriminate|].
  intros [= ->]. apply H; [|reflexivity]. unfold lenz. lia.
Qed.

Lemma tr_seek_eq k d fp fname off en cur offset whence :
  mview (fun _ => ONone) (tr_seek k d fp fname off en cur offset whence)
  = (member_op k d fp (mkSt off en cur) (Seek offset whence), fname).
Proof.
  cbn [member_op]. unfold tr_seek, m_seek, set_cur. cbn [st_cur st_end st_off].
  destruct (cur <? off); cbn [st_cur st_end st_off];
    match goal with |- context [(whence <? 2) && ?c] => destruct ((whence <? 2) && c) end;
    try reflexivity;
    (destruct (whence =? 1); [reflexivity|]);
    (destruct (whence =? 0); [reflexivity|]);
    destruct (whence =? 2); reflexivity.
Qed.

Lemma tr_tell_eq k d fp fname off en cur :
  mview OInt (tr_tell k d fp fname off en cur)
  = (member_op k d fp (mkSt off en cur) Tell, fname).
Proof.
  cbn [member_op]. unfold tr_tell, m_tell. cbn [st_cur st_off]. destruct (cur <? off); reflexivity.
Qed.

(** the guard is an invariant of the member's life: [__fname] never changes (the fourth component of the
    views above) and the handle, once there, stays *)
Lemma m_read_fh k d fh st size : tr_is_some (snd (fst (m_read k d fh st size))) = true.
Proof.
  unfold m_read. destruct (f_seek_abs k (st_cur st)) as [p1|e]; [|reflexivity].
  destruct ((0 <? size) && (size <=? st_end st - st_cur st)); [destruct (f_read d p1 size); reflexivity|].
  destruct ((st_cur st >=? st_end st) || (st_cur st <? st_off st)); [reflexivity|].
  match goal with |- context [f_read d p1 ?n] => destruct (f_read d p1 n) end; reflexivity.
Qed.

Lemma m_readlines_fh k d fname : forall fuel fh st,
  has_source fh fname = true -> has_source (snd (fst (m_readlines fuel k d fh st))) fname = true.
Proof.
  induction fuel as [|fuel IH]; intros fh st G; [exact G|].
  cbn [m_readlines]. pose proof (m_readline_fh k d fh st None) as F.
  destruct (m_readline k d fh st None) as [[st1 fh1] r]. cbn [fst snd] in F.
  assert (G1 : has_source fh1 fname = true) by (destruct fh1; [reflexivity|discriminate F]).
  destruct r as [[|c b]|l| |n|e]; try exact G1.
  specialize (IH fh1 st1 G1).
  destruct (m_readlines fuel k d fh1 st1) as [[st2 fh2] r2]. exact IH.
Qed.

Lemma has_source_step k d fp fname st o :
  has_source fp fname = true -> has_source (snd (fst (member_op k d fp st o))) fname = true.
Proof.
  intros G. destruct o as [size|size| |off w|]; cbn [member_op].
  - pose proof (m_read_fh k d fp st (match size with Some s => s | None => 0 end)) as F.
    destruct (snd (fst (m_read k d fp st _))); [reflexivity|discriminate F].
  - pose proof (m_readline_fh k d fp st size) as F.
    destruct (snd (fst (m_readline k d fp st size))); [reflexivity|discriminate F].
  - pose proof (m_readlines_fh k d fname (S (length d)) fp st G) as F.
    destruct (m_readlines (S (length d)) k d fp st) as [[st' fh'] [ls|e]]; exact F.
  - destruct (m_seek st off w). exact G.
  - exact G.
Qed.

(** [mview] loses nothing: equal views = equal translated results (for an injective [inj] that never
    yields [OErr], as [OBytes], [OLines], [OInt] are) *)
Lemma mview_inj {A} (inj : A -> out) (r1 r2 : mres A stT) :
  (forall a b, inj a = inj b -> a = b) -> (forall a e, inj a <> OErr e) ->
  mview inj r1 = mview inj r2 -> r1 = r2.
Proof.
  intros Hi Hn.
  destruct r1 as [a1 [[[[f1 n1] o1] e1] c1]|x1 [[[[f1 n1] o1] e1] c1]];
    destruct r2 as [a2 [[[[f2 n2] o2] e2] c2]|x2 [[[[f2 n2] o2] e2] c2]]; cbn [mview]; intros H; injection H as -> -> -> -> H ->.
  - apply Hi in H. subst. reflexivity.
  - exfalso. exact (Hn _ _ H).
  - exfalso. symmetry in H. exact (Hn _ _ H).
  - subst. reflexivity.
Qed.
