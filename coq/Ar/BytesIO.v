(** SPEC: an in-memory binary file with the semantics of [io.BytesIO]
    (read-only use).  Independent of the ArMember model; compared with the real
    [io.BytesIO] on every run (harness/props/c06.py spec_selftest). *)
From Verif Require Import Lib.Base Ar.Ops.

Local Open Scope Z_scope.

Record bio := mkBio { b_data : str; b_pos : Z }.      (* invariant: 0 <= b_pos *)

Definition bio_open (d : str) : bio := mkBio d 0.
Definition bio_len (b : bio) : Z := Z.of_nat (length (b_data b)).

(** The unread part of the file (empty when the position is at or beyond the end). *)
Definition bio_rest (b : bio) : str := skipn (Z.to_nat (b_pos b)) (b_data b).

(** One line: up to and including the first LF. *)
Fixpoint upto_lf (s : str) : str :=
  match s with
  | [] => []
  | c :: r => c :: (if (c =? 10)%N then [] else upto_lf r)
  end.

(** All lines, each with its LF; a last line without LF is kept. *)
Fixpoint lines_lf (s : str) : list str :=
  match s with
  | [] => []
  | c :: r =>
      if (c =? 10)%N then [c] :: lines_lf r
      else match lines_lf r with
           | [] => [[c]]
           | l :: ls => (c :: l) :: ls
           end
  end.

Definition advance (b : bio) (got : str) : bio :=
  mkBio (b_data b) (b_pos b + Z.of_nat (length got)).

Definition limit (size : option Z) (s : str) : str :=
  match size with
  | None => s
  | Some n => if n <? 0 then s else firstn (Z.to_nat n) s
  end.

Definition bio_op (b : bio) (o : op) : bio * out :=
  match o with
  | Read size =>
      let got := limit size (bio_rest b) in (advance b got, OBytes got)
  | Readline size =>
      let got := upto_lf (limit size (bio_rest b)) in (advance b got, OBytes got)
  | Readlines =>
      let rest := bio_rest b in (advance b rest, OLines (lines_lf rest))
  | Seek o w =>
      if w =? 0 then
        if o <? 0 then (b, OErr ValueError)            (* negative seek value *)
        else (mkBio (b_data b) o, OInt o)
      else if w =? 1 then
        let p := Z.max 0 (b_pos b + o) in (mkBio (b_data b) p, OInt p)
      else if w =? 2 then
        let p := Z.max 0 (bio_len b + o) in (mkBio (b_data b) p, OInt p)
      else (b, OErr ValueError)                        (* invalid whence *)
  | Tell => (b, OInt (b_pos b))
  end.

Fixpoint bio_run (b : bio) (ops : list op) : list (out * Z) :=
  match ops with
  | [] => []
  | o :: ops' => let (b', r) := bio_op b o in (r, b_pos b') :: bio_run b' ops'
  end.

(** The property's operation alphabet (C06): targets of [seek] are
    non-negative, [whence] is 0, 1 or 2, and [read(0)] is excluded — in the
    ArMember API size 0 is the "read everything" default, a documented
    difference from file objects. *)
Definition op_in_dom (b : bio) (o : op) : bool :=
  match o with
  | Read (Some n) => negb (n =? 0)
  | Seek o w =>
      ((w =? 0) && (0 <=? o)) || ((w =? 1) && (0 <=? b_pos b + o))
      || ((w =? 2) && (0 <=? bio_len b + o))
  | _ => true
  end.

(** [ArMember.seek] returns None where a file object returns the new
    position; the position itself is compared through [tell]. *)
Definition as_member_out (o : op) (r : out) : out :=
  match o, r with
  | Seek _ _, OInt _ => ONone
  | _, _ => r
  end.

(** * The property's judgement of a whole interleaved run

    One reference file per member; [None] once a call outside the property's
    alphabet was made on that member (its later results are not judged).
    [steps] are the observed (result, tell() after the call) pairs. *)
Fixpoint steps_ok (files : list (option bio)) (ops : list (nat * op)) (steps : list (out * Z)) : bool :=
  match ops, steps with
  | [], [] => true
  | (i, o) :: ops', (r, t) :: steps' =>
      match nth_error files i with
      | None => false
      | Some None => steps_ok files ops' steps'
      | Some (Some b) =>
          if op_in_dom b o then
            let (b', sr) := bio_op b o in
            out_eqb (as_member_out o sr) r && (b_pos b' =? t)
            && steps_ok (list_set files i (Some b')) ops' steps'
          else steps_ok (list_set files i None) ops' steps'
      end
  | _, _ => false
  end.
