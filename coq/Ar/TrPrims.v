(** Primitives that the regenerated file interface of ArMember (Gen/TrArMember.v) calls: the underlying
    binary file object held in [self.__fp], and [open(self.__fname, "rb")].

    A file handle is its position only.  The bytes [d] of the archive and the kind [k] of the file object
    (io.BytesIO / a file opened "rb") are ghost parameters of the translated methods, handed to the
    primitives that need them.  Every primitive is the model's own file function (Ar/Model.v [f_seek_abs],
    [f_read], [f_readline]) so that the tie is by unfolding, not by re-proving facts about files; what they
    say about Python's file objects is checked by the correspondence (and, for io.BytesIO, by the
    spec validation of Ar/BytesIO.v), not here. *)
From Verif Require Import Lib.Base Lib.PyStr Ar.Ops Ar.Model.

Local Open Scope Z_scope.

(** the file object: its current position *)
Definition fileh : Type := Z.

(** [open(fname, "rb")]: a handle at position 0 on a file whose bytes are the ghost [d].  [open(None)] is a
    TypeError.  That the named file exists, can be opened and still holds the archive is NOT modelled
    (nor does Ar/Model.v: its [fh = None] means "opens at position 0"). *)
Definition trp_open (fname : option str) (mode : unit) : result fileh :=
  match fname with
  | Some _ => Ok 0
  | None => Err TypeError
  end.

(** [fp.seek(p)]: the new position (also the value returned); on an exception the position is unchanged *)
Definition trp_fseek (k : fkind) (h : fileh) (p : Z) : result (Z * fileh) :=
  match f_seek_abs k p with
  | Ok p' => Ok (p', p')
  | Err e => Err e
  end.

(** [fp.read(n)], called by the methods with [n > 0] only *)
Definition trp_fread (d : str) (h : fileh) (n : Z) : str * fileh := f_read d h n.

(** [fp.readline(n)]; [readline(None)] is [readline(-1)]: no limit *)
Definition trp_freadline (d : str) (h : fileh) (n : option Z) : str * fileh :=
  f_readline d h (match n with Some n => n | None => -1 end).

(** [fp.tell()] *)
Definition trp_ftell (h : fileh) : Z := h.
