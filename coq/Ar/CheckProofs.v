(** The bridge between the theorems of Ar/Proofs.v and the two predicates the
    correspondence check evaluates (Ar/Check.v): on every well-formed case,
    if the implementation's observation agrees with the model ([agree]) then
    the property's judgement of that observation ([holds]) is true.  So a
    [holds] failure on a well-formed case always comes with an [agree] failure:
    the implementation left the model, the model never leaves the spec. *)
From Coq Require Import String.
From Verif Require Import Lib.Base Lib.Dec Lib.PyStr Ar.Ops Ar.BytesIO Ar.ArSpec Ar.Model
  Ar.Proofs Ar.Check.

Local Open Scope Z_scope.

Definition judged_case (c : case) : bool :=
  match c with
  | ArCase mode wfd written archive lookups ops obs =>
      wfd && forallb wf_wmem (map w_of written) && forallb (idx_ok (length written)) ops
  | SpecCase _ _ _ => false
  end.

Lemma forall2b_trans {A B C} (f : A -> B -> bool) (g : B -> C -> bool) (h : A -> C -> bool) :
  (forall a b c, f a b = true -> g b c = true -> h a c = true) ->
  forall l1 l2 l3, list_forall2b f l1 l2 = true -> list_forall2b g l2 l3 = true ->
                   list_forall2b h l1 l3 = true.
Proof.
  intros Hp. induction l1 as [|a l1 IH]; intros [|b l2] [|c l3]; simpl; try discriminate; auto.
  rewrite !andb_true_iff. intros [H1 H2] [H3 H4]. split; [eapply Hp; eassumption|eapply IH; eassumption].
Qed.

Lemma forall2b_map_l {A A' B} (f : A' -> B -> bool) (g : A -> A') l l' :
  list_forall2b f (map g l) l' = list_forall2b (fun a b => f (g a) b) l l'.
Proof.
  revert l'. induction l as [|a l IH]; intros [|b l']; simpl; try reflexivity. now rewrite IH.
Qed.

Lemma forall2b_impl {A B} (f g : A -> B -> bool) :
  (forall a b, f a b = true -> g a b = true) ->
  forall l l', list_forall2b f l l' = true -> list_forall2b g l l' = true.
Proof.
  intros Hp. induction l as [|a l IH]; intros [|b l']; simpl; try discriminate; auto.
  rewrite !andb_true_iff. intros [H1 H2]. split; auto.
Qed.

Lemma forall2b_map_eq {A B C} (f : A -> B -> bool) (p : A -> C) (q : B -> C) :
  (forall a b, f a b = true -> p a = q b) ->
  forall l l', list_forall2b f l l' = true -> map p l = map q l'.
Proof.
  intros Hp. induction l as [|a l IH]; intros [|b l']; simpl; try discriminate; auto.
  rewrite andb_true_iff. intros [H1 H2]. f_equal; auto.
Qed.

Lemma out_eqb_eq a b : out_eqb a b = true -> a = b.
Proof.
  destruct a, b; simpl; try discriminate; intros H.
  - apply str_eqb_eq in H. now subst.
  - apply strs_eqb_eq in H. now subst.
  - reflexivity.
  - apply Z.eqb_eq in H. now subst.
  - apply err_eqb_eq in H. now subst.
Qed.

Lemma nat_result_eqb_eq a b : nat_result_eqb a b = true -> a = b.
Proof.
  destruct a, b; simpl; try discriminate; intros H.
  - apply Nat.eqb_eq in H. now subst.
  - apply err_eqb_eq in H. now subst.
Qed.

Theorem agree_implies_holds c :
  judged_case c = true -> agree c = true -> holds c = true.
Proof.
  destruct c as [mode wfd written archive lookups ops obs|]; [|discriminate].
  cbn [judged_case agree holds]. rewrite !andb_true_iff. intros [[-> Hwf] Hidx] [Hb Hag].
  set (ws := map w_of written) in *.
  apply str_eqb_eq in Hb. rewrite <- Hb in Hag.
  rewrite (open_archive_build mode ws Hwf) in Hag.
  destruct obs as [[[listing looked] steps]|e]; [|discriminate].
  rewrite !andb_true_iff in Hag. destruct Hag as [[H1 H2] H3].
  rewrite !andb_true_iff. repeat split.
  - eapply forall2b_trans; [|apply (listed_all_ok ws 8)|exact H1].
    intros w m l Hwm Hml. unfold member_listed_ok, listed_ok in Hwm.
    unfold llit_agrees in Hml. unfold listed_ok_l, listed_ok.
    rewrite !andb_true_iff in *. rewrite !Z.eqb_eq in *. rewrite !str_eqb_eq in *.
    destruct Hwm as [[[[? ?] ?] ?] ?]. destruct Hml as [[[[[? ?] ?] ?] ?] ?].
    repeat split; congruence.
  - rewrite forall2b_map_l in H2. eapply forall2b_impl; [|exact H2].
    intros n r Hr. cbv beta in Hr. apply nat_result_eqb_eq in Hr. subst r.
    apply getmember_lookup_ok.
  - assert (E : map obs2 (ar_run (opened mode ws) ops) = map obs2_of steps).
    { eapply forall2b_map_eq; [|exact H3].
      intros [[r t] sh] [[r' t'] sh'] H. unfold step_agrees in H.
      rewrite !andb_true_iff in H. destruct H as [[Hr Ht] _].
      apply out_eqb_eq in Hr. apply Z.eqb_eq in Ht. unfold obs2, obs2_of. cbn. congruence. }
    rewrite <- E.
    assert (Hidx' : forallb (idx_ok (length ws)) ops = true).
    { subst ws. now rewrite map_length. }
    destruct (run_refines_bytesio mode ws ops Hwf Hidx') as (ms & a & Ho & Hs).
    rewrite (open_archive_build mode ws Hwf) in Ho. injection Ho as <- <-. exact Hs.
Qed.
