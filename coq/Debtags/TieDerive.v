(** C20 — tie by regeneration, part 3: the derivations of class DB as regenerated into Gen/TrDebtagsDerive.v
    equal the heap-level functions of Debtags/Model.v that [hstep] runs for them ([h_of_db], [h_of_db_copy],
    [h_of_rdb], [h_of_rdb_copy] on [choose_d] / [filter], [h_facet]). *)
From Verif Require Import Lib.Base Lib.PyStr Lib.Tr Debtags.StrSet Debtags.Model
  Debtags.SetProofs Debtags.DictProofs Debtags.Proofs Debtags.HeapBase Debtags.HeapInsert Debtags.HeapDerive
  Debtags.TrPrims Gen.TrDebtags Debtags.Tie Debtags.TrHeapPrims Gen.TrDebtagsDB Debtags.TieDB
  Debtags.TrDerivePrims Gen.TrDebtagsDerive.

(** what a method returns: the new object and the state reached *)
Definition mret (ho : heap * obj) (d r : nat) : mres objb (heap * dref * dref) :=
  MOk (ob_of (snd ho)) (fst ho, d, r).

(** * The four ways a derivation finishes *)

Lemma finish_share_db h db :
  (let (h1, d1) := alloc_dict h db in
   match tr_reverse (deref h1 db) with
   | Ok vd => let (h2, d2) := alloc_vdict h1 vd in Some (h2, (d1, d2))
   | Err _ => None
   end) = Some (h_of_db h db).
Proof.
  unfold h_of_db. destruct (alloc_dict h db) as [h1 d1]. rewrite tie_reverse.
  now destruct (alloc_vdict h1 (reverse_d (deref h1 db))).
Qed.

(** * choose_packages *)

Definition choose_step {V} (d : list (str * V)) (acc : list (str * V)) (p : str) : list (str * V) :=
  match lookup p d with Some v => dict_set p v acc | None => acc end.

Lemma choose_d_fold {V} (d : list (str * V)) l : choose_d d l = fold_left (choose_step d) l [].
Proof. reflexivity. Qed.

Lemma tie_choose_nil pi h d r db :
  tr_db_choose_packages_loop1 [] pi h d r trp_db_blank db = mret (h_of_db h db) d r.
Proof.
  cbn [tr_db_choose_packages_loop1]. unfold trp_ob_set_db_rd, trp_h_reverse_rd, trp_ob_set_rdb_vd, mret, h_of_db, ob_of.
  destruct (alloc_dict h db) as [h1 d1]. rewrite tie_reverse.
  destruct (alloc_vdict h1 (reverse_d (deref h1 db))) as [h2 d2]. reflexivity.
Qed.

Lemma tie_choose_cons p it pi h d r res db :
  tr_db_choose_packages_loop1 (p :: it) pi h d r res db
  = tr_db_choose_packages_loop1 it pi h d r res (choose_step (get_dict h d) db p).
Proof.
  cbn [tr_db_choose_packages_loop1]. unfold trp_hd_contains, dict_mem, trp_hd_getitem, trp_rd_setitem, choose_step.
  now destruct (lookup p (get_dict h d)).
Qed.

Lemma tie_choose_loop it : forall pi h d r res db,
  tr_db_choose_packages_loop1 it pi h d r res db
  = tr_db_choose_packages_loop1 [] pi h d r res (fold_left (choose_step (get_dict h d)) it db).
Proof.
  induction it as [|p it IH]; intros pi h d r res db; [reflexivity|].
  rewrite tie_choose_cons. cbn [fold_left]. apply IH.
Qed.

Theorem tie_db_choose_packages h d r l :
  tr_db_choose_packages h d r l = mret (h_of_db h (choose_d (get_dict h d) l)) d r.
Proof.
  unfold tr_db_choose_packages, trp_rd_empty. rewrite tie_choose_loop, tie_choose_nil. now rewrite choose_d_fold.
Qed.

(** * choose_packages_copy: KeyError at the first requested package that is unknown, nothing allocated by then *)

Lemma tie_choose_copy_nil pi h d r (db : rdict) :
  tr_db_choose_packages_copy_loop1 [] pi h d r trp_db_blank (deref h db) = mret (h_of_db_copy h db) d r.
Proof.
  cbn [tr_db_choose_packages_copy_loop1]. unfold trp_ob_set_db_vd, trp_ob_set_rdb_vd, mret, h_of_db_copy, ob_of.
  destruct (alloc_vdict h (deref h db)) as [h1 d1]. rewrite tie_reverse.
  destruct (alloc_vdict h1 (reverse_d (deref h db))) as [h2 d2]. reflexivity.
Qed.

Lemma tie_choose_copy_cons p it pi h d r res (acc : rdict) :
  tr_db_choose_packages_copy_loop1 (p :: it) pi h d r res (deref h acc)
  = if dict_mem p (get_dict h d)
    then tr_db_choose_packages_copy_loop1 it pi h d r res (deref h (choose_step (get_dict h d) acc p))
    else MErr KeyError (h, d, r).
Proof.
  cbn [tr_db_choose_packages_copy_loop1]. unfold trp_hd_getitem, dict_mem, trp_vd_setitem, trp_sref_copy, choose_step.
  destruct (lookup p (get_dict h d)) as [v|]; [|reflexivity]. now rewrite deref_dict_set.
Qed.

Lemma tie_choose_copy_loop it : forall pi h d r res (acc : rdict),
  tr_db_choose_packages_copy_loop1 it pi h d r res (deref h acc)
  = if forallb (fun p => dict_mem p (get_dict h d)) it
    then tr_db_choose_packages_copy_loop1 [] pi h d r res (deref h (fold_left (choose_step (get_dict h d)) it acc))
    else MErr KeyError (h, d, r).
Proof.
  induction it as [|p it IH]; intros pi h d r res acc; [reflexivity|].
  rewrite tie_choose_copy_cons. cbn [fold_left forallb].
  destruct (dict_mem p (get_dict h d)); [|reflexivity]. cbn [andb]. apply IH.
Qed.

Theorem tie_db_choose_packages_copy h d r l :
  tr_db_choose_packages_copy h d r l
  = if forallb (fun p => dict_mem p (get_dict h d)) l
    then mret (h_of_db_copy h (choose_d (get_dict h d) l)) d r
    else MErr KeyError (h, d, r).
Proof.
  unfold tr_db_choose_packages_copy, trp_vd_empty.
  change (@nil (str * sset)) with (deref h []). rewrite tie_choose_copy_loop.
  destruct (forallb _ l); [|reflexivity]. now rewrite tie_choose_copy_nil, choose_d_fold.
Qed.

(** * The filters: the selected keys are looked up again in the dict they come from *)

(** choosing, in order, keys that are all present and distinct appends their entries *)
Lemma choose_fold_app {V} (d : list (str * V)) (sel : list (str * V)) : forall acc,
  (forall kv, In kv sel -> lookup (fst kv) d = Some (snd kv)) ->
  NoDup (keys acc ++ keys sel) ->
  fold_left (choose_step d) (keys sel) acc = acc ++ sel.
Proof.
  induction sel as [|[k v] sel IH]; intros acc Hl Hn; [simpl; now rewrite app_nil_r|].
  pose proof (Hl (k, v) (or_introl eq_refl)) as L. cbn [fst snd] in L.
  change (keys ((k, v) :: sel)) with (k :: keys sel). cbn [fold_left].
  replace (choose_step d acc k) with (dict_set k v acc) by (unfold choose_step; now rewrite L).
  assert (Hk : ~ In k (keys acc)).
  { intros Hin. unfold keys in Hn. simpl in Hn. apply NoDup_remove_2 in Hn. apply Hn, in_app_iff. now left. }
  rewrite dict_set_notin by assumption. rewrite IH.
  - now rewrite <- app_assoc.
  - intros kv Hkv. apply Hl. now right.
  - unfold keys in *. rewrite map_app. simpl. rewrite <- app_assoc. exact Hn.
Qed.

Lemma NoDup_keys_filter' {V} (g : str * V -> bool) (d : list (str * V)) : NoDup (keys d) -> NoDup (keys (filter g d)).
Proof. apply NoDup_keys_filter. Qed.

Lemma choose_filter {V} (g : str * V -> bool) (d : list (str * V)) :
  NoDup (keys d) -> fold_left (choose_step d) (keys (filter g d)) [] = filter g d.
Proof.
  intros Hn. rewrite choose_fold_app; [reflexivity| |].
  - intros [k v] Hkv. apply filter_In in Hkv. destruct Hkv as [Hkv _]. now apply in_lookup.
  - simpl. now apply NoDup_keys_filter.
Qed.

Lemma keys_filter_fst {V} (f : str -> bool) (d : list (str * V)) :
  filter f (keys d) = keys (filter (fun kv => f (fst kv)) d).
Proof.
  unfold keys. induction d as [|[k v] d IH]; simpl; [reflexivity|].
  destruct (f k); simpl; now rewrite IH.
Qed.

(** a loop that stores [src[k]] for keys that are all present *)
Lemma all_present_cons {V} (d : list (str * V)) k ks :
  (forall x, In x (k :: ks) -> lookup x d <> None) -> (forall x, In x ks -> lookup x d <> None).
Proof. intros H x Hx. apply H. now right. Qed.

Lemma in_keys_lookup {V} (d : list (str * V)) k : In k (keys d) -> lookup k d <> None.
Proof. intros H E. apply lookup_none_iff in E. contradiction. Qed.

Lemma filter_keys_present {V} (g : str * V -> bool) (d : list (str * V)) x :
  In x (keys (filter g d)) -> lookup x d <> None.
Proof.
  intros H. apply in_keys_lookup. unfold keys in *. apply in_map_iff in H. destruct H as [[k v] [<- H]].
  apply filter_In in H. apply in_map_iff. exists (k, v). now split.
Qed.

(** filter_packages *)
Lemma tie_filterp_nil f h d r db :
  tr_db_filter_packages_loop1 [] f h d r trp_db_blank db = mret (h_of_db h db) d r.
Proof.
  cbn [tr_db_filter_packages_loop1]. unfold trp_ob_set_db_rd, trp_h_reverse_rd, trp_ob_set_rdb_vd, mret, h_of_db, ob_of.
  destruct (alloc_dict h db) as [h1 d1]. rewrite tie_reverse.
  destruct (alloc_vdict h1 (reverse_d (deref h1 db))) as [h2 d2]. reflexivity.
Qed.

Lemma tie_filterp_cons p it f h d r res db :
  lookup p (get_dict h d) <> None ->
  tr_db_filter_packages_loop1 (p :: it) f h d r res db
  = tr_db_filter_packages_loop1 it f h d r res (choose_step (get_dict h d) db p).
Proof.
  intros Hp. cbn [tr_db_filter_packages_loop1]. unfold trp_hd_getitem, trp_rd_setitem, choose_step.
  now destruct (lookup p (get_dict h d)).
Qed.

Lemma tie_filterp_loop it : forall f h d r res db,
  (forall x, In x it -> lookup x (get_dict h d) <> None) ->
  tr_db_filter_packages_loop1 it f h d r res db
  = tr_db_filter_packages_loop1 [] f h d r res (fold_left (choose_step (get_dict h d)) it db).
Proof.
  induction it as [|p it IH]; intros f h d r res db Hp; [reflexivity|].
  rewrite tie_filterp_cons by (apply Hp; now left). cbn [fold_left]. apply IH. now apply (all_present_cons _ p).
Qed.

Theorem tie_db_filter_packages h d r f :
  dict_keysb h d = true ->
  tr_db_filter_packages h d r f = mret (h_of_db h (filter (fun kr => f (fst kr)) (get_dict h d))) d r.
Proof.
  intros K. apply nodupb_NoDup in K.
  unfold tr_db_filter_packages, trp_rd_empty, trp_filter_l, trp_hd_keys. rewrite keys_filter_fst.
  rewrite tie_filterp_loop by apply filter_keys_present.
  now rewrite tie_filterp_nil, choose_filter.
Qed.

(** filter_packages_copy *)
Lemma tie_filterpc_nil f h d r (db : rdict) :
  tr_db_filter_packages_copy_loop1 [] f h d r trp_db_blank (deref h db) = mret (h_of_db_copy h db) d r.
Proof.
  cbn [tr_db_filter_packages_copy_loop1]. unfold trp_ob_set_db_vd, trp_ob_set_rdb_vd, mret, h_of_db_copy, ob_of.
  destruct (alloc_vdict h (deref h db)) as [h1 d1]. rewrite tie_reverse.
  destruct (alloc_vdict h1 (reverse_d (deref h db))) as [h2 d2]. reflexivity.
Qed.

Lemma tie_filterpc_cons p it f h d r res (acc : rdict) :
  lookup p (get_dict h d) <> None ->
  tr_db_filter_packages_copy_loop1 (p :: it) f h d r res (deref h acc)
  = tr_db_filter_packages_copy_loop1 it f h d r res (deref h (choose_step (get_dict h d) acc p)).
Proof.
  intros Hp. cbn [tr_db_filter_packages_copy_loop1]. unfold trp_hd_getitem, trp_vd_setitem, trp_sref_copy, choose_step.
  destruct (lookup p (get_dict h d)) as [v|]; [|contradiction]. now rewrite deref_dict_set.
Qed.

Lemma tie_filterpc_loop it : forall f h d r res (acc : rdict),
  (forall x, In x it -> lookup x (get_dict h d) <> None) ->
  tr_db_filter_packages_copy_loop1 it f h d r res (deref h acc)
  = tr_db_filter_packages_copy_loop1 [] f h d r res (deref h (fold_left (choose_step (get_dict h d)) it acc)).
Proof.
  induction it as [|p it IH]; intros f h d r res acc Hp; [reflexivity|].
  rewrite tie_filterpc_cons by (apply Hp; now left). cbn [fold_left]. apply IH. now apply (all_present_cons _ p).
Qed.

Theorem tie_db_filter_packages_copy h d r f :
  dict_keysb h d = true ->
  tr_db_filter_packages_copy h d r f = mret (h_of_db_copy h (filter (fun kr => f (fst kr)) (get_dict h d))) d r.
Proof.
  intros K. apply nodupb_NoDup in K.
  unfold tr_db_filter_packages_copy, trp_vd_empty, trp_filter_l, trp_hd_keys. rewrite keys_filter_fst.
  change (@nil (str * sset)) with (deref h []).
  rewrite tie_filterpc_loop by apply filter_keys_present.
  now rewrite tie_filterpc_nil, choose_filter.
Qed.

(** filter_packages_tags: the callback sees (package, the set object's elements) *)
Lemma tie_filterpt_nil g h d r db :
  tr_db_filter_packages_tags_loop1 [] g h d r trp_db_blank db = mret (h_of_db h db) d r.
Proof.
  cbn [tr_db_filter_packages_tags_loop1].
  unfold trp_ob_set_db_rd, trp_h_reverse_rd, trp_ob_set_rdb_vd, mret, h_of_db, ob_of.
  destruct (alloc_dict h db) as [h1 d1]. rewrite tie_reverse.
  destruct (alloc_vdict h1 (reverse_d (deref h1 db))) as [h2 d2]. reflexivity.
Qed.

Lemma tie_filterpt_cons kr it g h d r res db :
  lookup (fst kr) (get_dict h d) <> None ->
  tr_db_filter_packages_tags_loop1 (kr :: it) g h d r res db
  = tr_db_filter_packages_tags_loop1 it g h d r res (choose_step (get_dict h d) db (fst kr)).
Proof.
  intros Hp. destruct kr as [p x]. cbn [tr_db_filter_packages_tags_loop1 fst].
  unfold trp_hd_getitem, trp_rd_setitem, choose_step. cbn [fst] in Hp.
  now destruct (lookup p (get_dict h d)).
Qed.

Lemma tie_filterpt_loop it : forall g h d r res db,
  (forall x, In x (keys it) -> lookup x (get_dict h d) <> None) ->
  tr_db_filter_packages_tags_loop1 it g h d r res db
  = tr_db_filter_packages_tags_loop1 [] g h d r res (fold_left (choose_step (get_dict h d)) (keys it) db).
Proof.
  induction it as [|kr it IH]; intros g h d r res db Hp; [reflexivity|].
  rewrite tie_filterpt_cons by (apply Hp; now left).
  change (keys (kr :: it)) with (fst kr :: keys it). cbn [fold_left]. apply IH.
  intros x Hx. apply Hp. now right.
Qed.

Theorem tie_db_filter_packages_tags h d r g :
  dict_keysb h d = true ->
  tr_db_filter_packages_tags h d r g
  = mret (h_of_db h (filter (fun kr => g (fst kr) (get_set h (snd kr))) (get_dict h d))) d r.
Proof.
  intros K. apply nodupb_NoDup in K.
  unfold tr_db_filter_packages_tags, trp_rd_empty, trp_filter_items, trp_hd_items.
  rewrite tie_filterpt_loop by apply filter_keys_present.
  now rewrite tie_filterpt_nil, choose_filter.
Qed.

Lemma tie_filterptc_nil g h d r (db : rdict) :
  tr_db_filter_packages_tags_copy_loop1 [] g h d r trp_db_blank (deref h db) = mret (h_of_db_copy h db) d r.
Proof.
  cbn [tr_db_filter_packages_tags_copy_loop1]. unfold trp_ob_set_db_vd, trp_ob_set_rdb_vd, mret, h_of_db_copy, ob_of.
  destruct (alloc_vdict h (deref h db)) as [h1 d1]. rewrite tie_reverse.
  destruct (alloc_vdict h1 (reverse_d (deref h db))) as [h2 d2]. reflexivity.
Qed.

Lemma tie_filterptc_cons kr it g h d r res (acc : rdict) :
  lookup (fst kr) (get_dict h d) <> None ->
  tr_db_filter_packages_tags_copy_loop1 (kr :: it) g h d r res (deref h acc)
  = tr_db_filter_packages_tags_copy_loop1 it g h d r res (deref h (choose_step (get_dict h d) acc (fst kr))).
Proof.
  intros Hp. destruct kr as [p x]. cbn [tr_db_filter_packages_tags_copy_loop1 fst].
  unfold trp_hd_getitem, trp_vd_setitem, trp_sref_copy, choose_step. cbn [fst] in Hp.
  destruct (lookup p (get_dict h d)) as [v|]; [|contradiction]. now rewrite deref_dict_set.
Qed.

Lemma tie_filterptc_loop it : forall g h d r res (acc : rdict),
  (forall x, In x (keys it) -> lookup x (get_dict h d) <> None) ->
  tr_db_filter_packages_tags_copy_loop1 it g h d r res (deref h acc)
  = tr_db_filter_packages_tags_copy_loop1 [] g h d r res
      (deref h (fold_left (choose_step (get_dict h d)) (keys it) acc)).
Proof.
  induction it as [|kr it IH]; intros g h d r res acc Hp; [reflexivity|].
  rewrite tie_filterptc_cons by (apply Hp; now left).
  change (keys (kr :: it)) with (fst kr :: keys it). cbn [fold_left]. apply IH.
  intros x Hx. apply Hp. now right.
Qed.

Theorem tie_db_filter_packages_tags_copy h d r g :
  dict_keysb h d = true ->
  tr_db_filter_packages_tags_copy h d r g
  = mret (h_of_db_copy h (filter (fun kr => g (fst kr) (get_set h (snd kr))) (get_dict h d))) d r.
Proof.
  intros K. apply nodupb_NoDup in K.
  unfold tr_db_filter_packages_tags_copy, trp_vd_empty, trp_filter_items, trp_hd_items.
  change (@nil (str * sset)) with (deref h []).
  rewrite tie_filterptc_loop by apply filter_keys_present.
  now rewrite tie_filterptc_nil, choose_filter.
Qed.

(** filter_tags: the same on the other index *)
Lemma tie_filtert_nil f h d r rdb :
  tr_db_filter_tags_loop1 [] f h d r trp_db_blank rdb = mret (h_of_rdb h rdb) d r.
Proof.
  cbn [tr_db_filter_tags_loop1]. unfold trp_ob_set_rdb_rd, trp_h_reverse_rd, trp_ob_set_db_vd, mret, h_of_rdb, ob_of.
  destruct (alloc_dict h rdb) as [h1 d2]. rewrite tie_reverse.
  destruct (alloc_vdict h1 (reverse_d (deref h1 rdb))) as [h2 d1]. reflexivity.
Qed.

Lemma tie_filtert_cons p it f h d r res rdb :
  lookup p (get_dict h r) <> None ->
  tr_db_filter_tags_loop1 (p :: it) f h d r res rdb
  = tr_db_filter_tags_loop1 it f h d r res (choose_step (get_dict h r) rdb p).
Proof.
  intros Hp. cbn [tr_db_filter_tags_loop1]. unfold trp_hd_getitem, trp_rd_setitem, choose_step.
  now destruct (lookup p (get_dict h r)).
Qed.

Lemma tie_filtert_loop it : forall f h d r res rdb,
  (forall x, In x it -> lookup x (get_dict h r) <> None) ->
  tr_db_filter_tags_loop1 it f h d r res rdb
  = tr_db_filter_tags_loop1 [] f h d r res (fold_left (choose_step (get_dict h r)) it rdb).
Proof.
  induction it as [|p it IH]; intros f h d r res rdb Hp; [reflexivity|].
  rewrite tie_filtert_cons by (apply Hp; now left). cbn [fold_left]. apply IH. now apply (all_present_cons _ p).
Qed.

Theorem tie_db_filter_tags h d r f :
  dict_keysb h r = true ->
  tr_db_filter_tags h d r f = mret (h_of_rdb h (filter (fun kr => f (fst kr)) (get_dict h r))) d r.
Proof.
  intros K. apply nodupb_NoDup in K.
  unfold tr_db_filter_tags, trp_rd_empty, trp_filter_l, trp_hd_keys. rewrite keys_filter_fst.
  rewrite tie_filtert_loop by apply filter_keys_present.
  now rewrite tie_filtert_nil, choose_filter.
Qed.

Lemma tie_filtertc_nil f h d r (rdb : rdict) :
  tr_db_filter_tags_copy_loop1 [] f h d r trp_db_blank (deref h rdb) = mret (h_of_rdb_copy h rdb) d r.
Proof.
  cbn [tr_db_filter_tags_copy_loop1]. unfold trp_ob_set_db_vd, trp_ob_set_rdb_vd, mret, h_of_rdb_copy, ob_of.
  destruct (alloc_vdict h (deref h rdb)) as [h1 d2]. rewrite tie_reverse.
  destruct (alloc_vdict h1 (reverse_d (deref h rdb))) as [h2 d1]. reflexivity.
Qed.

Lemma tie_filtertc_cons p it f h d r res (acc : rdict) :
  lookup p (get_dict h r) <> None ->
  tr_db_filter_tags_copy_loop1 (p :: it) f h d r res (deref h acc)
  = tr_db_filter_tags_copy_loop1 it f h d r res (deref h (choose_step (get_dict h r) acc p)).
Proof.
  intros Hp. cbn [tr_db_filter_tags_copy_loop1]. unfold trp_hd_getitem, trp_vd_setitem, trp_sref_copy, choose_step.
  destruct (lookup p (get_dict h r)) as [v|]; [|contradiction]. now rewrite deref_dict_set.
Qed.

Lemma tie_filtertc_loop it : forall f h d r res (acc : rdict),
  (forall x, In x it -> lookup x (get_dict h r) <> None) ->
  tr_db_filter_tags_copy_loop1 it f h d r res (deref h acc)
  = tr_db_filter_tags_copy_loop1 [] f h d r res (deref h (fold_left (choose_step (get_dict h r)) it acc)).
Proof.
  induction it as [|p it IH]; intros f h d r res acc Hp; [reflexivity|].
  rewrite tie_filtertc_cons by (apply Hp; now left). cbn [fold_left]. apply IH. now apply (all_present_cons _ p).
Qed.

Theorem tie_db_filter_tags_copy h d r f :
  dict_keysb h r = true ->
  tr_db_filter_tags_copy h d r f = mret (h_of_rdb_copy h (filter (fun kr => f (fst kr)) (get_dict h r))) d r.
Proof.
  intros K. apply nodupb_NoDup in K.
  unfold tr_db_filter_tags_copy, trp_vd_empty, trp_filter_l, trp_hd_keys. rewrite keys_filter_fst.
  change (@nil (str * sset)) with (deref h []).
  rewrite tie_filtertc_loop by apply filter_keys_present.
  now rewrite tie_filtertc_nil, choose_filter.
Qed.

(** * facet_collection — [h_new], then [h_facet] over the source's entries in insertion order *)

Lemma tie_db_new h : trp_db_new h = MOk (snd (h_new h)) (fst (h_new h)).
Proof. reflexivity. Qed.

Lemma tie_obj_insert h o pkg tags : trp_obj_insert h o pkg tags = MOk tt (h_insert false h o pkg tags).
Proof. unfold trp_obj_insert. rewrite tie_db_insert. now destruct o. Qed.

Definition facet_ins (fc : obj) (h : heap) (kr : str * nat) : heap :=
  h_insert false h fc (fst kr) (facet_tags (get_set h (snd kr))).

Lemma tie_facet_loop it : forall h d r fc re,
  tr_db_facet_collection_loop1 it h d r fc re = MOk fc (fold_left (facet_ins fc) it h, d, r).
Proof.
  induction it as [|[p x] it IH]; intros h d r fc re; cbn [tr_db_facet_collection_loop1 fold_left]; [reflexivity|].
  rewrite tie_obj_insert. rewrite IH. unfold facet_ins, facet_tags, trp_set_of_list, trp_fre_sub, trp_sref_iter.
  reflexivity.
Qed.

(** [h_facet] over entries that [src] maps to themselves is that fold; it never fails *)
Lemma h_facet_items src fc it : forall h,
  (forall kr, In kr it -> lookup (fst kr) src = Some (snd kr)) ->
  exists trig, h_facet false h src fc (keys it) = Ok (fold_left (facet_ins fc) it h, trig).
Proof.
  induction it as [|[p x] it IH]; intros h Hl; [now exists false|].
  change (keys ((p, x) :: it)) with (p :: keys it). cbn [h_facet fold_left].
  pose proof (Hl (p, x) (or_introl eq_refl)) as L. cbn [fst snd] in L. rewrite L.
  destruct (IH (facet_ins fc h (p, x))) as [t Ht]; [intros kr Hkr; apply Hl; now right|].
  unfold facet_ins at 1 in Ht. cbn [fst snd] in Ht. rewrite Ht. eexists. reflexivity.
Qed.

Theorem tie_db_facet_collection h d r :
  let h1 := fst (h_new h) in
  let fc := snd (h_new h) in
  let src := get_dict h1 d in
  dict_keysb h1 d = true ->
  exists h2 trig,
    h_facet false h1 src fc (keys src) = Ok (h2, trig)
    /\ tr_db_facet_collection h d r = MOk fc (h2, d, r).
Proof.
  intros h1 fc src K. apply nodupb_NoDup in K.
  destruct (h_facet_items src fc src h1) as [trig Ht].
  { intros [k v] Hkv. now apply in_lookup. }
  exists (fold_left (facet_ins fc) src h1), trig. split; [exact Ht|].
  unfold tr_db_facet_collection. rewrite tie_db_new. fold h1 fc.
  unfold tr_db_iter_packages_tags, trp_hd_items. fold src. now rewrite tie_facet_loop.
Qed.

(** * Every regenerated method is the corresponding step of [hstep] — the function that [agree] runs (through
    [model_obs]) and that the heap theorems of Props/C20.v are about.  [ob] is the receiver, object number [o]. *)

(** a method that returns a new DB object: the step appends that object, on that heap, without an exception *)
Definition step_new (st : hstate) (op : hop) (ob : obj) (res : mres objb (heap * dref * dref)) : Prop :=
  exists h' nob,
    res = MOk (ob_of nob) (h', fst ob, snd ob)
    /\ hstep false st op = (new_obj st (h', nob), None, false).

Lemma step_new_intro st op ob res ho :
  res = mret ho (fst ob) (snd ob) -> hstep false st op = (new_obj st ho, None, false) -> step_new st op ob res.
Proof.
  intros -> H. exists (fst ho), (snd ho). split; [reflexivity|]. now rewrite <- surjective_pairing.
Qed.

Ltac hstep_tac Ho := unfold hstep; cbn [hop_obj]; rewrite Ho; reflexivity.

Theorem tie_step_new st :
  exists h' nob,
    tr_db_init (st_heap st) 0%nat 0%nat = MOk tt (h', fst nob, snd nob)
    /\ hstep false st HNew = (new_obj st (h', nob), None, false).
Proof. exists (fst (h_new (st_heap st))), (snd (h_new (st_heap st))). split; reflexivity. Qed.

Theorem tie_step_read st o ob lines tf :
  nth_error (st_objs st) o = Some ob ->
  exists h' nob,
    tr_db_read (st_heap st) (fst ob) (snd ob) lines tf = MOk tt (h', fst nob, snd nob)
    /\ hstep false st (HRead o lines tf) = (mkS h' (upd o nob (st_objs st)), None, false).
Proof.
  intros Ho. exists (fst (h_read (st_heap st) lines tf)), (snd (h_read (st_heap st) lines tf)). split.
  - apply tie_db_read.
  - rewrite (tie_hstep_read st o ob lines tf Ho). reflexivity.
Qed.

Theorem tie_step_insert st o ob pkg tags :
  nth_error (st_objs st) o = Some ob ->
  exists h' trig,
    tr_db_insert (st_heap st) (fst ob) (snd ob) pkg (set_of_list tags) = MOk tt (h', fst ob, snd ob)
    /\ hstep false st (HInsert o pkg tags) = (mkS h' (st_objs st), None, trig).
Proof.
  intros Ho. exists (h_insert false (st_heap st) ob pkg (set_of_list tags)),
    (h_ins_trigger (st_heap st) ob pkg (set_of_list tags)). split.
  - rewrite tie_db_insert. now destruct ob.
  - apply (tie_hstep_insert st o ob pkg tags Ho).
Qed.

Theorem tie_step_reverse st o ob :
  nth_error (st_objs st) o = Some ob ->
  exists nob,
    tr_db_reverse (st_heap st) (fst ob) (snd ob) = Ok (ob_of nob)
    /\ hstep false st (HReverse o) = (new_obj st (st_heap st, nob), None, false).
Proof. intros Ho. exists (snd ob, fst ob). split; [reflexivity|now apply tie_hstep_reverse]. Qed.

Theorem tie_step_copy st o ob :
  nth_error (st_objs st) o = Some ob ->
  dict_keysb (st_heap st) (fst ob) = true -> dict_keysb (st_heap st) (snd ob) = true ->
  dict_closedb (st_heap st) (snd ob) = true ->
  step_new st (HCopy o) ob (tr_db_copy (st_heap st) (fst ob) (snd ob)).
Proof.
  intros Ho K1 K2 C. apply (step_new_intro _ _ _ _ (h_copy (st_heap st) ob)).
  - rewrite (tie_db_copy _ _ _ K1 K2 C). now destruct ob.
  - apply (tie_hstep_copy st o ob Ho).
Qed.

Theorem tie_step_reverse_copy st o ob :
  nth_error (st_objs st) o = Some ob ->
  dict_keysb (st_heap st) (fst ob) = true -> dict_keysb (st_heap st) (snd ob) = true ->
  dict_closedb (st_heap st) (fst ob) = true ->
  step_new st (HReverseCopy o) ob (tr_db_reverse_copy (st_heap st) (fst ob) (snd ob)).
Proof.
  intros Ho K1 K2 C. apply (step_new_intro _ _ _ _ (h_reverse_copy (st_heap st) ob)).
  - rewrite (tie_db_reverse_copy _ _ _ K1 K2 C). now destruct ob.
  - apply (tie_hstep_reverse_copy st o ob Ho).
Qed.

Theorem tie_step_choose st o ob l :
  nth_error (st_objs st) o = Some ob ->
  step_new st (HChoose o l) ob (tr_db_choose_packages (st_heap st) (fst ob) (snd ob) l).
Proof. intros Ho. eapply step_new_intro; [apply tie_db_choose_packages|hstep_tac Ho]. Qed.

(** choose_packages_copy: the new object, or KeyError with nothing changed *)
Theorem tie_step_choose_copy st o ob l :
  nth_error (st_objs st) o = Some ob ->
  if forallb (fun p => dict_mem p (get_dict (st_heap st) (fst ob))) l
  then step_new st (HChooseCopy o l) ob (tr_db_choose_packages_copy (st_heap st) (fst ob) (snd ob) l)
  else tr_db_choose_packages_copy (st_heap st) (fst ob) (snd ob) l = MErr KeyError (st_heap st, fst ob, snd ob)
       /\ hstep false st (HChooseCopy o l) = (st, Some KeyError, false).
Proof.
  intros Ho. destruct (forallb _ l) eqn:F.
  - eapply step_new_intro; [now rewrite tie_db_choose_packages_copy, F|].
    unfold hstep. cbn [hop_obj]. now rewrite Ho, F.
  - split.
    + now rewrite tie_db_choose_packages_copy, F.
    + unfold hstep. cbn [hop_obj]. now rewrite Ho, F.
Qed.

Theorem tie_step_filter_packages st o ob f :
  nth_error (st_objs st) o = Some ob -> dict_keysb (st_heap st) (fst ob) = true ->
  step_new st (HFilterP o f) ob (tr_db_filter_packages (st_heap st) (fst ob) (snd ob) f).
Proof. intros Ho K. eapply step_new_intro; [apply (tie_db_filter_packages _ _ (snd ob) f K)|hstep_tac Ho]. Qed.

Theorem tie_step_filter_packages_copy st o ob f :
  nth_error (st_objs st) o = Some ob -> dict_keysb (st_heap st) (fst ob) = true ->
  step_new st (HFilterPCopy o f) ob (tr_db_filter_packages_copy (st_heap st) (fst ob) (snd ob) f).
Proof. intros Ho K. eapply step_new_intro; [apply (tie_db_filter_packages_copy _ _ (snd ob) f K)|hstep_tac Ho]. Qed.

Theorem tie_step_filter_packages_tags st o ob g :
  nth_error (st_objs st) o = Some ob -> dict_keysb (st_heap st) (fst ob) = true ->
  step_new st (HFilterPT o g) ob (tr_db_filter_packages_tags (st_heap st) (fst ob) (snd ob) g).
Proof. intros Ho K. eapply step_new_intro; [apply (tie_db_filter_packages_tags _ _ (snd ob) g K)|hstep_tac Ho]. Qed.

Theorem tie_step_filter_packages_tags_copy st o ob g :
  nth_error (st_objs st) o = Some ob -> dict_keysb (st_heap st) (fst ob) = true ->
  step_new st (HFilterPTCopy o g) ob (tr_db_filter_packages_tags_copy (st_heap st) (fst ob) (snd ob) g).
Proof. intros Ho K. eapply step_new_intro; [apply (tie_db_filter_packages_tags_copy _ _ (snd ob) g K)|hstep_tac Ho]. Qed.

Theorem tie_step_filter_tags st o ob f :
  nth_error (st_objs st) o = Some ob -> dict_keysb (st_heap st) (snd ob) = true ->
  step_new st (HFilterT o f) ob (tr_db_filter_tags (st_heap st) (fst ob) (snd ob) f).
Proof. intros Ho K. eapply step_new_intro; [apply (tie_db_filter_tags _ (fst ob) _ f K)|hstep_tac Ho]. Qed.

Theorem tie_step_filter_tags_copy st o ob f :
  nth_error (st_objs st) o = Some ob -> dict_keysb (st_heap st) (snd ob) = true ->
  step_new st (HFilterTCopy o f) ob (tr_db_filter_tags_copy (st_heap st) (fst ob) (snd ob) f).
Proof. intros Ho K. eapply step_new_intro; [apply (tie_db_filter_tags_copy _ (fst ob) _ f K)|hstep_tac Ho]. Qed.

(** facet_collection: [HFacet] with [order] = the keys of the receiver's [self.db] in insertion order (what the
    harness reads from [iter_packages()]); the receiver's dict exists *)
Theorem tie_step_facet st o ob :
  nth_error (st_objs st) o = Some ob ->
  (fst ob <? ndicts (st_heap st))%nat = true -> dict_keysb (st_heap st) (fst ob) = true ->
  exists h' trig,
    tr_db_facet_collection (st_heap st) (fst ob) (snd ob) = MOk (snd (h_new (st_heap st))) (h', fst ob, snd ob)
    /\ hstep false st (HFacet o (keys (get_dict (st_heap st) (fst ob))))
       = (new_obj st (h', snd (h_new (st_heap st))), None, trig).
Proof.
  intros Ho L K. apply Nat.ltb_lt in L. set (h := st_heap st) in *.
  assert (G : get_dict (fst (h_new h)) (fst ob) = get_dict h (fst ob)).
  { destruct (h_new_facts h) as [D _]. now apply (ex_dict _ _ (df_ext _ _ _ _ D)). }
  destruct (tie_db_facet_collection h (fst ob) (snd ob)) as [h2 [trig [Hf Ht]]].
  { unfold dict_keysb. now rewrite G. }
  exists h2, trig. split; [exact Ht|].
  unfold hstep. cbn [hop_obj]. rewrite Ho. fold h. rewrite G in Hf.
  destruct (h_new h) as [h1 fc] eqn:E. cbn [fst snd] in Hf. rewrite Hf. reflexivity.
Qed.

(** * tags_of_packages, packages_of_tags (no model function: the union of the answers of the single queries; called
    without any name, [set.union()] has no argument and raises TypeError) *)

Definition union_all (l : list sset) : result sset :=
  match l with
  | [] => Err TypeError
  | s :: rest => Ok (fold_left (fun acc x => set_union x acc) rest s)
  end.
Definition tags_of_packages (c : coll) (pkgs : list str) : result sset := union_all (map (tags_of_package c) pkgs).
Definition packages_of_tags (c : coll) (tags : list str) : result sset := union_all (map (packages_of_tag c) tags).

Theorem tie_db_tags_of_packages h d r pkgs :
  tr_db_tags_of_packages h d r pkgs = tags_of_packages (view h (d, r)) pkgs.
Proof.
  unfold tr_db_tags_of_packages, tags_of_packages.
  rewrite (tr_mapM_ok _ (tags_of_package (view h (d, r)))).
  - cbn [bind]. unfold trp_set_union_star, union_all. now destruct (map _ pkgs).
  - intros p _. now rewrite tie_db_tags_of_package.
Qed.

Theorem tie_db_packages_of_tags h d r tags :
  tr_db_packages_of_tags h d r tags = packages_of_tags (view h (d, r)) tags.
Proof.
  unfold tr_db_packages_of_tags, packages_of_tags.
  rewrite (tr_mapM_ok _ (packages_of_tag (view h (d, r)))).
  - cbn [bind]. unfold trp_set_union_star, union_all. now destruct (map _ tags).
  - intros t _. now rewrite tie_db_packages_of_tag.
Qed.
