(** Lemmas about Debtags/StrSet.v: [str_cmp] is a strict total order, sorted
    duplicate-free lists are canonical representatives of finite sets. *)
From Verif Require Import Lib.Base Debtags.StrSet.

(** * str_cmp *)

Lemma str_cmp_eq a : forall b, str_cmp a b = Eq <-> a = b.
Proof.
  induction a as [|x a IH]; destruct b as [|y b]; simpl; split; intro H;
    try reflexivity; try discriminate.
  - destruct (N.compare x y) eqn:E; try discriminate.
    apply N.compare_eq in E. apply IH in H. now subst.
  - inversion H; subst. rewrite N.compare_refl. now apply IH.
Qed.

Lemma str_cmp_refl a : str_cmp a a = Eq.
Proof. now apply str_cmp_eq. Qed.

Lemma str_cmp_antisym a : forall b, str_cmp b a = CompOpp (str_cmp a b).
Proof.
  induction a as [|x a IH]; destruct b as [|y b]; simpl; try reflexivity.
  rewrite (N.compare_antisym x y).
  destruct (N.compare x y); simpl; auto.
Qed.

Lemma str_cmp_lt_trans a : forall b c,
  str_cmp a b = Lt -> str_cmp b c = Lt -> str_cmp a c = Lt.
Proof.
  induction a as [|x a IH]; destruct b as [|y b]; destruct c as [|z c]; simpl;
    intros H1 H2; try reflexivity; try discriminate.
  destruct (N.compare x y) eqn:Exy; try discriminate.
  - apply N.compare_eq in Exy; subst y.
    destruct (N.compare x z) eqn:Exz; try discriminate; try reflexivity.
    eapply IH; eassumption.
  - destruct (N.compare y z) eqn:Eyz; try discriminate.
    + apply N.compare_eq in Eyz; subst z. now rewrite Exy.
    + assert (E : N.compare x z = Lt).
      { apply N.compare_lt_iff. apply N.compare_lt_iff in Exy. apply N.compare_lt_iff in Eyz.
        eapply N.lt_trans; eassumption. }
      now rewrite E.
Qed.

Lemma str_cmp_gt_lt a b : str_cmp a b = Gt <-> str_cmp b a = Lt.
Proof.
  rewrite (str_cmp_antisym a b). destruct (str_cmp a b); simpl; split; congruence.
Qed.

Lemma str_eqb_sym a b : str_eqb a b = str_eqb b a.
Proof.
  destruct (str_eqb a b) eqn:E1, (str_eqb b a) eqn:E2; try reflexivity.
  - apply str_eqb_eq in E1. subst. now rewrite str_eqb_refl in E2.
  - apply str_eqb_eq in E2. subst. now rewrite str_eqb_refl in E1.
Qed.

Lemma str_eqb_neq a b : str_eqb a b = false <-> a <> b.
Proof.
  split.
  - intros H E. subst. now rewrite str_eqb_refl in H.
  - intros H. destruct (str_eqb a b) eqn:E; [|reflexivity].
    apply str_eqb_eq in E. contradiction.
Qed.

Lemma str_dec (a b : str) : {a = b} + {a <> b}.
Proof.
  destruct (str_eqb a b) eqn:E; [left; now apply str_eqb_eq|right; now apply str_eqb_neq].
Qed.

(** * Sorted sets *)

Definition slt (a b : str) : Prop := str_cmp a b = Lt.

Fixpoint sorted (s : sset) : Prop :=
  match s with
  | [] => True
  | x :: s' => (forall y, In y s' -> slt x y) /\ sorted s'
  end.

Lemma slt_irrefl a : ~ slt a a.
Proof. unfold slt. rewrite str_cmp_refl. discriminate. Qed.

Lemma sorted_head_notin x s : sorted (x :: s) -> ~ In x s.
Proof. intros [H _] Hin. exact (slt_irrefl x (H x Hin)). Qed.

Lemma sorted_NoDup s : sorted s -> NoDup s.
Proof.
  induction s as [|x s IH]; intros H; constructor.
  - now apply sorted_head_notin.
  - apply IH. apply H.
Qed.

Lemma sorted_ext a : forall b, sorted a -> sorted b ->
  (forall x, In x a <-> In x b) -> a = b.
Proof.
  induction a as [|x a IH]; destruct b as [|y b]; intros Ha Hb H; try reflexivity.
  - exfalso. apply (proj2 (H y)). now left.
  - exfalso. apply (proj1 (H x)). now left.
  - assert (x = y) as ->.
    { destruct (proj1 (H x) (or_introl eq_refl)) as [E|Hx]; [now symmetry|].
      destruct (proj2 (H y) (or_introl eq_refl)) as [E|Hy]; [assumption|].
      exfalso. apply (slt_irrefl x). unfold slt.
      eapply str_cmp_lt_trans; [apply (proj1 Ha y Hy)|apply (proj1 Hb x Hx)]. }
    f_equal. apply IH; [apply Ha|apply Hb|].
    intros z; split; intro Hz.
    + destruct (proj1 (H z) (or_intror Hz)) as [E|Hz']; [|assumption].
      subst z. exfalso. now apply (sorted_head_notin y a).
    + destruct (proj2 (H z) (or_intror Hz)) as [E|Hz']; [|assumption].
      subst z. exfalso. now apply (sorted_head_notin y b).
Qed.

Lemma set_add_in x s y : In y (set_add x s) <-> y = x \/ In y s.
Proof.
  induction s as [|z s IH]; simpl.
  - intuition.
  - destruct (str_cmp x z) eqn:E; simpl.
    + apply str_cmp_eq in E. subst z. intuition.
    + intuition.
    + rewrite IH. intuition.
Qed.

Lemma set_add_sorted x s : sorted s -> sorted (set_add x s).
Proof.
  induction s as [|z s IH]; simpl; intros H.
  - split; [intros y []|exact I].
  - destruct (str_cmp x z) eqn:E.
    + exact H.
    + split; [|exact H]. intros y [<-|Hy]; [exact E|].
      eapply str_cmp_lt_trans; [exact E|apply (proj1 H y Hy)].
    + split; [|apply IH, H]. intros y Hy. apply set_add_in in Hy. destruct Hy as [->|Hy].
      * now apply str_cmp_gt_lt.
      * apply (proj1 H y Hy).
Qed.

Lemma set_of_list_in l y : In y (set_of_list l) <-> In y l.
Proof.
  induction l as [|x l IH]; simpl; [tauto|]. rewrite set_add_in, IH. intuition.
Qed.

Lemma set_of_list_sorted l : sorted (set_of_list l).
Proof. induction l as [|x l IH]; simpl; [exact I|now apply set_add_sorted]. Qed.

Lemma set_union_in a b y : In y (set_union a b) <-> In y a \/ In y b.
Proof.
  induction a as [|x a IH]; simpl; [tauto|]. rewrite set_add_in, IH. intuition.
Qed.

Lemma set_union_sorted a b : sorted b -> sorted (set_union a b).
Proof. intros H. induction a as [|x a IH]; simpl; [exact H|now apply set_add_sorted]. Qed.

Lemma set_mem_in x s : set_mem x s = true <-> In x s.
Proof.
  unfold set_mem. rewrite existsb_exists. split.
  - intros [y [Hy E]]. apply str_eqb_eq in E. now subst.
  - intros H. exists x. split; [assumption|apply str_eqb_refl].
Qed.

Lemma set_mem_false x s : set_mem x s = false <-> ~ In x s.
Proof.
  rewrite <- set_mem_in. destruct (set_mem x s); split; congruence.
Qed.

Lemma filter_sorted (f : str -> bool) s : sorted s -> sorted (filter f s).
Proof.
  induction s as [|x s IH]; simpl; intros H; [exact I|].
  destruct (f x); simpl.
  - split; [|apply IH, H]. intros y Hy. apply filter_In in Hy. apply (proj1 H y), Hy.
  - apply IH, H.
Qed.

Lemma set_add_absorb x s : sorted s -> In x s -> set_add x s = s.
Proof.
  intros Hs Hx. apply sorted_ext; [now apply set_add_sorted|assumption|].
  intros y. rewrite set_add_in. intuition. now subst.
Qed.

Lemma set_of_list_sorted_id s : sorted s -> set_of_list s = s.
Proof.
  intros H. apply sorted_ext; [apply set_of_list_sorted|assumption|apply set_of_list_in].
Qed.

Lemma sorted_singleton x : sorted [x].
Proof. split; [intros y []|exact I]. Qed.

(** Two duplicate-free lists with the same elements have the same length. *)
Lemma NoDup_same_length (a b : list str) :
  NoDup a -> NoDup b -> (forall x, In x a <-> In x b) -> length a = length b.
Proof.
  intros Ha Hb H. apply Nat.le_antisymm; apply NoDup_incl_length; try assumption;
    intros x Hx; now apply H.
Qed.

(** A boolean version of [sorted], for hypotheses. *)
Fixpoint sortedb (s : sset) : bool :=
  match s with
  | [] => true
  | x :: s' =>
      match s' with
      | [] => true
      | y :: _ => match str_cmp x y with Lt => sortedb s' | _ => false end
      end
  end.

Lemma sortedb_sorted s : sortedb s = true -> sorted s.
Proof.
  induction s as [|x s IH]; [intros; exact I|].
  destruct s as [|y s]; [intros; apply sorted_singleton|].
  cbn [sortedb]. destruct (str_cmp x y) eqn:E; try discriminate. intros H.
  specialize (IH H). split; [|exact IH].
  intros z [<-|Hz]; [exact E|].
  eapply str_cmp_lt_trans; [exact E|apply (proj1 IH z Hz)].
Qed.
