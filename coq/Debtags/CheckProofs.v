(** The link to Debtags/Check.v: the heap model with the one-token repair satisfies,
    on EVERY history, exactly the predicate [holds_run] by which the
    correspondence check judges the implementation's answers (mutual inverse of
    the two observed indexes + agreement of every query with the Spec, for every
    object the Spec still specifies). *)
From Coq Require Import String.
From Verif Require Import Lib.Base Lib.Dec Lib.PyStr Debtags.StrSet Debtags.Model Debtags.Spec
  Debtags.Check Debtags.SetProofs Debtags.DictProofs Debtags.Proofs
  Debtags.HeapBase Debtags.HeapInsert Debtags.HeapDerive Debtags.HeapWf Debtags.HeapSim
  Debtags.HeapTheorems.

(** * sort_dict *)

Lemma dict_ins_in kv (d : dict) x : In x (dict_ins kv d) <-> x = kv \/ In x d.
Proof.
  induction d as [|kv' d IH]; simpl; [intuition|].
  destruct (str_cmp (fst kv) (fst kv')); simpl; try rewrite IH; intuition.
Qed.

Lemma sort_dict_in (d : dict) x : In x (sort_dict d) <-> In x d.
Proof.
  induction d as [|kv d IH]; simpl; [tauto|].
  change (fold_right dict_ins [] d) with (sort_dict d). rewrite dict_ins_in, IH. intuition.
Qed.

Lemma sort_dict_keys_in (d : dict) k : In k (keys (sort_dict d)) <-> In k (keys d).
Proof.
  unfold keys. rewrite !in_map_iff. split; intros [x [E H]]; exists x; (split; [assumption|]);
    now apply sort_dict_in.
Qed.

Lemma dict_ins_sorted kv (d : dict) :
  sorted (keys d) -> ~ In (fst kv) (keys d) -> sorted (keys (dict_ins kv d)).
Proof.
  unfold keys. induction d as [|kv' d IH]; simpl; intros H Hn.
  - split; [intros y []|exact I].
  - destruct (str_cmp (fst kv) (fst kv')) eqn:E; simpl.
    + apply str_cmp_eq in E. exfalso. apply Hn. now left.
    + split; [|exact H]. intros y [<-|Hy]; [exact E|].
      eapply str_cmp_lt_trans; [exact E|apply (proj1 H y Hy)].
    + split.
      * intros y Hy. apply in_map_iff in Hy. destruct Hy as [x [<- Hx]].
        apply dict_ins_in in Hx. destruct Hx as [->|Hx].
        -- now apply str_cmp_gt_lt.
        -- apply (proj1 H). apply in_map_iff. now exists x.
      * apply IH; [apply H|]. intros Hin. apply Hn. now right.
Qed.

Lemma sort_dict_sorted (d : dict) : NoDup (keys d) -> sorted (keys (sort_dict d)).
Proof.
  unfold keys. induction d as [|kv d IH]; simpl; intros H; [exact I|].
  inversion H as [|? ? H1 H2]; subst.
  change (fold_right dict_ins [] d) with (sort_dict d).
  apply dict_ins_sorted; [now apply IH|]. intros Hin. apply H1.
  exact (proj1 (sort_dict_keys_in d (fst kv)) Hin).
Qed.

Lemma sort_dict_lookup (d : dict) k : NoDup (keys d) -> lookup k (sort_dict d) = lookup k d.
Proof.
  intros Hn. pose proof (sorted_NoDup _ (sort_dict_sorted d Hn)) as Hn'.
  destruct (lookup k d) as [v|] eqn:E.
  - apply in_lookup; [assumption|]. apply sort_dict_in. now apply lookup_some_in.
  - apply lookup_none_iff. rewrite sort_dict_keys_in. now apply lookup_none_iff.
Qed.

Lemma sort_dict_get (d : dict) k : NoDup (keys d) -> get (sort_dict d) k = get d k.
Proof. intros Hn. unfold get. now rewrite sort_dict_lookup. Qed.

(** * What [holds] checks of one object follows from [repr] *)

Lemma list_eqb_refl {A} (eqb : A -> A -> bool) (H : forall a b, eqb a b = true <-> a = b) l :
  list_eqb eqb l l = true.
Proof. now apply (list_eqb_eq eqb H). Qed.

Lemma strs_eqb_refl l : strs_eqb l l = true.
Proof. now apply strs_eqb_eq. Qed.

Lemma repr_inv_obs c S :
  repr c S -> inv_obs (sort_dict (c_db c)) (sort_dict (c_rdb c)) = true.
Proof.
  intros H. pose proof (repr_Inv _ _ H) as HI.
  pose proof (proj1 (rp_db_ok _ _ H)) as N1. pose proof (proj1 (rp_rdb_ok _ _ H)) as N2.
  unfold inv_obs. apply andb_true_iff. split; apply forallb_forall; intros [k v] Hkv;
    apply forallb_forall; intros x Hx; simpl; apply set_mem_in; apply (proj1 (sort_dict_in _ _)) in Hkv.
  - rewrite sort_dict_get by assumption. apply (HI k x).
    unfold tags_of_package, get. now rewrite (in_lookup _ _ _ N1 Hkv).
  - rewrite sort_dict_get by assumption. apply (HI x k).
    unfold packages_of_tag, get. now rewrite (in_lookup _ _ _ N2 Hkv).
Qed.

Lemma repr_agrees_rel probes c S :
  repr c S -> agrees_rel probes S (snap_of probes c) = true.
Proof.
  intros H. pose proof (repr_queries _ _ H) as [Q1 Q2 Q3 Q4 Q5 Q6 Q7].
  pose proof (proj1 (rp_db_ok _ _ H)) as N1. pose proof (proj1 (rp_rdb_ok _ _ H)) as N2.
  unfold agrees_rel, snap_of. simpl.
  repeat (apply andb_true_iff; split).
  - apply strs_eqb_eq. apply sorted_ext.
    + now apply sort_dict_sorted.
    + apply set_of_list_sorted.
    + intros k. unfold q_packages. now rewrite sort_dict_keys_in, set_of_list_in, (rp_P _ _ H).
  - apply forallb_forall. intros [k v] Hkv. simpl. apply (proj1 (sort_dict_in _ _)) in Hkv.
    apply strs_eqb_eq. rewrite <- Q1. unfold tags_of_package, get. now rewrite (in_lookup _ _ _ N1 Hkv).
  - apply strs_eqb_eq. apply sorted_ext.
    + now apply sort_dict_sorted.
    + apply set_of_list_sorted.
    + intros k. unfold q_tags. now rewrite sort_dict_keys_in, set_of_list_in, (rp_T _ _ H).
  - apply forallb_forall. intros [k v] Hkv. simpl. apply (proj1 (sort_dict_in _ _)) in Hkv.
    apply strs_eqb_eq. rewrite <- Q2. unfold packages_of_tag, get. now rewrite (in_lookup _ _ _ N2 Hkv).
  - apply Nat.eqb_eq. exact Q6.
  - apply Nat.eqb_eq. exact Q7.
  - rewrite (map_ext _ _ Q4). apply list_eqb_refl. intros a b. apply Bool.eqb_true_iff.
  - rewrite (map_ext _ _ Q5). apply list_eqb_refl. intros a b. apply Bool.eqb_true_iff.
  - rewrite (map_ext _ _ Q1). apply list_eqb_refl. apply strs_eqb_eq.
  - rewrite (map_ext _ _ Q2). apply list_eqb_refl. apply strs_eqb_eq.
  - rewrite (map_ext _ _ Q3). apply list_eqb_refl. intros a b. apply Nat.eqb_eq.
Qed.

Lemma forallb2_map_nth {A B C} (f : A -> C -> bool) (g : B -> C) : forall (l1 : list A) (l2 : list B),
  length l1 = length l2 ->
  (forall i a b, nth_error l1 i = Some a -> nth_error l2 i = Some b -> f a (g b) = true) ->
  forallb2 f l1 (map g l2) = true.
Proof.
  induction l1 as [|a l1 IH]; intros [|b l2] L H; simpl in *; try discriminate; [reflexivity|].
  apply andb_true_iff. split.
  - apply (H 0 a b); reflexivity.
  - apply IH; [lia|]. intros i a' b' Ha Hb. apply (H (S i) a' b'); assumption.
Qed.

Lemma check_obj_ok probes so c :
  (so_valid so = true -> repr c (so_rel so)) -> check_obj probes so (snap_of probes c) = true.
Proof.
  intros H. unfold check_obj.
  change (d_ok (snap_of probes c)) with true.
  change (d_db (snap_of probes c)) with (sort_dict (c_db c)).
  change (d_rdb (snap_of probes c)) with (sort_dict (c_rdb c)).
  destruct (so_valid so); [|reflexivity]. specialize (H eq_refl).
  now rewrite (repr_inv_obs _ _ H), (repr_agrees_rel probes _ _ H).
Qed.

Lemma sim_check_objs probes st ss :
  sim st ss ->
  forallb2 (check_obj probes) (ss_objs ss)
    (map (fun ob => snap_of probes (view (st_heap st) ob)) (st_objs st)) = true.
Proof.
  intros S. apply forallb2_map_nth; [symmetry; apply (sm_len _ _ S)|].
  intros i so ob Hso Hob. apply check_obj_ok. intros V.
  now apply (sm_repr _ _ S i ob so Hob Hso V).
Qed.

(** * read with the records the harness rendered the file from *)

Definition canon_recs (rs : recs) : list (sset * sset) :=
  map (fun r => (set_of_list (fst r), set_of_list (snd r))) rs.

Definition recs_eqb : list (sset * sset) -> list (sset * sset) -> bool :=
  list_eqb (pair_eqb strs_eqb strs_eqb).

Lemma recs_eqb_eq a b : recs_eqb a b = true -> a = b.
Proof.
  apply list_eqb_eq. intros [x1 x2] [y1 y2]. unfold pair_eqb. simpl. rewrite andb_true_iff.
  rewrite !strs_eqb_eq. split; [intros [-> ->]; reflexivity|intros [= -> ->]; now split].
Qed.

Lemma mem_set_of_list x l : mem x (set_of_list l) = mem x l.
Proof. apply bool_eq_iff. now rewrite !mem_in, set_of_list_in. Qed.

Lemma forallb_map' {A B} (f : B -> bool) (g : A -> B) l :
  forallb f (map g l) = forallb (fun x => f (g x)) l.
Proof. induction l as [|a l IH]; simpl; [reflexivity|]. now rewrite IH. Qed.

Lemma distinct_recs_canon rs : distinct_recs (canon_recs rs) = distinct_recs rs.
Proof.
  induction rs as [|r rs IH]; simpl; [reflexivity|]. rewrite IH. f_equal.
  unfold canon_recs. rewrite forallb_map'. apply forallb_ext'. intros r'. simpl.
  apply bool_eq_iff. rewrite !forallb_forall. split; intros H p Hp.
  - specialize (H p (proj2 (set_of_list_in _ _) Hp)). now rewrite mem_set_of_list in H.
  - rewrite mem_set_of_list. apply H. now apply set_of_list_in.
Qed.

Lemma ftags_in tf ts t : In t (ftags tf ts) <-> In t ts /\ match tf with Some f => f t = true | None => True end.
Proof. destruct tf; simpl; [apply filter_In|tauto]. Qed.

Lemma s_read_canon tf rs : rel_equiv (s_read tf (canon_recs rs)) (s_read tf rs).
Proof.
  assert (HR : forall pt, In pt (pairs_of (filter_recs tf (canon_recs rs))) <->
                          In pt (pairs_of (filter_recs tf rs))).
  { intros [p t]. rewrite !pairs_of_in. unfold canon_recs. split.
    - intros [r [Hr Hin]]. apply in_map_iff in Hr. destruct Hr as [r0 [<- Hr0]]. simpl in Hin.
      exists r0. split; [assumption|]. apply in_prod_iff in Hin. apply in_prod_iff.
      rewrite ftags_in in *. now rewrite !set_of_list_in in Hin.
    - intros [r [Hr Hin]]. exists (set_of_list (fst r), set_of_list (snd r)).
      split; [apply in_map_iff; now exists r|]. simpl. apply in_prod_iff in Hin. apply in_prod_iff.
      rewrite ftags_in in *. now rewrite !set_of_list_in. }
  split; [intros p|split; [intros t|exact HR]]; simpl.
  - rewrite !in_flat_map. unfold canon_recs. split.
    + intros [r [Hr Hin]]. apply in_map_iff in Hr. destruct Hr as [r0 [<- Hr0]]. simpl in Hin.
      exists r0. split; [assumption|]. now apply set_of_list_in.
    + intros [r [Hr Hin]]. exists (set_of_list (fst r), set_of_list (snd r)).
      split; [apply in_map_iff; now exists r|]. simpl. now apply set_of_list_in.
  - rewrite !in_map_iff. split; intros [pt [E Hin]]; exists pt; (split; [assumption|]); now apply HR.
Qed.

Lemma hstep_read fx st o lines tf ob :
  nth_error (st_objs st) o = Some ob ->
  hstep fx st (HRead o lines tf) =
  (let r := read_both tf lines in
   let (h1, d1) := alloc_vdict (st_heap st) (fst r) in
   let (h2, d2) := alloc_vdict h1 (snd r) in
   (mkS h2 (upd o (d1, d2) (st_objs st)), None, false)).
Proof. intros Ho. unfold hstep. cbn [hop_obj]. rewrite Ho. reflexivity. Qed.

Lemma hstep_sim_read st ss o lines tf rs ob :
  sim st ss -> nth_error (st_objs st) o = Some ob -> canon_recs rs = parse_tags lines ->
  sim (hstate_of (hstep true st (HRead o lines tf))) (spec_step ss (SRead o tf rs))
  /\ herr_of (hstep true st (HRead o lines tf)) = None.
Proof.
  intros S Ho Hc. unfold hstate_of, herr_of. rewrite (hstep_read true st o lines tf ob Ho). cbv zeta.
  destruct (alloc_vdict _ _) as [h1 d1] eqn:A1. destruct (alloc_vdict h1 _) as [h2 d2] eqn:A2.
  destruct (two_vdicts' _ _ _ _ _ _ _ A1 A2) as [D V]. cbn [fst snd]. split; [|reflexivity].
  assert (Hso : exists so, nth_error (ss_objs ss) o = Some so).
  { destruct (nth_error (ss_objs ss) o) eqn:E; [now eexists|].
    apply nth_error_None in E. rewrite <- (sm_len _ _ S) in E.
    assert (X : nth_error (st_objs st) o <> None) by congruence. apply nth_error_Some in X. lia. }
  destruct Hso as [so Hso]. simpl. rewrite Hso.
  apply sim_replace; try assumption.
  - simpl. lia.
  - simpl. intros Hv. rewrite V. eapply repr_equiv; [apply s_read_canon|]. rewrite Hc.
    apply (repr_read tf lines). now rewrite <- Hc, distinct_recs_canon.
Qed.

(** * Histories *)

Definition receiver_ok (st : hstate) (op : hop) : bool :=
  match hop_obj op with
  | Some o => (o <? length (st_objs st))%nat
  | None => true
  end.

Definition read_ok (c : cop) : bool :=
  match c with
  | CRead _ lines _ rs => recs_eqb (canon_recs (dec_recs rs)) (parse_tags (map dec lines))
  | _ => true
  end.

(** A history the harness may produce: every operation names a live object, the
    records given with a [read] are those of its lines, and the package order
    given with a [facet_collection] is that of the receiver. *)
Fixpoint hist_wf (st : hstate) (ops : list cop) : bool :=
  match ops with
  | [] => true
  | c :: rest =>
      receiver_ok st (to_hop c) && read_ok c && hop_dom st (to_hop c)
      && hist_wf (hstate_of (hstep true st (to_hop c))) rest
  end.

Lemma hstep_facet_ok fx st o order ob :
  nth_error (st_objs st) o = Some ob -> hop_dom st (HFacet o order) = true ->
  herr_of (hstep fx st (HFacet o order)) = None.
Proof.
  intros Ho Hd. destruct (hop_dom_facet st o order ob Hd Ho) as [_ Hp]. cbv zeta in Hp.
  unfold herr_of. rewrite (hstep_facet fx st o order ob Ho).
  destruct (h_new (st_heap st)) as [h1 fc].
  destruct (h_facet_ok fx order h1 (get_dict (st_heap st) (fst ob)) fc) as [h' [tr E]].
  - intros p Hin. apply dict_mem_iff. now apply Hp.
  - now rewrite E.
Qed.

Lemma hstep_choose_copy fx st o l ob :
  nth_error (st_objs st) o = Some ob ->
  herr_of (hstep fx st (HChooseCopy o l)) =
  if forallb (fun p => dict_mem p (get_dict (st_heap st) (fst ob))) l then None else Some KeyError.
Proof.
  intros Ho. unfold herr_of. simpl. rewrite Ho.
  now destruct (forallb (fun p => dict_mem p (get_dict (st_heap st) (fst ob))) l).
Qed.

Definition is_some {A} (x : option A) : bool := match x with Some _ => true | None => false end.

(** the Spec operation the checker derives from a call is the one of [hstep_sim] *)
Lemma to_sop_ok st ss c :
  sim st ss -> receiver_ok st (to_hop c) = true -> hop_dom st (to_hop c) = true ->
  (forall o lines tf rs, c <> CRead o lines tf rs) ->
  to_sop ss c (is_some (herr_of (hstep true st (to_hop c))))
  = Some (sop_of_hop (to_hop c) (herr_of (hstep true st (to_hop c)))).
Proof.
  intros S Hr Hd Hnr.
  destruct c as [|o lines tf rs|o pkg tags|o|o|o|o l|o l|o p|o p|o g|o g|o p|o p|o order];
    try reflexivity; try (exfalso; now apply (Hnr o lines tf rs)).
  all: unfold receiver_ok in Hr; simpl in Hr; apply Nat.ltb_lt in Hr;
    destruct (nth_error (st_objs st) o) as [ob|] eqn:Ho; [|apply nth_error_None in Ho; lia].
  all: cbn [to_hop] in *.
  all: try (unfold herr_of; simpl; rewrite Ho; reflexivity).
  - (* copy *) unfold herr_of. rewrite (hstep_copy true st o ob Ho).
    destruct (alloc_vdict _ _) as [h1 d1]. now destruct (alloc_vdict h1 _) as [h2 d2].
  - (* reverse_copy *) unfold herr_of. simpl. rewrite Ho.
    destruct (alloc_vdict _ _) as [h1 d1]. now destruct (alloc_vdict h1 _) as [h2 d2].
  - (* choose_copy *)
    cbn [to_hop]. rewrite (hstep_choose_copy true st o (map dec l) ob Ho). cbn [to_sop].
    assert (Hso : exists so, nth_error (ss_objs ss) o = Some so).
    { destruct (nth_error (ss_objs ss) o) eqn:E; [now eexists|].
      apply nth_error_None in E. rewrite <- (sm_len _ _ S) in E. lia. }
    destruct Hso as [so Hso]. rewrite Hso.
    destruct (so_valid so) eqn:V.
    + pose proof (sm_repr _ _ S o ob so Ho Hso V) as R.
      rewrite <- (forallb_ext' (fun p => dict_mem p (get_dict (st_heap st) (fst ob))) (q_has_package (so_rel so))).
      * now destruct (forallb _ (map dec l)).
      * intros p. rewrite <- (repr_has_package _ _ p R). unfold has_package. simpl.
        symmetry. apply dict_mem_deref.
    + now destruct (forallb _ (map dec l)).
  - (* facet *) cbn [to_hop] in *. now rewrite (hstep_facet_ok true st o (map dec order) ob Ho Hd).
Qed.

Lemma model_obs_cons fx probes st op rest :
  model_obs fx probes st (op :: rest) =
  mkF (herr_of (hstep fx st op)) (snd (hstep fx st op))
      (map (fun ob => snap_of probes (view (st_heap (hstate_of (hstep fx st op))) ob))
           (st_objs (hstate_of (hstep fx st op))))
  :: model_obs fx probes (hstate_of (hstep fx st op)) rest.
Proof.
  unfold hstate_of, herr_of. simpl. now destruct (hstep fx st op) as [[st' e] tr].
Qed.

Theorem repaired_model_holds_gen probes : forall cops st ss,
  sim st ss -> hist_wf st cops = true ->
  holds_run probes ss cops (model_obs true probes st (map to_hop cops)) = true.
Proof.
  induction cops as [|c cops IH]; intros st ss S Hw; [reflexivity|].
  simpl in Hw. apply andb_true_iff in Hw. destruct Hw as [Hw Hw4].
  apply andb_true_iff in Hw. destruct Hw as [Hw Hw3].
  apply andb_true_iff in Hw. destruct Hw as [Hw1 Hw2].
  cbn [map]. rewrite model_obs_cons. cbn [holds_run raised_of f_err f_snaps].
  set (r := hstep true st (to_hop c)) in *.
  change (match herr_of r with Some _ => true | None => false end) with (is_some (herr_of r)).
  assert (Hstep : exists s, to_sop ss c (is_some (herr_of r)) = Some s
                            /\ sim (hstate_of r) (spec_step ss s)).
  { destruct c as [|o lines tf rs|o pkg tags|o|o|o|o l|o l|o p|o p|o g|o g|o p|o p|o order].
    2: { unfold receiver_ok in Hw1. simpl in Hw1. apply Nat.ltb_lt in Hw1.
         destruct (nth_error (st_objs st) o) as [ob|] eqn:Ho; [|apply nth_error_None in Ho; lia].
         simpl in Hw2. apply recs_eqb_eq in Hw2.
         destruct (hstep_sim_read st ss o (map dec lines) (option_map interp_pred tf) (dec_recs rs) ob S Ho Hw2)
           as [S' E].
         unfold r. cbn [to_hop]. rewrite E. simpl. eexists. split; [reflexivity|exact S']. }
    all: eexists; split;
      [apply (to_sop_ok st ss _ S Hw1 Hw3); intros; discriminate
      |unfold r; now apply hstep_sim]. }
  destruct Hstep as [s [Es S']]. unfold raised_of. cbn [f_err].
  change (match herr_of r with Some _ => true | None => false end) with (is_some (herr_of r)).
  rewrite Es.
  apply andb_true_iff. split.
  - now apply sim_check_objs.
  - now apply IH.
Qed.

(** For every history the harness can produce, the observations predicted by the
    repaired model pass [holds]. *)
Theorem repaired_model_holds probes cops :
  hist_wf empty_state cops = true ->
  holds_run probes s_init cops (model_obs true probes empty_state (map to_hop cops)) = true.
Proof. intros H. apply repaired_model_holds_gen; [apply sim_empty|assumption]. Qed.

(** * The code as written, off the trigger *)

Lemma model_obs_faithful_eq_repaired probes ops : forall st,
  hwf st -> hk1_free st ops = true -> model_obs false probes st ops = model_obs true probes st ops.
Proof.
  induction ops as [|op ops IH]; intros st W H; [reflexivity|].
  simpl in H. apply andb_true_iff in H. destruct H as [H1 H2]. apply negb_true_iff in H1.
  rewrite !model_obs_cons. rewrite (IH _ (hstep_hwf false st op W) H2).
  now rewrite (hstep_faithful_eq_repaired st op W H1).
Qed.

Theorem faithful_model_holds probes cops :
  hist_wf empty_state cops = true -> hk1_free empty_state (map to_hop cops) = true ->
  holds_run probes s_init cops (model_obs false probes empty_state (map to_hop cops)) = true.
Proof.
  intros Hw Hk. rewrite (model_obs_faithful_eq_repaired probes _ _ hwf_empty Hk).
  now apply repaired_model_holds.
Qed.

(** * Correspondence implies the property, case by case *)

Lemma pair_eqb_eq {A B} (ea : A -> A -> bool) (eb : B -> B -> bool)
  (Ha : forall x y, ea x y = true <-> x = y) (Hb : forall x y, eb x y = true <-> x = y) :
  forall x y, pair_eqb ea eb x y = true <-> x = y.
Proof.
  intros [x1 x2] [y1 y2]. unfold pair_eqb. simpl. rewrite andb_true_iff, Ha, Hb.
  split; [intros [-> ->]; reflexivity|intros [= -> ->]; now split].
Qed.

Lemma dict_eqb_eq a b : dict_eqb a b = true <-> a = b.
Proof. apply list_eqb_eq. apply pair_eqb_eq; [apply str_eqb_eq|apply strs_eqb_eq]. Qed.
Lemma bools_eqb_eq a b : bools_eqb a b = true <-> a = b.
Proof. apply list_eqb_eq. intros x y. apply Bool.eqb_true_iff. Qed.
Lemma nats_eqb_eq a b : nats_eqb a b = true <-> a = b.
Proof. apply list_eqb_eq. intros x y. apply Nat.eqb_eq. Qed.
Lemma ssets_eqb_eq a b : ssets_eqb a b = true <-> a = b.
Proof. apply list_eqb_eq. apply strs_eqb_eq. Qed.

Lemma dsnap_eqb_eq a b : dsnap_eqb a b = true -> a = b.
Proof.
  unfold dsnap_eqb. intros H.
  repeat (apply andb_true_iff in H; let H' := fresh "E" in destruct H as [H H']).
  destruct a, b; simpl in *.
  apply dict_eqb_eq in E7. apply dict_eqb_eq in E6. apply Nat.eqb_eq in E5. apply Nat.eqb_eq in E4.
  apply bools_eqb_eq in E3. apply bools_eqb_eq in E2. apply ssets_eqb_eq in E1.
  apply ssets_eqb_eq in E0. apply nats_eqb_eq in E. now subst.
Qed.

Lemma opt_err_eqb_eq a b : opt_err_eqb a b = true -> a = b.
Proof.
  destruct a, b; simpl; try discriminate; try reflexivity. intros H. apply err_eqb_eq in H. now subst.
Qed.

Lemma fstep_eqb_eq a b : fstep_eqb a b = true -> a = b.
Proof.
  unfold fstep_eqb. intros H. apply andb_true_iff in H. destruct H as [H H3].
  apply andb_true_iff in H. destruct H as [H1 H2].
  destruct a as [e1 t1 s1], b as [e2 t2 s2]; simpl in *.
  apply opt_err_eqb_eq in H1. apply (proj1 (Bool.eqb_true_iff t1 t2)) in H2.
  assert (s1 = s2).
  { clear -H3. revert s2 H3. induction s1 as [|x l IH]; intros [|y l'] H; simpl in H;
      try discriminate; [reflexivity|].
    apply andb_true_iff in H. destruct H as [Hx Hl]. apply dsnap_eqb_eq in Hx. subst.
    f_equal. now apply IH. }
  now subst.
Qed.

Lemma fsteps_eqb_eq a : forall b, list_eqb fstep_eqb a b = true -> a = b.
Proof.
  induction a as [|x a IH]; intros [|y b] H; simpl in H; try discriminate; [reflexivity|].
  apply andb_true_iff in H. destruct H as [Hx Hl]. apply fstep_eqb_eq in Hx. subst.
  f_equal. now apply IH.
Qed.

(** On a well-formed history that never executes K1's trigger, a case on which the
    implementation AGREES with the model necessarily satisfies HOLDS: there the
    property of the implementation's answers is a theorem, not an observation. *)
Theorem agree_implies_holds probes ops (obs : list fstep) :
  hist_wf empty_state ops = true -> hk1_free empty_state (map to_hop ops) = true ->
  list_eqb fstep_eqb (model_obs false probes empty_state (map to_hop ops)) obs = true ->
  holds_run probes s_init ops obs = true.
Proof.
  intros Hw Hk Ha. apply fsteps_eqb_eq in Ha. rewrite <- Ha.
  now apply faithful_model_holds.
Qed.
