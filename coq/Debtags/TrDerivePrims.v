(** C20 — primitives of the regenerated derivations of class DB (Gen/TrDebtagsDerive.v: choose_packages[_copy],
    filter_packages[_copy], filter_packages_tags[_copy], filter_tags[_copy], facet_collection, tags_of_packages,
    packages_of_tags).

    A derivation builds a dict in a local variable, then stores it into the new object.  While it is being built
    the dict is a VALUE: an [rdict] (keys -> references to set objects SHARED with the source: the derivations
    "sharing tagsets") or a [vdict] (keys -> copies of the sets: the [_copy] derivations); storing it into the new
    object publishes it into the heap — the model's [alloc_dict] / [alloc_vdict] — exactly as [h_of_db] and its
    relatives do.  (The translator refuses a function that changes the local dict after it was stored.)

    The methods of OTHER DB objects that a derivation calls ([fcoll.insert(..)] in facet_collection) and the
    module-level [reverse] are the REGENERATED functions of Gen/TrDebtagsDB.v / Gen/TrDebtags.v, run on the
    object's own dicts.  Definitions only. *)
From Verif Require Import Lib.Base Lib.PyStr Lib.Tr Debtags.StrSet Debtags.Model Debtags.TrPrims Gen.TrDebtags
  Debtags.TrHeapPrims Gen.TrDebtagsDB.

(** * a dict being built, of references to shared set objects *)
Definition trp_rd_empty : rdict := [].
Definition trp_rd_setitem (d : rdict) (k : str) (r : sref) : unit * rdict := (tt, dict_set k r d).
(** [res.db = db] / [res.rdb = rdb]: the dict becomes an object of the heap *)
Definition trp_ob_set_db_rd (h : heap) (o : objb) (rd : rdict) : mres objb heap :=
  let (h', d) := alloc_dict h rd in MOk (Some d, snd o) h'.
Definition trp_ob_set_rdb_rd (h : heap) (o : objb) (rd : rdict) : mres objb heap :=
  let (h', d) := alloc_dict h rd in MOk (fst o, Some d) h'.
(** [reverse(db)] for such a dict: the regenerated [reverse] reads the sets it refers to *)
Definition trp_h_reverse_rd (h : heap) (rd : rdict) : result vdict := tr_reverse (deref h rd).

(** * [filter(f, <keys>)], [filter(g, <items>)]: the callback of filter_packages_tags gets the pair (package, set) *)
Definition ptpred := str -> sset -> bool.
Definition trp_filter_l (f : strpred) (l : list str) : list str := filter f l.
Definition trp_filter_items (h : heap) (g : ptpred) (l : list (str * sref)) : list (str * sref) :=
  filter (fun kr => g (fst kr) (get_set h (snd kr))) l.

(** * facet_collection *)
(** the pattern [tofacet] (its text is asserted by the spec) with the replacement template of group 1: the model's
    leaf [facet], which the FacetLeaf cases of the correspondence compare with the live pattern *)
Definition fre := unit.
Definition trp_fre_compile (_ : unit) : fre := tt.
Definition trp_fre_sub (_ : fre) (_ : unit) (t : str) : str := facet t.
(** [DB()] where the new object's own dicts are used: the regenerated [DB.__init__] on a new object *)
Definition trp_db_new (h : heap) : mres obj heap :=
  match tr_db_init h 0%nat 0%nat with
  | MOk _ (h', d, r) => MOk (d, r) h'
  | MErr e (h', _, _) => MErr e h'
  end.
(** [fcoll.insert(pkg, tags)]: the regenerated [DB.insert] on the attributes of [fcoll] (which it does not reassign) *)
Definition trp_obj_insert (h : heap) (o : obj) (pkg : str) (tags : sset) : mres unit heap :=
  match tr_db_insert h (fst o) (snd o) pkg tags with
  | MOk _ (h', _, _) => MOk tt h'
  | MErr e (h', _, _) => MErr e h'
  end.

(** * set.union called with star-arguments: the union of one or more sets, a new set; without an argument the
    unbound method raises TypeError *)
Definition trp_set_union_star (l : list sset) : result fset :=
  match l with
  | [] => Err TypeError
  | s :: rest => Ok (fold_left (fun acc x => set_union x acc) rest s)
  end.
